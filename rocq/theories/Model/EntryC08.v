(** Entry points of the delivery-channel model (C08): glue between the
    harness tables and [Model.Channels]. *)
From Coq Require Import List Ascii String ZArith NArith Bool.
From Shexer Require Import Lib.PyStr Lib.Dict Gen.Consts Spec.Rdf Model.Table Model.Tracker Model.Profiler
     Model.Tokens Model.Freq Model.FreqInst Model.Shexing Model.SerialShexc Model.Run Model.EntryPipe
     Model.Channels.
Import ListNotations.

Definition cerr_str (e : cerr) : str :=
  match e with
  | CEValue => Str "ValueError" | CEType => Str "TypeError" | CEAttr => Str "AttributeError"
  | CERuntime => Str "RuntimeError" | CEUnicode => Str "UnicodeDecodeError"
  | CECodec => Str "codec" | CESource => Str "source"
  end.

Definition cerr_of_str (s : str) : cerr :=
  if str_eqb s (Str "ValueError") then CEValue
  else if str_eqb s (Str "TypeError") then CEType
  else if str_eqb s (Str "AttributeError") then CEAttr
  else if str_eqb s (Str "RuntimeError") then CERuntime
  else if str_eqb s (Str "UnicodeDecodeError") then CEUnicode
  else if str_eqb s (Str "codec") then CECodec
  else CESource.

Definition nat_str (n : nat) : str := dec_of_N (N.of_nat n).
Definition fnat (r : list str) (i : nat) : nat := Z.to_nat (fZ r i).

(** ** line readers: row = [reader; stored] -> ["ok"; line...] | ["err"; name] *)
Definition c08_lines_row (r : list str) : list str :=
  let rd := fld r 0 in
  let s := fld r 1 in
  if str_eqb rd (Str "raw") then Str "ok" :: lines_raw s
  else if str_eqb rd (Str "text") then Str "ok" :: lines_text s
  else match lines_bytes s with
       | inl l => Str "ok" :: l
       | inr e => [Str "err"; cerr_str e]
       end.

(** ** terms *)
Definition mterm_fields (t : mterm) : list str :=
  match t with
  | MIri s => [Str "I"; s; []]
  | MBn s => [Str "B"; s; []]
  | MLit c ty => [Str "L"; c; ty]
  end.

Definition mterm_of_fields (k a b : str) : mterm :=
  if str_eqb k (Str "I") then MIri a else if str_eqb k (Str "B") then MBn a else MLit a b.

Definition mtriple_row (t : mtriple) : list str :=
  Str "t" :: mterm_fields (m_s t) ++ [m_p t] ++ mterm_fields (m_o t).

Definition rd_rows (r : rd) : table :=
  match r with
  | inr e => [[Str "err"; cerr_str e]]
  | inl x => [Str "ok"; nat_str (r_yielded x); nat_str (r_errors x)] :: map mtriple_row (r_triples x)
  end.

(** a deliberately small stand-in for CPython's [float()] (the model keeps it a
    parameter): optional sign, digits, optional fraction; integer-valued when
    every fraction digit is 0.  The harness only sends such numerals. *)
Definition is_digit (c : ascii) : bool := let n := nat_of_ascii c in Nat.leb 48 n && Nat.leb n 57.

Definition pyfloat_simple (s : str) : option bool :=
  let t := strip s in
  let u := match t with
           | c :: r => if Ascii.eqb c "-"%char || Ascii.eqb c "+"%char then r else t
           | [] => []
           end in
  match split (Str ".") u with
  | [a] => if negb (str_eqb a []) && forallb is_digit a then Some true else None
  | [a; b] => if forallb is_digit a && forallb is_digit b && negb (str_eqb (a ++ b) [])
              then Some (forallb (fun c => Ascii.eqb c "0"%char) b) else None
  | _ => None
  end.

(** ** TSV reader: one document per row (fields = the lines) *)
Definition c08_tsv (t : table) : table :=
  flat_map (fun r => let out := rd_rows (read_tsv pyfloat_simple r) in
                     [Str "doc"; nat_str (List.length out)] :: out) t.

(** ** dispatch: row = [fmt; cm option; kind; n] *)
Definition skind_of (k : str) (n : nat) : skind :=
  if str_eqb k (Str "file") then KFile
  else if str_eqb k (Str "files") then KFiles n
  else if str_eqb k (Str "raw") then KRaw
  else if str_eqb k (Str "url") then KUrl
  else if str_eqb k (Str "urls") then KUrls n
  else KGraph.

Definition c08_dispatch_row (r : list str) : list str :=
  match dispatch (fld r 0) (fopt r 1) (skind_of (fld r 2) (fnat r 3)) with
  | inl d => [Str "ok"; class_name d]
  | inr e => [Str "err"; cerr_str e]
  end.

(** ** rdflib terms: row = [kind; a; dt option; lang option] *)
Definition rterm_of_row (r : list str) : rterm :=
  let k := fld r 0 in
  if str_eqb k (Str "U") then RUri (fld r 1)
  else if str_eqb k (Str "B") then RBn (fld r 1)
  else if str_eqb k (Str "L") then RLit (RL (fld r 1) (fopt r 2) (fopt r 3))
  else ROther.

Definition c08_rdftok_row (r : list str) : list str :=
  match turn_token (rterm_of_row r) with
  | inl m => Str "ok" :: mterm_fields m
  | inr e => [Str "err"; cerr_str e]
  end.

(** ** a whole line-based channel with the real document reader plugged in.
    rows: ["cfg"; fmt; cm option; kind]
          ["src"; stored ...]
          ["gz" | "xz"; stored; content]          (codec tables)
          ["zip"; stored; name; content; name; content ...]
          ["rd"; status; yielded; errors; nlines; line ...; (6 fields per triple) ...]
              = what the real single-document reader delivers for these lines *)
Fixpoint triples_of_fields (fuel : nat) (l : list str) : list mtriple :=
  match fuel with
  | O => []
  | S f =>
    match l with
    | sk :: sa :: p :: ok :: oa :: ob :: rest =>
      MT (mterm_of_fields sk sa []) p (mterm_of_fields ok oa ob) :: triples_of_fields f rest
    | _ => []
    end
  end.

Definition list_str_eqb (a b : list str) : bool :=
  Nat.eqb (List.length a) (List.length b) && forallb (fun xy => str_eqb (fst xy) (snd xy)) (combine a b).

Definition rd_entry (r : list str) : list str * rd :=
  let n := fnat r 4 in
  let lines := firstn n (skipn 5 r) in
  let rest := skipn (5 + n) r in
  (lines,
   if str_eqb (fld r 1) (Str "ok")
   then inl (Res (triples_of_fields (List.length rest) rest) (fnat r 2) (fnat r 3))
   else inr (cerr_of_str (fld r 1))).

Fixpoint lookup_rd (tab : list (list str * rd)) (k : list str) : rd :=
  match tab with
  | [] => inr CESource
  | (k', v) :: tab' => if list_str_eqb k k' then v else lookup_rd tab' k
  end.

Fixpoint pairs_of (fuel : nat) (l : list str) : list (str * str) :=
  match fuel with
  | O => []
  | S f => match l with a :: b :: rest => (a, b) :: pairs_of f rest | _ => [] end
  end.

Definition rows_tagged (t : table) (tag : string) : table := filter (fun r => tag_is r tag) t.

Definition id_orc : rorc := {| o_perm := fun g => g; o_sigma := fun s => s |}.

Definition c08_channel (t : table) : table :=
  let cfg := nth 0 (rows_tagged t "cfg") [] in
  let srcr := skipn 1 (nth 0 (rows_tagged t "src") []) in
  let kind := fld cfg 3 in
  let src := if str_eqb kind (Str "raw") then SRaw (nth 0 srcr [])
             else if str_eqb kind (Str "file") then SFile (nth 0 srcr [])
             else SFiles srcr in
  let gz := map (fun r => (fld r 1, fld r 2)) (rows_tagged t "gz") in
  let xz := map (fun r => (fld r 1, fld r 2)) (rows_tagged t "xz") in
  let zp := map (fun r => (fld r 1, pairs_of (List.length r) (skipn 2 r))) (rows_tagged t "zip") in
  let tab := map rd_entry (rows_tagged t "rd") in
  let rdr := lookup_rd tab in
  let fmt := fld cfg 1 in
  let cm := fopt cfg 2 in
  let d := dispatch fmt cm (kind_of src) in
  (match d with inl y => [Str "cls"; class_name y] | inr e => [Str "cls-err"; cerr_str e] end)
    :: rd_rows (channel pyfloat_simple rdr rdr (fun s => dget gz s) (fun s => dget xz s) (fun s => dget zp s)
                        (fun _ _ => None) (fun _ _ => id_orc) fmt cm src).

(** ** the pipeline over two separately delivered streams: rows as [pipe_shexc],
    the feature pass's triples tagged "U" *)
Definition graph2_of (t : table) : graph := map triple_of_row (rows_tagged t "U").

Definition c08_run2 (t : table) : table :=
  match run_shexc2 BAlg (rcfg_of t) (thr_of t) (graph_of t) (graph2_of t) with
  | inl text => [[Str "ok"; text]]
  | inr e => [[Str "err"; rerr_str e]]
  end.

Definition entry_c08 (name : str) (t : table) : option table :=
  if str_eqb name (Str "c08_lines") then Some (map c08_lines_row t)
  else if str_eqb name (Str "c08_tsv") then Some (c08_tsv t)
  else if str_eqb name (Str "c08_dispatch") then Some (map c08_dispatch_row t)
  else if str_eqb name (Str "c08_rdftok") then Some (map c08_rdftok_row t)
  else if str_eqb name (Str "c08_channel") then Some (c08_channel t)
  else if str_eqb name (Str "c08_run2") then Some (c08_run2 t)
  else None.
