(** Entry points of the C20 model. *)
From Coq Require Import List Ascii String ZArith Bool.
From Shexer Require Import Lib.PyStr Gen.Consts Model.Table Model.Config.
Import ListNotations.

Definition outcome_str (o : outcome) : str :=
  match o with
  | Accept => Str "accept"
  | RejectValueError => Str "ValueError"
  | ObscureFailure => Str "obscure"
  end.

Definition c20_ctor_row (r : list str) : list str :=
  let c := {| src_graph_file := fbool r 0; src_list_of_files := fbool r 1; src_raw_graph := fbool r 2;
              src_url_graph := fbool r 3; src_list_of_url := fbool r 4; src_url_endpoint := fbool r 5;
              src_rdflib_graph := fbool r 6;
              tgt_target_classes := fbool r 7; tgt_file_target_classes := fbool r 8;
              tgt_shape_map_file := fbool r 9; tgt_shape_map_raw := fbool r 10;
              all_classes_mode := fbool r 11;
              input_format := fld r 12; compression_mode := fopt r 13; examples_mode := fopt r 14;
              disable_or_statements := fbool r 15; allow_redundant_or := fbool r 16 |} in
  [outcome_str (ctor c)].

Definition c20_call_row (r : list str) : list str :=
  let k := {| string_output := fbool r 0; has_output_file := fbool r 1; has_uml_path := fbool r 2;
              output_format := fld r 3; thr_num := fZ r 4; thr_den := fZ r 5 |} in
  [outcome_str (call k)].

Definition entry_c20 (name : str) (t : table) : option table :=
  if str_eqb name (Str "c20_ctor") then Some (map c20_ctor_row t)
  else if str_eqb name (Str "c20_call") then Some (map c20_call_row t)
  else None.
