(** * Extraction against a SPARQL endpoint, as the code is.

    Python anchors (all under /repo/shexer):
    - io/sparql/query.py: [_add_lang_if_needed], [_add_corners_if_needed],
      [query_endpoint_po_of_an_s], [query_endpoint_sp_of_an_o],
      [query_endpoint_single_variable];
    - model/graph/endpoint_sgraph.py: [EndpointSGraph] with its cache
      ([_subjects_tracked], [_objects_tracked], [_local_sgraph]);
    - model/graph/rdflib_sgraph.py: [add_triple], [yield_p_o_triples_of_an_s],
      [yield_s_p_triples_of_an_o], [yield_class_triples_of_an_s] on the local
      rdflib graph (rdflib's Memory store: nested insertion-ordered dicts);
    - model/graph/abstract_sgraph.py: [yield_p_o_triples_of_target_nodes],
      [yield_s_p_triples_of_target_nodes] (depth 1), [_is_an_unprefixed_iri];
    - io/graph/yielder/remote/sgraph_from_selectors_triple_yielder.py;
    - utils/translators/list_of_classes_to_shape_map.py, model/node_selector.py,
      core/instances/mappings/shape_map_instance_tracker.py;
    - utils/triple_yielders.py ([tune_subj], [tune_prop], [tune_token]),
      utils/uri.py ([add_corners_if_it_is_an_uri], [remove_corners],
      [decide_literal_type], [parse_literal], [parse_unquoted_literal]);
    - shaper.py / utils/factories: two passes over two yielders sharing one
      [EndpointSGraph]; [InstanceTracker] (pass 1) may stop reading early
      ([InstanceCapMode]).

    The endpoint is the served graph [G] (Spec/EndpointSpec.v).  Everything the
    code cannot determine is an explicit oracle: the order in which the
    endpoint lists the solutions of a query ([o_ord pass query]) and the
    iteration order of the Python [set] of target nodes ([o_set pass]).

    Output of a run: the events of the two passes -- queries sent ([EQ]),
    triples delivered to the consumer of the yielder ([EY]), exceptions ([EX]). *)
From Coq Require Import List Ascii String ZArith Bool.
From Shexer Require Import Lib.PyStr Lib.Dict Gen.Consts Gen.ConstsC15 Spec.Rdf Spec.EndpointSpec Model.Tracker.
Import ListNotations.

(** ** equality tests on served terms *)

Definition opt_str_eqb (a b : option str) : bool :=
  match a, b with
  | None, None => true
  | Some x, Some y => str_eqb x y
  | _, _ => false
  end.

Definition snode_eqb (a b : snode) : bool :=
  match a, b with
  | NI x, NI y => str_eqb x y
  | NB x, NB y => str_eqb x y
  | _, _ => false
  end.

Definition sterm_eqb (a b : sterm) : bool :=
  match a, b with
  | SN x, SN y => snode_eqb x y
  | SLit l1 d1 g1, SLit l2 d2 g2 => str_eqb l1 l2 && opt_str_eqb d1 d2 && opt_str_eqb g1 g2
  | _, _ => false
  end.

(** ** 1. what the endpoint answers: SPARQL-JSON bindings *)

(** The reader looks at ["type"], ["value"], ["xml:lang"] and (since the
    repair of finding C15-F1) ["datatype"]. *)
Record binding := { b_type : str; b_value : str; b_lang : option str; b_dt : option str }.

Definition bind_node (n : snode) : binding :=
  match n with
  | NI i => {| b_type := Str "uri"; b_value := i; b_lang := None; b_dt := None |}
  | NB b => {| b_type := Str "bnode"; b_value := b; b_lang := None; b_dt := None |}
  end.

Definition bind_term (t : sterm) : binding :=
  match t with
  | SN n => bind_node n
  | SLit lex dt lang => {| b_type := Str "literal"; b_value := lex; b_lang := lang;
                          b_dt := match lang with Some _ => None | None => dt end |}
  end.

Definition bind_pred (p : str) : binding := {| b_type := Str "uri"; b_value := p; b_lang := None; b_dt := None |}.

Inductive qkind := QClasses | QSel | QPO | QSP | QTypes.
Definition query := (qkind * str)%type.

Definition qkind_eqb (a b : qkind) : bool :=
  match a, b with
  | QClasses, QClasses | QSel, QSel | QPO, QPO | QSP, QSP | QTypes, QTypes => true
  | _, _ => false
  end.
Definition query_eqb (a b : query) : bool := qkind_eqb (fst a) (fst b) && str_eqb (snd a) (snd b).

(** the oracles: answer order of the endpoint per (pass, query); iteration
    order of the set of target nodes per pass *)
Record oracles := {
  o_ord : nat -> query -> list striple -> list striple;
  o_set : nat -> list str -> list str
}.

(** solutions of the basic graph patterns the code sends *)
Definition po_match (G : sgraph) (node : str) : list striple :=
  filter (fun t => snode_eqb (ss t) (NI node)) G.
Definition sp_match (G : sgraph) (node : str) : list striple :=
  filter (fun t => sterm_eqb (so t) (SN (NI node))) G.
Definition types_match (G : sgraph) (tau node : str) : list striple :=
  filter (fun t => snode_eqb (ss t) (NI node) && str_eqb (sp t) tau) G.
Definition tau_match (G : sgraph) (tau : str) : list striple :=
  filter (fun t => str_eqb (sp t) tau) G.
(** [select ?s where { ?s <tau> <c> . FILTER (!isBlank(?s)) }] *)
Definition class_match (G : sgraph) (tau c : str) : list striple :=
  filter (fun t => str_eqb (sp t) tau && sterm_eqb (so t) (SN (NI c)) &&
                   match ss t with NI _ => class_selector_filters_blank_subjects | NB _ => negb class_selector_filters_blank_subjects end) G.

(** ** 2. the result reader (io/sparql/query.py) *)

Definition dq : str := Str """".

(** [_add_lang_if_needed].  New shape (C15-F1 repaired): a literal binding
    becomes an N-Triples-like token: the quoted value, then [@lang] or
    [^^<datatype>].  Old shape: the value, then the value again between double
    quotes and [@lang]; the datatype was never read. *)
Definition literal_types : list str := [Str "literal"; Str "typed-literal"].
Definition add_lang (b : binding) : str :=
  if q_reader_quotes_literals then
    if mem_str (b_type b) literal_types then
      dq ++ b_value b ++ dq ++
      match b_lang b with
      | Some l => Str "@" ++ l
      | None => match b_dt b with Some d => Str "^^<" ++ d ++ Str ">" | None => [] end
      end
    else b_value b
  else
    match b_lang b with
    | Some l => (if q_lang_appends_to_value then b_value b else []) ++ dq ++ b_value b ++ dq ++ Str "@" ++ l
    | None => b_value b
    end.

(** [_add_corners_if_needed] *)
Definition add_corners_elem (s ty : str) : str :=
  if str_eqb ty q_URI_TYPE && negb (prefixb (Str "<") s) then Str "<" ++ s ++ Str ">" else s.

Definition stok3 := (str * str * str)%type.
Definition tk_s (x : stok3) : str := fst (fst x).
Definition tk_p (x : stok3) : str := snd (fst x).
Definition tk_o (x : stok3) : str := snd x.

(** one row of [query_endpoint_po_of_an_s]: (p_value, o_value) *)
Definition read_po (p o : binding) : str * str :=
  (add_corners_elem (b_value p) (b_type p), add_corners_elem (add_lang o) (b_type o)).
(** one row of [query_endpoint_sp_of_an_o]: (s_value, p_value) *)
Definition read_sp (s p : binding) : str * str :=
  (add_corners_elem (add_lang s) (b_type s), add_corners_elem (b_value p) (b_type p)).

(** ** 3. string tokens to model objects (utils/uri.py, utils/triple_yielders.py) *)

Inductive eerr := XValue | XRuntime | XAttr | XUnmodelled.

Definition starts_http (s : str) : bool := existsb (fun p => prefixb p s) uri_http_prefixes.

(** [add_corners_if_it_is_an_uri] *)
Definition add_corners_if_uri (s : str) : str :=
  if starts_http s then Str "<" ++ s ++ Str ">" else s.
(** [add_corners_if_needed] *)
Definition add_corners_if_needed (s : str) : str :=
  if prefixb (Str "<") s then s else Str "<" ++ s ++ Str ">".
(** [remove_corners]; [None] = ValueError *)
Definition remove_corners (raise : bool) (s : str) : option str :=
  if prefixb (Str "<") s && suffixb (Str ">") s then Some (slice s 1 (-1))
  else if raise then None else Some s.
Definition rc_false (s : str) : str :=
  match remove_corners false s with Some r => r | None => s end.

(** [s.find(p, start)] *)
Definition find_from (p s : str) (start : Z) : Z :=
  let r := find p (slice_from s start) in
  if (r <? 0)%Z then (-1)%Z else (r + start)%Z.

(** [decide_literal_type(a_literal)] with [base_namespace=None], old text: one
    chain of tests on the whole token *)
Definition decide_literal_type_old (l : str) : str + eerr :=
  let q3 := dq ++ Str "^^" in
  if (rfind dq l <? rfind (Str "@") l)%Z then inl c_LANG_STRING_TYPE
  else if negb (contains q3 l) then inl c_STRING_TYPE
  else if contains (Str "xsd:") l then inl (c_XSD_NAMESPACE ++ slice_from l (find (Str "xsd:") l + 4))
  else if contains (Str "rdf:") l then inl (c_RDF_SYNTAX_NAMESPACE ++ slice_from l (find (Str "rdf:") l + 4))
  else if contains (Str "dt:") l then inl (c_DT_NAMESPACE ++ slice_from l (find (Str "dt:") l + 3))
  else if contains (Str "geo:") l then inl (c_OPENGIS_NAMESPACE ++ slice_from l (find (Str "geo:") l + 4))
  else if contains c_XSD_NAMESPACE l || contains c_RDF_SYNTAX_NAMESPACE l ||
          contains c_DT_NAMESPACE l || contains c_OPENGIS_NAMESPACE l
       then inl (slice l (find q3 l + 4) (-1))
  else if suffixb (Str ">") (strip l) then inl (slice l (find q3 l + 4) (-1))
  else inr XRuntime.

(** new text (C06 repair B): the kind is read from what follows the last
    double quote; a token without quote has no such suffix and keeps the old
    rules 1-2 *)
Definition decide_literal_type_fx (l : str) : str + eerr :=
  let q := rfind dq l in
  let suffix := if (q <? 0)%Z then [] else strip (slice_from l (q + 1)) in
  if prefixb (Str "@") suffix then inl c_LANG_STRING_TYPE
  else if negb (prefixb (Str "^^") suffix) then
         (if (rfind dq l <? rfind (Str "@") l)%Z then inl c_LANG_STRING_TYPE else inl c_STRING_TYPE)
  else
    let t := slice_from suffix 2 in
    if prefixb (Str "xsd:") t then inl (c_XSD_NAMESPACE ++ slice_from t 4)
    else if prefixb (Str "rdf:") t then inl (c_RDF_SYNTAX_NAMESPACE ++ slice_from t 4)
    else if prefixb (Str "dt:") t then inl (c_DT_NAMESPACE ++ slice_from t 3)
    else if prefixb (Str "geo:") t then inl (c_OPENGIS_NAMESPACE ++ slice_from t 4)
    else if prefixb (Str "<") t && suffixb (Str ">") t then inl (slice t 1 (-1))
    else inr XRuntime.

Definition decide_literal_type (l : str) : str + eerr :=
  if dlt_from_suffix then decide_literal_type_fx l else decide_literal_type_old l.

(** *** [float(a_token)] and [_is_integer]: which unquoted tokens are numbers.

    Exact on: optional ASCII white space, optional sign, then [inf],
    [infinity], [nan] (any case) or digits with at most one dot, no exponent,
    no underscore, at most 15 digits when the fraction is not all zeros (then
    the binary64 value is integral iff the fraction is) and at most 300 digits
    otherwise.  Any other token that could still be accepted by [float] is
    [FUnmodelled] (an explicit outcome, never generated by the harness). *)
Inductive fclass := FNot | FInt | FFloat | FUnmodelled.

Definition is_digit (c : ascii) : bool :=
  let n := nat_of_ascii c in Nat.leb 48 n && Nat.leb n 57.
Definition is_ascii (c : ascii) : bool := Nat.ltb (nat_of_ascii c) 128.
Definition lower_char (c : ascii) : ascii :=
  let n := nat_of_ascii c in if Nat.leb 65 n && Nat.leb n 90 then ascii_of_nat (n + 32) else c.
Definition lower (s : str) : str := map lower_char s.
Definition char_in (c : ascii) (s : str) : bool := existsb (Ascii.eqb c) s.

Definition float_alphabet (c : ascii) : bool :=
  is_digit c || is_space c || char_in c (Str "+-._eEinfatyINFATY").

Definition all_digits (s : str) : bool := forallb is_digit s.
Definition all_zeros (s : str) : bool := forallb (Ascii.eqb "0"%char) s.

Definition py_float_class (tok : str) : fclass :=
  if existsb (fun c => is_ascii c && negb (float_alphabet c)) tok then FNot
  else if existsb (fun c => negb (is_ascii c)) tok then FUnmodelled
  else
    let t := strip tok in
    let r := match t with
             | c :: r' => if Ascii.eqb c "+"%char || Ascii.eqb c "-"%char then r' else t
             | [] => []
             end in
    match r with
    | [] => FNot
    | _ =>
      let lr := lower r in
      if str_eqb lr (Str "inf") || str_eqb lr (Str "infinity") || str_eqb lr (Str "nan") then FFloat
      else if existsb (fun c => char_in c (Str "infatyINFATY")) r then FNot
      else if existsb (fun c => char_in c (Str "_eE")) r then FUnmodelled
      else if existsb (fun c => is_space c || char_in c (Str "+-")) r then FNot
      else match split (Str ".") r with
           | [ip] => if (300 <? len ip)%Z then FUnmodelled else FInt
           | [ip; fp] =>
             if (len ip + len fp =? 0)%Z then FNot
             else if all_zeros fp then (if (300 <? len ip)%Z then FUnmodelled else FInt)
             else if (15 <? len ip + len fp)%Z then FUnmodelled else FFloat
           | _ => FNot
           end
    end.

(** [tune_subj]; the [str] of a [BNode] is the whole token *)
Definition tune_subj (raise : bool) (tok : str) : node + eerr :=
  if prefixb (Str "<") tok then
    match remove_corners raise tok with Some i => inl (Node KIri i) | None => inr XValue end
  else if prefixb (Str "_:") tok then inl (Node KBnode tok)
  else if str_eqb (strip tok) (Str "[]") then inl (Node KBnode tok)
  else inr XValue.

(** [tune_prop] *)
Definition tune_prop (raise : bool) (tok : str) : str + eerr :=
  match remove_corners raise tok with Some i => inl i | None => inr XValue end.

(** [tune_token] *)
Definition tune_token (allow_untyped_numbers raise : bool) (tok : str) : obj + eerr :=
  if prefixb (Str "<") tok then
    match remove_corners raise tok with Some i => inl (ON (Node KIri i)) | None => inr XValue end
  else if prefixb dq tok then
    match decide_literal_type tok with
    | inl ty => inl (OL (slice tok 1 (find_from dq tok 1)) ty)
    | inr e => inr e
    end
  else if prefixb (Str "_:") tok then inl (ON (Node KBnode tok))
  else if str_eqb (strip tok) (Str "[]") then inl (ON (Node KBnode tok))
  else
    let unquoted := match decide_literal_type tok with
                    | inl ty => inl (OL tok ty)
                    | inr e => inr e
                    end in
    if allow_untyped_numbers then
      match py_float_class tok with
      | FInt => inl (OL (strip tok) c_INTEGER_TYPE)
      | FFloat => inl (OL (strip tok) c_FLOAT_TYPE)
      | FNot => unquoted
      | FUnmodelled => inr XUnmodelled
      end
    else unquoted.

(** what [SgraphFromSelectorsTripleYielder] does to a string triple of the
    sgraph: the tuple is evaluated left to right, the first exception wins *)
Definition tune3 (allow : bool) (x : stok3) : triple + eerr :=
  match tune_subj true (add_corners_if_uri (tk_s x)) with
  | inr e => inr e
  | inl s =>
    match tune_prop true (add_corners_if_needed (tk_p x)) with
    | inr e => inr e
    | inl p =>
      match tune_token allow true (add_corners_if_uri (tk_o x)) with
      | inr e => inr e
      | inl o => inl {| ts := s; tp := p; to := o |}
      end
    end
  end.

(** ** 4. the local rdflib graph of the cache *)

(** a literal of the local graph: lexical form, datatype, language tag (rdflib:
    a literal has a language XOR a datatype; [dt] is [[]] when there is a tag) *)
Inductive lterm := LU (iri : str) | LL (lex dt : str) (lang : option str) | LB (id : str).
Definition ltriple := (lterm * lterm * lterm)%type.
Definition l_s (x : ltriple) : lterm := fst (fst x).
Definition l_p (x : ltriple) : lterm := snd (fst x).
Definition l_o (x : ltriple) : lterm := snd x.

Definition lterm_eqb (a b : lterm) : bool :=
  match a, b with
  | LU x, LU y => str_eqb x y
  | LL l1 d1 g1, LL l2 d2 g2 => str_eqb l1 l2 && str_eqb d1 d2 && opt_str_eqb g1 g2
  | LB x, LB y => str_eqb x y
  | _, _ => false
  end.
Definition ltriple_eqb (a b : ltriple) : bool :=
  lterm_eqb (l_s a) (l_s b) && lterm_eqb (l_p a) (l_p b) && lterm_eqb (l_o a) (l_o b).

(** [_turn_obj_into_rdflib_element].  With [normalize=False] (new shape)
    rdflib keeps every lexical form; without it only those of [xsd:string] /
    [rdf:langString] literals are known to be kept ([XUnmodelled] otherwise). *)
Definition lterm_of_obj (o : obj) : lterm + eerr :=
  match o with
  | ON (Node KIri i) => inl (LU i)
  | ON (Node KBnode b) => inl (LB b)
  | OL c ty => if lsg_no_normalize || str_eqb ty c_STRING_TYPE || str_eqb ty c_LANG_STRING_TYPE then inl (LL c ty None)
               else inr XUnmodelled
  end.

(** what rdflib accepts as a language tag: [[a-zA-Z]+(-[a-zA-Z0-9]+)*], the whole string *)
Definition is_alpha (c : ascii) : bool :=
  let n := nat_of_ascii c in (Nat.leb 65 n && Nat.leb n 90) || (Nat.leb 97 n && Nat.leb n 122).
Definition valid_langtag (l : str) : bool :=
  match split (Str "-") l with
  | [] => false
  | first :: rest =>
    negb (str_eqb first []) && forallb is_alpha first &&
    forallb (fun p => negb (str_eqb p []) && forallb (fun c => is_alpha c || is_digit c) p) rest
  end.

(** [_lexical_form_and_lang(model_elem, raw_token)] (new text of
    [_turn_obj_into_rdflib_element], flag [lsg_token_literal]): the lexical
    form between the first and the last quote of the token and its well-formed
    language tag; [None]: the token is not a quoted literal, the model literal
    is used as before *)
Definition lexical_form_and_lang (raw : str) : option (str * option str) :=
  let q := rfind dq raw in
  if negb (prefixb dq raw) || (q =? 0)%Z then None
  else
    let suffix := slice_from raw (q + 1) in
    let tag := slice_from suffix 1 in
    Some (slice raw 1 q, if prefixb (Str "@") suffix && valid_langtag tag then Some tag else None).

(** the object of [add_triple]: [_turn_obj_into_rdflib_element(obj, raw_token=a_triple[_O])] *)
Definition lterm_of_obj_tok (o : obj) (raw : str) : lterm + eerr :=
  match o with
  | OL c ty =>
    if lsg_token_literal then
      match lexical_form_and_lang raw with
      | Some (lex, Some l) => inl (LL lex [] (Some l))
      | Some (lex, None) => inl (LL lex ty None)       (* [normalize=False] in this text *)
      | None => lterm_of_obj o
      end
    else lterm_of_obj o
  | _ => lterm_of_obj o
  end.

(** [RdflibSgraph.add_triple]: the three tokens, tuned without the number
    inference and without the corner check *)
Definition store3 (x : stok3) : ltriple + eerr :=
  match tune_subj false (add_corners_if_uri (tk_s x)) with
  | inr e => inr e
  | inl s =>
    match tune_prop false (add_corners_if_uri (tk_p x)) with
    | inr e => inr e
    | inl p =>
      match tune_token false false (add_corners_if_uri (tk_o x)) with
      | inr e => inr e
      | inl o =>
        match lterm_of_obj (ON s), lterm_of_obj_tok o (tk_o x) with
        | inl ls, inl lo => inl (ls, LU p, lo)
        | inr e, _ => inr e
        | _, inr e => inr e
        end
      end
    end
  end.

(** [_add_URI_corners_if_needed (_add_lang_if_needed x)] on what the local
    graph holds: every literal of the local graph has a datatype and no
    language; new shape: quoted value and [^^<datatype>]; old: the bare value *)
Definition tok_of_lterm (t : lterm) : str :=
  match t with
  | LU i => Str "<" ++ i ++ Str ">"
  | LL lex dt None => if lsg_quotes_literals then dq ++ lex ++ dq ++ Str "^^<" ++ dt ++ Str ">" else lex
  | LL lex _ (Some l) => if lsg_quotes_literals then dq ++ lex ++ dq ++ Str "@" ++ l else lex
  | LB b => b
  end.
Definition tok3_of_l (x : ltriple) : stok3 := (tok_of_lterm (l_s x), tok_of_lterm (l_p x), tok_of_lterm (l_o x)).

Definition mem_l (x : ltriple) (l : list ltriple) : bool := existsb (ltriple_eqb x) l.
(** a graph is a set; insertion order is kept because rdflib's store iterates
    over insertion-ordered dictionaries *)
Definition add_l (l : list ltriple) (x : ltriple) : list ltriple := if mem_l x l then l else l ++ [x].

(** first occurrences *)
Fixpoint dedup {K : Type} (eqb : K -> K -> bool) (l : list K) : list K :=
  match l with
  | [] => []
  | x :: r => x :: filter (fun y => negb (eqb y x)) (dedup eqb r)
  end.

(** iteration over [index[a][k][..]]: keys [k] in order of first insertion *)
Definition group_by {A K : Type} (eqb : K -> K -> bool) (key : A -> K) (l : list A) : list A :=
  flat_map (fun k => filter (fun x => eqb (key x) k) l) (dedup eqb (map key l)).

(** [triples((s, None, None))]: [__spo[s][p][o]] *)
Definition lookup_s (loc : list ltriple) (s : str) : list ltriple :=
  group_by lterm_eqb l_p (filter (fun x => lterm_eqb (l_s x) (LU s)) loc).
(** [triples((None, None, o))]: [__osp[o][s][p]] *)
Definition lookup_o (loc : list ltriple) (o : str) : list ltriple :=
  group_by lterm_eqb l_s (filter (fun x => lterm_eqb (l_o x) (LU o)) loc).
(** [triples((s, p, None))]: [__spo[s][p]] *)
Definition lookup_sp (loc : list ltriple) (s p : str) : list ltriple :=
  filter (fun x => lterm_eqb (l_s x) (LU s) && lterm_eqb (l_p x) (LU p)) loc.

Fixpoint store_all (loc : list ltriple) (xs : list stok3) : list ltriple + eerr :=
  match xs with
  | [] => inl loc
  | x :: r => match store3 x with
              | inl lt => store_all (add_l loc lt) r
              | inr e => inr e
              end
  end.

(** ** 5. [EndpointSGraph] *)

Record lst := { trs : list str; tro : list str; loc : list ltriple }.
Definition lst0 : lst := {| trs := []; tro := []; loc := [] |}.

Inductive event := EQ (q : query) | EY (t : triple) | EX (e : eerr).

Record cfg := {
  c_tau : str;               (* instantiation property, full IRI *)
  c_cache : bool;            (* not disable_endpoint_cache *)
  c_inverse : bool;          (* inverse_paths *)
  c_allow_num : bool;        (* infer_numeric_types_for_untyped_literals *)
  c_last_level : bool;       (* track_classes_for_entities_at_last_depth_level *)
  c_limit : Z;               (* limit_remote_instances *)
  c_cap : Z                  (* instances_cap *)
}.

(** [Shaper.__init__]: [limit_remote_instances if instances_cap <= 0 else
    instances_cap] (old shape: [... if instances_cap == -1 else ...]) *)
Definition eff_limit (c : cfg) : Z :=
  if limit_rule_no_cap_nonpositive then (if (c_cap c <=? 0)%Z then c_limit c else c_cap c)
  else if (c_cap c =? limit_rule_no_cap_value)%Z then c_limit c else c_cap c.

Definition wrap (s : str) : str := Str "<" ++ s ++ Str ">".

(** the three remote generators: the query and the string triples it yields *)
Definition remote_po (G : sgraph) (O : oracles) (pass : nat) (target : str) : query * list stok3 :=
  let q := (QPO, rc_false target) in
  (q, map (fun t => let po := read_po (bind_pred (sp t)) (bind_term (so t)) in (wrap target, fst po, snd po))
          (o_ord O pass q (po_match G (rc_false target)))).

Definition remote_sp (G : sgraph) (O : oracles) (pass : nat) (target : str) : query * list stok3 :=
  let q := (QSP, rc_false target) in
  (q, map (fun t => let sp_ := read_sp (bind_node (ss t)) (bind_pred (sp t)) in (fst sp_, snd sp_, wrap target))
          (o_ord O pass q (sp_match G (rc_false target)))).

(** [_yield_remote_class_triples_of_an_s]: the object is the bare [value] *)
Definition remote_types (G : sgraph) (O : oracles) (pass : nat) (tau target : str) : query * list stok3 :=
  let q := (QTypes, rc_false target) in
  (q, map (fun t => (wrap target, wrap tau, b_value (bind_term (so t))))
          (o_ord O pass q (types_match G (rc_false tau) (rc_false target)))).

Record blk := { k_events : list event; k_raw : list stok3; k_st : lst }.

Definition yields_of (allow : bool) (raw : list stok3) : list event :=
  map (fun x => match tune3 allow x with inl t => EY t | inr e => EX e end) raw.

Inductive fkind := FPO | FSP | FTypes.

Definition remote_of (G : sgraph) (O : oracles) (pass : nat) (tau : str) (k : fkind) (target : str) : query * list stok3 :=
  match k with
  | FPO => remote_po G O pass target
  | FSP => remote_sp G O pass target
  | FTypes => remote_types G O pass tau target
  end.

Definition local_of_kind (tau : str) (k : fkind) (l : list ltriple) (target : str) : list stok3 :=
  map tok3_of_l (match k with
                 | FPO => lookup_s l (rc_false target)
                 | FSP => lookup_o l (rc_false target)
                 | FTypes => lookup_sp l (rc_false target) (rc_false tau)
                 end).

Definition tracked (k : fkind) (st : lst) (target : str) : bool :=
  match k with FSP => mem_str target (tro st) | _ => mem_str target (trs st) end.

Definition mark (k : fkind) (st : lst) (target : str) (l : list ltriple) : lst :=
  match k with
  | FSP => {| trs := trs st; tro := target :: tro st; loc := l |}
  | _ => {| trs := target :: trs st; tro := tro st; loc := l |}
  end.

(** [yield_p_o_triples_of_an_s] / [yield_s_p_triples_of_an_o] /
    [yield_class_triples_of_an_s] for one node: without the cache the remote
    generator; with it, fetch-and-store unless the node is tracked, then the
    local graph *)
Definition fetch (c : cfg) (G : sgraph) (O : oracles) (pass : nat) (k : fkind) (st : lst) (target : str) : blk :=
  let (q, ans) := remote_of G O pass (c_tau c) k target in
  if c_cache c then
    if tracked k st target then
      let raw := local_of_kind (c_tau c) k (loc st) target in
      {| k_events := yields_of (c_allow_num c) raw; k_raw := raw; k_st := st |}
    else
      match store_all (loc st) ans with
      | inr e => {| k_events := [EQ q; EX e]; k_raw := []; k_st := st |}
      | inl l' =>
        let raw := local_of_kind (c_tau c) k l' target in
        {| k_events := EQ q :: yields_of (c_allow_num c) raw; k_raw := raw; k_st := mark k st target l' |}
      end
  else {| k_events := EQ q :: yields_of (c_allow_num c) ans; k_raw := ans; k_st := st |}.

(** ** 6. the depth-1 traversal of [SGraph] *)

Fixpoint trav (f : lst -> str -> blk) (visited : list str) (st : lst) (targets : list str) : list blk :=
  match targets with
  | [] => []
  | a :: r =>
    if mem_str a visited then trav f visited st r
    else let b := f st a in b :: trav f (a :: visited) (k_st b) r
  end.

Fixpoint last_st (st : lst) (bs : list blk) : lst :=
  match bs with
  | [] => st
  | b :: r => last_st (k_st b) r
  end.

(** classes of the nodes met at the last level: every node of the list that is
    not a visited target (the visited set is not extended here) *)
Fixpoint trav_last (f : lst -> str -> blk) (visited : list str) (st : lst) (nodes : list str) : list blk :=
  match nodes with
  | [] => []
  | a :: r =>
    if mem_str a visited then trav_last f visited st r
    else let b := f st a in b :: trav_last f visited (k_st b) r
  end.

(** [_is_an_unprefixed_iri] with [strict_syntax_with_uri_corners=False] *)
Definition new_targets (proj : stok3 -> str) (bs : list blk) : list str :=
  flat_map (fun b => filter (prefixb unprefixed_iri_prefix) (map proj (k_raw b))) bs.

(** [yield_p_o_triples_of_target_nodes] ([inv = false]) and
    [yield_s_p_triples_of_target_nodes] ([inv = true]), depth 1 *)
Definition traverse (c : cfg) (G : sgraph) (O : oracles) (pass : nat) (inv : bool) (st : lst) (targets : list str) : list blk :=
  let k := if inv then FSP else FPO in
  let bs := trav (fetch c G O pass k) [] st targets in
  let last := if c_last_level c
              then trav_last (fetch c G O pass FTypes) targets (last_st st bs)
                             (new_targets (if inv then tk_s else tk_o) bs)
              else [] in
  bs ++ last.

(** ** 7. selectors, shape maps, the yielder *)

Inductive selector :=
| SelNode (n : str)                       (* <iri> *)
| SelClass (cl : str)                     (* ListOfClassesToShapeMap: instances of a class, LIMIT *)
| SelFocusS (p : str) (o : option str)    (* {FOCUS <p> <o>} / {FOCUS <p> _} *)
| SelFocusO (s : option str) (p : str).   (* {<s> <p> FOCUS} / {_ <p> FOCUS} *)

Definition value_of_node (n : snode) : str := b_value (bind_node n).
Definition value_of_term (t : sterm) : str := b_value (bind_term t).

Definition limit_text (limit : Z) : str :=
  if (limit <? class_selector_limit_from)%Z then [] else Str " LIMIT " ++ dec_of_Z limit.

(** the single-variable select a selector sends ([None]: no query), as the
    (kind, text) pair recorded in the log *)
Definition sel_query (limit : Z) (s : selector) : option query :=
  match s with
  | SelNode _ => None
  | SelClass cl => Some (QSel, cl ++ limit_text limit)
  | SelFocusS p (Some o) => Some (QSel, Str "?f " ++ wrap p ++ Str " " ++ wrap o)
  | SelFocusS p None => Some (QSel, Str "?f " ++ wrap p ++ Str " ?x")
  | SelFocusO (Some s') p => Some (QSel, wrap s' ++ Str " " ++ wrap p ++ Str " ?f")
  | SelFocusO None p => Some (QSel, Str "?x " ++ wrap p ++ Str " ?f")
  end.

Definition limit_answers {A : Type} (limit : Z) (l : list A) : list A :=
  if (limit <? class_selector_limit_from)%Z then l else firstn (Z.to_nat limit) l.

(** [get_target_nodes]: the [value] of every binding, in answer order *)
Definition sel_answers (G : sgraph) (O : oracles) (pass : nat) (tau : str) (limit : Z) (s : selector) : list str :=
  match s, sel_query limit s with
  | SelNode n, _ => [n]
  | SelClass cl, Some q => map (fun t => value_of_node (ss t)) (limit_answers limit (o_ord O pass q (class_match G tau cl)))
  | SelFocusS p (Some o), Some q =>
    map (fun t => value_of_node (ss t))
        (o_ord O pass q (filter (fun t => str_eqb (sp t) p && sterm_eqb (so t) (SN (NI o))) G))
  | SelFocusS p None, Some q =>
    map (fun t => value_of_node (ss t)) (o_ord O pass q (filter (fun t => str_eqb (sp t) p) G))
  | SelFocusO (Some s') p, Some q =>
    map (fun t => value_of_term (so t))
        (o_ord O pass q (filter (fun t => str_eqb (sp t) p && snode_eqb (ss t) (NI s')) G))
  | SelFocusO None p, Some q =>
    map (fun t => value_of_term (so t)) (o_ord O pass q (filter (fun t => str_eqb (sp t) p) G))
  | _, None => []
  end.

Definition sel_events (limit : Z) (items : list selector) : list event :=
  flat_map (fun s => match sel_query limit s with Some q => [EQ q] | None => [] end) items.

(** [_collect_every_target_node]: an insertion-ordered [dict] (first
    occurrences, in answer order), then [list(...)]; old shape: a Python
    [set], whose iteration order is the oracle [o_set] *)
Definition collect (G : sgraph) (O : oracles) (selpass setpass : nat) (tau : str) (limit : Z) (items : list selector) : list str :=
  let firsts := dedup str_eqb (flat_map (sel_answers G O selpass tau limit) items) in
  if y_targets_first_occurrence_order then firsts else o_set O setpass firsts.

(** the inverse part does not yield again a statement whose subject is a
    target (it was yielded with the direct triples of that subject) *)
Definition keep_inverse (targets : list str) (e : event) : bool :=
  match e with
  | EY t => negb (mem_str (nid (ts t)) targets)
  | _ => true
  end.
Definition skip_direct (targets : list str) (b : blk) : blk :=
  {| k_events := filter (keep_inverse targets) (k_events b); k_raw := k_raw b; k_st := k_st b |}.

(** [yield_triples]: direct triples of the targets, then (inverse_paths) the
    incoming ones; each traversal starts with an empty visited set *)
Definition yielder_blocks (c : cfg) (G : sgraph) (O : oracles) (pass : nat) (st : lst) (targets : list str) : list blk :=
  let d := traverse c G O pass false st targets in
  d ++ (if c_inverse c then
          let e := traverse c G O pass true (last_st st d) targets in
          if y_inverse_skips_direct_subjects then map (skip_direct targets) e else e
        else []).

(** ** 8. the consumers of the yielder *)

Inductive tmode15 :=
| MClasses (l : list str)            (* target_classes, tuned: full IRIs *)
| MAll                               (* all_classes_mode *)
| MShapeMap (items : list selector). (* shape_map_raw / shape_map_file *)

(** [ListOfClassesToShapeMap.str_class_list_to_shape_map_sparql_selectors] *)
Definition class_items (classes : list str) : list selector := map SelClass classes.

(** [_get_shape_label_for_class_uri] (the label is not read by the yielder) *)
Definition class_label (cu : str) : str :=
  if contains (Str "#") cu && negb (match at_idx cu (-1) with Some x => Ascii.eqb x "#"%char | None => false end)
  then slice_from cu (rfind (Str "#") cu + 1)
  else if contains (Str "/") cu then
         if negb (match at_idx cu (-1) with Some x => Ascii.eqb x "/"%char | None => false end)
         then slice_from cu (rfind (Str "/") cu + 1)
         else slice_from cu (rfind (Str "/") (slice_to cu (-1)) + 1)
       else cu.

(** [yield_classes_with_instances]: [SELECT distinct ?o where { ?s <tau> ?o . }],
    [str(value)] of every distinct object in answer order *)
Definition classes_query (tau : str) : query := (QClasses, rc_false tau).
Definition all_classes (G : sgraph) (O : oracles) (pass : nat) (tau : str) : list str :=
  map value_of_term (dedup sterm_eqb (map so (o_ord O pass (classes_query tau) (tau_match G (rc_false tau))))).

(** [produce_shape_map_according_to_input], all_classes_mode: the classes come
    from [sgraph.yield_classes_with_instances()] -- no argument: the classes of
    [RDF_TYPE], whatever the instantiation property (finding C15-F9) -- or from
    [yield_classes_with_instances(instantiation_property=...)] *)
Definition tau_all (c : cfg) : str := if all_classes_passes_tau then c_tau c else c_RDF_TYPE.

(** The selector of a class is the text [SPARQL "select ?s where { ?s <tau> <class> . ... } LIMIT k"]
    handed to [NodeSelectorParser._parse_sparql_expression], which removes the
    keyword with [raw_selector.replace("SPARQL", "")]: every occurrence, also
    inside the two IRIs (finding C15-F10; no occurrence can straddle the
    brackets) -- or the leading keyword only ([Selectors.strip_sparql_kw]'s flag) *)
Definition kw_strip (s : str) : str :=
  if c_sel_sparql_strip_once then s else replace_all c_sel_sparql_kw [] s.

(** How far pass 1 ([InstanceTracker.track_instances]) reads: everything,
    [n] triples and then stops ([InstancesCapException]), or [n] triples and
    then dies ([AttributeError]: [.iri] of a [Literal]).  Mirrors
    [Tracker.track_plain] / [Tracker.track_cap]. *)
Inductive consume := CAll | CStop (n : nat) | CErr (n : nat).

Fixpoint consume_plain (tau : str) (m : tmode) (g : list triple) (k : nat) : consume :=
  match g with
  | [] => CAll
  | t :: g' =>
    if relevant tau m t then
      match to t with
      | ON _ => consume_plain tau m g' (S k)
      | OL _ _ => CErr (S k)
      end
    else consume_plain tau m g' (S k)
  end.

Fixpoint consume_cap (tau : str) (m : tmode) (cap : nat) (n_targets : option nat)
         (g : list triple) (st : capst) (k : nat) : consume :=
  match g with
  | [] => CAll
  | t :: g' =>
    (* the wrapped strategy is asked first, then the class counters (as [Tracker.track_cap]) *)
    if relevant tau m t then
      match cap_allows tau cap st t with
      | None => CErr (S k)
      | Some false => consume_cap tau m cap n_targets g' st (S k)
      | Some true =>
        match to t with
        | OL _ _ => CErr (S k)
        | ON o =>
          let n := match dget (cc st) (nid o) with Some n => S n | None => 1%nat end in
          let cc' := dset (cc st) (nid o) n in
          let completed' := if Nat.eqb n cap then S (completed st) else completed st in
          let st' := {| cc := cc'; completed := completed' |} in
          match n_targets with
          | Some nt => if Nat.eqb completed' nt then CStop (S k)
                       else consume_cap tau m cap n_targets g' st' (S k)
          | None => consume_cap tau m cap n_targets g' st' (S k)
          end
        end
      end
    else consume_cap tau m cap n_targets g' st (S k)
  end.

Definition consumption (tau : str) (m : tmode) (cap : Z) (g : list triple) : consume :=
  if (cap <=? 0)%Z then consume_plain tau m g 0
  else consume_cap tau m (Z.to_nat cap)
                   (match m with TClasses l => Some (List.length l) | TAll => None end)
                   g {| cc := []; completed := 0 |} 0.

(** ** 9. events of a pass and of a run *)

Definition events_of (bs : list blk) : list event := flat_map k_events bs.

Fixpoint yields (evs : list event) : list triple :=
  match evs with
  | [] => []
  | EY t :: r => t :: yields r
  | _ :: r => yields r
  end.

Fixpoint queries (evs : list event) : list query :=
  match evs with
  | [] => []
  | EQ q :: r => q :: queries r
  | _ :: r => queries r
  end.

Definition is_EX (e : event) : bool := match e with EX _ => true | _ => false end.
Definition is_EY (e : event) : bool := match e with EY _ => true | _ => false end.

(** the events up to and including the first exception *)
Fixpoint cut_at_err (evs : list event) : list event :=
  match evs with
  | [] => []
  | e :: r => if is_EX e then [e] else e :: cut_at_err r
  end.

(** the events up to and including the [n]-th delivered triple (a generator
    that is not resumed sends nothing more) *)
Fixpoint cut_after_yields (n : nat) (evs : list event) : list event :=
  match n with
  | O => []
  | S n' =>
    match evs with
    | [] => []
    | e :: r => if is_EY e then e :: cut_after_yields n' r else e :: cut_after_yields n r
    end
  end.

Definition count_yields (evs : list event) : nat := List.length (filter is_EY evs).

(** the cache state once the [n]-th triple has been delivered: that of the
    block it belongs to *)
Fixpoint state_after (n : nat) (st : lst) (bs : list blk) : lst :=
  match n with
  | O => st
  | _ =>
    match bs with
    | [] => st
    | b :: r =>
      let y := count_yields (k_events b) in
      if Nat.leb n y then k_st b else state_after (n - y) (k_st b) r
    end
  end.

Record passout := { po_events : list event; po_st : lst; po_ok : bool }.

(** one pass of a class mode: a fresh shape map (its selects are sent again),
    then the yielder, read as far as the consumer reads *)
Definition class_pass (c : cfg) (G : sgraph) (O : oracles) (pass : nat) (st : lst)
           (all_mode : bool) (classes : list str) (reader : list triple -> consume) : passout :=
  let head := if all_mode then [EQ (classes_query (tau_all c))] else [] in
  let cls := if all_mode then all_classes G O pass (tau_all c) else classes in
  let items := class_items (map kw_strip cls) in
  let sel := sel_events (eff_limit c) items in
  let targets := collect G O pass pass (kw_strip (c_tau c)) (eff_limit c) items in
  let bs := yielder_blocks c G O pass st targets in
  (* an empty shape map has no sgraph: no triples (old shape: [None.yield_p_o_triples_of_target_nodes]) *)
  let evs := match items with
             | [] => if y_empty_shape_map_guard then [] else [EX XAttr]
             | _ => cut_at_err (events_of bs)
             end in
  let failed := existsb is_EX evs in
  match reader (yields evs) with
  | CAll => {| po_events := head ++ sel ++ evs; po_st := last_st st bs; po_ok := negb failed |}
  | CStop n => {| po_events := head ++ sel ++ cut_after_yields n evs; po_st := state_after n st bs; po_ok := true |}
  | CErr n => {| po_events := head ++ sel ++ cut_after_yields n evs ++ [EX XAttr]; po_st := state_after n st bs; po_ok := false |}
  end.

Record result := { r_p1 : list event; r_p2 : list event; r_ok : bool }.

Definition no_reader (g : list triple) : consume := CAll.

(** [Shaper(url_endpoint=..., ...).shex_graph(...)] up to the end of the two
    passes over the endpoint *)
Definition run (c : cfg) (m : tmode15) (G : sgraph) (O : oracles) : result :=
  match m with
  | MShapeMap items =>
    (* pass 1: ShapeMapInstanceTracker solves every selector once (cached in
       the selector objects); pass 2: the yielder over the same shape map *)
    let p1 := sel_events (-1) items in
    let targets := collect G O 1 2 (c_tau c) (-1) items in
    let bs := yielder_blocks c G O 2 lst0 targets in
    let evs := cut_at_err (events_of bs) in
    {| r_p1 := p1; r_p2 := evs; r_ok := negb (existsb is_EX evs) |}
  | MClasses classes =>
    let o1 := class_pass c G O 1 lst0 false classes (consumption (c_tau c) (TClasses classes) (c_cap c)) in
    if po_ok o1 then
      let o2 := class_pass c G O 2 (po_st o1) false classes no_reader in
      {| r_p1 := po_events o1; r_p2 := po_events o2; r_ok := po_ok o2 |}
    else {| r_p1 := po_events o1; r_p2 := []; r_ok := false |}
  | MAll =>
    let o1 := class_pass c G O 1 lst0 true [] (consumption (c_tau c) TAll (c_cap c)) in
    if po_ok o1 then
      let o2 := class_pass c G O 2 (po_st o1) true [] no_reader in
      {| r_p1 := po_events o1; r_p2 := po_events o2; r_ok := po_ok o2 |}
    else {| r_p1 := po_events o1; r_p2 := []; r_ok := false |}
  end.

Definition log_of (r : result) : list query := queries (r_p1 r) ++ queries (r_p2 r).

(** ** 10. the domain on which the endpoint path reads a statement as the
    local path does (checked per statement, evaluated by the harness)

    For a statement [t] with an IRI subject: the string triple the reader
    builds in the direct ([po]) direction and, for an IRI object, in the
    inverse ([sp]) direction; what the cache stores for it; what the yielder
    makes of it with and without the cache.  [stmt_ok] holds when all of that
    is [local_of t], the stored triple is the same in both directions and
    keeps subject and object recognisable, and no token looks like a further
    target node. *)
Definition po_tok (t : striple) (s : str) : stok3 :=
  let po := read_po (bind_pred (sp t)) (bind_term (so t)) in (wrap s, fst po, snd po).
Definition sp_tok (t : striple) (o : str) : stok3 :=
  let sp_ := read_sp (bind_node (ss t)) (bind_pred (sp t)) in (fst sp_, snd sp_, wrap o).

Definition triple_res_eqb (r : triple + eerr) (t : triple) : bool :=
  match r with inl x => triple_eqb x t | inr _ => false end.

Definition no_new_target (x : stok3) : bool :=
  negb (prefixb unprefixed_iri_prefix (tk_o x)) && negb (prefixb unprefixed_iri_prefix (tk_s x)).

Definition stored_shape_ok (t : striple) (s : str) (lt : ltriple) : bool :=
  lterm_eqb (l_s lt) (LU s) && lterm_eqb (l_p lt) (LU (sp t)) &&
  match so t, l_o lt with
  | SN (NI o), LU o' => str_eqb o o'
  | SLit _ _ _, LL _ _ _ => true
  | _, _ => false
  end.

Definition dir_ok (allow : bool) (t : striple) (s : str) (x : stok3) : option ltriple :=
  match store3 x with
  | inr _ => None
  | inl lt =>
    if stored_shape_ok t s lt && triple_res_eqb (tune3 allow x) (local_of t) &&
       triple_res_eqb (tune3 allow (tok3_of_l lt)) (local_of t) &&
       no_new_target x && no_new_target (tok3_of_l lt)
    then Some lt else None
  end.

Definition stmt_ok (allow : bool) (t : striple) : bool :=
  match ss t with
  | NB _ => false
  | NI s =>
    negb (prefixb (Str "<") s) && negb (suffixb (Str ">") s) &&
    match dir_ok allow t s (po_tok t s) with
    | None => false
    | Some lt =>
      match so t with
      | SN (NI o) =>
        negb (prefixb (Str "<") o) && negb (suffixb (Str ">") o) &&
        match dir_ok allow t s (sp_tok t o) with
        | Some lt' => ltriple_eqb lt lt'
        | None => false
        end
      | SN (NB _) => false
      | SLit _ _ _ => true
      end
    end
  end.

(** objects of instantiation statements are IRIs (otherwise the trackers die
    locally too: C04's subject) *)
Definition tau_ok (tau : str) (t : striple) : bool :=
  if str_eqb (sp t) tau then match so t with SN (NI _) => true | _ => false end else true.

Definition C15_dom (allow : bool) (tau : str) (G : sgraph) : bool :=
  forallb (fun t => stmt_ok allow t && tau_ok tau t) G.

(** ** 10b. the names of the class modes: the keyword removal leaves the
    instantiation property and the class names as they are, and
    all_classes_mode lists the classes of the instantiation property *)
Definition kw_unchanged (s : str) : bool := str_eqb (kw_strip s) s.

Definition C15_names_dom (c : cfg) (m : tmode15) (G : sgraph) : bool :=
  match m with
  | MClasses cl => kw_unchanged (c_tau c) && forallb kw_unchanged cl
  | MAll => kw_unchanged (c_tau c) && str_eqb (tau_all c) (c_tau c) &&
            forallb (fun t => negb (str_eqb (sp t) (rc_false (c_tau c))) || kw_unchanged (value_of_term (so t))) G
  | MShapeMap _ => true
  end.

(** ** 11. an executable set oracle: order the elements by a given ranking
    (the harness passes the order observed at [_collect_every_target_node]) *)
Definition order_by_rank (rank : list str) (l : list str) : list str :=
  filter (fun x => mem_str x l) (dedup str_eqb rank) ++ filter (fun x => negb (mem_str x rank)) l.
