(** Entry points of the C18 model: histories through the free instance.
    Separators are printable ASCII characters that cannot occur in an IRI
    (RS = backtick, US = caret, GS = backslash), so that generated case files stay
    plain string literals.

    entry "c18_run": one history per input row, one op per field
       N RS id RS shapes_ns RS examples(N|S..) RS reader-dict RS dictarg(- | D<dict> | R<idx>)
       S RS shaper RS format(c|x) RS sink(s|f) RS threshold
       P RS shaper RS sink
    output row: [dom; out_1; spec_1; store_1; out_2; spec_2; store_2; ...]
       dom      "1" iff the history is well-formed (C18_dom)
       out_k    what the model of the code answers to op k   (new | T<descr> | F<descr> | err | hang)
       spec_k   what the reference semantics answers to op k
       store_k  the caller's dictionary objects after op k, joined by GS (never written any more) *)
From Coq Require Import List Ascii String ZArith NArith Bool.
From Shexer Require Import Lib.PyStr Lib.Dict Gen.Consts Model.Table Model.Determinism Model.ShaperApi
     Model.ApiFree Spec.ApiSpec.
Import ListNotations.

Definition RS : str := Str "`".
Definition GS : str := Str "\".

Fixpoint cut_at (c : ascii) (s : str) : str * str :=
  match s with
  | [] => ([], [])
  | x :: s' => if Ascii.eqb x c then ([], s') else let '(a, b) := cut_at c s' in (x :: a, b)
  end.

Definition parse_dict (s : str) : nsd :=
  match s with
  | [] => []
  | _ => map (fun e => let '(p, n) := cut_at "="%char e in (n, p)) (split (Str ",") s)
  end.

Definition parse_nat (s : str) : nat := N.to_nat (N_of_dec s).

Definition parse_darg (s : str) : dict_arg :=
  match s with
  | c :: rest =>
    if Ascii.eqb c "D"%char then DNew (parse_dict rest)
    else if Ascii.eqb c "R"%char then DShared (parse_nat rest)
    else DNone
  | [] => DNone
  end.

Definition parse_sink (s : str) : sink_kind := if str_eqb s (Str "f") then SFile else SString.
Definition parse_fmt (s : str) : fmt := if str_eqb s (Str "x") then SHACL else ShExC.

Definition parse_op (s : str) : option fop :=
  let fs := split RS s in
  let f i := nth i fs [] in
  if str_eqb (f 0) (Str "N") then
    Some (New (mkFargs (f 1) (f 2) (match f 3 with c :: r => if Ascii.eqb c "S"%char then Some r else None | [] => None end)
                       (parse_dict (f 4)))
              (parse_darg (f 5)))
  else if str_eqb (f 0) (Str "S") then Some (Shex (parse_nat (f 1)) (parse_fmt (f 2)) (parse_sink (f 3)) (f 4))
  else if str_eqb (f 0) (Str "P") then Some (Profile (parse_nat (f 1)) (parse_sink (f 2)))
  else None.

Fixpoint parse_ops (l : list str) : list fop :=
  match l with
  | [] => []
  | s :: l' => match parse_op s with Some o => o :: parse_ops l' | None => parse_ops l' end
  end.

Definition show_outcome (o : outcome) : str :=
  match o with
  | ONew => Str "new"
  | OText t => "T"%char :: t
  | OFile t => "F"%char :: t
  | OErr => Str "err"
  | OHang => Str "hang"
  end.

Definition show_store (s : list nsd) : str := join GS (map show_dict s).

Definition f_spec := spec fargs str str fshapes str fa_ns fa_ex f_track f_reader_ns f_profile f_shex
                          f_add_examples f_shexc_lines f_shacl_text f_profile_text f_rand f_fuel.

(** outputs and the store after every op *)
Fixpoint trace (st : state fargs str str fshapes str) (h : list fop) : list (outcome * list nsd) :=
  match h with
  | [] => []
  | o :: h' => let '(st', out) := f_step st o in (out, cdicts st') :: trace st' h'
  end.

Fixpoint zip3 (a : list (outcome * list nsd)) (b : list outcome) : list str :=
  match a, b with
  | (o, s) :: a', o' :: b' => show_outcome o :: show_outcome o' :: show_store s :: zip3 a' b'
  | _, _ => []
  end.

Definition c18_run_row (r : list str) : list str :=
  let h := parse_ops r in
  bstr (f_dom h) :: zip3 (trace f_init h) (f_spec h).

Definition entry_c18 (name : str) (t : table) : option table :=
  if str_eqb name (Str "c18_run") then Some (map c18_run_row t)
  else None.
