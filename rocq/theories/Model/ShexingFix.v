(** * The shexing stage when empty shapes are removed BEFORE the constraints
    are merged (ClassShexer.shex_classes in the order _build_shapes,
    _sort_shapes, _clean_empty_shapes, _set_valid_constraints_of_shapes:
    notes/proposed_fixes/C04-choice-prune.diff; [Gen.Consts.c_clean_before_merge]
    tells which order the code has).

    In that order [_clean_empty_shapes] works on the plain candidate statements
    (one per property, type key and cardinality key that reached the
    threshold).  A candidate list is a projection of the class profile, so the
    loop is written here on the profile: a class is "empty" when none of its
    entries reaches the threshold ([class_empty]); an iteration drops the
    empty classes -- by shape NAME, as the code does -- and deletes the type
    keys equal to a dropped name from every remaining entry
    ([Profiler.remove_keys_pdict]; deleting the candidates [st] with
    [s_type st] among the names is the same thing: [base_statements] is a
    [flat_map] over the type keys, and a stable sort commutes with a filter).
    What is left goes through [shex_class] unchanged, and nothing is removed
    afterwards: [shex_class] returns no statement only for an entry without a
    candidate. *)
From Coq Require Import List Ascii String ZArith NArith Bool.
From Shexer Require Import Lib.PyStr Lib.Dict Gen.Consts Model.Profiler Model.Tokens Model.Freq Model.Shexing.
Import ListNotations.

(** the configuration with remove_empty_shapes off (the field is read by [shex] only) *)
Definition keep_cfg (cfg : scfg) : scfg :=
  {| x_tau := x_tau cfg; x_inverse := x_inverse cfg; x_shapes_ns := x_shapes_ns cfg; x_ns := x_ns cfg;
     x_remove_empty := false; x_discard_useless := x_discard_useless cfg;
     x_keep_less_specific := x_keep_less_specific cfg; x_all_compliant := x_all_compliant cfg;
     x_disable_or := x_disable_or cfg; x_allow_redundant_or := x_allow_redundant_or cfg;
     x_allow_opt := x_allow_opt cfg; x_disable_exact := x_disable_exact cfg;
     x_disable_comments := x_disable_comments cfg |}.

Section WithFreq.
  Variable fa : FreqAlg.
  Variable cfg : scfg.

  Definition cnt_in (counts : ccounts) (cls : str) : N :=
    match dget counts cls with Some n => n | None => 0%N end.

  (** the candidates of a class: as [shex_class] builds them *)
  Definition class_candidates (thr : F fa) (counts : ccounts) (ce : str * centry) : list stmt :=
    base_statements fa thr (cnt_in counts (fst ce)) false (c_direct (snd ce)) ++
    (if x_inverse cfg then base_statements fa thr (cnt_in counts (fst ce)) true (c_inverse (snd ce)) else []).

  Definition class_empty (thr : F fa) (counts : ccounts) (ce : str * centry) : bool :=
    match class_candidates thr counts ce with [] => true | _ => false end.

  (** [_detect_shapes_to_remove]: the NAMES of the shapes without statements *)
  Definition gone_names (thr : F fa) (counts : ccounts) (P : cprofile) : list str :=
    map (fun ce => shape_name (x_shapes_ns cfg) (fst ce)) (filter (class_empty thr counts) P).

  (** [_iteration_remove_empty_shapes] on candidates = on the entries they come from *)
  Definition drop_names (names : list str) (P : cprofile) : cprofile :=
    map (fun ce : str * centry =>
           (fst ce, {| c_direct := remove_keys_pdict names (c_direct (snd ce));
                       c_inverse := remove_keys_pdict names (c_inverse (snd ce)) |}))
        (filter (fun ce : str * centry => negb (mem_str (shape_name (x_shapes_ns cfg) (fst ce)) names)) P).

  Fixpoint clean_thr (fuel : nat) (thr : F fa) (counts : ccounts) (P : cprofile) : cprofile :=
    match fuel with
    | O => P
    | S f =>
      match gone_names thr counts P with
      | [] => P
      | names => clean_thr f thr counts (drop_names names P)
      end
    end.

  (** the profile the merges see *)
  Definition merged_profile (thr : F fa) (counts : ccounts) (P : cprofile) : cprofile :=
    if x_remove_empty cfg then clean_thr (S (List.length P)) thr counts P else P.

  Definition shex_f (thr : F fa) (P : cprofile) (counts : ccounts) : list shape + serr :=
    shex fa (keep_cfg cfg) thr (merged_profile thr counts P) counts.

  (** the stage as the code has it *)
  Definition shex_cur (thr : F fa) (P : cprofile) (counts : ccounts) : list shape + serr :=
    if c_clean_before_merge then shex_f thr P counts else shex fa cfg thr P counts.
End WithFreq.
