(** * Model of the streaming Turtle reader
    ([shexer/io/graph/yielder/big_ttl_triples_yielder.py], input format
    [turtle_iter]) together with the token tuning of
    [shexer/utils/triple_yielders.py] and the literal typing of
    [shexer/utils/uri.py], as the code is NOW, faults included.  Six repairs of
    the reader are recognised by [tools/gen_consts.py] as boolean flags
    ([ttl_comment_single_pass], [ttl_end_of_input_check], [ttl_base_applied_once],
    [ttl_scheme_test_nodes], [ttl_scheme_test_datatypes], [ttl_replace_once]) and
    the table [ttl_INI_BASE_URIS]; the model follows whichever shape the source has.

    Conventions: a Python [str] is its UTF-8 byte list ([Lib.PyStr]); every
    place where Python raises is an explicit [Err] with the exception class;
    [while] loops that are not obviously terminating run on fuel and return
    [Err TEHang] on exhaustion.  The generator [yield_triples] is lazy: what a
    consumer observes is the list of triples yielded before the first
    exception, then the exception -- the model returns exactly that pair.

    Not modelled (explicit outcome [TEUnmodelled], never a guess): untyped
    numeric tokens outside [+-]?digits and [+-]?digits.digits with at most 15
    digits (CPython's [float()] grammar and rounding). *)
From Coq Require Import List Ascii String ZArith Bool Lia.
From Shexer Require Import Lib.PyStr Lib.Dict Gen.Consts Spec.Rdf.
Import ListNotations.
Local Open Scope Z_scope.

(** ** outcomes *)
Inductive terr := TEValue | TEIndex | TEAttr | TERuntime | TEHang | TEUnmodelled.

Inductive res (A : Type) := Ok (a : A) | Err (e : terr).
Arguments Ok {A}.
Arguments Err {A}.

Definition bind {A B} (r : res A) (f : A -> res B) : res B :=
  match r with Ok a => f a | Err e => Err e end.
Notation "x <- r ;; k" := (bind r (fun x => k)) (at level 61, r at next level, right associativity).

(** ** string helpers (Python conventions) *)

(** [s.find(p, i)] for [0 <= i] *)
Definition find_from (p s : str) (i : Z) : Z :=
  let r := find p (skipn (Z.to_nat i) s) in
  if r <? 0 then -1 else r + i.

Definition chr_eqb (c d : ascii) : bool := Ascii.eqb c d.

Definition is_char_at (s : str) (i : Z) (c : ascii) : bool :=
  match at_idx s i with Some d => chr_eqb d c | None => false end.

Fixpoint mem_chr (c : ascii) (l : list ascii) : bool :=
  match l with [] => false | d :: l' => chr_eqb c d || mem_chr c l' end.

Definition chr_backslash : ascii := ascii_of_nat 92.
Definition s_lt : str := [ttl_iri_open].
Definition s_gt : str := ttl_iri_close.
Definition s_quote : str := [ttl_lit_open].
Definition s_blank : str := [ttl_blank].

(** ** [_clean_line] *)

(** [_OTHER_BLANKS.sub(" ", s)] : every CR, LF, TAB becomes a blank *)
Definition sub_other_blanks (s : str) : str :=
  map (fun c => if mem_chr c ttl_other_blanks then ttl_blank else c) s.

(** [_SEVERAL_BLANKS.sub(" ", s)] : every maximal run of two or more blanks
    becomes one blank (so does, trivially, a run of one) *)
Fixpoint collapse_blanks (s : str) : str :=
  match s with
  | [] => []
  | c :: s' =>
    if chr_eqb c ttl_blank then
      match s' with
      | d :: _ => if chr_eqb d ttl_blank then collapse_blanks s' else c :: collapse_blanks s'
      | [] => [c]
      end
    else c :: collapse_blanks s'
  end.

(** [_QUOTES_FOR_LITERALS.finditer]: start offsets of the leftmost,
    non-overlapping matches of the regex [^\\] QUOTE (one character other than a
    backslash, then a quote), at most [n] of them (the loop breaks after
    [count_down_quotes] matches).  [skip] = the current character was consumed
    by the previous match. *)
Fixpoint quote_scan (s : str) (i : Z) (skip : bool) (n : nat) {struct s} : list Z :=
  match n with
  | O => []
  | S n' =>
    match s with
    | c :: s' =>
      match s' with
      | d :: _ =>
        if skip then quote_scan s' (i + 1) false n
        else if negb (mem_chr c ttl_quote_not_after) && chr_eqb d ttl_quote
             then i :: quote_scan s' (i + 1) true n'
             else quote_scan s' (i + 1) false n
      | [] => []
      end
    | [] => []
    end
  end.

(** [_INIT_INLINE_COMMENT.finditer]: start offsets of every occurrence of
    [" #"] (occurrences of this pattern cannot overlap) *)
Fixpoint find_all (p s : str) (i : Z) : list Z :=
  match s with
  | [] => []
  | _ :: s' => (if prefixb p s then [i] else []) ++ find_all p s' (i + 1)
  end.

(** the second loop of [_remove_comments_if_needed]; [quotes_indexes[k]] on a
    too short list is IndexError; [or] is lazy *)
Fixpoint comment_cut (ms qs : list Z) (line : str) : res str :=
  match ms with
  | [] => Ok line
  | m :: ms' =>
    match nth_error qs 0 with
    | None => Err TEIndex
    | Some q0 =>
      if m <? q0 then Ok (slice_to line m)
      else match nth_error qs 1 with
           | None => Err TEIndex
           | Some q1 => if q1 <? m then Ok (slice_to line m) else comment_cut ms' qs line
           end
    end
  end.

(** the repaired [_remove_comments_if_needed]: one left-to-right pass; [prev] is
    [str_line[i - 1]]; the result is the index at which the line is cut *)
Definition comment_hash : ascii := match ttl_inline_comment with [_; h] => h | _ => ascii_of_nat 35 end.

Fixpoint comment_scan (s : str) (i : Z) (prev : option ascii) (in_string escaped : bool) : option Z :=
  match s with
  | [] => None
  | c :: s' =>
    if in_string then
      if escaped then comment_scan s' (i + 1) (Some c) true false
      else if mem_chr c ttl_quote_not_after then comment_scan s' (i + 1) (Some c) true true
      else if chr_eqb c ttl_quote then comment_scan s' (i + 1) (Some c) false false
      else comment_scan s' (i + 1) (Some c) true false
    else if chr_eqb c ttl_quote then comment_scan s' (i + 1) (Some c) true escaped
    else if chr_eqb c comment_hash && (0 <? i) &&
            match prev with Some p => chr_eqb p ttl_blank | None => false end
         then Some (i - 1)
         else comment_scan s' (i + 1) (Some c) false escaped
  end.

Definition remove_comments (line : str) : res str :=
  if ttl_comment_single_pass then
    match comment_scan line 0 None false false with
    | Some k => Ok (slice_to line k)
    | None => Ok line
    end
  else if negb (contains s_quote line) then Ok (slice_to line (find ttl_inline_comment line))
  else comment_cut (find_all ttl_inline_comment line 0)
                   (quote_scan line 0 false (Z.to_nat ttl_quotes_looked_for)) line.

Definition clean_line (l : str) : res str :=
  let r := strip (collapse_blanks (sub_other_blanks l)) in
  if negb (contains ttl_inline_comment r) then Ok r else remove_comments r.

(** ** tokenizer *)

Fixpoint lead_blanks (s : str) : Z :=
  match s with
  | c :: s' => if chr_eqb c ttl_blank then 1 + lead_blanks s' else 0
  | [] => 0
  end.

(** the first [while] of [_next_line_token] (terminates: the index grows up to [len]) *)
Definition skip_blanks (line : str) (i : Z) : Z := i + lead_blanks (skipn (Z.to_nat i) line).

(** [_find_next_blank]; the value returned when there is no blank is
    [len(target_str) + ttl_end_of_line_offset] (0 since fix b878913) *)
Definition find_next_blank (s : str) (i : Z) : Z :=
  let p := find_from s_blank s i in
  if p =? -1 then len s + ttl_end_of_line_offset else p.

(** [_count_prior_backslashes]: 1 + number of backslashes immediately before
    position [quote_pos - 1], scanning down to index 0 *)
Fixpoint lead_backslashes (s : str) : Z :=
  match s with
  | c :: s' => if chr_eqb c chr_backslash then 1 + lead_backslashes s' else 0
  | [] => 0
  end.

Definition count_prior_backslashes (s : str) (quote_pos : Z) : Z :=
  1 + lead_backslashes (rev (firstn (Z.to_nat (quote_pos - 1)) s)).

(** [_find_next_unescaped_quotes]; [pos] is the current result of [find] *)
Fixpoint next_unescaped (fuel : nat) (s : str) (pos : Z) : res Z :=
  match fuel with
  | O => Err TEHang
  | S f =>
    if pos =? -1 then Err TEValue
    else match at_idx s (pos - 1) with
         | None => Err TEIndex
         | Some c =>
           if negb (chr_eqb c chr_backslash) then Ok pos
           else if Z.even (count_prior_backslashes s pos) then Ok pos
           else next_unescaped f s (find_from s_quote s (pos + 1))
         end
  end.

Definition find_next_unescaped_quotes (s : str) (start : Z) : res Z :=
  next_unescaped (S (List.length s)) s (find_from s_quote s start).

(** [_find_next_quoted_literal_ending] *)
Definition find_literal_ending (s : str) (start : Z) : res Z :=
  nq <- find_next_unescaped_quotes s (start + 1) ;;
  if (len s <=? nq + 1) || is_char_at s (nq + 1) ttl_blank then Ok nq
  else match at_idx s (nq + 1) with
       | Some c => if mem_str [c] ttl_literal_suffix_chars then Ok (find_next_blank s nq - 1)
                   else Err TEValue
       | None => Err TEValue
       end.

(** [starts_with_scheme] of utils/uri.py: the regex [A-Za-z][A-Za-z0-9+.-]*: matched at the start *)
Definition scheme_alpha (c : ascii) : bool :=
  let n := nat_of_ascii c in (Nat.leb 65 n && Nat.leb n 90) || (Nat.leb 97 n && Nat.leb n 122).
Definition scheme_char (c : ascii) : bool :=
  let n := nat_of_ascii c in
  scheme_alpha c || (Nat.leb 48 n && Nat.leb n 57) || Nat.eqb n 43 || Nat.eqb n 46 || Nat.eqb n 45.
Fixpoint scheme_rest (s : str) : bool :=
  match s with
  | [] => false
  | c :: s' => if Nat.eqb (nat_of_ascii c) 58 then true else if scheme_char c then scheme_rest s' else false
  end.
Definition starts_with_scheme (s : str) : bool :=
  match s with c :: s' => scheme_alpha c && scheme_rest s' | [] => false end.

(** the absolute-IRI test of [_parse_cornered_element] / [decide_literal_type], old or repaired *)
Definition is_absolute (repaired : bool) (start s : str) : bool :=
  if repaired then starts_with_scheme s else prefixb start s.

(** [_parse_cornered_element] *)
Definition parse_cornered (b : option str) (c : str) : res str :=
  match b with
  | None => Ok c
  | Some base =>
    match at_idx c 1 with
    | None => Err TEIndex
    | Some c1 =>
      if mem_str [c1] ttl_INI_BASE_URIS then Ok (s_lt ++ base ++ slice c 2 (-1) ++ s_gt)
      else if negb (is_absolute ttl_scheme_test_nodes ttl_abs_iri_start (slice_from c 1))
           then Ok (s_lt ++ base ++ slice c 1 (-1) ++ s_gt)
      else Ok c
    end
  end.

(** [_next_line_token]: [Ok None] = [(None, None)] *)
Definition next_line_token (b : option str) (line : str) (start : Z) : res (option (str * Z)) :=
  let i := skip_blanks line start in
  if len line <=? i then Ok None
  else match at_idx line i with
       | None => Err TEIndex
       | Some c =>
         if mem_str [c] ttl_CLOSURES then Ok (Some ([c], i + 1))
         else if chr_eqb c ttl_iri_open then
           let e := find_from ttl_iri_close line i in
           if ttl_base_applied_once then Ok (Some (slice line i (e + 1), e + 1))
           else tok <- parse_cornered b (slice line i (e + 1)) ;;
                Ok (Some (tok, e + 1))
         else if chr_eqb c ttl_lit_open then
           e <- find_literal_ending line i ;;
           Ok (Some (slice line i (e + 1), e + 1))
         else
           let e := find_next_blank line i in
           Ok (Some (slice line i e, e + 1))
       end.

(** ** [_parse_elem] *)

(** [unprefixize_uri_mandatory]: first prefix (dict order) such that the
    element starts with [prefix + ":"]; [str.replace] replaces EVERY occurrence
    (old) or the first one (repaired) *)
(** [s.replace(a, b, 1)] *)
Definition replace_first (a b s : str) : str :=
  match find_nat a s with
  | Some k => firstn k s ++ b ++ skipn (k + List.length a) s
  | None => s
  end.

Definition replace_pfx (a b s : str) : str :=
  if ttl_replace_once then replace_first a b s else replace_all a b s.

Fixpoint unprefixize (raw : str) (d : list (str * str)) : res str :=
  match d with
  | [] => Err TEValue
  | (p, ns) :: d' =>
    if prefixb (p ++ ttl_prefix_sep) raw
    then Ok (s_lt ++ replace_pfx (p ++ ttl_prefix_sep) ns raw ++ s_gt)
    else unprefixize raw d'
  end.

(** what CPython's [float(tok)] does with a token, as far as it is modelled *)
Inductive numclass :=
| NumInt          (* [+-]?digits, at most 300 digits: an integral float *)
| NumDecInt       (* [+-]?digits.digits, <= 15 digits, fraction all zeros: integral *)
| NumDecFrac      (* same with a non-zero fraction digit: not integral *)
| NumNo           (* float() raises ValueError for certain *)
| NumUnmodelled.  (* anything else float() might accept *)

Definition is_digit (c : ascii) : bool :=
  let n := nat_of_ascii c in Nat.leb 48 n && Nat.leb n 57.

Definition is_sign (c : ascii) : bool := chr_eqb c "+"%char || chr_eqb c "-"%char.

(** characters that can occur in a string accepted by float(): digits, sign,
    dot, exponent marker, underscore, and the letters of inf/infinity/nan *)
Definition floatish_char (c : ascii) : bool :=
  is_digit c || is_sign c || chr_eqb c "."%char || chr_eqb c "_"%char ||
  mem_chr c (Str "eEiInNfFtTyYaA").

Definition is_ascii_graph (c : ascii) : bool :=
  let n := nat_of_ascii c in Nat.ltb 32 n && Nat.ltb n 127.

Definition all_zero (s : str) : bool := forallb (fun c => chr_eqb c "0"%char) s.

Definition num_class (tok : str) : numclass :=
  if negb (forallb is_ascii_graph tok) then NumUnmodelled
  else if negb (forallb floatish_char tok) then NumNo
  else
    let body := match tok with c :: t => if is_sign c then t else tok | [] => tok end in
    match split (Str ".") body with
    | [ip] =>
      if forallb is_digit ip && (1 <=? len ip) && (len ip <=? 300) then NumInt else NumUnmodelled
    | [ip; fp] =>
      if forallb is_digit ip && forallb is_digit fp && (1 <=? len ip + len fp) && (len ip + len fp <=? 15)
      then (if all_zero fp then NumDecInt else NumDecFrac)
      else NumUnmodelled
    | _ => NumUnmodelled
    end.

Inductive pstate := WS | WP | WO | NW.

Record st := St {
  prefixes : list (str * str);   (* insertion-ordered dict *)
  base : option str;
  state : pstate;
  tmp_s : option str;            (* None = Python None *)
  tmp_p : option str;
  tmp_o : option str
}.

Definition st0 : st := St [] None WS None None None.

Definition parse_elem (s : st) (raw : str) : res (option str) :=
  match at_idx raw 0 with
  | None => Err TEIndex
  | Some c0 =>
    if chr_eqb c0 ttl_iri_open then r <- parse_cornered (base s) raw ;; Ok (Some r)
    else if mem_str raw ttl_RDF_TYPE_CONTRACTED then Ok (Some ttl_RDF_TYPE_URI)
    else if prefixb s_quote raw then Ok (Some raw)
    else if contains ttl_prefix_sep raw then
      if prefixb ttl_bnode_start raw then Ok (Some raw)
      else r <- unprefixize raw (prefixes s) ;; Ok (Some r)
    else if mem_str raw ttl_BOOLEANS then Ok (Some raw)
    else match num_class raw with
         | NumInt | NumDecInt | NumDecFrac => Ok (Some raw)
         | NumNo => Ok None
         | NumUnmodelled => Err TEUnmodelled
         end
  end.

(** ** tuning ([utils/triple_yielders.py], [utils/uri.py]) *)

(** [remove_corners(a, raise_error_if_no_corners)] *)
Definition remove_corners (a : str) (raise_err : bool) : res str :=
  if prefixb s_lt a && suffixb s_gt a then Ok (slice a 1 (-1))
  else if raise_err then Err TEValue else Ok a.

Definition s_brackets : str := Str "[]".

(** [tune_subj(tok, raise_error_if_no_corners=False)] *)
Definition tune_subj (t : option str) : res node :=
  match t with
  | None => Err TEAttr
  | Some a =>
    if prefixb s_lt a then r <- remove_corners a false ;; Ok (Node KIri r)
    else if prefixb ttl_bnode_start a then Ok (Node KBnode a)
    else if str_eqb (strip a) s_brackets then Ok (Node KBnode a)
    else Err TEValue
  end.

(** [tune_prop(tok, raise_error_if_no_corners=False)] *)
Definition tune_prop (t : option str) : res str :=
  match t with
  | None => Err TEAttr
  | Some a => remove_corners a false
  end.

(** [there_is_arroba_after_last_quotes] *)
Definition arroba_after_last_quotes (s : str) : bool := rfind s_quote s <? rfind c_lang_marker s.

Fixpoint dt_by_prefix (tbl : list (str * Z * str)) (a : str) : option str :=
  match tbl with
  | [] => None
  | (pfx, off, ns) :: tbl' =>
    if contains pfx a then Some (ns ++ slice_from a (find pfx a + off)) else dt_by_prefix tbl' a
  end.

(** the prefixed-datatype branches of the repaired [decide_literal_type]: [a_type.startswith(pfx)] *)
Fixpoint dt_by_start (tbl : list (str * Z * str)) (t : str) : option str :=
  match tbl with
  | [] => None
  | (pfx, off, ns) :: tbl' =>
    if prefixb pfx t then Some (ns ++ slice_from t off) else dt_by_start tbl' t
  end.

(** [decide_literal_type] after repair C06-B: the kind is read from what follows the LAST quote *)
Definition decide_literal_type_sfx (a : str) (b : option str) : res str :=
  let q := rfind s_quote a in
  let suffix := if 0 <=? q then strip (slice_from a (q + 1)) else [] in
  if prefixb ttl_lang_suffix suffix then Ok c_LANG_STRING_TYPE
  else if negb (prefixb ttl_dt_suffix_marker suffix) then
    (if arroba_after_last_quotes a then Ok c_LANG_STRING_TYPE else Ok c_STRING_TYPE)
  else
    let t := slice_from suffix 2 in
    match dt_by_start ttl_dt_prefix_table t with
    | Some d => Ok d
    | None =>
      if prefixb s_lt t && suffixb s_gt t then
        let cand := slice t 1 (-1) in
        match b with
        | Some bs => if negb (is_absolute ttl_scheme_test_datatypes ttl_dt_abs_start cand)
                     then Ok (bs ++ cand) else Ok cand
        | None => Ok cand
        end
      else Err TERuntime
    end.

(** [decide_literal_type], the if/elif chain on the whole token *)
Definition decide_literal_type_chain (a : str) (b : option str) : res str :=
  if arroba_after_last_quotes a then Ok c_LANG_STRING_TYPE
  else if negb (contains ttl_typed_marker a) then Ok c_STRING_TYPE
  else match dt_by_prefix ttl_dt_prefix_table a with
       | Some d => Ok d
       | None =>
         let cand := slice a (find ttl_typed_marker a + ttl_dt_iri_offset) ttl_dt_iri_end in
         if existsb (fun ns => contains ns a) ttl_dt_namespaces then Ok cand
         else if suffixb ttl_dt_iri_close (strip a) then
           match b with
           | Some bs => if negb (is_absolute ttl_scheme_test_datatypes ttl_dt_abs_start cand)
                        then Ok (bs ++ cand) else Ok cand
           | None => Ok cand
           end
         else Err TERuntime
       end.

Definition decide_literal_type (a : str) (b : option str) : res str :=
  if ttl_dlt_from_suffix then decide_literal_type_sfx a b else decide_literal_type_chain a b.

(** [parse_literal] *)
Definition parse_literal (a : str) (b : option str) : res (str * str) :=
  let content := slice a 1 (find_from s_quote a 1) in
  dt <- decide_literal_type a b ;; Ok (content, dt).

(** [tune_token(tok, base_namespace=self._base, allow_untyped_numbers=..., raise_error_if_no_corners=False)] *)
Definition tune_token (t : option str) (b : option str) (allow_untyped_numbers : bool) : res obj :=
  match t with
  | None => Err TEAttr
  | Some a =>
    if prefixb s_lt a then r <- remove_corners a false ;; Ok (ON (Node KIri r))
    else if prefixb s_quote a then cd <- parse_literal a b ;; Ok (OL (fst cd) (snd cd))
    else if prefixb ttl_bnode_start a then Ok (ON (Node KBnode a))
    else if str_eqb (strip a) s_brackets then Ok (ON (Node KBnode a))
    else
      let unquoted := dt <- decide_literal_type a None ;; Ok (OL a dt) in
      if allow_untyped_numbers then
        match num_class a with
        | NumInt | NumDecInt => Ok (OL (strip a) c_INTEGER_TYPE)
        | NumDecFrac => Ok (OL (strip a) c_FLOAT_TYPE)
        | NumNo => unquoted
        | NumUnmodelled => Err TEUnmodelled
        end
      else unquoted
  end.

(** the tuple built at each [yield] of [yield_triples]: subject, predicate,
    object are tuned in this order, the first exception wins *)
Definition tune_triple (s : st) : res triple :=
  su <- tune_subj (tmp_s s) ;;
  pr <- tune_prop (tmp_p s) ;;
  ob <- tune_token (tmp_o s) (base s) ttl_dflt_allow_untyped_numbers ;;
  Ok (T su pr ob).

(** ** the state machine *)

Definition set_state (s : st) (x : pstate) : st :=
  St (prefixes s) (base s) x (tmp_s s) (tmp_p s) (tmp_o s).

(** [_assing_tmp_element_and_promote_state]: the state is tested before the
    token is parsed *)
Definition assign (s : st) (tok : str) : res st :=
  match state s with
  | WS => e <- parse_elem s tok ;; Ok (St (prefixes s) (base s) WP e (tmp_p s) (tmp_o s))
  | WP => e <- parse_elem s tok ;; Ok (St (prefixes s) (base s) WO (tmp_s s) e (tmp_o s))
  | WO => e <- parse_elem s tok ;; Ok (St (prefixes s) (base s) NW (tmp_s s) (tmp_p s) e)
  | NW => Err TEValue
  end.

(** state after each closure token, in the order of [_CLOSURES] = , ; . *)
Definition closure_state (tok : str) : option pstate :=
  if str_eqb tok (Str ",") then Some WO
  else if str_eqb tok (Str ";") then Some WP
  else if str_eqb tok (Str ".") then Some WS
  else None.

(** one token of [_process_line_with_potential_triples]: what is yielded
    (tuned by the consumer loop of [yield_triples] before the generator is
    resumed) and the next state *)
Definition step (s : st) (tok : str) : list triple * res st :=
  match closure_state tok with
  | Some x =>
    match tune_triple s with
    | Ok t => ([t], Ok (set_state s x))
    | Err e => ([], Err e)
    end
  | None => ([], assign s tok)
  end.

(** the [while next_token != None] loop; fuel [len(line) + 2] is never
    exhausted (each token advances the index -- except after a [<] without
    [>], which raises) *)
Fixpoint line_loop (fuel : nat) (line : str) (idx : Z) (s : st) : list triple * res st :=
  match fuel with
  | O => ([], Err TEHang)
  | S f =>
    match next_line_token (base s) line idx with
    | Err e => ([], Err e)
    | Ok None => ([], Ok s)
    | Ok (Some (tok, idx')) =>
      match step s tok with
      | (ts, Ok s') => let (ts', r) := line_loop f line idx' s' in (ts ++ ts', r)
      | (ts, Err e) => (ts, Err e)
      end
    end
  end.

Definition process_tokens_line (line : str) (s : st) : list triple * res st :=
  line_loop (S (S (List.length line))) line 0 s.

(** ** directive lines *)

(** [_process_prefix_line] *)
Definition process_prefix_line (line : str) (s : st) : res st :=
  let pieces := split s_blank line in
  match nth_error pieces 1 with
  | None => Err TEIndex
  | Some p1 =>
    let prefix := if suffixb ttl_prefix_sep p1 then slice_to p1 (-1) else p1 in
    match nth_error pieces 2 with
    | None => Err TEIndex
    | Some p2 =>
      u <- remove_corners p2 true ;;
      Ok (St (dset (prefixes s) prefix u) (base s) (state s) (tmp_s s) (tmp_p s) (tmp_o s))
    end
  end.

(** [_process_base_line] *)
Definition process_base_line (line : str) (s : st) : res st :=
  match nth_error (split s_blank line) 1 with
  | None => Err TEIndex
  | Some p1 =>
    u <- remove_corners p1 true ;;
    Ok (St (prefixes s) (Some u) (state s) (tmp_s s) (tmp_p s) (tmp_o s))
  end.

(** [_process_line_2] *)
Definition process_line (raw : str) (s : st) : list triple * res st :=
  match clean_line raw with
  | Err e => ([], Err e)
  | Ok l =>
    match l with
    | [] => ([], Ok s)
    | _ =>
      if prefixb ttl_prefix_kw l then ([], process_prefix_line l s)
      else if prefixb ttl_base_kw l then ([], process_base_line l s)
      else if prefixb ttl_comment_start l then ([], Ok s)
      else process_tokens_line l s
    end
  end.

(** [RawStringLineReader.read_lines] + the loop of [yield_triples] *)
Fixpoint process_lines (ls : list str) (s : st) : list triple * res st :=
  match ls with
  | [] => ([], Ok s)
  | l :: ls' =>
    match process_line l s with
    | (ts, Ok s') => let (ts', r) := process_lines ls' s' in (ts ++ ts', r)
    | (ts, Err e) => (ts, Err e)
    end
  end.

Definition s_newline : str := [ascii_of_nat 10].

Definition doc_lines (doc : str) : list str :=
  filter (fun l => match strip l with [] => false | _ => true end) (split s_newline doc).

(** [BigTtlTriplesYielder(raw_graph=doc).yield_triples()], consumed to the end *)
(** the repaired end-of-input check: after the last line the reader must be waiting for a subject *)
Definition end_check (r : list triple * res st) : list triple * res st :=
  match r with
  | (ts, Ok s) =>
    if ttl_end_of_input_check && negb (match state s with WS => true | _ => false end)
    then (ts, Err TEValue) else r
  | _ => r
  end.

Definition read_ttl (doc : str) : list triple * res st := end_check (process_lines (doc_lines doc) st0).
