(** * C05: the boolean domain of the text-level theorems, over what the
    serialiser receives (the completed namespaces dictionary and the shape
    list).  In words:
    - every namespace of the dictionary is non-empty, made of IRIREF
      characters and holds a character that cannot occur in a local name
      (every absolute IRI holds ':'); every prefix is a PN_PREFIX or empty;
      the prefixes are pairwise distinct;
    - every predicate, datatype and class IRI is made of IRIREF characters,
      holds ':' and does not start with '%'; when the dictionary has a
      namespace for it ([best_ns]), what follows the namespace is a PN_LOCAL
      (the property's local-name assumption);
    - every shape label and every shape-typed value is [%<iri>] with such an
      IRI; the other value types are IRI / BNode / NONLITERAL or such an IRI;
      the values of the instantiation property are IRIs;
    - a statement has at least one type; comments are statement comments
      (no raw example annotations: examples_mode off) without line breaks. *)
From Coq Require Import List Ascii String ZArith NArith Bool.
From Shexer Require Import Lib.PyStr Lib.Dict Gen.Consts Model.Tokens Model.Shexing Model.SerialShexc
     Spec.ShexcGrammar.
Import ListNotations.

Definition is_nil {A} (l : list A) : bool := match l with [] => true | _ => false end.

Definition ns_entry_ok (np : str * str) : bool :=
  negb (is_nil (fst np)) && forallb iri_char (fst np) &&
  existsb (fun c => negb (pn_char c)) (fst np) && valid_prefix (snd np).

Definition ns_ok (ns : nsdict) : bool := forallb ns_entry_ok ns && nodupb (map snd ns).

Definition local_ok (ns : nsdict) (u : str) : bool :=
  match best_ns ns u with
  | Some (n, _) => valid_local (skipn (List.length n) u)
  | None => true
  end.

Definition plain_ok (ns : nsdict) (u : str) : bool :=
  forallb iri_char u && contains (Str ":") u && negb (prefixb c_STARTING_CHAR_FOR_SHAPE_NAME u) &&
  local_ok ns u.

(** [%<u>] -> u *)
Definition strip_label (k : str) : option str :=
  match k with
  | c1 :: c2 :: r =>
    if Ascii.eqb c1 "%"%char && Ascii.eqb c2 "<"%char then
      match rev r with
      | c3 :: ur => if Ascii.eqb c3 ">"%char then Some (rev ur) else None
      | [] => None
      end
    else None
  | _ => None
  end.

Definition label_ok (ns : nsdict) (k : str) : bool :=
  match strip_label k with Some u => plain_ok ns u | None => false end.

Definition kinds : list str := [c_IRI_ELEM_TYPE; c_BNODE_ELEM_TYPE; c_NONLITERAL_ELEM_TYPE].

Definition type_ok (ns : nsdict) (t : str) : bool :=
  if prefixb c_STARTING_CHAR_FOR_SHAPE_NAME t then label_ok ns t
  else if mem_str t kinds then true
  else plain_ok ns t.

Definition comment_ok (k : comment) : bool :=
  match k with
  | KStmt _ _ _ tok _ => forallb (fun c => negb (code c =? 10)) tok
  | KRaw _ => false
  end.

Definition stmt_ok (z : sercfg) (s : stmt) : bool :=
  plain_ok (z_ns z) (s_prop s) && negb (is_nil (s_types s)) &&
  (if str_eqb (s_prop s) (z_tau z) then forallb (plain_ok (z_ns z)) (s_types s)
   else forallb (type_ok (z_ns z)) (s_types s)) &&
  forallb comment_ok (s_comments s).

Definition shape_ok (z : sercfg) (sh : shape) : bool :=
  label_ok (z_ns z) (sh_name sh) && forallb (stmt_ok z) (sh_stmts sh).

Definition C05_dom (z : sercfg) (shapes : list shape) : bool :=
  ns_ok (z_ns z) && forallb (shape_ok z) shapes.

(** the list-level closure hypotheses of W4, as booleans (for the entry that
    classifies generated runs) *)
Definition shape_types (l : list shape) : list str :=
  flat_map (fun sh => flat_map (fun st => filter (prefixb c_STARTING_CHAR_FOR_SHAPE_NAME) (s_types st)) (sh_stmts sh)) l.

Definition refs_closedb (l : list shape) : bool :=
  forallb (fun k => mem_str k (map sh_name l)) (shape_types l).

Definition labels_nodupb (l : list shape) : bool := nodupb (map sh_name l).
