(** * The whole extraction when the targets are given by a SHAPE MAP
    (shape_map_raw / shape_map_file, alone or next to all_classes_mode), or --
    the same glue -- by any other target specification [tspec] of C10:
    Shaper(...).shex_graph(string_output=True) for ShExC output.

    Anchors (all under /repo/shexer):
    - shaper.py  [Shaper.__init__] (checks, instantiation property, shapes
      namespace, [get_shape_map_if_needed]), [_launch_instance_tracker],
      [_launch_class_profiler], [_launch_class_shexer], [_build_shapes_serializer]
    - utils/factories/instance_tracker_factory.py  [get_instance_tracker]
    - utils/factories/class_profiler_factory.py    [get_class_profiler]
      ([original_target_classes] = the tuned [target_classes] LIST, [None] for a
      class file; [original_shape_map] = the built shape map)
    - utils/factories/class_shexer_factory.py      [get_class_shexer]
    - utils/target_elements.py  [determine_original_target_nodes_if_needed]
      (the labels of the items, as the label parser returned them)
    - core/profiling/class_profiler.py  [_clean_class_profile]
    - core/shexing/class_shexer.py      [_clean_empty_shapes]

    Stages: [Selectors.run] (C10's validated model of the constructor's checks,
    the shape-map parsers and the three instance trackers) gives the instances
    dictionary [node -> keys], a key being a class IRI or a label [<iri>];
    [Profiler.profile] with [p_map_labels] = the labels of the items;
    [ShexingFix.shex_cur] (= [Shexing.shex], or [ShexingFix.shex_f] once
    ClassShexer removes the empty shapes before the merges: the generated flag
    [c_clean_before_merge] tells); [SerialShexc.render].  Nothing of the pipeline is
    re-modelled here: the three stages are the frozen, validated definitions.

    What the record [rcfg] contributes: the inference switches, the report
    mode, remove_empty_shapes, inverse_paths.  Its fields [r_tau], [r_ns],
    [r_targets] are NOT read (the specification [tspec] carries the
    instantiation property, the namespaces and the targets as the user wrote
    them); [r_shapes_ns] and [r_cap] are not read either: C10's tracker model
    covers the default shapes namespace and instances_cap <= 0, and so does this
    run (the correspondence check generates nothing else).

    The instantiation property reaches the three stages in two forms, as in
    the code: [Shaper.__init__] un-prefixes it ([tau_shaper]); the trackers and
    the profiler also strip '<' '>' ([Selectors.tau_of]), ClassShexer and the
    serialiser do not ([str(instantiation_property)]). *)
From Coq Require Import List Ascii String ZArith NArith Bool.
From Shexer Require Import Lib.PyStr Lib.Dict Gen.Consts Spec.Rdf Model.Tracker Model.Profiler
     Model.Tokens Model.Freq Model.Shexing Model.ShexingFix Model.SerialShexc Model.Run.
From Shexer Require Model.Selectors.
Import ListNotations.


(** where the exception comes from *)
Inductive merr :=
| MECtor (e : Selectors.exn)        (* raised by Shaper(...) *)
| METrack (e : Selectors.exn)       (* raised by _launch_instance_tracker() *)
| MERun (e : rerr).         (* profiler, shexing stage, serialiser; [RERandom] = no priority prefix is free *)

(** [self._instantiation_property] of the Shaper (user's prefixes only) *)
Definition tau_shaper (sp : Selectors.tspec) : str :=
  Selectors.unprefixize_uri_if_possible (Selectors.sp_tau sp) (Selectors.reverse_keys_and_values (Selectors.sp_ns sp)) false.

(** the prefix dictionary every parser of the run sees *)
Definition pd_run (orc : Selectors.oracles) (sp : Selectors.tspec) : Selectors.pdict :=
  Selectors.reverse_keys_and_values (Selectors.ns_with_shapes orc sp).

(** the items of the built shape map ([Shaper._built_shape_map]) *)
Definition map_items (orc : Selectors.oracles) (sp : Selectors.tspec) : list Selectors.pitem :=
  match Selectors.parse_smap orc (pd_run orc sp) (Selectors.sp_smap sp) with
  | Selectors.Ok (Some its) => its
  | _ => []
  end.

(** [determine_original_target_nodes_if_needed]: [an_item.shape_label] *)
Definition map_labels (orc : Selectors.oracles) (sp : Selectors.tspec) : list str :=
  map Selectors.pi_label (map_items orc sp).

(** [get_class_profiler]: [original_target_classes] *)
Definition prof_targets (orc : Selectors.oracles) (sp : Selectors.tspec) : Selectors.res (option (list str)) :=
  match Selectors.sp_classes sp with
  | Selectors.CList l => Selectors.bind (Selectors.tune_target_classes l (pd_run orc sp)) (fun t => Selectors.Ok (Some t))
  | _ => Selectors.Ok None
  end.

Definition pcfg_map (c : rcfg) (orc : Selectors.oracles) (sp : Selectors.tspec) (targets : option (list str)) : pcfg :=
  {| p_tau := Selectors.tau_of sp; p_inverse := r_inverse c; p_remove_empty := r_remove_empty c;
     p_targets := targets; p_map_labels := map_labels orc sp |}.

Definition scfg_map (c : rcfg) (sp : Selectors.tspec) (ns : nsdict) : scfg :=
  {| x_tau := tau_shaper sp; x_inverse := r_inverse c; x_shapes_ns := dflt_shapes_namespace; x_ns := ns;
     x_remove_empty := r_remove_empty c; x_discard_useless := r_discard_useless c;
     x_keep_less_specific := r_keep_less_specific c; x_all_compliant := r_all_compliant c;
     x_disable_or := r_disable_or c; x_allow_redundant_or := r_allow_redundant_or c;
     x_allow_opt := r_allow_opt c; x_disable_exact := r_disable_exact c;
     x_disable_comments := r_disable_comments c |}.

Definition zcfg_map (c : rcfg) (sp : Selectors.tspec) (ns : nsdict) : sercfg :=
  {| z_ns := ns; z_tau := tau_shaper sp; z_disable_comments := r_disable_comments c; z_mode := r_mode c |}.

Definition merr_of_p (e : perr) : merr :=
  match e with PEAttr => MERun REAttr | PEType => MERun REType end.

Section RunMap.
  Variable fa : FreqAlg.

  (** the shapes (tracker, profiler, shexing stage) *)
  Definition run_shapes_map (c : rcfg) (orc : Selectors.oracles) (sp : Selectors.tspec) (thr : F fa) (g : graph)
    : (nsdict * list shape) + merr :=
    (* [Shaper._check_or_config] *)
    if r_disable_or c && r_allow_redundant_or c then inr (MECtor Selectors.ExValue)
    else
    (* [_add_shapes_namespaces_to_namespaces_dict]: the random-prefix branch is outside the model *)
    match Selectors.find_adequate_prefix (Selectors.sp_ns sp) with
    | None => inr (MERun RERandom)
    | Some _ =>
      let ns := Selectors.ns_with_shapes orc sp in
      match Selectors.run orc sp g with
      | Selectors.OCtorErr e => inr (MECtor e)
      | Selectors.OTrackErr e => inr (METrack e)
      | Selectors.OOk ins =>
        match prof_targets orc sp with
        | Selectors.Err _ => inr (MERun REValue)          (* [get_class_profiler] tunes the class list again *)
        | Selectors.Ok targets =>
          match profile (pcfg_map c orc sp targets) ins g with
          | inr e => inr (merr_of_p e)
          | inl (P, C, _) =>
            match shex_cur fa (scfg_map c sp ns) thr P C with
            | inr e => inr (MERun (rerr_of_s e))
            | inl shapes => inl (ns, shapes)
            end
          end
        end
      end
    end.

  Definition run_shexc_map (c : rcfg) (orc : Selectors.oracles) (sp : Selectors.tspec) (thr : F fa) (g : graph) : str + merr :=
    match run_shapes_map c orc sp thr g with
    | inr e => inr e
    | inl (ns, shapes) =>
      match render (zcfg_map c sp ns) shapes with
      | Some t => inl t
      | None => inr (MERun REValue)
      end
    end.
End RunMap.
