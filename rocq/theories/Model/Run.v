(** * The whole extraction: Shaper(...).shex_graph(...) for ShExC output
    (shexer/shaper.py glue around tracker, profiler, shexer, serialiser). *)
From Coq Require Import List Ascii String ZArith NArith Bool.
From Shexer Require Import Lib.PyStr Lib.Dict Gen.Consts Spec.Rdf Model.Tracker Model.Profiler
     Model.Tokens Model.Freq Model.Shexing Model.SerialShexc.
Import ListNotations.

(** [find_adequate_prefix_for_shapes_namespaces]: the first priority prefix
    not among the user's prefixes; [None] = the random fallback (oracle) *)
Definition shapes_prefix (ns : nsdict) : option str :=
  List.find (fun p => negb (mem_str p (map snd ns))) c_PRIORITY_PREFIXES_FOR_SHAPES.

Record rcfg := {
  r_tau : str;                      (* instantiation property, full IRI *)
  r_targets : option (list str);    (* tuned target classes; None = all_classes_mode *)
  r_ns : nsdict;                    (* the caller's namespaces dictionary *)
  r_shapes_ns : str;
  r_cap : Z;
  r_inverse : bool;
  r_remove_empty : bool;
  r_discard_useless : bool;
  r_keep_less_specific : bool;
  r_all_compliant : bool;
  r_disable_or : bool;
  r_allow_redundant_or : bool;
  r_allow_opt : bool;
  r_disable_exact : bool;
  r_disable_comments : bool;
  r_mode : freq_mode
}.

Inductive rerr := REAttr | REType | REValue | REZeroDiv | RERandom.

Definition rerr_of_s (e : serr) : rerr :=
  match e with SEAttr => REAttr | SEType => REType | SEValue => REValue | SEZeroDiv => REZeroDiv end.

(** [Shaper.__init__]: [namespaces_dict[shapes_namespace] = prefix] *)
Definition full_ns (c : rcfg) : option nsdict :=
  match shapes_prefix (r_ns c) with
  | Some p => Some (dset (r_ns c) (r_shapes_ns c) p)
  | None => None
  end.

Definition scfg_of (c : rcfg) (ns : nsdict) : scfg :=
  {| x_tau := r_tau c; x_inverse := r_inverse c; x_shapes_ns := r_shapes_ns c; x_ns := ns;
     x_remove_empty := r_remove_empty c; x_discard_useless := r_discard_useless c;
     x_keep_less_specific := r_keep_less_specific c; x_all_compliant := r_all_compliant c;
     x_disable_or := r_disable_or c; x_allow_redundant_or := r_allow_redundant_or c;
     x_allow_opt := r_allow_opt c; x_disable_exact := r_disable_exact c;
     x_disable_comments := r_disable_comments c |}.

Definition pcfg_of (c : rcfg) : pcfg :=
  {| p_tau := r_tau c; p_inverse := r_inverse c; p_remove_empty := r_remove_empty c;
     p_targets := r_targets c; p_map_labels := [] |}.

Section Run.
  Variable fa : FreqAlg.

  (** the shapes (stages 1-3) *)
  Definition run_shapes (c : rcfg) (thr : F fa) (g : graph) : (nsdict * list shape) + rerr :=
    match full_ns c with
    | None => inr RERandom
    | Some ns =>
      match track (r_tau c) (match r_targets c with Some l => TClasses l | None => TAll end) (r_cap c) g with
      | inr _ => inr REAttr
      | inl ins =>
        match profile (pcfg_of c) ins g with
        | inr PEAttr => inr REAttr
        | inr PEType => inr REType
        | inl (P, C, _) =>
          match shex fa (scfg_of c ns) thr P C with
          | inr e => inr (rerr_of_s e)
          | inl shapes => inl (ns, shapes)
          end
        end
      end
    end.

  Definition run_shexc (c : rcfg) (thr : F fa) (g : graph) : str + rerr :=
    match run_shapes c thr g with
    | inr e => inr e
    | inl (ns, shapes) =>
      match render {| z_ns := ns; z_tau := r_tau c; z_disable_comments := r_disable_comments c;
                      z_mode := r_mode c |} shapes with
      | Some t => inl t
      | None => inr REValue
      end
    end.
End Run.
