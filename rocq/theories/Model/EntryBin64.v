(** Entry point exposing the binary64 model [Lib/Bin64.v] to the harness
    (validation against CPython's float arithmetic, harness/vp/bin64check.py).

    entry "bin64": one output row per input row [op; a; b; c; d] (decimal
    integers, [0 <= a, c] and [0 < b, d]):
      "div" -> [num; den] of [div64 a b]                      (float(a)/float(b))
      "add" -> [num; den] of [add64 (div64 a b) (div64 c d)]  (float(a)/float(b) + float(c)/float(d))
      "cmp" -> [le; eq]   of [div64 a b] against [div64 c d]  (<= and == on the two quotients) *)
From Coq Require Import List Ascii String ZArith Bool.
From Shexer Require Import Lib.PyStr Lib.Bin64 Model.Table.
Import ListNotations.

Definition frac_row (x : frac) : list str := [dec_of_Z (fst x); dec_of_Z (snd x)].

Definition bin64_row (r : list str) : list str :=
  let op := fld r 0 in
  let x := div64 (fZ r 1) (fZ r 2) in
  let y := div64 (fZ r 3) (fZ r 4) in
  if str_eqb op (Str "div") then frac_row x
  else if str_eqb op (Str "add") then frac_row (add64 x y)
  else if str_eqb op (Str "cmp") then [bstr (fle64 x y); bstr (feq64 x y)]
  else [Str "bad-op"].

Definition entry_bin64 (name : str) (t : table) : option table :=
  if str_eqb name (Str "bin64") then Some (map bin64_row t)
  else None.
