(** Entry point of the shape-map extraction model ([Model.RunMap]).

    input table = the rows of [Model.EntryPipe] plus the target-specification
    rows of [Model.EntryC10] (c10_raw):
      row 0            the configuration row of EntryPipe (fields 0 tau and 1 all_classes, 2 shapes_ns
                       and 3 cap are not read: see Model/RunMap.v)
      ["N"; namespace; prefix]   the caller's namespaces dictionary, in order
      ["T"; sk; sid; p; ok; oid-or-content; dt]   the triples of the document, in order
      ["cfg"; tau as passed; all_classes 0/1; N|L|F; N|fsm|json; disambiguation counter]
      ["cl"; name] | ["clfile"; content]          target_classes | content of file_target_classes
      ["smraw"; text] | ["smjson"; selector; label]   the shape map
      ["bn"; label; rdflib id]  ["wf"; query; 0/1]  ["ans"; query; kind; id; dt]   the oracles of C10
    output: [["ok"; text]] | [["err"; ctor|track|run; exception class]] *)
From Coq Require Import List Ascii String ZArith NArith Bool.
From Shexer Require Import Lib.PyStr Lib.Dict Gen.Consts Spec.Rdf Model.Table Model.Tracker Model.Profiler
     Model.Tokens Model.Freq Model.FreqInst Model.Shexing Model.SerialShexc Model.Run Model.EntryPipe Model.RunMap.
From Shexer Require Model.Selectors Model.EntryC10.
Import ListNotations.


Definition tspec_of (t : table) : Selectors.tspec * str :=
  let cfg := nth 0 (EntryC10.rows_tagged (Str "cfg") t) [] in
  let cmode := fld cfg 3 in
  let fmt := fld cfg 4 in
  ({| Selectors.sp_ns := ns_of t;
      Selectors.sp_tau := fld cfg 1;
      Selectors.sp_classes := if EntryC10.tagis cmode "L" then Selectors.CList (map (fun r => fld r 1) (EntryC10.rows_tagged (Str "cl") t))
                      else if EntryC10.tagis cmode "F" then Selectors.CFile (fld (nth 0 (EntryC10.rows_tagged (Str "clfile") t) []) 1)
                      else Selectors.CNone;
      Selectors.sp_all := fbool cfg 2;
      Selectors.sp_smap := if EntryC10.tagis fmt "fsm" then Selectors.SMFixed (fld (nth 0 (EntryC10.rows_tagged (Str "smraw") t) []) 1)
                   else if EntryC10.tagis fmt "json"
                        then Selectors.SMJson (map (fun r => (fld r 1, fld r 2)) (EntryC10.rows_tagged (Str "smjson") t))
                        else Selectors.SMNone |}, fld cfg 5).

Definition merr_rows (e : merr) : table :=
  match e with
  | MECtor x => [[Str "err"; Str "ctor"; EntryC10.enc_exn x]]
  | METrack x => [[Str "err"; Str "track"; EntryC10.enc_exn x]]
  | MERun x => [[Str "err"; Str "run"; rerr_str x]]
  end.

Definition pipe_shexc_map (t : table) : table :=
  let '(sp, dis0) := tspec_of t in
  match run_shexc_map BAlg (rcfg_of t) (EntryC10.dec_oracles t dis0) sp (thr_of t) (graph_of t) with
  | inl text => [[Str "ok"; text]]
  | inr e => merr_rows e
  end.

(** the instances dictionary the run starts from (for the dictionary-level monitor of the check) *)
Definition pipe_map_insts (t : table) : table :=
  let '(sp, dis0) := tspec_of t in
  EntryC10.enc_outcome (Selectors.run (EntryC10.dec_oracles t dis0) sp (graph_of t)).

Definition entry_runmap (name : str) (t : table) : option table :=
  if str_eqb name (Str "pipe_shexc_map") then Some (pipe_shexc_map t)
  else if str_eqb name (Str "pipe_map_insts") then Some (pipe_map_insts t)
  else None.
