(** * Entry points used by the correspondence check.

    Every model function the harness runs is reached through [entry name
    table]: a table (rows of byte-string fields) in, a table out.  The same
    function is evaluated by [vm_compute] inside Coq (generated case files)
    and by the extracted OCaml binary; the decoders are glue, executed
    identically on both paths.  Each model family registers an
    [entry_xxx : str -> table -> option table] here. *)

From Coq Require Import List Ascii String ZArith Bool.
From Shexer Require Import Lib.PyStr Model.Table Model.EntryC20 Model.EntryPipe.
From Shexer Require Import Model.EntryBin64.
From Shexer Require Import Model.EntryC17.
From Shexer Require Import Model.EntryC11.
From Shexer Require Import Model.EntryC10.
From Shexer Require Import Model.EntryC16.
From Shexer Require Import Model.EntryC05.
From Shexer Require Import Model.EntryC18.
From Shexer Require Import Model.EntryC19.
From Shexer Require Import Model.EntryC08 Model.EntryC07 Model.EntryC03 Model.EntryC15.
From Shexer Require Import Model.EntryC06.
From Shexer Require Import Model.EntryShaclDoc.
From Shexer Require Import Model.EntryRunDecor.
From Shexer Require Import Model.EntryRunMap.
From Shexer Require Import Model.EntryProfile.
From Shexer Require Import Model.EntryRunMapShacl.
Import ListNotations.

Definition entries : list (str -> table -> option table) :=
  [entry_c20; entry_pipe; entry_bin64; entry_c17; entry_c11; entry_c10; entry_c16; entry_c05; entry_c18; entry_c19; entry_c08; entry_c07; entry_c07b; entry_c03; entry_c15; entry_c06; entry_shacldoc; entry_rundecor; entry_runmap; entry_profile; entry_runmapshacl].

Fixpoint dispatch (l : list (str -> table -> option table)) (name : str) (t : table) : table :=
  match l with
  | [] => [[Str "unknown-entry"]]
  | e :: l' => match e name t with Some r => r | None => dispatch l' name t end
  end.

Definition entry (name : str) (t : table) : table := dispatch entries name t.

(** comparison used by generated case files: indices of disagreeing cases *)
Fixpoint table_eqb (a b : table) : bool :=
  match a, b with
  | [], [] => true
  | r1 :: a', r2 :: b' =>
    (fix rows (x y : list str) : bool :=
       match x, y with
       | [], [] => true
       | f1 :: x', f2 :: y' => str_eqb f1 f2 && rows x' y'
       | _, _ => false
       end) r1 r2 && table_eqb a' b'
  | _, _ => false
  end.

Fixpoint mismatches_from (i : nat) (cases : list (str * table * table)) : list nat :=
  match cases with
  | [] => []
  | (name, input, expected) :: rest =>
    if table_eqb (entry name input) expected then mismatches_from (S i) rest
    else i :: mismatches_from (S i) rest
  end.

Definition mismatches := mismatches_from 0.
