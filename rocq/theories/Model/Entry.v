(** * Entry points used by the correspondence check.

    Every model function the harness runs is reached through [entry name
    table]: a table (rows of byte-string fields) in, a table out.  The same
    function is evaluated by [vm_compute] inside Coq (generated [cases_*.v])
    and by the extracted OCaml binary; the decoders below are glue, executed
    identically on both paths. *)

From Coq Require Import List Ascii String ZArith Bool.
From Shexer Require Import Lib.PyStr Gen.Consts Model.Config.
Import ListNotations.

Definition table := list (list str).

Definition fld (r : list str) (i : nat) : str := nth i r [].
Definition fbool (r : list str) (i : nat) : bool := str_eqb (fld r i) (Str "1").
(** option: "N" = None, "S..." = Some ... *)
Definition fopt (r : list str) (i : nat) : option str :=
  match fld r i with
  | c :: rest => if Ascii.eqb c "S"%char then Some rest else None
  | [] => None
  end.
Definition fZ (r : list str) (i : nat) : Z := Z_of_dec (fld r i).

Definition outcome_str (o : outcome) : str :=
  match o with
  | Accept => Str "accept"
  | RejectValueError => Str "ValueError"
  | ObscureFailure => Str "obscure"
  end.

Definition c20_ctor_row (r : list str) : list str :=
  let c := {| src_graph_file := fbool r 0; src_list_of_files := fbool r 1; src_raw_graph := fbool r 2;
              src_url_graph := fbool r 3; src_list_of_url := fbool r 4; src_url_endpoint := fbool r 5;
              src_rdflib_graph := fbool r 6;
              tgt_target_classes := fbool r 7; tgt_file_target_classes := fbool r 8;
              tgt_shape_map_file := fbool r 9; tgt_shape_map_raw := fbool r 10;
              all_classes_mode := fbool r 11;
              input_format := fld r 12; compression_mode := fopt r 13; examples_mode := fopt r 14;
              disable_or_statements := fbool r 15; allow_redundant_or := fbool r 16 |} in
  [outcome_str (ctor c)].

Definition c20_call_row (r : list str) : list str :=
  let k := {| string_output := fbool r 0; has_output_file := fbool r 1; has_uml_path := fbool r 2;
              output_format := fld r 3; thr_num := fZ r 4; thr_den := fZ r 5 |} in
  [outcome_str (call k)].

Definition entry (name : str) (t : table) : table :=
  if str_eqb name (Str "c20_ctor") then map c20_ctor_row t
  else if str_eqb name (Str "c20_call") then map c20_call_row t
  else [[Str "unknown-entry"]].

(** comparison used by generated case files: indices of disagreeing cases *)
Fixpoint table_eqb (a b : table) : bool :=
  match a, b with
  | [], [] => true
  | r1 :: a', r2 :: b' =>
    (fix rows (x y : list str) : bool :=
       match x, y with
       | [], [] => true
       | f1 :: x', f2 :: y' => str_eqb f1 f2 && rows x' y'
       | _, _ => false
       end) r1 r2 && table_eqb a' b'
  | _, _ => false
  end.

Fixpoint mismatches_from (i : nat) (cases : list (str * table * table)) : list nat :=
  match cases with
  | [] => []
  | (name, input, expected) :: rest =>
    if table_eqb (entry name input) expected then mismatches_from (S i) rest
    else i :: mismatches_from (S i) rest
  end.

Definition mismatches := mismatches_from 0.
