(** * Model of the streaming N-Triples reader
    (shexer/io/graph/yielder/nt_triples_yielder.py, shexer/utils/triple_yielders.py,
    shexer/utils/uri.py, shexer/io/line_reader/{raw_string,file}_line_reader.py).

    The functions follow the Python code statement by statement, with the
    index arithmetic as written (indices are [Z], Python conventions of
    [Lib.PyStr]).  Faults are outcomes: every place where Python raises is a
    [Raise] with the exception class, the two [while] loops run on explicit
    fuel and fuel exhaustion is [Hang].

    Fuel.  [_look_for_tokens] is a deterministic loop whose control state is
    the single integer [current_first_index] (the token list is only
    appended to), and the inner quote loop's control state is
    [index_of_quotes]; a terminating run therefore never visits a value of
    that integer twice, so it makes at most [len + 1] iterations.  The fuel
    [2 * len + 8] is never exhausted by a terminating run: [Hang] means the
    Python loop does not terminate.

    Byte model.  A Python [str] is the list of its UTF-8 bytes.  Every
    character the code searches for or compares with is ASCII, every offset
    it adds is relative to an ASCII character, so the same substrings are
    cut.  The two places where Python drops "the last character" with a
    [-1] slice bound use [drop_last_cp] (drops one code point).  One
    expression of the code adds a length measured in one string to an index
    found in another one (typed branch of
    [_look_for_last_index_of_literal_token]: a length in [target_substring]
    plus [target_str.find]); there the length is counted in code points and
    re-measured in bytes from the found position ([cp_advance]), which is
    what Python's character arithmetic does.
    Modelled, not verified: [str.isnumeric()] is true exactly for the ASCII
    digits (non-ASCII numeric code points such as U+00B2 are outside the
    model); [str.strip()] strips ASCII white space only; with
    [allow_untyped_numbers=True], [float()] is modelled for tokens of the
    form digits, optionally followed by a dot and digits, with fewer than 15
    digits only. *)

From Coq Require Import List Ascii String ZArith Bool Lia.
From Shexer Require Import Lib.PyStr Gen.Consts.
Import ListNotations.
Local Open Scope Z_scope.

Inductive exn := EIndex | EValue | ERuntime.

Inductive res (A : Type) : Type :=
| Ok (a : A)
| Raise (e : exn)
| Hang.
Arguments Ok {A} a.
Arguments Raise {A} e.
Arguments Hang {A}.

Definition bind {A B} (r : res A) (f : A -> res B) : res B :=
  match r with Ok a => f a | Raise e => Raise e | Hang => Hang end.

(** ** constants of the Python source (Gen.Consts) *)
Definition ch (s : str) : ascii := hd Ascii.zero s.
Definition ch_uri : ascii := ch (nth 0 nt_dispatch_chars []).     (* "<" *)
Definition ch_lit : ascii := ch (nth 1 nt_dispatch_chars []).     (* double quote *)
Definition ch_bnode : ascii := ch (nth 2 nt_dispatch_chars []).   (* "_" *)
Definition ch_dot : ascii := ch (nth 3 nt_dispatch_chars []).     (* "." *)

Definition s_gt : str := Str ">".
Definition s_quote : str := [ch_lit].
Definition ch_backslash : ascii := "\"%char.

(** ** small additions on strings *)

(** [s.find(p, start)] for [0 <= start] *)
Definition find_from (p s : str) (start : Z) : Z :=
  if len s <? start then -1
  else let r := find p (slice_from s start) in if r <? 0 then -1 else r + start.

(** drop the last code point (Python [s[:-1]] seen on UTF-8 bytes) *)
Fixpoint drop_conts (r : str) : str :=
  match r with
  | c :: r' => if is_cont c then drop_conts r' else r
  | [] => []
  end.
Definition drop_last_cp (s : str) : str := rev (tl (drop_conts (rev s))).

(** [s[a:e]] where a negative [e] other than [-1] never occurs in the code *)
Definition slice_cp (s : str) (a e : Z) : str :=
  if e =? -1 then drop_last_cp (slice_from s a) else slice s a e.

(** drop [n] code points from the front (a lead byte and its continuation bytes) *)
Fixpoint drop_cps (n : nat) (s : str) : str :=
  match n with
  | O => s
  | S n' => match s with [] => [] | _ :: s' => drop_cps n' (drop_conts s') end
  end.

(** [s[i + k : e]] where [i] is a byte index returned by a search and [k] a
    number of characters (code points) added to it by the code *)
Definition slice_cp_off (s : str) (i k e : Z) : str :=
  let r := drop_cps (Z.to_nat k) (slice_from s i) in
  if e =? -1 then drop_last_cp r else slice r 0 e.

Definition is_ascii_digit (c : ascii) : bool :=
  let n := nat_of_ascii c in Nat.leb 48 n && Nat.leb n 57.

(** ** [NtTriplesYielder._index_of_token_end] *)
Definition is_blank (c : ascii) : bool := existsb (Ascii.eqb c) nt_blank_chars.

Fixpoint first_blank (s : str) : option nat :=
  match s with
  | [] => None
  | c :: s' => if is_blank c then Some O
               else match first_blank s' with Some n => Some (S n) | None => None end
  end.

Definition index_of_token_end (s : str) : Z :=
  match first_blank s with
  | Some n => Z.of_nat n
  | None => if suffixb nt_statement_end s then len s - 1 else len s
  end.

(** the same, counted in code points *)
Definition index_of_token_end_cp (s : str) : Z :=
  match first_blank s with
  | Some n => pylen (firstn n s)
  | None => if suffixb nt_statement_end s then pylen s - 1 else pylen s
  end.

(** number of bytes taken by the first [n] code points of [s] ([s] begins at a
    code-point boundary); one more per code point that [s] does not have *)
Fixpoint cp_advance (s : str) (n : nat) : nat :=
  match s with
  | [] => n
  | c :: s' => if is_cont c then S (cp_advance s' n)
               else match n with O => O | S n' => S (cp_advance s' n') end
  end.

(** ** the four [_look_for_last_index_of_*] methods *)
Definition last_index_uri (t : str) (i : Z) : Z :=
  let sub := slice_from t i in
  find s_gt sub + (len t - len sub).

Definition last_index_bnode (t : str) (i : Z) : Z :=
  let sub := slice_from t i in
  index_of_token_end sub + (len t - len sub) - 1.

Definition last_index_number (t : str) (i : Z) : Z :=
  let sub := slice_from t i in
  index_of_token_end sub + (len t - len sub) - 1.

(** [shexer.utils.uri.there_is_arroba_after_last_quotes] *)
Definition arroba_after_last_quotes (s : str) : bool :=
  rfind c_lang_marker s >? rfind (Str """") s.

(** the [while not success] loop of the untyped branch; state = index_of_quotes *)
Fixpoint quotes_loop (fuel : nat) (sub : str) (q : Z) : res Z :=
  match fuel with
  | O => Hang
  | S f =>
    let q2 := find s_quote (slice_from sub (q + 1)) + q + 1 in
    match at_idx sub (q2 - 1) with
    | None => Raise EIndex
    | Some c1 =>
      if negb (Ascii.eqb c1 ch_backslash) then Ok q2
      else match at_idx sub (q2 - 2) with
           | None => Raise EIndex
           | Some c2 => if Ascii.eqb c2 ch_backslash then Ok q2 else quotes_loop f sub q2
           end
    end
  end.

Definition last_index_literal (t : str) (i : Z) : res Z :=
  let sub := slice_from t i in
  if arroba_after_last_quotes sub then
    Ok (index_of_token_end (slice_from sub (rfind nt_lit_lang_marker sub)) - 1 + rfind nt_lit_lang_marker t)
  else if negb (contains nt_lit_type_marker sub) then
    bind (quotes_loop (2 * List.length sub + 8) sub 1) (fun q => Ok (q + (len t - len sub)))
  else
    (* Python: _index_of_token_end(sub[sub.find("^^"):]) - 1 + target_str.find("^^"), in characters *)
    let n := index_of_token_end_cp (slice_from sub (find nt_lit_type_marker sub)) in
    let fb := find nt_lit_type_marker t in
    Ok (fb + Z.of_nat (cp_advance (slice_from t fb) (Z.to_nat n)) - 1).

(** ** [_look_for_tokens]; [acc] holds the tokens found so far, latest first *)
Fixpoint look_loop (fuel : nat) (line : str) (i : Z) (acc : list str) : res (list str) :=
  match fuel with
  | O => Hang
  | S f =>
    if i =? len line then Ok (rev acc)
    else match at_idx line i with
         | None => Raise EIndex
         | Some c =>
           if Ascii.eqb c ch_uri then
             let last := last_index_uri line i in
             look_loop f line (last + 1) (slice line i (last + 1) :: acc)
           else if Ascii.eqb c ch_lit then
             match last_index_literal line i with
             | Ok last => look_loop f line (last + 1) (slice line i (last + 1) :: acc)
             | Raise e => Raise e
             | Hang => Hang
             end
           else if Ascii.eqb c ch_bnode then
             let last := last_index_bnode line i in
             look_loop f line (last + 1) (slice line i (last + 1) :: acc)
           else if Ascii.eqb c ch_dot then Ok (rev acc)
           else if is_ascii_digit c then
             let last := last_index_number line i in
             look_loop f line (last + 1) (slice line i (last + 1) :: acc)
           else look_loop f line (i + 1) acc
         end
  end.

Definition line_fuel (line : str) : nat := 2 * List.length line + 8.

Definition look_for_tokens (line : str) : res (list str) :=
  look_loop (line_fuel line) line 0 [].

(** ** shexer.utils.uri *)
Definition remove_corners (a : str) : res str :=
  if prefixb (Str "<") a && suffixb (Str ">") a then Ok (slice a 1 (-1)) else Raise EValue.

Fixpoint first_prefix (tbl : list (str * Z * str)) (a : str) : option (str * Z * str) :=
  match tbl with
  | [] => None
  | (p, k, ns) :: tbl' => if contains p a then Some (p, k, ns) else first_prefix tbl' a
  end.

Definition decide_literal_type (a : str) : res str :=
  if arroba_after_last_quotes a then Ok c_LANG_STRING_TYPE
  else if negb (contains dlt_typed_marker a) then Ok c_STRING_TYPE
  else match first_prefix dlt_prefix_table a with
       | Some (p, k, ns) => Ok (ns ++ slice_cp_off a (find p a) k (len a))
       | None =>
         if existsb (fun ns => contains ns a) dlt_namespaces then
           Ok (slice_cp_off a (find dlt_typed_marker a) dlt_type_offset dlt_type_end)
         else if suffixb dlt_closing (strip a) then
           Ok (slice_cp_off a (find dlt_typed_marker a) dlt_type_offset dlt_type_end)
         else Raise ERuntime
       end.

Inductive term := TIri (s : str) | TBn (s : str) | TLit (content dt : str).

Definition parse_literal (a : str) : res term :=
  let content := slice_cp a 1 (find_from (Str """") a 1) in
  bind (decide_literal_type a) (fun dt => Ok (TLit content dt)).

(** [float(tok)] for digits [. digits] : [Some true] = integral value *)
Definition all_digits (s : str) : bool := forallb is_ascii_digit s.
Fixpoint split_at_dot (s acc : str) : str * option str :=
  match s with
  | [] => (rev acc, None)
  | c :: s' => if Ascii.eqb c "."%char then (rev acc, Some s') else split_at_dot s' (c :: acc)
  end.
Definition simple_number (tok : str) : option bool :=
  match split_at_dot tok [] with
  | (ip, None) => if all_digits ip && negb (str_eqb ip []) then Some true else None
  | (ip, Some fp) =>
    if all_digits ip && negb (str_eqb ip []) && all_digits fp
    then Some (forallb (Ascii.eqb "0"%char) fp) else None
  end.

(** [shexer.utils.triple_yielders.tune_token] *)
Definition tune_token (allow_untyped_numbers : bool) (tok : str) : res term :=
  if prefixb (Str "<") tok then bind (remove_corners tok) (fun u => Ok (TIri u))
  else if prefixb (Str """") tok then parse_literal tok
  else if prefixb (Str "_:") tok then Ok (TBn tok)
  else if str_eqb (strip tok) (Str "[]") then Ok (TBn tok)
  else
    match (if allow_untyped_numbers then simple_number (strip tok) else None) with
    | Some true => Ok (TLit (strip tok) c_INTEGER_TYPE)
    | Some false => Ok (TLit (strip tok) c_FLOAT_TYPE)
    | None => bind (decide_literal_type tok) (fun dt => Ok (TLit tok dt))
    end.

Definition tune_prop (tok : str) : res str := remove_corners tok.

(** ** one line of [yield_triples] *)
Inductive line_result :=
| LYield (s : term) (p : str) (o : term)
| LError
| LRaise (e : exn)
| LHang.

Definition process_line (allow : bool) (raw_line : str) : line_result :=
  match look_for_tokens (strip raw_line) with
  | Hang => LHang
  | Raise e => LRaise e
  | Ok [a; b; c] =>
    match tune_token false a with
    | Hang => LHang | Raise e => LRaise e
    | Ok s =>
      match tune_prop b with
      | Hang => LHang | Raise e => LRaise e
      | Ok p =>
        match tune_token allow c with
        | Hang => LHang | Raise e => LRaise e
        | Ok o => LYield s p o
        end
      end
    end
  | Ok _ => LError
  end.

(** ** the document loop: triples yielded so far (in order), error counter *)
Inductive doc_result :=
| DocDone (yielded : list (term * str * term)) (errors : nat)
| DocRaise (yielded : list (term * str * term)) (errors : nat) (e : exn)
| DocHang (yielded : list (term * str * term)) (errors : nat).

Fixpoint run_lines (allow : bool) (lines : list str) (acc : list (term * str * term)) (errs : nat) : doc_result :=
  match lines with
  | [] => DocDone (rev acc) errs
  | l :: rest =>
    match process_line allow l with
    | LYield s p o => run_lines allow rest ((s, p, o) :: acc) errs
    | LError => run_lines allow rest acc (S errs)
    | LRaise e => DocRaise (rev acc) errs e
    | LHang => DocHang (rev acc) errs
    end
  end.

Definition s_newline : str := [ascii_of_nat 10].

(** [RawStringLineReader.read_lines]: split on "\n", skip blank lines *)
Definition raw_string_lines (doc : str) : list str :=
  filter (fun l => negb (str_eqb (strip l) [])) (split s_newline doc).

(** [FileLineReader.read_lines]: text-mode iteration.  Assumes the file holds
    valid UTF-8 without "\r" (universal newlines would split there too).
    Lines keep their "\n" in Python; [process_line] strips it. *)
Definition file_lines (doc : str) : list str :=
  let parts := split s_newline doc in
  match rev parts with
  | [] :: r => rev r
  | _ => parts
  end.

Definition read_raw_string (allow : bool) (doc : str) : doc_result :=
  run_lines allow (raw_string_lines doc) [] 0.

Definition read_file (allow : bool) (doc : str) : doc_result :=
  run_lines allow (file_lines doc) [] 0.

(** * The tokeniser after the repairs token-end-before-dot and closing-quote-scan
    (notes/proposed_fixes/C06-*.diff).  [Gen.Consts.nt_fixed_tok] says which of
    the two texts /repo has; the [_cur] functions at the end follow it.  Both
    models are kept so that the theorems about either stay checked.

    The repaired tokeniser itself has two texts, told apart by two independent
    switches (notes/proposed_fixes/C06-comment-glued-to-dot.diff, finding C06-F7r):
    [hs] ([Gen.Consts.nt_tok_end_at_hash]): [_index_of_token_end] ends a token at
    '#' as well as at a blank;  [el] ([Gen.Consts.nt_uri_unclosed_to_eol]):
    [_look_for_last_index_of_uri_token] answers the end of the line when there is
    no closing corner.  The [_g] functions take the switches; the [_fx] names are
    the instances [false false] (the text without that repair). *)

(** the characters at which [_index_of_token_end] ends a token: [" \t"], or [" \t#"] *)
Definition is_stop (hs : bool) (c : ascii) : bool :=
  is_blank c || (hs && Ascii.eqb c (ch nt_tok_end_extra)).

Fixpoint first_stop (hs : bool) (s : str) : option nat :=
  match s with
  | [] => None
  | c :: s' => if is_stop hs c then Some O
               else match first_stop hs s' with Some n => Some (S n) | None => None end
  end.

(** [_index_of_token_end], repaired: a dot right before the first blank (or '#') closes
    the statement and is not part of the token *)
Definition index_of_token_end_g (hs : bool) (s : str) : Z :=
  match first_stop hs s with
  | Some n =>
    if (0 <? Z.of_nat n) &&
       match at_idx s (Z.of_nat n - 1) with Some c => Ascii.eqb c (ch nt_statement_end) | None => false end
    then Z.of_nat n - 1 else Z.of_nat n
  | None => if suffixb nt_statement_end s then len s - 1 else len s
  end.

(** [_look_for_last_index_of_uri_token]; with [el]:
    [if index_sub < 0: return len(target_str) - 1] *)
Definition last_index_uri_g (el : bool) (t : str) (i : Z) : Z :=
  let sub := slice_from t i in
  let index_sub := find s_gt sub in
  if el && (index_sub <? 0) then len t - 1 else index_sub + (len t - len sub).

Definition last_index_bnode_g (hs : bool) (t : str) (i : Z) : Z :=
  let sub := slice_from t i in
  index_of_token_end_g hs sub + (len t - len sub) - 1.

Definition last_index_number_g (hs : bool) (t : str) (i : Z) : Z :=
  let sub := slice_from t i in
  index_of_token_end_g hs sub + (len t - len sub) - 1.

(** the scan for the closing quote: [index_of_quotes += 2 if t[q] == "\\" else 1]
    (the character after a backslash is skipped whatever it is; [cp_advance]
    measures that one character in bytes) *)
Fixpoint scan_quote (fuel : nat) (t : str) (q : Z) : res Z :=
  match fuel with
  | O => Hang
  | S f =>
    if len t <=? q then Ok q
    else match at_idx t q with
         | None => Raise EIndex
         | Some c =>
           if Ascii.eqb c ch_lit then Ok q
           else if Ascii.eqb c (ch ntf_escape_char)
                then scan_quote f t (q + 1 + Z.of_nat (cp_advance (slice_from t (q + 1)) 1))
                else scan_quote f t (q + 1)
         end
  end.

(** [str.isalnum()] on ASCII; a non-ASCII character counts as a letter
    (modelled, not verified: never consulted on a valid line) *)
Definition is_alnum_py (c : ascii) : bool :=
  let n := nat_of_ascii c in
  (Nat.leb 48 n && Nat.leb n 57) || (Nat.leb 65 n && Nat.leb n 90) || (Nat.leb 97 n && Nat.leb n 122) || Nat.leb 128 n.

(** the language-tag loop: [while k < len(rest) and (rest[k].isalnum() or rest[k] == "-")] *)
Fixpoint tag_loop (fuel : nat) (rest : str) (k : Z) : res Z :=
  match fuel with
  | O => Hang
  | S f =>
    if len rest <=? k then Ok k
    else match at_idx rest k with
         | None => Raise EIndex
         | Some c => if is_alnum_py c || Ascii.eqb c (ch ntf_tag_extra_char) then tag_loop f rest (k + 1) else Ok k
         end
  end.

Definition last_index_literal_g (hs : bool) (t : str) (i : Z) : res Z :=
  bind (scan_quote (List.length t + 2) t (i + 1)) (fun q =>
    if len t <=? q then Ok (len t - 1)
    else
      let rest := slice_from t (q + 1) in
      if prefixb ntf_type_open rest && contains ntf_type_close rest then Ok (q + 1 + find ntf_type_close rest)
      else if prefixb ntf_lang_char rest then bind (tag_loop (List.length rest + 2) rest 1) (fun k => Ok (q + k))
      else if prefixb ntf_type_marker rest then Ok (q + index_of_token_end_g hs rest)
      else Ok q).

Fixpoint look_loop_g (hs el : bool) (fuel : nat) (line : str) (i : Z) (acc : list str) : res (list str) :=
  match fuel with
  | O => Hang
  | S f =>
    if i =? len line then Ok (rev acc)
    else match at_idx line i with
         | None => Raise EIndex
         | Some c =>
           if Ascii.eqb c ch_uri then
             let last := last_index_uri_g el line i in
             look_loop_g hs el f line (last + 1) (slice line i (last + 1) :: acc)
           else if Ascii.eqb c ch_lit then
             match last_index_literal_g hs line i with
             | Ok last => look_loop_g hs el f line (last + 1) (slice line i (last + 1) :: acc)
             | Raise e => Raise e
             | Hang => Hang
             end
           else if Ascii.eqb c ch_bnode then
             let last := last_index_bnode_g hs line i in
             look_loop_g hs el f line (last + 1) (slice line i (last + 1) :: acc)
           else if Ascii.eqb c ch_dot then Ok (rev acc)
           else if is_ascii_digit c then
             let last := last_index_number_g hs line i in
             look_loop_g hs el f line (last + 1) (slice line i (last + 1) :: acc)
           else look_loop_g hs el f line (i + 1) acc
         end
  end.

Definition look_for_tokens_g (hs el : bool) (line : str) : res (list str) :=
  look_loop_g hs el (line_fuel line) line 0 [].

Definition tokens_result (allow : bool) (r : res (list str)) : line_result :=
  match r with
  | Hang => LHang
  | Raise e => LRaise e
  | Ok [a; b; c] =>
    match tune_token false a with
    | Hang => LHang | Raise e => LRaise e
    | Ok s =>
      match tune_prop b with
      | Hang => LHang | Raise e => LRaise e
      | Ok p =>
        match tune_token allow c with
        | Hang => LHang | Raise e => LRaise e
        | Ok o => LYield s p o
        end
      end
    end
  | Ok _ => LError
  end.

Definition process_line_g (hs el : bool) (allow : bool) (raw_line : str) : line_result :=
  tokens_result allow (look_for_tokens_g hs el (strip raw_line)).

Fixpoint run_lines_g (pl : str -> line_result) (lines : list str) (acc : list (term * str * term)) (errs : nat) : doc_result :=
  match lines with
  | [] => DocDone (rev acc) errs
  | l :: rest =>
    match pl l with
    | LYield s p o => run_lines_g pl rest ((s, p, o) :: acc) errs
    | LError => run_lines_g pl rest acc (S errs)
    | LRaise e => DocRaise (rev acc) errs e
    | LHang => DocHang (rev acc) errs
    end
  end.

Definition read_raw_string_g (hs el : bool) (allow : bool) (doc : str) : doc_result :=
  run_lines_g (process_line_g hs el allow) (raw_string_lines doc) [] 0.

Definition read_file_g (hs el : bool) (allow : bool) (doc : str) : doc_result :=
  run_lines_g (process_line_g hs el allow) (file_lines doc) [] 0.

(** the text without comment-glued-to-dot *)
Definition look_for_tokens_fx : str -> res (list str) := look_for_tokens_g false false.
Definition process_line_fx : bool -> str -> line_result := process_line_g false false.
Definition read_raw_string_fx : bool -> str -> doc_result := read_raw_string_g false false.
Definition read_file_fx : bool -> str -> doc_result := read_file_g false false.

(** * [decide_literal_type] after the repair literal-type-from-suffix
    ([Gen.Consts.nt_fixed_dlt]): the kind of the literal is read after its last quote *)
Fixpoint first_dlt_prefix (tbl : list (str * Z * str)) (a : str) : option (str * Z * str) :=
  match tbl with
  | [] => None
  | (p, k, ns) :: tbl' => if prefixb p a then Some (p, k, ns) else first_dlt_prefix tbl' a
  end.

Definition decide_literal_type_fx (a : str) : res str :=
  (* q = a_literal.rfind(quote); suffix = a_literal[q + 1:].strip() if q >= 0 else "" *)
  let q := rfind (Str """") a in
  let suffix := if q <? 0 then [] else strip (slice_from a (q + 1)) in
  if prefixb ntf_lang_char suffix then Ok c_LANG_STRING_TYPE
  else if negb (prefixb ntf_type_marker suffix) then
    if arroba_after_last_quotes a then Ok c_LANG_STRING_TYPE else Ok c_STRING_TYPE
  else
    let a_type := slice_from suffix 2 in
    match first_dlt_prefix ntf_dlt_prefix_table a_type with
    | Some (p, k, ns) => Ok (ns ++ slice_from a_type k)
    | None =>
      if prefixb ntf_dlt_iri_open a_type && suffixb ntf_dlt_iri_close a_type
      then Ok (slice_cp a_type 1 (-1))
      else Raise ERuntime
    end.

Definition parse_literal_fx (a : str) : res term :=
  let content := slice_cp a 1 (find_from (Str """") a 1) in
  bind (decide_literal_type_fx a) (fun dt => Ok (TLit content dt)).

Definition tune_token_fx (allow_untyped_numbers : bool) (tok : str) : res term :=
  if prefixb (Str "<") tok then bind (remove_corners tok) (fun u => Ok (TIri u))
  else if prefixb (Str """") tok then parse_literal_fx tok
  else if prefixb (Str "_:") tok then Ok (TBn tok)
  else if str_eqb (strip tok) (Str "[]") then Ok (TBn tok)
  else
    match (if allow_untyped_numbers then simple_number (strip tok) else None) with
    | Some true => Ok (TLit (strip tok) c_INTEGER_TYPE)
    | Some false => Ok (TLit (strip tok) c_FLOAT_TYPE)
    | None => bind (decide_literal_type_fx tok) (fun dt => Ok (TLit tok dt))
    end.

Definition tokens_result_fx (allow : bool) (r : res (list str)) : line_result :=
  match r with
  | Hang => LHang
  | Raise e => LRaise e
  | Ok [a; b; c] =>
    match tune_token_fx false a with
    | Hang => LHang | Raise e => LRaise e
    | Ok s =>
      match tune_prop b with
      | Hang => LHang | Raise e => LRaise e
      | Ok p =>
        match tune_token_fx allow c with
        | Hang => LHang | Raise e => LRaise e
        | Ok o => LYield s p o
        end
      end
    end
  | Ok _ => LError
  end.

(** tokeniser repairs + typing repair *)
Definition process_line_g2 (hs el : bool) (allow : bool) (raw_line : str) : line_result :=
  tokens_result_fx allow (look_for_tokens_g hs el (strip raw_line)).

Definition read_raw_string_g2 (hs el : bool) (allow : bool) (doc : str) : doc_result :=
  run_lines_g (process_line_g2 hs el allow) (raw_string_lines doc) [] 0.

Definition read_file_g2 (hs el : bool) (allow : bool) (doc : str) : doc_result :=
  run_lines_g (process_line_g2 hs el allow) (file_lines doc) [] 0.

(** ... without comment-glued-to-dot *)
Definition process_line_fx2 : bool -> str -> line_result := process_line_g2 false false.
Definition read_raw_string_fx2 : bool -> str -> doc_result := read_raw_string_g2 false false.
Definition read_file_fx2 : bool -> str -> doc_result := read_file_g2 false false.

(** * Comment lines and blank lines (notes/proposed_fixes/C06-comments-and-blank-lines.diff,
    finding C06-F9; [Gen.Consts.nt_skips_comment_lines]).  [yield_triples], repaired, begins its
    loop with
      [stripped_line = a_line.strip()]
      [if stripped_line == "" or stripped_line.startswith("#"): continue]
    so the lines a line reader delivers are first thinned out; without the repair every line
    is tokenised.  [sk] is the switch. *)
Definition is_skipped_line (raw : str) : bool :=
  let s := strip raw in str_eqb s [] || prefixb nt_comment_start s.

Definition kept_lines (sk : bool) (lines : list str) : list str :=
  if sk then filter (fun l => negb (is_skipped_line l)) lines else lines.

(** the document loop of [yield_triples] over the lines of a line reader *)
Definition doc_loop (sk : bool) (pl : str -> line_result) (lines : list str) : doc_result :=
  run_lines_g pl (kept_lines sk lines) [] 0.

Definition read_raw_string_g3 (sk hs el : bool) (allow : bool) (doc : str) : doc_result :=
  doc_loop sk (process_line_g2 hs el allow) (raw_string_lines doc).

Definition read_file_g3 (sk hs el : bool) (allow : bool) (doc : str) : doc_result :=
  doc_loop sk (process_line_g2 hs el allow) (file_lines doc).

(** every repair proposed for the reader *)
Definition process_line_fx3 : bool -> str -> line_result := process_line_g2 true true.
Definition read_raw_string_fx3 : bool -> str -> doc_result := read_raw_string_g3 true true true.
Definition read_file_fx3 : bool -> str -> doc_result := read_file_g3 true true true.

(** ** the reader /repo has now ([tools/gen_consts.py] accepts the switches of
    comment-glued-to-dot only on top of the tokeniser repairs and the typing repair;
    the switch of comments-and-blank-lines is independent of everything else).
    [process_line_cur] is what happens to ONE line that is not skipped. *)
Definition process_line_cur (allow : bool) (line : str) : line_result :=
  if nt_fixed_tok then (if nt_fixed_dlt then process_line_g2 nt_tok_end_at_hash nt_uri_unclosed_to_eol allow line
                        else process_line_fx allow line)
  else process_line allow line.

Definition read_raw_string_cur (allow : bool) (doc : str) : doc_result :=
  doc_loop nt_skips_comment_lines (process_line_cur allow) (raw_string_lines doc).

Definition read_file_cur (allow : bool) (doc : str) : doc_result :=
  doc_loop nt_skips_comment_lines (process_line_cur allow) (file_lines doc).
