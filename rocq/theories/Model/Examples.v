(** * Example bookkeeping (examples_mode).

    Anchors:
    - [shexer/utils/structures/dicts.py: ShapeExampleFeaturesDict]
    - [shexer/core/profiling/class_profiler.py: _annotate_shape_examples,
      _annotate_shape_examples_and_min_iris, _init_class_features_dict,
      _init_anotation_example_method]
    - [shexer/core/profiling/strategy/direct_features_strategy.py:
      is_a_relevant_triple, _annotate_example_no_inverse]
    - [shexer/core/profiling/strategy/include_reverse_features_strategy.py:
      is_a_relevant_triple, _annotate_triple_features_with_examples,
      _annotate_example_subject_inverse_paths, _annotate_example_object_inverse_paths]

    One entry of [_base_dict] per shape id: [[min_iri, example, props]] where
    [props] is one dictionary (no inverse tracking) or a pair (direct,
    inverse).  All writes are "first seen wins". *)
From Coq Require Import List Ascii String ZArith Bool.
From Shexer Require Import Lib.PyStr Lib.Dict Gen.Consts Spec.Rdf Model.Tracker Model.MinIri.
Import ListNotations.

Record exent := ExEnt {
  e_min_iri : option str;     (* _MIN_IRI_POS *)
  e_example : option str;     (* _EXAMPLE_ENTITY_POS *)
  e_direct  : dict str;       (* _PROP_FEATURES_POS (/ [_POS_DIRECT]) *)
  e_inverse : dict str        (* _PROP_FEATURES_POS[_POS_INVERSE]; unused without inverse tracking *)
}.

Definition exdict := dict exent.

(** [_init_shape] *)
Definition ex_init : exent := ExEnt None None [] [].

Definition ex_get_or_init (d : exdict) (c : str) : exent :=
  match dget d c with Some e => e | None => ex_init end.

(** [str(a_triple[_O])] / [str(a_triple[_S])]: [IRI.__str__], [BNode.__str__],
    [Literal.__str__] (the content; the datatype is dropped) *)
Definition str_of_node (n : node) : str := nid n.
Definition str_of_obj (o : obj) : str :=
  match o with ON n => nid n | OL content _ => content end.

(** [has_constraint_example] / [set_constraint_example] (both variants) *)
Definition has_cons (d : exdict) (inverse : bool) (c p : str) : bool :=
  match dget d c with
  | None => false
  | Some e => dmem (if inverse then e_inverse e else e_direct e) p
  end.

Definition set_cons (d : exdict) (inverse : bool) (c p v : str) : exdict :=
  let e := ex_get_or_init d c in
  dset d c (if inverse
            then ExEnt (e_min_iri e) (e_example e) (e_direct e) (dset (e_inverse e) p v)
            else ExEnt (e_min_iri e) (e_example e) (dset (e_direct e) p v) (e_inverse e)).

(** the loop [for a_class_key in self._i_dict[str(node)][POS_CLASSES]]; the
    subscript raises KeyError when the node is no instance: [None] *)
Definition annotate_example (I : insts) (d : exdict) (inverse : bool)
           (inst p v : str) : option exdict :=
  match dget I inst with
  | None => None
  | Some classes =>
    Some (fold_left (fun d c => if has_cons d inverse c p then d else set_cons d inverse c p v) classes d)
  end.

(** [_is_relevant_instance]: an IRI or BNode whose [.iri] is a key of the
    instance dictionary *)
Definition relevant_node (I : insts) (n : node) : bool := dmem I (nid n).
Definition relevant_obj (I : insts) (o : obj) : bool :=
  match o with ON n => relevant_node I n | OL _ _ => false end.

(** one relevant triple, examples part of [annotate_triple_features]
    ([_annotate_triple_features_with_examples]) *)
Definition example_step (inverse_paths : bool) (I : insts) (d : option exdict) (t : triple) : option exdict :=
  match d with
  | None => None
  | Some d0 =>
    if negb inverse_paths then
      (* DirectFeaturesStrategy: relevant iff the subject is an instance *)
      if relevant_node I (ts t)
      then annotate_example I d0 false (str_of_node (ts t)) (tp t) (str_of_obj (to t))
      else Some d0
    else
      (* IncludeReverseFeaturesStrategy *)
      let d1 := if relevant_node I (ts t)
                then annotate_example I d0 false (str_of_node (ts t)) (tp t) (str_of_obj (to t))
                else Some d0 in
      match d1 with
      | None => None
      | Some d1' =>
        if relevant_obj I (to t)
        then annotate_example I d1' true (str_of_obj (to t)) (tp t) (str_of_node (ts t))
        else Some d1'
      end
  end.

(** the triple pass ([_build_shape_of_instances]) restricted to the example
    bookkeeping; runs only when [examples_mode is not None] *)
Definition cons_examples (inverse_paths : bool) (I : insts) (g : graph) : option exdict :=
  fold_left (example_step inverse_paths I) g (Some []).

(** ** the instance pass: [_detect_example_features] *)

Definition set_min (d : exdict) (c : str) (m : option str) : exdict :=
  let e := ex_get_or_init d c in
  dset d c (ExEnt m (e_example e) (e_direct e) (e_inverse e)).

Definition set_example (d : exdict) (c : str) (x : str) : exdict :=
  let e := ex_get_or_init d c in
  dset d c (ExEnt (e_min_iri e) (Some x) (e_direct e) (e_inverse e)).

(** [_init_class_features_dict] *)
Definition init_features (I : insts) (d : exdict) : exdict :=
  fold_left (fun d c => set_min d c (Some c_MINIMAL_IRI_INIT)) (class_keys I) d.

(** one (instance, class) step of [_annotate_min_iris] / [_annotate_shape_examples]
    / [_annotate_shape_examples_and_min_iris], selected by the two flags of
    [_init_anotation_example_method].  [shape_min_iri] is a bare subscript
    (KeyError = [None]); [shape_example] answers [False] for an unknown shape,
    and [False is None] is false: nothing is stored. *)
Definition detect_step (do_min do_ex : bool) (inst : str) (d : option exdict) (c : str) : option exdict :=
  match d with
  | None => None
  | Some d0 =>
    let d1 :=
      if do_min then
        match dget d0 c with
        | None => None
        | Some e => match e_min_iri e with
                    | None => None     (* longest_common_prefix(uri2=None): len(None) raises TypeError *)
                    | Some curr => Some (set_min d0 c (Some (update_min_iri curr inst)))
                    end
        end
      else Some d0 in
    match d1 with
    | None => None
    | Some d1' =>
      if do_ex then
        match dget d1' c with
        | None => Some d1'
        | Some e => match e_example e with
                    | None => Some (set_example d1' c inst)
                    | Some _ => Some d1'
                    end
        end
      else Some d1'
    end
  end.

Definition detect_features (do_min do_ex : bool) (I : insts) (d : exdict) : option exdict :=
  fold_left (fun d ic => fold_left (detect_step do_min do_ex (fst ic)) (snd ic) d) I (Some (init_features I d)).

(** ** [ClassProfiler.profile_classes], example-related part.

    [mode]: [None] or one of the three examples_mode strings. *)
Definition wants_shape_examples (mode : option str) : bool :=
  match mode with
  | Some m => str_eqb m c_SHAPE_EXAMPLES || str_eqb m c_ALL_EXAMPLES
  | None => false
  end.

Definition profile_examples (detect_minimal_iri : bool) (mode : option str) (inverse_paths : bool)
           (I : insts) (g : graph) : option exdict :=
  let d0 := match mode with
            | None => Some []
            | Some _ => cons_examples inverse_paths I g
            end in
  match d0 with
  | None => None
  | Some d =>
    if detect_minimal_iri || wants_shape_examples mode
    then detect_features detect_minimal_iri (wants_shape_examples mode) I d
    else Some d
  end.

(** accessors used by the serialisers *)
Definition shape_example (d : exdict) (c : str) : option str :=
  match dget d c with Some e => e_example e | None => None end.

Definition constraint_example (d : exdict) (c p : str) (inverse : bool) : option str :=
  match dget d c with
  | Some e => dget (if inverse then e_inverse e else e_direct e) p
  | None => None
  end.

(** [annotate_shape_iri] for the shape of class [c]: the slot is replaced by
    [_determine_suitable_iri_pattern(slot)], printed by the serialisers iff not
    [None].  Outer [None]: the subscript raises KeyError, or the slot holds
    [None] and [None[::-1]] raises TypeError. *)
Definition shape_stem (d : exdict) (c : str) : option (option str) :=
  match dget d c with
  | Some e => match e_min_iri e with Some l => Some (determine l) | None => None end
  | None => None
  end.
