(** Entry points of the C06 model (N-Triples reader). *)
From Coq Require Import List Ascii String ZArith Bool.
From Shexer Require Import Lib.PyStr Gen.Consts Model.Table Model.NtReader Spec.NtSyntax Spec.NtDom Spec.NtDomCur.
Import ListNotations.

Definition exn_str (e : exn) : str :=
  match e with EIndex => Str "IndexError" | EValue => Str "ValueError" | ERuntime => Str "RuntimeError" end.

Definition term_fields (t : term) : list str :=
  match t with
  | TIri s => [Str "IRI"; s]
  | TBn s => [Str "BNode"; s]
  | TLit c dt => [Str "Literal"; c; dt]
  end.

(** observable of one yielded triple: subject kind, id, predicate, object kind, id|content, datatype *)
Definition triple_fields (x : term * str * term) : list str :=
  let '(s, p, o) := x in
  term_fields s ++ [p] ++ term_fields o.

Definition line_result_row (r : line_result) : list str :=
  match r with
  | LYield s p o => Str "Y" :: triple_fields (s, p, o)
  | LError => [Str "E"]
  | LRaise e => [Str "R"; exn_str e]
  | LHang => [Str "H"]
  end.

(** row = [allow_untyped_numbers; line] *)
Definition c06_line_row (r : list str) : list str :=
  line_result_row (process_line_cur (fbool r 0) (fld r 1)).

Definition nat_str (n : nat) : str := dec_of_N (N.of_nat n).

(** row = [allow; reader (raw|file); document] -> [status; errors; #triples; fields of each triple, "|"-separated] *)
Definition c06_doc_row (r : list str) : list str :=
  let d := if str_eqb (fld r 1) (Str "file") then read_file_cur (fbool r 0) (fld r 2)
           else read_raw_string_cur (fbool r 0) (fld r 2) in
  let out st ts errs := st :: nat_str errs :: nat_str (List.length ts) ::
                        flat_map (fun x => triple_fields x ++ [Str "|"]) ts in
  match d with
  | DocDone ts errs => out (Str "D") ts errs
  | DocRaise ts errs e => out (Str "R:" ++ exn_str e) ts errs
  | DocHang ts errs => out (Str "H") ts errs
  end.

(** ** the Spec side, for the harness: abstract triple + layout in, rendered
    line, validity and [C06_dom] out (glue: decoding of the row).

    lexical form = concatenated item codes: "c"+byte | "e"+char | "u"+4 | "U"+8 *)
Fixpoint decode_items (fuel : nat) (s : str) : option (list item) :=
  match fuel with
  | O => None
  | S f =>
    match s with
    | [] => Some []
    | k :: c :: r =>
      if Ascii.eqb k "c"%char then option_map (cons (IChar c)) (decode_items f r)
      else if Ascii.eqb k "e"%char then option_map (cons (IEsc c)) (decode_items f r)
      else if Ascii.eqb k "u"%char then
        match r with
        | b :: c2 :: d :: r' => option_map (cons (IU4 c b c2 d)) (decode_items f r')
        | _ => None
        end
      else if Ascii.eqb k "U"%char then
        match r with
        | b :: c2 :: d :: e :: f2 :: g :: h :: r' => option_map (cons (IU8 c b c2 d e f2 g h)) (decode_items f r')
        | _ => None
        end
      else None
    | _ => None
    end
  end.

Definition decode_node (k v : str) : snode := if str_eqb k (Str "B") then NBn v else NIri v.

(** row = [skind; sid; pred; okind (I|B|P|L|T); oid|tag|dt; items; sep1; sep2; predot; has_comment; w2; text] *)
Definition decode_case (r : list str) : option (striple * layout) :=
  let ok := fld r 3 in
  let o :=
    if str_eqb ok (Str "I") || str_eqb ok (Str "B") then Some (ONode (decode_node ok (fld r 4)))
    else match decode_items (S (List.length (fld r 5))) (fld r 5) with
         | None => None
         | Some its =>
           if str_eqb ok (Str "P") then Some (OLit its SufNone)
           else if str_eqb ok (Str "L") then Some (OLit its (SufLang (fld r 4)))
           else if str_eqb ok (Str "T") then Some (OLit its (SufType (fld r 4)))
           else None
         end in
  match o with
  | None => None
  | Some o =>
    Some (STriple (decode_node (fld r 0) (fld r 1)) (fld r 2) o,
          Layout (fld r 6) (fld r 7) (fld r 8) (if fbool r 9 then Some (fld r 10, fld r 11) else None))
  end.

Definition kterm_fields (k : kterm) : list str :=
  match k with KIri s => [Str "IRI"; s] | KBn s => [Str "BNode"; s] | KLit d => [Str "Literal"; d] end.

(** -> [rendered line; valid; C06_dom; root-cause flags F1..F8; expected kinded triple (5 fields)] *)
Definition c06_spec_row (r : list str) : list str :=
  match decode_case r with
  | None => [Str "undecodable"]
  | Some (t, l) =>
    let '(s, p, o) := kinded t in
    [nt_line t l; bstr (valid_triple t && valid_layout l); bstr (C06_dom_cur t l);
     flat_map bstr (root_causes_cur t l)] ++
    kterm_fields s ++ [p] ++ kterm_fields o
  end.

(** a comment line or a blank line of a document: row = [kind (C|B); blanks; text after '#']
    -> [rendered line; valid; in the document domain (raw string); in the document domain (file)] *)
Definition c06_dline_row (r : list str) : list str :=
  let d := if str_eqb (fld r 0) (Str "C") then DComment (fld r 1) (fld r 2) else DBlank (fld r 1) in
  [r_dline d; bstr (valid_dline d); bstr (dline_dom_cur d); bstr (dline_dom_file_cur d)].

Definition entry_c06 (name : str) (t : table) : option table :=
  if str_eqb name (Str "c06_line") then Some (map c06_line_row t)
  else if str_eqb name (Str "c06_doc") then Some (map c06_doc_row t)
  else if str_eqb name (Str "c06_spec") then Some (map c06_spec_row t)
  else if str_eqb name (Str "c06_dline") then Some (map c06_dline_row t)
  else if str_eqb name (Str "c06_info") then Some [[bstr nt_fixed_tok; bstr nt_fixed_dlt; bstr nt_tok_end_at_hash; bstr nt_uri_unclosed_to_eol;
                                                             bstr nt_skips_comment_lines]]
  else None.
