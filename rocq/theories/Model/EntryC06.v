(** Entry points of the C06 model (N-Triples reader). *)
From Coq Require Import List Ascii String ZArith Bool.
From Shexer Require Import Lib.PyStr Gen.Consts Model.Table Model.NtReader.
Import ListNotations.

Definition exn_str (e : exn) : str :=
  match e with EIndex => Str "IndexError" | EValue => Str "ValueError" | ERuntime => Str "RuntimeError" end.

Definition term_fields (t : term) : list str :=
  match t with
  | TIri s => [Str "IRI"; s]
  | TBn s => [Str "BNode"; s]
  | TLit c dt => [Str "Literal"; c; dt]
  end.

(** observable of one yielded triple: subject kind, id, predicate, object kind, id|content, datatype *)
Definition triple_fields (x : term * str * term) : list str :=
  let '(s, p, o) := x in
  term_fields s ++ [p] ++ term_fields o.

Definition line_result_row (r : line_result) : list str :=
  match r with
  | LYield s p o => Str "Y" :: triple_fields (s, p, o)
  | LError => [Str "E"]
  | LRaise e => [Str "R"; exn_str e]
  | LHang => [Str "H"]
  end.

(** row = [allow_untyped_numbers; line] *)
Definition c06_line_row (r : list str) : list str :=
  line_result_row (process_line (fbool r 0) (fld r 1)).

Definition nat_str (n : nat) : str := dec_of_N (N.of_nat n).

(** row = [allow; reader (raw|file); document] -> [status; errors; #triples; fields of each triple, "|"-separated] *)
Definition c06_doc_row (r : list str) : list str :=
  let d := if str_eqb (fld r 1) (Str "file") then read_file (fbool r 0) (fld r 2)
           else read_raw_string (fbool r 0) (fld r 2) in
  let out st ts errs := st :: nat_str errs :: nat_str (List.length ts) ::
                        flat_map (fun x => triple_fields x ++ [Str "|"]) ts in
  match d with
  | DocDone ts errs => out (Str "D") ts errs
  | DocRaise ts errs e => out (Str "R:" ++ exn_str e) ts errs
  | DocHang ts errs => out (Str "H") ts errs
  end.

Definition entry_c06 (name : str) (t : table) : option table :=
  if str_eqb name (Str "c06_line") then Some (map c06_line_row t)
  else if str_eqb name (Str "c06_doc") then Some (map c06_doc_row t)
  else None.
