(** * Delivery channels: how a *source* becomes the two triple streams of the
    two passes (instance tracker, class profiler).

    Python anchors: shexer/utils/factories/triple_yielders_factory.py
    ([get_triple_yielder] and its helpers), shexer/io/line_reader/*.py,
    shexer/io/graph/yielder/{multifile_base,multi_zip,multi_*,tsv_nt,rdflib}_*.py,
    shexer/utils/{compression,triple_yielders,uri}.py, shexer/shaper.py
    ([_build_instance_tracker] / [_build_class_profiler]: two yielders built
    independently, the source is read twice).

    What is modelled exactly: the line readers, the multi-file / zip-member
    concatenation with its counters, the factory's dispatch (interpreting the
    tables [Gen.Consts.c08_*] regenerated from the source), the TSV reader and
    the token typing of [utils.triple_yielders] / [utils.uri], the conversion
    of rdflib terms into model objects.

    What is external (Section variables, never axioms): the N-Triples and the
    streaming Turtle *document readers* (a fold over the lines a line reader
    delivers: C06 / C07), the codecs (gzip, xz, zipfile), rdflib's parsers
    (oracle: what a parse delivers on a given pass), CPython's [float()]. *)
From Coq Require Import List Ascii String ZArith Bool.
From Shexer Require Import Lib.PyStr Lib.Dict Gen.Consts Spec.Rdf Model.Tracker Model.Profiler
     Model.Tokens Model.Freq Model.Shexing Model.ShexingFix Model.SerialShexc Model.Run.
Import ListNotations.

(** ** outcomes *)

Inductive cerr :=
| CEValue        (* ValueError *)
| CEType         (* TypeError *)
| CEAttr         (* AttributeError *)
| CERuntime      (* RuntimeError *)
| CEUnicode      (* UnicodeDecodeError *)
| CECodec        (* the codec / the parser rejects the stored bytes *)
| CESource.      (* the source kind does not fit the yielder (open(None), ...) *)

(** a term as the yielders build it: [model.IRI], [model.BNode], [model.Literal] *)
Inductive mterm :=
| MIri (s : str)
| MBn (s : str)
| MLit (content ty : str).

Record mtriple := MT { m_s : mterm; m_p : str; m_o : mterm }.

(** what a yielder has delivered when its generator is exhausted: the triples,
    and the two public counters [yielded_triples] / [error_triples] *)
Record res := Res { r_triples : list mtriple; r_yielded : nat; r_errors : nat }.

Definition rd := (res + cerr)%type.

Definition res_nil : res := Res [] 0 0.

Definition res_app (a b : res) : res :=
  Res (r_triples a ++ r_triples b) (r_yielded a + r_yielded b) (r_errors a + r_errors b).

(** sequencing of two generators: an exception of the first one wins *)
Definition rd_app (a b : rd) : rd :=
  match a with
  | inr e => inr e
  | inl x => match b with inr e => inr e | inl y => inl (res_app x y) end
  end.

Definition rd_concat (l : list rd) : rd := fold_right rd_app (inl res_nil) l.

(** the stream alone (what the pipeline consumes) *)
Definition rd_stream (r : rd) : list mtriple + cerr :=
  match r with inl x => inl (r_triples x) | inr e => inr e end.

(** ** 1. line readers (shexer/io/line_reader) *)

Definition LF : ascii := ascii_of_nat 10.
Definition CR : ascii := ascii_of_nat 13.

(** iterating a file object: lines keep their terminator; a last line without
    terminator is delivered as it is; an empty file has no line *)
Fixpoint keepends_aux (s acc : str) : list str :=
  match s with
  | [] => match acc with [] => [] | _ => [rev acc] end
  | c :: s' => if Ascii.eqb c LF then rev (c :: acc) :: keepends_aux s' []
               else keepends_aux s' (c :: acc)
  end.

Definition keepends (s : str) : list str := keepends_aux s [].

(** text mode, [newline=None]: "\r\n" and a lone "\r" become "\n" *)
Fixpoint universal_nl (s : str) : str :=
  match s with
  | [] => []
  | c :: s' =>
    if Ascii.eqb c CR then
      LF :: match s' with
            | d :: s'' => if Ascii.eqb d LF then universal_nl s'' else universal_nl s'
            | [] => []
            end
    else c :: universal_nl s'
  end.

(** UTF-8 decoding as CPython does it (Objects/stringlib/codecs.h,
    [unicode_decode_utf8]): the second byte's range depends on the lead byte
    (no overlong forms, no surrogates, nothing above U+10FFFF).  A malformed
    sequence is the lead byte plus the continuation bytes accepted so far; the
    offending byte is decoded again.  [strict = true]: any malformed sequence
    is UnicodeDecodeError ([None]); [strict = false] is [errors='ignore']: the
    malformed sequence is dropped. *)
Definition lead_info (n : nat) : option (nat * nat * nat) :=
  if Nat.ltb n 128 then Some (0, 0, 0)
  else if Nat.ltb n 194 then None
  else if Nat.ltb n 224 then Some (1, 128, 191)
  else if Nat.eqb n 224 then Some (2, 160, 191)
  else if Nat.ltb n 237 then Some (2, 128, 191)
  else if Nat.eqb n 237 then Some (2, 128, 159)
  else if Nat.ltb n 240 then Some (2, 128, 191)
  else if Nat.eqb n 240 then Some (3, 144, 191)
  else if Nat.ltb n 244 then Some (3, 128, 191)
  else if Nat.eqb n 244 then Some (3, 128, 143)
  else None.

Inductive ust := UIdle | UPend (buf : str) (k lo hi : nat).

(** one byte in the idle state: [None] = invalid start byte *)
Definition idle_step (c : ascii) : option (str * ust) :=
  match lead_info (nat_of_ascii c) with
  | None => None
  | Some (0, _, _) => Some ([c], UIdle)
  | Some (k, lo, hi) => Some ([], UPend [c] k lo hi)
  end.

Fixpoint utf8_dec (strict : bool) (s : str) (st : ust) : option str :=
  match s with
  | [] => match st with
          | UIdle => Some []
          | UPend _ _ _ _ => if strict then None else Some []     (* unexpected end of data *)
          end
  | c :: s' =>
    let idle :=
        match idle_step c with
        | None => if strict then None else utf8_dec strict s' UIdle
        | Some (out, st') =>
          match utf8_dec strict s' st' with Some r => Some (out ++ r) | None => None end
        end in
    match st with
    | UIdle => idle
    | UPend buf k lo hi =>
      let n := nat_of_ascii c in
      if Nat.leb lo n && Nat.leb n hi then
        match k with
        | 1 => match utf8_dec strict s' UIdle with
               | Some r => Some (rev (c :: buf) ++ r)
               | None => None
               end
        | _ => utf8_dec strict s' (UPend (c :: buf) (pred k) 128 191)
        end
      else if strict then None else idle      (* invalid continuation byte: drop [buf], decode [c] again *)
    end
  end.

Definition decode_strict (s : str) : option str := utf8_dec true s UIdle.
Definition decode_ignore (s : str) : str :=
  match utf8_dec false s UIdle with Some r => r | None => [] end.

Definition nonblank (l : str) : bool := negb (str_eqb (strip l) []).

(** [RawStringLineReader]: split on "\n", lines whose [strip()] is empty are not delivered *)
Definition lines_raw (doc : str) : list str := filter nonblank (split c08_raw_line_sep doc).

(** [FileLineReader]: [open(path, "r", errors='ignore')], iteration *)
Definition lines_text (stored : str) : list str := keepends (universal_nl (decode_ignore stored)).

(** [GzFileLineReader], [XzFileLineReader], [ZipFileLineReader]: binary
    iteration (only "\n" ends a line), every line decoded strictly *)
Fixpoint decode_lines (l : list str) : list str + cerr :=
  match l with
  | [] => inl []
  | x :: l' =>
    match decode_strict x with
    | None => inr CEUnicode
    | Some y => match decode_lines l' with inl r => inl (y :: r) | inr e => inr e end
    end
  end.

Definition lines_bytes (content : str) : list str + cerr := decode_lines (keepends content).

(** ** 2. token typing (shexer/utils/uri.py, shexer/utils/triple_yielders.py) *)

Definition there_is_arroba_after_last_quotes (s : str) : bool :=
  Z.gtb (rfind c_lang_marker s) (rfind (Str """") s).

Definition QHH : str := Str """^^".     (* the three characters: double quote, caret, caret *)

(** [decide_literal_type(a_literal, base_namespace=None)]; [inr] = RuntimeError.
    Old text: every test searches the whole token. *)
Definition decide_literal_type_old (a : str) : str + cerr :=
  if there_is_arroba_after_last_quotes a then inl c_LANG_STRING_TYPE
  else if negb (contains QHH a) then inl c_STRING_TYPE
  else if contains (Str "xsd:") a then inl (c_XSD_NAMESPACE ++ slice_from a (find (Str "xsd:") a + 4))
  else if contains (Str "rdf:") a then inl (c_RDF_SYNTAX_NAMESPACE ++ slice_from a (find (Str "rdf:") a + 4))
  else if contains (Str "dt:") a then inl (c_DT_NAMESPACE ++ slice_from a (find (Str "dt:") a + 3))
  else if contains (Str "geo:") a then inl (c_OPENGIS_NAMESPACE ++ slice_from a (find (Str "geo:") a + 4))
  else if contains c_XSD_NAMESPACE a || contains c_RDF_SYNTAX_NAMESPACE a
          || contains c_DT_NAMESPACE a || contains c_OPENGIS_NAMESPACE a
       then inl (slice a (find QHH a + 4) (-1))
  else if suffixb (Str ">") (strip a) then inl (slice a (find QHH a + 4) (-1))
  else inr CERuntime.

(** Repaired text (C06 repair B): the kind is read from what follows the last
    double quote ([suffix]; empty for a token without quote) -- [@...],
    [^^prefix:local], [^^<iri>] or nothing. *)
Definition decide_literal_type_new (a : str) : str + cerr :=
  let q := rfind (Str """") a in
  let suffix := if Z.geb q 0 then strip (slice_from a (q + 1)) else [] in
  if prefixb (Str "@") suffix then inl c_LANG_STRING_TYPE
  else if negb (prefixb (Str "^^") suffix) then
    if there_is_arroba_after_last_quotes a then inl c_LANG_STRING_TYPE else inl c_STRING_TYPE
  else
    let t := slice_from suffix 2 in
    if prefixb (Str "xsd:") t then inl (c_XSD_NAMESPACE ++ slice_from t 4)
    else if prefixb (Str "rdf:") t then inl (c_RDF_SYNTAX_NAMESPACE ++ slice_from t 4)
    else if prefixb (Str "dt:") t then inl (c_DT_NAMESPACE ++ slice_from t 3)
    else if prefixb (Str "geo:") t then inl (c_OPENGIS_NAMESPACE ++ slice_from t 4)
    else if prefixb (Str "<") t && suffixb (Str ">") t then inl (slice t 1 (-1))
    else inr CERuntime.

(** which of the two texts the source has: [Gen.Consts.c08_dlt_from_suffix] *)
Definition decide_literal_type (a : str) : str + cerr :=
  if c08_dlt_from_suffix then decide_literal_type_new a else decide_literal_type_old a.

(** [remove_corners(a_uri, raise_error_if_no_corners=True)]; [inr] = ValueError *)
Definition remove_corners (u : str) : str + cerr :=
  if prefixb (Str "<") u && suffixb (Str ">") u then inl (slice u 1 (-1)) else inr CEValue.

(** [an_elem.find(QUOTE, 1)]: first double quote at index >= 1 *)
Definition find_from1 (p s : str) : Z :=
  match s with
  | [] => -1
  | _ :: s' => match find_nat p s' with Some n => Z.of_nat (S n) | None => -1 end
  end.

(** [parse_literal] *)
Definition parse_literal (a : str) : mterm + cerr :=
  match decide_literal_type a with
  | inl ty => inl (MLit (slice a 1 (find_from1 (Str """") a)) ty)
  | inr e => inr e
  end.

Section Tokens.
  (** CPython's [float(s)]: [None] = ValueError, [Some b] = it parses and
      [b] says whether [value % 1.0 == 0] *)
  Variable pyfloat : str -> option bool.

  (** [tune_token(a_token, allow_untyped_numbers)] with the defaults
      [raise_error_if_no_corners=True], [base_namespace=None] *)
  Definition tune_token (allow_untyped_numbers : bool) (a : str) : mterm + cerr :=
    if prefixb (Str "<") a then
      match remove_corners a with inl u => inl (MIri u) | inr e => inr e end
    else if prefixb (Str """") a then parse_literal a
    else if prefixb (Str "_:") a then inl (MBn a)
    else if str_eqb (strip a) (Str "[]") then inl (MBn a)
    else
      match (if allow_untyped_numbers then pyfloat a else None) with
      | Some true => inl (MLit (strip a) c_INTEGER_TYPE)
      | Some false => inl (MLit (strip a) c_FLOAT_TYPE)
      | None => match decide_literal_type a with
                | inl ty => inl (MLit a ty)
                | inr e => inr e
                end
      end.

  Definition tune_prop (a : str) : str + cerr := remove_corners a.

  (** ** 3. [TsvNtTriplesYielder] *)

  (** one line: a triple, a discarded line ([error_triples += 1]) or a line
      skipped by the [ValueError] handler (not counted).  Two repaired spots,
      whose shape [Gen.Consts] reports: when the discard message is logged by
      a call that does not fit [log_msg(verbose, msg, err)]
      ([c08_tsv_discard_log_fits = false]) every discarded line -- blank lines
      included -- raises TypeError; when the handler reads [ve.message]
      ([c08_tsv_handler_ok = false]) a [ValueError] of the token functions
      becomes AttributeError.  The tuple is evaluated left to right. *)
  Inductive tsv_out := TYield (t : mtriple) | TDiscard | TSkip.

  Definition on_value_error (e : cerr) : tsv_out + cerr :=
    match e with
    | CEValue => if c08_tsv_handler_ok then inl TSkip else inr CEAttr
    | _ => inr e
    end.

  (** [c08_tsv_skips_comment_lines] (notes/proposed_fixes/C06-comments-and-blank-lines.diff, finding
      C06-F9): the loop begins with
        [stripped_line = a_line.strip()]
        [if stripped_line == "" or stripped_line.startswith("#"): continue]
      -- a blank line or a comment line is no statement and no error.  Without it every line is split:
      a comment line is a discarded line, or a triple when it happens to hold two tabs. *)
  Definition tsv_skipped (l : str) : bool :=
    c08_tsv_skips_comment_lines &&
    (let s := strip l in str_eqb s [] || prefixb c08_tsv_comment_start s).

  Definition tsv_line (l : str) : tsv_out + cerr :=
    if tsv_skipped l then inl TSkip else
    match split c08_tsv_sep (strip l) with
    | [t0; t1; t2] =>
      match tune_token false t0 with
      | inr e => on_value_error e
      | inl s =>
        match tune_prop t1 with
        | inr e => on_value_error e
        | inl p =>
          match tune_token c08_tsv_object_untyped_numbers t2 with
          | inr e => on_value_error e
          | inl o => inl (TYield (MT s p o))
          end
        end
      end
    | _ => if c08_tsv_discard_log_fits then inl TDiscard else inr CEType
    end.

  Definition rd_of_line (x : tsv_out + cerr) : rd :=
    match x with
    | inr e => inr e
    | inl (TYield t) => inl (Res [t] 1 0)
    | inl TDiscard => inl (Res [] 0 1)
    | inl TSkip => inl (Res [] 0 0)
    end.

  Fixpoint read_tsv (lines : list str) : rd :=
    match lines with
    | [] => inl res_nil
    | l :: ls => rd_app (rd_of_line (tsv_line l)) (read_tsv ls)
    end.
End Tokens.

(** ** 4. rdflib terms -> model objects ([RdflibTripleYielder]) *)

Record rlit := RL { rl_lex : str; rl_dt : option str; rl_lang : option str }.

Inductive rterm :=
| RUri (s : str)
| RBn (s : str)          (* [str(BNode)]: the identifier, without "_:" *)
| RLit (l : rlit)
| ROther.                (* Variable, QuotedGraph, ... *)

Record rtriple := RT { rt_s : rterm; rt_p : rterm; rt_o : rterm }.

(** [_turn_into_model_literal].  Old shape ([c08_rdflib_literal_uses_decide]):
    a literal without datatype is typed by [decide_literal_type] applied to the
    content -- the bare lexical form for a plain literal.  New shape: by the
    literal's own language. *)
Definition turn_literal (l : rlit) : mterm + cerr :=
  let content := match rl_lang l with
                 | Some tag => Str """" ++ rl_lex l ++ Str """@" ++ tag
                 | None => rl_lex l
                 end in
  if c08_rdflib_literal_uses_decide then
    match rl_dt l with
    | Some dt => inl (MLit content dt)
    | None => match decide_literal_type content with
              | inl ty => inl (MLit content ty)
              | inr e => inr e
              end
    end
  else
    match rl_lang l with
    | Some _ => inl (MLit content c_LANG_STRING_TYPE)
    | None => inl (MLit content (match rl_dt l with Some dt => dt | None => c_STRING_TYPE end))
    end.

(** [_turn_rdflib_token_into_model_obj]; the [else] branch builds its message
    with [str + type]: TypeError *)
Definition turn_token (t : rterm) : mterm + cerr :=
  match t with
  | RUri s => inl (MIri s)
  | RLit l => turn_literal l
  | RBn s => inl (MBn s)
  | ROther => inr CEType
  end.

Definition turn_prop (t : rterm) : str + cerr :=
  match t with RUri s => inl s | _ => inr CEType end.

Definition turn_triple (t : rtriple) : mtriple + cerr :=
  match turn_token (rt_s t) with
  | inr e => inr e
  | inl s => match turn_prop (rt_p t) with
             | inr e => inr e
             | inl p => match turn_token (rt_o t) with
                        | inr e => inr e
                        | inl o => inl (MT s p o)
                        end
             end
  end.

(** [RdflibTripleYielder.yield_triples] over what the graph's iterator delivers;
    [error_triples] is the constant 0 *)
Fixpoint read_rdflib (delivered : list rtriple) : rd :=
  match delivered with
  | [] => inl res_nil
  | t :: ts => rd_app (match turn_triple t with inl m => inl (Res [m] 1 0) | inr e => inr e end)
                      (read_rdflib ts)
  end.

(** ** 5. the factory's dispatch, interpreting the generated tables *)

(** how the graph is supplied: the argument of [Shaper] that is not None *)
Inductive skind :=
| KFile                 (* graph_file_input *)
| KFiles (n : nat)      (* graph_list_of_files_input, n paths *)
| KRaw                  (* raw_graph *)
| KUrl                  (* url_graph_input *)
| KUrls (n : nat)       (* list_of_url_input *)
| KGraph.               (* rdflib_graph *)

(** names of [get_triple_yielder]'s parameters that are not None *)
Definition present (k : skind) : list str :=
  match k with
  | KFile => [Str "source_file"]
  | KFiles _ => [Str "list_of_source_files"]
  | KRaw => [Str "raw_graph"]
  | KUrl => [Str "url_input"]
  | KUrls _ => [Str "list_of_url_input"]
  | KGraph => [Str "rdflib_graph"]
  end.

Definition opt_str_eqb (a : option str) (b : str) : bool :=
  match a with Some x => str_eqb x b | None => false end.

(** an atom of a branch condition (see tools/gen_consts.py, [_c08_atoms]) *)
Definition atom_holds (fmt : str) (cm : option str) (pres : list str) (a : str) : bool :=
  let names rest := split (Str "|") rest in
  if prefixb (Str "nn:") a then existsb (fun n => mem_str n pres) (names (skipn 3 a))
  else if prefixb (Str "none:") a then negb (mem_str (skipn 5 a) pres)
  else if prefixb (Str "fmt:") a then mem_str fmt (names (skipn 4 a))
  else if prefixb (Str "cmnot:") a then negb (opt_str_eqb cm (skipn 6 a))
  else if prefixb (Str "cm:") a then opt_str_eqb cm (skipn 3 a)
  else if str_eqb a (Str "cmnone") then match cm with None => true | Some _ => false end
  else false.

Fixpoint first_branch (fmt : str) (cm : option str) (pres : list str)
         (chain : list (list str * str)) : option str :=
  match chain with
  | [] => None              (* fall-through: the function returns None *)
  | (atoms, target) :: rest =>
    if forallb (atom_holds fmt cm pres) atoms then Some target
    else first_branch fmt cm pres rest
  end.

(** [_get_base_zip_archive_if_needed]: [inl None] no archive, [inl (Some n)]
    n opened archives; iterating [list_of_source_files = None] is a TypeError.
    The first test is a disjunction ([c08_zip_none_if], one atom list per
    disjunct): "not zip", and in the repaired shape also "nothing to unzip". *)
Definition zip_archives (cm : option str) (k : skind) : option nat + cerr :=
  if existsb (forallb (atom_holds [] cm (present k))) c08_zip_none_if then inl None
  else if forallb (atom_holds [] cm (present k)) c08_zip_one_if then inl (Some 1)
  else match k with KFiles n => inl (Some n) | _ => inr CEType end.

(** what the factory returns *)
Inductive ydesc :=
| YPlain (cls : str)                 (* a yielder over the source itself *)
| YZipOne (cls : str)                (* the multi-file yielder over the members of the one archive *)
| YZipMany (wrapper cls : str).      (* [MultiZipTriplesYielder] over one multi-file yielder per archive *)

Definition class_name (d : ydesc) : str :=
  match d with YPlain c => c | YZipOne c => c | YZipMany w _ => w end.

Definition dict_get {A} (d : list (str * A)) (k : str) : option A := dget d k.

(** constructor-time checks of the class the branch instantiates:
    [RdflibParserTripleYielder._check_input_format] *)
Definition ctor_ok (fmt cls : str) : bool :=
  if str_eqb cls (Str "RdflibParserTripleYielder") then mem_str fmt c08_rdflib_supported_formats
  else true.

Definition resolve_target (fmt : str) (za : option nat) (t : str) : ydesc + cerr :=
  if prefixb (Str "raise:") t then inr CEValue
  else if prefixb (Str "zip:") t then
    match za with
    | Some n => if Z.eqb (Z.of_nat n) c08_zip_single_archives then inl (YZipOne (skipn 4 t))
                else inl (YZipMany c08_zip_wrapper (skipn 4 t))
    | None => inr CESource
    end
  else if ctor_ok fmt t then inl (YPlain t) else inr CEValue.

(** [get_triple_yielder] for a local source ([namespaces_to_ignore = None]) *)
Definition dispatch (fmt : str) (cm : option str) (k : skind) : ydesc + cerr :=
  match zip_archives cm k with
  | inr e => inr e
  | inl za =>
    let pres := present k ++ match za with Some _ => [Str "zip_base_archives"] | None => [] end in
    match first_branch fmt cm pres c08_chain with
    | None => inr CESource
    | Some t =>
      if prefixb (Str "call:") t then
        match dict_get c08_helpers (skipn 5 t) with
        | None => inr CESource
        | Some ch => match first_branch fmt cm pres ch with
                     | None => inr CESource
                     | Some t' => resolve_target fmt za t'
                     end
        end
      else resolve_target fmt za t
    end
  end.

(** ** 6. what the yielders deliver *)

Inductive source :=
| SRaw (doc : str)                   (* raw_graph *)
| SFile (stored : str)               (* the bytes of the file at graph_file_input *)
| SFiles (stored : list str)         (* graph_list_of_files_input *)
| SUrl (stored : str)                (* what the URL serves *)
| SUrls (stored : list str)
| SGraph (g : list rtriple).         (* the triples of the rdflib Graph object *)

Definition kind_of (s : source) : skind :=
  match s with
  | SRaw _ => KRaw | SFile _ => KFile | SFiles l => KFiles (List.length l)
  | SUrl _ => KUrl | SUrls l => KUrls (List.length l) | SGraph _ => KGraph
  end.

(** rdflib's nondeterminism on one pass: the order in which a graph's triples
    are iterated and the identifiers given to blank nodes *)
Record rorc := { o_perm : list rtriple -> list rtriple; o_sigma : str -> str }.

Definition rename_rterm (f : str -> str) (t : rterm) : rterm :=
  match t with RBn s => RBn (f s) | _ => t end.

Definition rename_rtriple (f : str -> str) (t : rtriple) : rtriple :=
  RT (rename_rterm f (rt_s t)) (rt_p t) (rename_rterm f (rt_o t)).

Definition deliver (o : rorc) (g : list rtriple) : list rtriple :=
  map (rename_rtriple (o_sigma o)) (o_perm o g).

Section Channels.
  Variable pyfloat : str -> option bool.
  (** the document readers proved elsewhere, for the configured
      [infer_numeric_types_for_untyped_literals] *)
  Variable read_nt read_ttl : list str -> rd.
  (** codecs: [None] = the library raises *)
  Variable gunzip unxz : str -> option str.
  Variable unzip : str -> option (list (str * str)).      (* namelist() order, member contents *)
  (** rdflib: the graph a document of a given format denotes *)
  Variable rdf_parse : str -> str -> option (list rtriple).

  (** single-document line-based yielders *)
  Definition reader_of (cls : str) : option (list str -> rd) :=
    if str_eqb cls (Str "NtTriplesYielder") then Some read_nt
    else if str_eqb cls (Str "TsvNtTriplesYielder") then Some (read_tsv pyfloat)
    else if str_eqb cls (Str "BigTtlTriplesYielder") then Some read_ttl
    else None.

  Definition with_lines (rdr : list str -> rd) (ls : list str + cerr) : rd :=
    match ls with inl l => rdr l | inr e => inr e end.

  Definition codec (cm : option str) (stored : str) : str + cerr :=
    match cm with
    | None => inl stored
    | Some c =>
      if str_eqb c c_GZ then match gunzip stored with Some b => inl b | None => inr CECodec end
      else if str_eqb c c_XZ then match unxz stored with Some b => inl b | None => inr CECodec end
      else inr CESource
    end.

  (** the line reader [_decide_line_reader] picks, applied to what is stored.
      [raw] says that the text is a raw string; for a zip member [stored] is
      the member's content. *)
  Definition lines_of (raw : bool) (cm : option str) (stored : str) : list str + cerr :=
    match first_branch [] cm (if raw then [Str "raw_graph"] else []) c08_line_readers with
    | None => inr CESource
    | Some lr =>
      if str_eqb lr (Str "RawStringLineReader") then inl (lines_raw stored)
      else if str_eqb lr (Str "FileLineReader") then inl (lines_text stored)
      else if str_eqb lr (Str "GzFileLineReader") then
        match gunzip stored with Some b => lines_bytes b | None => inr CECodec end
      else if str_eqb lr (Str "XzFileLineReader") then
        match unxz stored with Some b => lines_bytes b | None => inr CECodec end
      else if str_eqb lr (Str "ZipFileLineReader") then lines_bytes stored
      else inr CEValue
    end.

  (** [RdflibParserTripleYielder]: a fresh [Graph()], parsed on every pass *)
  Definition rdflib_doc (o : rorc) (fmt : str) (raw : bool) (cm : option str) (stored : str) : rd :=
    let content :=
        match cm with
        | None => inl stored
        | Some c =>
          if raw then
            (* repaired shape: the compressed branch needs a source, a raw string is parsed as it is;
               old shape: gzip.open(None) / zip member None *)
            if c08_rdflib_compressed_needs_source then inl stored else inr CEType
          else if str_eqb c c_ZIP then inl stored      (* member content *)
          else codec cm stored
        end in
    match content with
    | inr e => inr e
    | inl b => match rdf_parse fmt b with
               | None => inr CECodec
               | Some g => read_rdflib (deliver o g)
               end
    end.

  (** one document through the single-document yielder [cls] *)
  Definition single (o : rorc) (fmt cls : str) (raw : bool) (cm : option str) (stored : str) : rd :=
    match reader_of cls with
    | Some rdr => with_lines rdr (lines_of raw cm stored)
    | None =>
      if str_eqb cls (Str "RdflibParserTripleYielder") then
        if ctor_ok fmt cls then rdflib_doc o fmt raw cm stored else inr CEValue   (* _check_input_format *)
      else inr CESource
    end.

  (** [MultifileBaseTripleYielder]: the files in list order, one fresh
      single-document yielder per file; the counters of finished yielders are
      accumulated, those of the current one added on demand: the sums.
      [orcs i] is rdflib's behaviour on the i-th file of this pass. *)
  Fixpoint multi_from (i : nat) (orcs : nat -> rorc) (fmt inner : str) (cm : option str)
           (files : list str) : rd :=
    match files with
    | [] => inl res_nil
    | f :: fs => rd_app (single (orcs i) fmt inner false cm f) (multi_from (S i) orcs fmt inner cm fs)
    end.

  Definition multi (orcs : nat -> rorc) (fmt cls : str) (cm : option str) (files : list str) : rd :=
    match dict_get c08_multi_inner cls with
    | Some inner => multi_from 0 orcs fmt inner cm files
    | None => inr CESource
    end.

  (** the members of one archive through the multi-file yielder [cls] *)
  Definition zip_one (orcs : nat -> rorc) (fmt cls : str) (archive : str) : rd :=
    match unzip archive with
    | None => inr CECodec
    | Some members => multi orcs fmt cls (Some c_ZIP) (map snd members)
    end.

  (** [MultiZipTriplesYielder]: the archives in list order.  After the loop
      [_current_yielder] is still the last archive's yielder, whose counters
      have already been added to the totals: the two public counters count the
      last archive twice. *)
  Definition zip_many (orcs : nat -> nat -> rorc) (fmt cls : str) (archives : list str) : rd :=
    let parts := map (fun ia => zip_one (orcs (fst ia)) fmt cls (snd ia))
                     (combine (seq 0 (List.length archives)) archives) in
    match rd_concat parts with
    | inr e => inr e
    | inl tot =>
      match last parts (inl res_nil) with
      | inl lst => inl (Res (r_triples tot) (r_yielded tot + r_yielded lst) (r_errors tot + r_errors lst))
      | inr e => inr e
      end
    end.

  (** the oracle of one pass: rdflib's behaviour on file [j] of archive [i]
      (archive 0 for sources without archives) *)
  Definition porc := nat -> nat -> rorc.

  (** one pass over the source: the yielder [get_triple_yielder] returns, run to exhaustion *)
  Definition run_yielder (o : porc) (fmt : str) (cm : option str) (src : source) (d : ydesc) : rd :=
    match d with
    | YPlain cls =>
      if str_eqb cls (Str "RdflibTripleYielder") then
        match src with SGraph g => read_rdflib (deliver (o 0 0) g) | _ => inr CESource end
      else match dict_get c08_multi_inner cls with
           | Some _ =>
             match src with
             | SFiles l => multi (o 0) fmt cls cm l
             | SUrls l => multi (o 0) fmt cls cm l
             | _ => inr CESource
             end
           | None =>
             match src with
             | SRaw doc => single (o 0 0) fmt cls true cm doc
             | SFile b => single (o 0 0) fmt cls false cm b
             | SUrl b => single (o 0 0) fmt cls false cm b
             | _ => inr CESource
             end
           end
    | YZipOne cls =>
      match src with
      | SFile a => zip_one (o 0) fmt cls a
      | SFiles [a] => zip_one (o 0) fmt cls a
      | _ => inr CESource
      end
    | YZipMany _ cls =>
      match src with
      | SFiles l => zip_many o fmt cls l
      | _ => inr CESource
      end
    end.

  Definition channel (o : porc) (fmt : str) (cm : option str) (src : source) : rd :=
    match dispatch fmt cm (kind_of src) with
    | inr e => inr e
    | inl d => run_yielder o fmt cm src d
    end.

  (** [Shaper._build_instance_tracker] and [_build_class_profiler] each call
      [get_triple_yielder]: the source is read twice, by two yielders that
      share nothing; rdflib's choices on the two passes are independent. *)
  Definition passes (o1 o2 : porc) (fmt : str) (cm : option str) (src : source) : rd * rd :=
    (channel o1 fmt cm src, channel o2 fmt cm src).
End Channels.

(** ** 7. from yielded objects to the pipeline's triples *)

Definition node_of_mterm (t : mterm) : option node :=
  match t with
  | MIri s => Some (Node KIri s)
  | MBn s => Some (Node KBnode s)
  | MLit _ _ => None
  end.

Definition obj_of_mterm (t : mterm) : obj :=
  match t with
  | MIri s => ON (Node KIri s)
  | MBn s => ON (Node KBnode s)
  | MLit c ty => OL c ty
  end.

(** a literal in subject position cannot be represented in [Spec.Rdf.triple]
    (no RDF document denotes one): [None] *)
Definition triple_of_m (t : mtriple) : option triple :=
  match node_of_mterm (m_s t) with
  | Some s => Some (T s (m_p t) (obj_of_mterm (m_o t)))
  | None => None
  end.

Fixpoint graph_of_m (l : list mtriple) : option graph :=
  match l with
  | [] => Some []
  | t :: l' => match triple_of_m t, graph_of_m l' with
               | Some x, Some g => Some (x :: g)
               | _, _ => None
               end
  end.

(** ** 8. the pipeline over the two passes *)

Section Run2.
  Variable fa : FreqAlg.

  (** [Run.run_shapes] with the instance pass over [g1] and the feature pass over [g2],
      the shexing stage in the order the code has ([ShexingFix.shex_cur], selected by the
      generated flag [Gen.Consts.c_clean_before_merge]).  The order matters here: an rdflib
      channel re-labels blank nodes on every pass, so a class WITH instances can lose its
      typing constraint in the feature pass, be empty at the threshold and still be
      referenced (Props/C08.v: [C08_two_streams_order_refuted]).  [run_shapes2 c thr g g]
      is [RunCur.run_shapes_cur c thr g] by reflexivity. *)
  Definition run_shapes2 (c : rcfg) (thr : F fa) (g1 g2 : graph) : (nsdict * list shape) + rerr :=
    match full_ns c with
    | None => inr RERandom
    | Some ns =>
      match track (r_tau c) (match r_targets c with Some l => TClasses l | None => TAll end) (r_cap c) g1 with
      | inr _ => inr REAttr
      | inl ins =>
        match profile (pcfg_of c) ins g2 with
        | inr PEAttr => inr REAttr
        | inr PEType => inr REType
        | inl (P, C, _) =>
          match shex_cur fa (scfg_of c ns) thr P C with
          | inr e => inr (rerr_of_s e)
          | inl shapes => inl (ns, shapes)
          end
        end
      end
    end.

  Definition run_shexc2 (c : rcfg) (thr : F fa) (g1 g2 : graph) : str + rerr :=
    match run_shapes2 c thr g1 g2 with
    | inr e => inr e
    | inl (ns, shapes) =>
      match render {| z_ns := ns; z_tau := r_tau c; z_disable_comments := r_disable_comments c;
                      z_mode := r_mode c |} shapes with
      | Some t => inl t
      | None => inr REValue
      end
    end.
End Run2.

(** ** 9. the extraction over what the two passes delivered *)

Definition graphs_of_passes (p : rd * rd) : option (graph * graph) :=
  match rd_stream (fst p), rd_stream (snd p) with
  | inl a, inl b =>
    match graph_of_m a, graph_of_m b with
    | Some g1, Some g2 => Some (g1, g2)
    | _, _ => None
    end
  | _, _ => None
  end.

(** [None]: a yielder raised, or delivered a literal in subject position *)
Definition run_over_passes (fa : FreqAlg) (c : rcfg) (thr : F fa) (p : rd * rd)
  : option ((nsdict * list shape) + rerr) :=
  match graphs_of_passes p with
  | Some (g1, g2) => Some (run_shapes2 fa c thr g1 g2)
  | None => None
  end.
