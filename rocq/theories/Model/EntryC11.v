(** Entry points of the C11 model (table glue). *)
From Coq Require Import List Ascii String ZArith NArith Bool.
From Shexer Require Import Lib.PyStr Lib.Dict Gen.Consts Model.Table Model.Tokens Model.Freq Model.Shexing
     Spec.ConstraintSpec Model.SerialShacl.
Import ListNotations.

(** cardinality field: "+", "*", "?" or a decimal *)
Definition card_of_field (f : str) : card :=
  if str_eqb f (Str "+") then CPlus
  else if str_eqb f (Str "*") then CStar
  else if str_eqb f (Str "?") then COpt
  else CExact (N_of_dec f).

(** fields from [i] on, in pairs (namespace, prefix) *)
Fixpoint ns_of_fields (l : list str) : nsdict :=
  match l with
  | n :: p :: l' => (n, p) :: ns_of_fields l'
  | _ => []
  end.

Definition status_str {A} (v : vres A) : str :=
  match v with
  | VOk _ => Str "ok"
  | VValueError => Str "ValueError"
  | VUnreadable => Str "unreadable"
  | VUnmodelled => Str "unmodelled"
  | VTypeError => Str "TypeError"
  end.

Definition nl1 : str := [ascii_of_nat 10].

(** a node as text: <iri>, "lex"^^<dt>, or [ arc ; arc ] with arcs in emission order *)
Fixpoint rnode_str (r : rnode) : str :=
  match r with
  | RIri i => Str "<" ++ i ++ Str ">"
  | RLit lex dt => Str """" ++ lex ++ Str """^^<" ++ dt ++ Str ">"
  | RBlank arcs =>
    Str "[" ++ (fix go (l : list (str * rnode)) : str :=
                  match l with
                  | [] => []
                  | (p, v) :: l' => Str "<" ++ p ++ Str "> " ++ rnode_str v ++ Str ";" ++ go l'
                  end) arcs ++ Str "]"
  end.

Definition arc_str (a : str * rnode) : str := Str "<" ++ fst a ++ Str "> " ++ rnode_str (snd a).

Definition restr_fields (r : restriction) : list str :=
  match r with
  | Datatype d => [Str "datatype"; d]
  | KindIri => [Str "kind"; Str "IRI"]
  | KindBnode => [Str "kind"; Str "BNode"]
  | KindNonLiteral => [Str "kind"; Str "NONLITERAL"]
  | Ref l => [Str "ref"; l]
  | ClassValue c => [Str "value"; c]
  end.

Definition mk_stmt (inv : bool) (p ty : str) (c : card) : stmt :=
  {| s_inv := inv; s_prop := p; s_types := [ty]; s_choice := false; s_card := c;
     s_nocc := 1%N; s_prob := POne; s_comments := [] |}.

(** row: inv prop type card tau (namespace prefix)*
    out: shex-status sense ptok vtok ctok | view: inv pred kind value min max
         | dom | shacl-status arc* *)
Definition c11_stmt_row (r : list str) : list str :=
  let st := mk_stmt (fbool r 0) (fld r 1) (fld r 2) (card_of_field (fld r 3)) in
  let tau := fld r 4 in
  let ns := ns_of_fields (skipn 5 r) in
  let toks := shexc_tokens ns tau st in
  let view := shex_view ns tau st in
  [status_str toks] ++
  match toks with
  | VOk t => [t_sense t; t_pred t; t_value t; t_card t]
  | _ => [[]; []; []; []]
  end ++
  [status_str view] ++
  match view with
  | VOk c => [bstr (c_inv c); c_pred c] ++ restr_fields (c_restr c) ++
             [dec_of_N (c_min c); match c_max c with None => Str "N" | Some m => "S"%char :: dec_of_N m end]
  | _ => [[]; []; []; []; []; []]
  end ++
  [bstr (C11_dom ns tau st)] ++
  match shacl_arcs tau st with
  | VOk arcs => Str "ok" :: map arc_str arcs
  | v => [status_str v]
  end.

(** row: shape-name class (namespace prefix)*
    out: shex-status label-iri shacl-status shape-iri dom *)
Definition c11_label_row (r : list str) : list str :=
  let name := fld r 0 in
  let ns := ns_of_fields (skipn 2 r) in
  let l := shex_label ns name in
  [status_str l; match l with VOk i => i | _ => [] end;
   match generate_shape_uri name with Some _ => Str "ok" | None => Str "ValueError" end;
   match generate_shape_uri name with Some u => u | None => [] end;
   bstr (ns_ok ns && shape_ref name)].

Definition entry_c11 (name : str) (t : table) : option table :=
  if str_eqb name (Str "c11_stmt") then Some (map c11_stmt_row t)
  else if str_eqb name (Str "c11_label") then Some (map c11_label_row t)
  else None.
