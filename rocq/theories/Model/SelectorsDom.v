(** * C10: from a specification (Spec/Selectors.v) to the arguments of the code,
    the domain on which C10 is proved, and the root causes outside it.

    [to_tspec] writes a [target] down as the user would (class names, shape map
    in the fixed or JSON syntax) -- the input of [Model.Selectors.run].
    [C10_dom] is the hypothesis of [Props/C10.v]; it is evaluated by the model
    binary to classify the inputs the check generates.  Everything here is
    computable. *)
From Coq Require Import List Ascii String ZArith NArith Bool.
From Shexer Require Import Lib.PyStr Lib.Dict Gen.Consts Spec.Rdf Spec.Selectors Model.Tracker Model.Selectors.
From Shexer Require Model.Profiler.
Import ListNotations.

Inductive smfmt := FmtFixed | FmtJson.
Inductive clsrc := ClsList | ClsFile.

Definition to_tspec (tg : target) (cs : clsrc) (fmt : smfmt) : tspec :=
  {| sp_ns := t_ns tg;
     sp_tau := show_ref (t_tau tg);
     sp_classes := match t_classes tg with
                   | None => CNone
                   | Some l => match cs with
                               | ClsList => CList (map show_ref l)
                               | ClsFile => CFile (show_class_file l)
                               end
                   end;
     sp_all := t_all tg;
     sp_smap := match t_items tg with
                | None => SMNone
                | Some its => match fmt with
                              | FmtFixed => SMFixed (show_fixed its)
                              | FmtJson => SMJson (show_json its)
                              end
                end |}.

(** ** computable denotation (proved equivalent to [Spec.Selectors.denote] in
    Proofs/SelectorProofs.v) *)

Definition term_matchesb (ns : nsdict) (f : fterm) (x : obj) : bool :=
  match f with
  | FWild => true
  | FA => obj_eqb x (ON (iri_node rdf_type))
  | FIri r => match resolve ns r with Some i => obj_eqb x (ON (iri_node i)) | None => false end
  end.

Definition pred_matchesb (ns : nsdict) (f : fterm) (p : str) : bool :=
  match f with
  | FWild => false
  | FA => str_eqb p rdf_type
  | FIri r => match resolve ns r with Some i => str_eqb p i | None => false end
  end.

Definition selects_list (ns : nsdict) (ans : str -> list obj) (G : graph) (sel : selector) : list obj :=
  match sel with
  | SelNode r => match resolve ns r with Some i => [ON (iri_node i)] | None => [] end
  | SelFocusSubj p o =>
    map (fun t => ON (ts t)) (filter (fun t => pred_matchesb ns p (tp t) && term_matchesb ns o (to t)) G)
  | SelFocusObj s p =>
    map to (filter (fun t => term_matchesb ns s (ON (ts t)) && pred_matchesb ns p (tp t)) G)
  | SelSparql q => ans q
  end.

(** all answers of the items carrying label [l] (with repetitions) *)
Definition label_answers (tg : target) (ans : str -> list obj) (G : graph) (l : str) : list obj :=
  match t_items tg with
  | None => []
  | Some its =>
    flat_map (fun it => match resolve (t_ns tg) (it_label it) with
                        | Some l' => if str_eqb l l' then selects_list (t_ns tg) ans G (it_sel it) else []
                        | None => []
                        end) its
  end.

Definition class_targetedb (tg : target) (c : str) : bool :=
  t_all tg ||
  match t_classes tg with
  | Some l => existsb (fun r => match resolve (t_ns tg) r with Some c' => str_eqb c c' | None => false end) l
  | None => false
  end.

Definition class_answers (tg : target) (G : graph) (c : str) : list obj :=
  match resolve (t_ns tg) (t_tau tg) with
  | Some tau =>
    if class_targetedb tg c
    then map (fun t => ON (ts t))
             (filter (fun t => str_eqb (tp t) tau && obj_eqb (to t) (ON (iri_node c))) G)
    else []
  | None => []
  end.

Definition denote_list (tg : target) (ans : str -> list obj) (G : graph) (S : skey) : list obj :=
  match S with
  | KClass c => class_answers tg G c
  | KLabel l => label_answers tg ans G l
  end.

(** ** the bridge between the specification's vocabulary and dictionary keys *)

Definition key_of (S : skey) : str :=
  match S with
  | KClass c => c
  | KLabel l => Str "<" ++ l ++ Str ">"
  end.

(** the instances dictionary is keyed by [.iri] of the model elements *)
Definition node_key (n : node) : str := nid n.

Definition labels_of (d : insts) (k : str) : list str :=
  match dget d k with Some l => l | None => [] end.

(** ** character-level side conditions *)

Definition nochar (c : ascii) (s : str) : bool := negb (existsb (Ascii.eqb c) s).
Definition nospace (s : str) : bool := negb (existsb is_space s).
(** no white space and no '@' *)
Definition word (s : str) : bool := nospace s && nochar "@"%char s.

Definition ok_prefix (p : str) : bool :=
  word p && nochar ":"%char p &&
  negb (first_char_is "<"%char p) && negb (first_char_is "{"%char p) &&
  negb (first_char_is (nth 0 c_sm_comment_char " "%char) p) &&
  negb (prefixb c_sel_sparql_kw p).

(** the local part of a prefixed name.  [once] = the code that expands the name
    there touches the leading [prefix:] only; where it does not (C10-F9:
    [str.replace] without a count) the local part must not hold [prefix:] again *)
Definition ok_local (once : bool) (p l : str) : bool :=
  nospace l && (once || negb (contains (p ++ Str ":") l)) && negb (suffixb (Str ">") (Str ":" ++ l)).

(** an IRI that ends up as a class / node / predicate identifier *)
Definition ok_iri (i : str) : bool :=
  nospace i && negb (str_eqb i []) && negb (prefixb (Str "<") i) && negb (prefixb (Str "_:") i).

Definition wf_node (n : node) : bool :=
  match nk n with
  | KIri => negb (prefixb (Str "_:") (nid n))
  | KBnode => prefixb (Str "_:") (nid n)
  end.

Definition wf_graph (G : graph) : bool :=
  forallb (fun t => wf_node (ts t) && match to t with ON n => wf_node n | OL _ _ => true end) G.

Definition wf_ns (ns : nsdict) : bool :=
  forallb (fun e => ok_prefix (snd e)) ns &&
  (fix nodup (l : list str) : bool :=
     match l with [] => true | x :: l' => negb (mem_str x l') && nodup l' end) (map snd ns) &&
  (fix nodup (l : list str) : bool :=
     match l with [] => true | x :: l' => negb (mem_str x l') && nodup l' end) (map fst ns) &&
  negb (mem_str dflt_shapes_namespace (map fst ns)) &&
  match find_adequate_prefix ns with Some _ => true | None => false end.

(** the prefix dictionary the parsers see *)
Definition pd_of (ns : nsdict) : pdict :=
  reverse_keys_and_values
    (dset ns dflt_shapes_namespace (match find_adequate_prefix ns with Some p => p | None => [] end)).

(** a reference, where it is written; [full_ok] = may it be written without
    brackets (class names, instantiation property); [once] = see [ok_local] *)
Definition ok_ref (ns : nsdict) (pd : pdict) (full_ok once : bool) (r : iriref) : bool :=
  match r with
  | Full i => full_ok && ok_iri i && negb (prefixb (Str "<") i) &&
              match first_prefix pd i with None => true | Some _ => false end
  | Angle i => ok_iri i
  | Pref p l => match ns_of ns p with
                | Some n => ok_local once p l && ok_iri (n ++ l)
                | None => false
                end
  end.

Definition ok_fterm (ns : nsdict) (pd : pdict) (f : fterm) : bool :=
  match f with
  | FWild => true
  | FA => true
  | FIri r => ok_ref ns pd false c_unprefix_sel_once r      (* NodeSelectorParser._unprefix_uri *)
  end.

Definition is_wild (f : fterm) : bool := match f with FWild => true | _ => false end.

(** the text of a SPARQL selector as the parser needs it: where the parser
    removes every occurrence of the keyword (C10-F10: [str.replace] without a
    count) the query must not hold the keyword itself *)
Definition ok_query (wf : str -> bool) (q : str) : bool :=
  nochar (ascii_of_nat 10) q && (c_sel_sparql_strip_once || negb (contains c_sel_sparql_kw q)) &&
  wf q &&
  (let head := slice_to q (find (Str "{") q) in
   contains (Str "select") (lower head) && Nat.eqb (count_char "?"%char head) 1).

Definition ok_selector (ns : nsdict) (pd : pdict) (wf : str -> bool) (sel : selector) : bool :=
  match sel with
  | SelNode r => ok_ref ns pd false c_unprefix_sel_once r   (* NodeSelectorParser._unprefix_uri *)
  | SelFocusSubj p o => negb (is_wild p) && ok_fterm ns pd p && ok_fterm ns pd o
  | SelFocusObj s p => negb (is_wild p) && ok_fterm ns pd p && ok_fterm ns pd s
  | SelSparql q => ok_query wf q
  end.

Definition is_iri_obj (x : obj) : bool :=
  match x with ON (Node KIri i) => negb (prefixb (Str "_:") i) | _ => false end.

Definition is_angle (r : iriref) : bool := match r with Angle _ => true | _ => false end.

(** a label: bracketed or prefixed, without '@' (the item is split at its last
    '@'), at least two characters long.  The label parser cuts a prefixed label
    at its first ':' (no [str.replace]): any local part will do *)
Definition ok_label (ns : nsdict) (pd : pdict) (r : iriref) : bool :=
  ok_ref ns pd false true r && nochar "@"%char (show_ref r) && negb (Z.ltb (len (show_ref r)) 2) &&
  negb (suffixb (Str ",") (show_ref r)).

Definition ok_item (ns : nsdict) (pd : pdict) (orc : oracles) (G : graph) (it : item) : bool :=
  ok_label ns pd (it_label it) &&
  ok_selector ns pd (o_wf orc) (it_sel it) &&
  forallb is_iri_obj (selects_list ns (o_ans orc) G (it_sel it)).

Definition tau_objects (G : graph) (tau : str) : list obj :=
  map to (filter (fun t => str_eqb (tp t) tau) G).

(** ** the domain of C10_instances_denote *)

Definition C10_dom (tg : target) (orc : oracles) (G : graph) : bool :=
  let ns := t_ns tg in
  let pd := pd_of ns in
  wf_ns ns && wf_graph G &&
  (* the instantiation property is written so that it resolves (utils.uri.unprefixize_uri_if_possible) *)
  ok_ref ns (reverse_keys_and_values ns) true c_unprefix_ifp_once (t_tau tg) &&
  (* a target specification the constructor accepts *)
  (if t_all tg
   then match t_classes tg with None => true | Some _ => false end
   else xorb (match t_classes tg with None => false | Some _ => true end)
             (match t_items tg with None => false | Some _ => true end)) &&
  (* class names resolve (utils.uri.unprefixize_uri_if_possible); at least one is given *)
  match t_classes tg with
  | None => true
  | Some l => negb (Nat.eqb (List.length l) 0) && forallb (ok_ref ns pd true c_unprefix_ifp_once) l
  end &&
  (* all_classes_mode: every object of the instantiation property is an IRI, and none looks like a label key *)
  (if t_all tg
   then match resolve ns (t_tau tg) with
        | Some tau => forallb (fun x => match x with
                                        | ON (Node KIri c) => negb (prefixb (Str "<") c)
                                        | _ => false
                                        end) (tau_objects G tau)
        | None => false
        end
   else true) &&
  (* shape-map items: well-formed labels and selectors, IRI answers only *)
  match t_items tg with
  | None => true
  | Some its => forallb (ok_item ns pd orc G) its
  end.

(** ** counts: no statement of the document is repeated *)

Fixpoint nodup_objs (l : list obj) : bool :=
  match l with
  | [] => true
  | x :: l' => negb (existsb (obj_eqb x) l') && nodup_objs l'
  end.

Fixpoint nodup_graph (G : graph) : bool :=
  match G with
  | [] => true
  | t :: G' => negb (existsb (triple_eqb t) G') && nodup_graph G'
  end.

Definition item_labels (tg : target) : list str :=
  match t_items tg with
  | None => []
  | Some its => flat_map (fun it => match resolve (t_ns tg) (it_label it) with Some l => [l] | None => [] end) its
  end.

Definition C10_dom_count (tg : target) (orc : oracles) (G : graph) : bool :=
  C10_dom tg orc G && nodup_graph G.

(** ** root causes outside the domain (known findings) *)

(** F1: a selector answers a blank node or a literal ([str(a_row[0])] loses the kind) *)
Definition rc_nonIri_answer (tg : target) (orc : oracles) (G : graph) : bool :=
  match t_items tg with
  | None => false
  | Some its => existsb (fun it => negb (forallb is_iri_obj (selects_list (t_ns tg) (o_ans orc) G (it_sel it)))) its
  end.

(** F8 (what is left of F3): fixed syntax, '@' inside a label *)
Definition rc_at_in_label (tg : target) (fmt : smfmt) : bool :=
  match fmt, t_items tg with
  | FmtFixed, Some its => existsb (fun it => negb (nochar "@"%char (show_ref (it_label it)))) its
  | _, _ => false
  end.

(** F7 (what is left of F4): a repeated statement (counted twice by the class trackers) *)
Definition rc_repeated_statement (G : graph) : bool := negb (nodup_graph G).

(** F6: a literal object of the instantiation property (all_classes_mode: the
    tracker raises; otherwise the profiler raises once the subject is an instance) *)
Definition rc_tau_literal (tg : target) (G : graph) : bool :=
  match resolve (t_ns tg) (t_tau tg) with
  | Some tau => existsb (fun x => match x with OL _ _ => true | ON _ => false end) (tau_objects G tau)
  | None => false
  end.

(** F9: a prefixed name, outside labels, whose local part contains its own
    [prefix:] again, expanded by a copy of [uri.replace(prefix + ":", namespace)]
    that still replaces every occurrence (no copy left: no such root cause) *)
Definition ref_repeats_prefix (r : iriref) : bool :=
  match r with Pref p l => contains (p ++ Str ":") l | _ => false end.

Definition fterm_repeats_prefix (f : fterm) : bool :=
  match f with FIri r => ref_repeats_prefix r | _ => false end.

Definition rc_prefix_in_local (tg : target) : bool :=
  negb c_unprefix_ifp_once &&
  (ref_repeats_prefix (t_tau tg) ||
   match t_classes tg with Some l => existsb ref_repeats_prefix l | None => false end) ||
  negb c_unprefix_sel_once &&
  match t_items tg with
  | Some its => existsb (fun it => match it_sel it with
                                   | SelNode r => ref_repeats_prefix r
                                   | SelFocusSubj a b | SelFocusObj a b => fterm_repeats_prefix a || fterm_repeats_prefix b
                                   | SelSparql _ => false
                                   end) its
  | None => false
  end.

(** F10: the query of a SPARQL selector holds the keyword [SPARQL] (inside an
    IRI, a variable name, a literal), and the parser removes every occurrence
    of it (no root cause once only the leading keyword is removed) *)
Definition rc_sparql_kw_in_query (tg : target) : bool :=
  negb c_sel_sparql_strip_once &&
  match t_items tg with
  | Some its => existsb (fun it => match it_sel it with
                                   | SelSparql q => contains c_sel_sparql_kw q
                                   | _ => false
                                   end) its
  | None => false
  end.

(** the classes / labels a specification names on [G] *)
Definition dedup_str : list str -> list str -> list str :=
  fix dd (l seen : list str) : list str :=
    match l with
    | [] => []
    | x :: l' => if mem_str x seen then dd l' seen else x :: dd l' (x :: seen)
    end.

Definition candidate_keys (tg : target) (G : graph) : list skey :=
  let named := match t_classes tg with
               | Some l => flat_map (fun r => match resolve (t_ns tg) r with Some c => [c] | None => [] end) l
               | None => []
               end in
  let occurring := if t_all tg then
                     match resolve (t_ns tg) (t_tau tg) with
                     | Some tau => flat_map (fun x => match x with ON (Node KIri c) => [c] | _ => [] end)
                                            (tau_objects G tau)
                     | None => []
                     end
                   else [] in
  map KClass (dedup_str (named ++ occurring) []) ++ map KLabel (dedup_str (item_labels tg) []).

(** F5 (text level only): two keys of the specification are printed under one
    shape label ([build_shapes_name_for_class_uri] keeps the local name of a
    class and the whole IRI of a bracketed label) *)
Definition rc_same_shape_name (tg : target) (G : graph) : bool :=
  negb ((fix nodup (l : list str) : bool :=
           match l with [] => true | x :: l' => negb (mem_str x l') && nodup l' end)
          (map (fun S => Profiler.shape_name dflt_shapes_namespace (key_of S)) (candidate_keys tg G))).

(** where the text-level observation (labels, headers, figures) is expected to be right *)
Definition C10_dom_text (tg : target) (orc : oracles) (G : graph) : bool :=
  C10_dom_count tg orc G && negb (rc_same_shape_name tg G) && negb (rc_tau_literal tg G).
