(** Entry point of the C15 model (glue: table in, table out).

    Input table:
      row 0: tau, cache, inverse, allow_num, last_level, limit, cap, mode ("classes" | "all" | "map")
      ["C"; class]                                  target classes (mode classes), in order
      ["S"; "node"; n] | ["S"; "focusS"; p; opt o] | ["S"; "focusO"; opt s; p]   shape-map items, in order
      ["R"; pass; node]                             ranking of the target nodes observed at the set -> list site
      ["T"; "I"|"B"; s; p; "I"|"B"|"L"; value; opt datatype; opt lang]   the served graph, in answer order
    Output table:
      row 0: "ok" | "err", C15_dom as "1"/"0", C15_names_dom as "1"/"0"
      [pass; "Q"; kind; text] | [pass; "Y"; "I"|"B"; s; p; "I"|"B"|"L"; value; datatype] | [pass; "X"; error]  *)
From Coq Require Import List Ascii String ZArith Bool.
From Shexer Require Import Lib.PyStr Gen.Consts Spec.Rdf Spec.EndpointSpec Model.Table Model.Endpoint.
Import ListNotations.

Definition tag_is (r : list str) (t : string) : bool := str_eqb (fld r 0) (Str t).

Definition c15_striple (r : list str) : striple :=
  let s := if str_eqb (fld r 1) (Str "B") then NB (fld r 2) else NI (fld r 2) in
  let o := if str_eqb (fld r 4) (Str "L") then SLit (fld r 5) (fopt r 6) (fopt r 7)
           else if str_eqb (fld r 4) (Str "B") then SN (NB (fld r 5)) else SN (NI (fld r 5)) in
  {| ss := s; sp := fld r 3; so := o |}.

Definition c15_selector (r : list str) : selector :=
  if str_eqb (fld r 1) (Str "node") then SelNode (fld r 2)
  else if str_eqb (fld r 1) (Str "focusS") then SelFocusS (fld r 2) (fopt r 3)
  else SelFocusO (fopt r 2) (fld r 3).

Definition c15_rank (t : table) (pass : str) : list str :=
  flat_map (fun r => if tag_is r "R" && str_eqb (fld r 1) pass then [fld r 2] else []) t.

Definition qkind_str (k : qkind) : str :=
  match k with
  | QClasses => Str "classes" | QSel => Str "sel" | QPO => Str "po" | QSP => Str "sp" | QTypes => Str "types"
  end.

Definition eerr_str (e : eerr) : str :=
  match e with
  | XValue => Str "ValueError" | XRuntime => Str "RuntimeError" | XAttr => Str "AttributeError"
  | XUnmodelled => Str "unmodelled"
  end.

Definition nkind_str (k : nkind) : str := match k with KIri => Str "I" | KBnode => Str "B" end.

Definition event_row (pass : str) (e : event) : list str :=
  match e with
  | EQ q => [pass; Str "Q"; qkind_str (fst q); snd q]
  | EY t => [pass; Str "Y"; nkind_str (nk (ts t)); nid (ts t); tp t] ++
            match to t with
            | ON n => [nkind_str (nk n); nid n; []]
            | OL c d => [Str "L"; c; d]
            end
  | EX e => [pass; Str "X"; eerr_str e]
  end.

Definition c15_run (t : table) : table :=
  let r0 := nth 0 t [] in
  let c := {| c_tau := fld r0 0; c_cache := fbool r0 1; c_inverse := fbool r0 2; c_allow_num := fbool r0 3;
              c_last_level := fbool r0 4; c_limit := fZ r0 5; c_cap := fZ r0 6 |} in
  let classes := flat_map (fun r => if tag_is r "C" then [fld r 1] else []) t in
  let items := flat_map (fun r => if tag_is r "S" then [c15_selector r] else []) t in
  let G := flat_map (fun r => if tag_is r "T" then [c15_striple r] else []) t in
  let m := if str_eqb (fld r0 7) (Str "classes") then MClasses classes
           else if str_eqb (fld r0 7) (Str "all") then MAll else MShapeMap items in
  let O := {| o_ord := fun _ _ l => l;
              o_set := fun pass l => order_by_rank (c15_rank t (dec_of_N (N.of_nat pass))) l |} in
  let r := run c m G O in
  [(if r_ok r then Str "ok" else Str "err"); bstr (C15_dom (c_allow_num c) (c_tau c) G); bstr (C15_names_dom c m G)]
    :: map (event_row (Str "1")) (r_p1 r) ++ map (event_row (Str "2")) (r_p2 r).

Definition entry_c15 (name : str) (t : table) : option table :=
  if str_eqb name (Str "c15_run") then Some (c15_run t) else None.
