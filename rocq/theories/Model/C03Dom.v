(** * Definitions behind C03's theorem T4 that the harness also EVALUATES
    (extracted binary): the data-side vocabulary (instances, type keys of a
    value, per-instance counts), the property's strict domain as a boolean
    ([strict_domb]) and the profile characterisation as a boolean
    ([profile_exactb]: the premise P1 of [run_conformance], monitored on every
    generated case).  Lemmas about them are in Proofs/ConformProofs.v and
    Proofs/ConformSat.v. *)
From Coq Require Import List Ascii String ZArith NArith Bool.
From Shexer Require Import Lib.PyStr Lib.Dict Gen.Consts Spec.Rdf Spec.ShexSem Model.Tracker Model.Profiler
     Model.Tokens Model.Freq Model.Shexing Model.Run Model.SchemaOf.
Import ListNotations.

Definition class_cnt (counts : ccounts) (ce : str * centry) : N :=
  match dget counts (fst ce) with Some n => n | None => 0%N end.

Definition class_pd (ce : str * centry) (inv : bool) : pdict :=
  if inv then c_inverse (snd ce) else c_direct (snd ce).


(** number of instances (of a list) satisfying [f] *)
Definition n_inst (A : Type) (insts : list A) (f : A -> bool) : N := N.of_nat (List.length (filter f insts)).

(** when an instance with [x] values counts for cardinality key [c]
    (as Spec/Counts.v's [card_ok] of the profile characterisation) *)
Definition ck_ok (cfg : scfg) (p : str) (c : ckey) (x : N) : bool :=
  (0 <? x)%N &&
  (if str_eqb p (x_tau cfg) then ckey_eqb c (CKn 1)
   else match c with CKn m => N.eqb m x | CKplus => true end).

Fixpoint nodupb (l : list triple) : bool :=
  match l with
  | [] => true
  | x :: r => negb (existsb (triple_eqb x) r) && nodupb r
  end.

Fixpoint list_str_eqb (a b : list str) : bool :=
  match a, b with
  | [], [] => true
  | x :: a', y :: b' => str_eqb x y && list_str_eqb a' b'
  | _, _ => false
  end.


Section Data.
  Variable tau sns : str.
  Variable G : graph.

  Definition T0 : typing := instance_typing tau sns G.

  Definition labels_of (n : node) : list str :=
    map snd (filter (fun nl => node_eqb (fst nl) n) T0).

  (** subjects of the [tau]-triples whose object is named [c] (with multiplicity, as the tracker lists them) *)
  Definition instances_of (c : str) : list node :=
    flat_map (fun t => if str_eqb (tp t) tau
                       then match to t with
                            | ON cn => if str_eqb (nid cn) c then [ts t] else []
                            | OL _ _ => []
                            end
                       else []) G.

  (** the type keys a value [x] of property [p] contributes to (Spec/Counts.v's
      [keys_direct] / [keys_inverse] without its collision quirks, which the
      strict domain excludes): its element type, then the labels of its classes
      -- except for blank-node subjects on inverse paths *)
  Definition keys_of (inv : bool) (p : str) (x : obj) : list str :=
    match x with
    | OL _ dt => if str_eqb p tau then [] else [dt]
    | ON n => if str_eqb p tau then [nid n]
              else elem_type_node n :: (if inv && nkind_eqb (nk n) KBnode then [] else labels_of n)
    end.

  Definition cntk (i : node) (inv : bool) (p k : str) : N :=
    N.of_nat (List.length (filter (fun x => mem_str k (keys_of inv p x)) (nbrs G i inv p))).

  (** non-literal neighbours of the instances of class [c] *)
  Definition nl_nbrs (c : str) (inv : bool) (p : str) : list node :=
    flat_map (fun i => flat_map (fun x => match x with ON n => [n] | OL _ _ => [] end) (nbrs G i inv p))
             (instances_of c).


  Definition classes_in : list str :=
    flat_map (fun t => if str_eqb (tp t) tau then match to t with ON cn => [nid cn] | OL _ _ => [] end else []) G.

  Definition preds_in : list str := map tp G.

  Definition kinds_homog (X : list node) : bool :=
    match X with
    | [] => true
    | x0 :: _ => forallb (fun x => nkind_eqb (nk x) (nk x0)) X
    end.

  Definition typed_homog (X : list node) : bool :=
    forallb (fun x => list_str_eqb (labels_of x) []) X ||
    match X with
    | [] => true
    | x0 :: _ => match labels_of x0 with
                 | [l] => forallb (fun x => list_str_eqb (labels_of x) [l]) X
                 | _ => false
                 end
    end.

  Definition path_ok (c : str) (inv : bool) (p : str) : bool :=
    str_eqb p tau || (kinds_homog (nl_nbrs c inv p) && typed_homog (nl_nbrs c inv p)).

  (** blank-node identifiers start with "_:", IRI identifiers do not (so the identifier string
      identifies the node, as in every yielder-produced graph) *)
  Definition markedb (n : node) : bool :=
    Bool.eqb (nkind_eqb (nk n) KBnode) (prefixb (Str "_:") (nid n)).

  Definition strict_domb : bool :=
    forallb (fun t => markedb (ts t) && match to t with ON o => markedb o | OL _ _ => true end) G &&
    forallb (fun c1 => forallb (fun c2 => negb (str_eqb (shape_name sns c1) (shape_name sns c2)) || str_eqb c1 c2)
                               classes_in) classes_in &&
    nodupb G &&
    forallb (fun t => match to t with
                      | OL _ dt => negb (is_nonliteral_type dt) && negb (str_eqb dt c_NONLITERAL_ELEM_TYPE)
                      | ON _ => true
                      end) G &&
    forallb (fun nl : node * label => is_shape_type (snd nl)) T0 &&
    forallb (fun t => if str_eqb (tp t) tau
                      then match to t with
                           | ON (Node KIri c) => list_str_eqb (labels_of (Node KIri c)) [] &&
                                                 negb (str_eqb c c_NONLITERAL_ELEM_TYPE)
                           | _ => false
                           end
                      else true) G &&
    forallb (fun c => forallb (fun p => path_ok c false p && path_ok c true p) preds_in) classes_in.

End Data.

Section ExactB.
  Variable okNb : N -> bool.
  Variable cfg : scfg.
  Variable G : graph.
  Let tau := x_tau cfg.
  Let sns := x_shapes_ns cfg.

  Definition has_entry (pd : pdict) (p k : str) (ck : ckey) : bool :=
    existsb (fun pm : str * dict cdict =>
      str_eqb p (fst pm) &&
      existsb (fun kc : str * cdict =>
        str_eqb k (fst kc) && existsb (fun cn : ckey * N => ckey_eqb ck (fst cn)) (snd kc)) (snd pm)) pd.

  Definition dir_exactb (ce : str * centry) (inv : bool) : bool :=
    let insts := instances_of tau G (fst ce) in
    let pd := class_pd ce inv in
    forallb (fun pm : str * dict cdict =>
      forallb (fun kc : str * cdict =>
        forallb (fun cn : ckey * N =>
          N.eqb (snd cn) (n_inst node insts (fun i => ck_ok cfg (fst pm) (fst cn) (cntk tau sns G i inv (fst pm) (fst kc)))) &&
          N.ltb 0 (snd cn) &&
          match fst cn with
          | CKn _ => str_eqb (fst pm) tau || existsb (fun cn' : ckey * N => ckey_eqb CKplus (fst cn')) (snd kc)
          | CKplus => true
          end) (snd kc)) (snd pm)) pd &&
    forallb (fun i =>
      forallb (fun p =>
        forallb (fun x =>
          forallb (fun k => has_entry pd p k (if str_eqb p tau then CKn 1 else CKplus))
                  (keys_of tau sns G inv p x)) (nbrs G i inv p)) (preds_in G)) insts.

  Definition class_exactb (C : ccounts) (ce : str * centry) : bool :=
    let insts := instances_of tau G (fst ce) in
    match insts with [] => false | _ => true end &&
    N.eqb (class_cnt C ce) (N.of_nat (List.length insts)) && okNb (class_cnt C ce) &&
    dir_exactb ce false && (negb (x_inverse cfg) || dir_exactb ce true).

  Definition profile_exactb (P : cprofile) (C : ccounts) : bool :=
    forallb (class_exactb C) P &&
    forallb (fun c => existsb (fun ce : str * centry => str_eqb (fst ce) c) P) (classes_in tau G) &&
    forallb (fun ce1 : str * centry =>
      forallb (fun ce2 : str * centry =>
        negb (str_eqb (shape_name sns (fst ce1)) (shape_name sns (fst ce2))) || str_eqb (fst ce1) (fst ce2)) P) P.

End ExactB.

(** both premises of [run_conformance], computed on the model's own tracker and profiler *)
Definition c03_premises (okNb : N -> bool) (c : rcfg) (g : graph) : option (bool * bool) :=
  match full_ns c with
  | None => None
  | Some ns =>
    match track (r_tau c) (match r_targets c with Some l => TClasses l | None => TAll end) (r_cap c) g with
    | inr _ => None
    | inl ins =>
      match profile (pcfg_of c) ins g with
      | inl (P, C, _) => Some (strict_domb (r_tau c) (r_shapes_ns c) g, profile_exactb okNb (scfg_of c ns) g P C)
      | inr _ => None
      end
    end
  end.

(** class sizes for which the binary64 laws hold ([Proofs/FreqLaws.okN53]) *)
Definition okN53b (d : N) : bool := (0 <? d)%N && (d <? 2 ^ 53)%N.
