(** * Token rendering shared by the shexing stage (comments) and the ShExC
    serialiser: [BaseStatementSerializer.tune_token],
    [_prefixize_uri_if_possible], [utils.uri.prefixize_uri_if_possible],
    [utils.shapes.prefixize_shape_name_if_possible]. *)
From Coq Require Import List Ascii String ZArith Bool.
From Shexer Require Import Lib.PyStr Lib.Dict Gen.Consts.
Import ListNotations.

(** namespaces dictionary: namespace IRI -> prefix, insertion-ordered *)
Definition nsdict := dict str.

(** first namespace that is a prefix of [uri] with no further '/' or '#' *)
Fixpoint best_ns (ns : nsdict) (uri : str) : option (str * str) :=
  match ns with
  | [] => None
  | (n, p) :: ns' =>
    if prefixb n uri &&
       negb (contains (Str "/") (skipn (List.length n) uri)) &&
       negb (contains (Str "#") (skipn (List.length n) uri))
    then Some (n, p)
    else best_ns ns' uri
  end.

(** [str.replace(old, new)] with Python's treatment of an empty [old]
    (inserted between all characters) left out: namespaces are never empty in
    the modelled runs; an empty namespace key is an error of the model. *)
Definition py_replace (old new s : str) : str := replace_all old new s.

(** [BaseStatementSerializer._prefixize_uri_if_possible] *)
Definition prefixize_opt (ns : nsdict) (uri : str) : option str :=
  match best_ns ns uri with
  | None => None
  | Some (n, p) => Some (py_replace n (p ++ Str ":") uri)
  end.

(** [remove_corners] with [raise_error_if_no_corners=True]; [None] = ValueError *)
Definition remove_corners_strict (u : str) : option str :=
  if prefixb (Str "<") u && suffixb (Str ">") u then Some (slice u 1 (-1)) else None.

(** [prefixize_uri_if_possible(target, ns)] with [corners=True] *)
Definition prefixize_cornered (ns : nsdict) (target : str) : option str :=
  match remove_corners_strict target with
  | None => None
  | Some cand =>
    match best_ns ns cand with
    | None => Some target
    | Some (n, p) => Some (py_replace n (p ++ Str ":") cand)
    end
  end.

(** [prefixize_shape_name_if_possible]: drops the leading sentinel *)
Definition prefixize_shape_name (ns : nsdict) (name : str) : option str :=
  prefixize_cornered ns (slice_from name 1).

(** [tune_token]; [None] = ValueError (from [remove_corners]) *)
Definition tune_token (ns : nsdict) (tok : str) : option str :=
  if prefixb c_STARTING_CHAR_FOR_SHAPE_NAME tok then
    match prefixize_shape_name ns tok with
    | Some s => Some (c_SHAPE_LINK_CHAR ++ s)
    | None => None
    end
  else if mem_str tok [c_IRI_ELEM_TYPE; c_BNODE_ELEM_TYPE; c_NONLITERAL_ELEM_TYPE] then Some tok
  else if negb (contains (Str ":") tok) then
    if contains (Str "<") tok then Some (c_SHAPE_LINK_CHAR ++ tok)
    else Some (c_SHAPE_LINK_CHAR ++ Str "<" ++ tok ++ Str ">")
  else match prefixize_opt ns tok with
       | Some s => Some s
       | None => Some (Str "<" ++ tok ++ Str ">")
       end.
