(** * The two serialisers' constraint views of one statement (property C11).

    [shexc_tokens] follows BaseStatementSerializer.serialize_statement_with_indent_level
    (sense flag, [tune_token] of the property, [str_of_target_element],
    [cardinality_representation]) and yields the four tokens of the triple
    constraint line; [shex_view] is what a ShExC reader ([Spec.ConstraintSpec.read_tc])
    makes of them.

    [shacl_view] follows ShaclSerializer._add_constraint and below
    ([_add_instantiation_constraint], [_add_regular_constraint], [_add_node_type],
    [_MACRO_MAPPING], [_add_in_instance], [_min/_max_occurs_from_cardinality],
    [_add_cardinality], [_add_path], [_generate_r_uri_for_str_uri],
    [_generate_shape_uri]) and yields the arcs the code adds to the rdflib
    graph for that statement, in the order of the [_add_triple] calls.  Every
    raise of the Python code is [VValueError].

    All vocabulary, tables and sentinels come from [Gen/Consts.v]; the only
    IRIs written here are rdflib's own ([RDF.type/first/rest/nil],
    [XSD.integer]). *)
From Coq Require Import List Ascii String ZArith NArith Bool.
From Shexer Require Import Lib.PyStr Lib.Dict Gen.Consts Model.Tokens Model.Freq Model.Shexing
     Spec.ConstraintSpec.
Import ListNotations.

Inductive vres (A : Type) :=
| VOk (a : A)
| VValueError          (* the Python code raises ValueError *)
| VUnreadable          (* the ShExC tokens are not a triple constraint a reader accepts *)
| VUnmodelled          (* statement form outside this model (ShExC view of OR statements; an unknown helper) *)
| VTypeError.          (* the Python code raises TypeError ([st_type] of a choice statement) *)
Arguments VOk {A}. Arguments VValueError {A}. Arguments VUnreadable {A}. Arguments VUnmodelled {A}.
Arguments VTypeError {A}.

(** ** the Python value of [statement.cardinality]: an int or one of the
    sentinel strings (as assigned by the shexing stage, which imports them
    from shexer.model.statement; the profiler's '+' is [c_ONE_TO_MANY]) *)
Inductive pyval := PInt (z : Z) | PStr (s : str).

Definition pyval_eqb (a b : pyval) : bool :=
  match a, b with
  | PInt x, PInt y => Z.eqb x y
  | PStr x, PStr y => str_eqb x y
  | _, _ => false
  end.

Definition card_value (c : card) : pyval :=
  match c with
  | CExact k => PInt (Z.of_N k)
  | CPlus => PStr c_POSITIVE_CLOSURE
  | CStar => PStr c_KLEENE_CLOSURE
  | COpt => PStr c_OPT_CARDINALITY
  end.

(** [str(v)] *)
Definition py_str (v : pyval) : str :=
  match v with PInt z => dec_of_Z z | PStr s => s end.

(** [v in [s1, s2, ...]] for a list of strings *)
Definition pyval_in (v : pyval) (l : list str) : bool :=
  match v with PStr s => mem_str s l | PInt _ => false end.

(** ** ShExC side *)

(** BaseStatementSerializer.cardinality_representation *)
Definition cardinality_representation (out_of_comment : bool) (v : pyval) : str :=
  if out_of_comment && pyval_eqb v (PInt shexc_card_omitted) then []
  else if pyval_in v shexc_card_symbols then py_str v
  else Str "{" ++ py_str v ++ Str "}".

(** ShexSerializer._decide_instantiation_property for a [str] argument
    ([remove_corners] with [raise_error_if_no_corners=False]) *)
Definition shex_tau (tau : str) : str :=
  if prefixb (Str "<") tau && suffixb (Str ">") tau then slice tau 1 (-1) else tau.

(** BaseStatementSerializer.str_of_target_element *)
Definition str_of_target_element (ns : nsdict) (tau prop ty : str) : option str :=
  match tune_token ns ty with
  | None => None
  | Some t => Some (if str_eqb prop (shex_tau tau) then Str "[" ++ t ++ Str "]" else t)
  end.

Record shex_tokens := { t_sense : str; t_pred : str; t_value : str; t_card : str }.

(** the tokens of the constraint line (the gaps, the closing ';' and the
    trailing comment are layout, not tokens) *)
Definition shexc_tokens (ns : nsdict) (tau : str) (st : stmt) : vres shex_tokens :=
  if s_choice st then VUnmodelled
  else match s_types st with
       | [ty] =>
         match tune_token ns (s_prop st), str_of_target_element ns tau (s_prop st) ty with
         | Some p, Some v =>
           VOk {| t_sense := if s_inv st then c_INVERSE_SENSE_SHEXC else [];
                  t_pred := p; t_value := v;
                  t_card := cardinality_representation true (card_value (s_card st)) |}
         | _, _ => VValueError
         end
       | _ => VUnmodelled
       end.

(** PREFIX lines are printed from the namespaces dict in its order *)
Definition pm_of_ns (ns : nsdict) : prefix_map := map (fun np : str * str => (snd np, fst np)) ns.

Definition shex_view (ns : nsdict) (tau : str) (st : stmt) : vres constr :=
  match shexc_tokens ns tau st with
  | VOk t => match read_tc (pm_of_ns ns) (t_sense t) (t_pred t) (t_value t) (t_card t) with
             | Some c => VOk c
             | None => VUnreadable
             end
  | VValueError => VValueError
  | VUnreadable => VUnreadable
  | VUnmodelled => VUnmodelled
  | VTypeError => VTypeError
  end.

(** the shape label line: prefixize_shape_name_if_possible(shape.name) *)
Definition shex_label (ns : nsdict) (name : str) : vres str :=
  match prefixize_shape_name ns name with
  | None => VValueError
  | Some tok => match read_iri (pm_of_ns ns) tok with Some i => VOk i | None => VUnreadable end
  end.

Fixpoint vres_all {A} (l : list (vres A)) : vres (list A) :=
  match l with
  | [] => VOk []
  | x :: l' =>
    match x with
    | VOk a => match vres_all l' with
               | VOk r => VOk (a :: r)
               | VValueError => VValueError
               | VUnreadable => VUnreadable
               | VUnmodelled => VUnmodelled
               | VTypeError => VTypeError
               end
    | VValueError => VValueError
    | VUnreadable => VUnreadable
    | VUnmodelled => VUnmodelled
    | VTypeError => VTypeError
    end
  end.

Definition shex_shape_view (ns : nsdict) (tau : str) (sh : shape) : vres cshape :=
  match shex_label ns (sh_name sh), vres_all (map (shex_view ns tau) (sh_stmts sh)) with
  | VOk l, VOk cs => VOk {| cs_label := l; cs_class := sh_class sh; cs_constraints := cs |}
  | VOk _, VValueError => VValueError
  | VOk _, VUnreadable => VUnreadable
  | VOk _, VUnmodelled => VUnmodelled
  | VOk _, VTypeError => VTypeError
  | VValueError, _ => VValueError
  | VUnreadable, _ => VUnreadable
  | VUnmodelled, _ => VUnmodelled
  | VTypeError, _ => VTypeError
  end.

Definition shex_doc_view (ns : nsdict) (tau : str) (l : list shape) : vres (list cshape) :=
  vres_all (map (shex_shape_view ns tau) l).

(** ** SHACL side *)

(** rdflib's vocabulary objects (external to sheXer) *)
Definition rdflib_RDF_type : str := Str "http://www.w3.org/1999/02/22-rdf-syntax-ns#type".
Definition rdflib_RDF_first : str := Str "http://www.w3.org/1999/02/22-rdf-syntax-ns#first".
Definition rdflib_RDF_rest : str := Str "http://www.w3.org/1999/02/22-rdf-syntax-ns#rest".
Definition rdflib_RDF_nil : str := Str "http://www.w3.org/1999/02/22-rdf-syntax-ns#nil".
Definition rdflib_XSD_integer : str := Str "http://www.w3.org/2001/XMLSchema#integer".
Definition rdflib_XSD_string : str := Str "http://www.w3.org/2001/XMLSchema#string".

(** _generate_r_uri_for_str_uri; [None] = ValueError *)
Definition generate_r_uri (s : str) : option str :=
  if prefixb shacl_uri_corner_open s && suffixb shacl_uri_corner_close s then Some (slice s 1 (-1))
  else if existsb (fun p => prefixb p s) shacl_uri_schemes then Some s
  else None.

(** utils/uri.py [remove_corners(a_uri, raise_error_if_no_corners=False)]: one pair of
    enclosing corners goes, and only when the string both starts with '<' and ends with '>' *)
Definition cornered (s : str) : bool := prefixb (Str "<") s && suffixb (Str ">") s.

Definition remove_corners_lenient (s : str) : str :=
  if cornered s then slice s 1 (-1) else s.

(** _add_target_class: the object of the [sh:targetClass] arc.  [URIRef(shape.class_uri)] in the
    tree where a shape-map label keeps its corners (finding C04-F2: rdflib then refuses to print
    the graph), [URIRef(remove_corners(a_uri=shape.class_uri, raise_error_if_no_corners=False))]
    once repaired; the generated flag [c_shacl_target_strips_corners] says which text was read. *)
Definition target_class_obj (cls : str) : str :=
  if c_shacl_target_strips_corners then remove_corners_lenient cls else cls.

(** _generate_shape_uri; [None] = ValueError *)
Definition generate_shape_uri (name : str) : option str :=
  if prefixb c_shacl_EXPECTED_SHAPE_BEGINING name && suffixb c_shacl_EXPECTED_SHAPE_ENDING name
  then Some (slice name 2 (-1)) else None.

(** the dict display [_MACRO_MAPPING] (a repeated key keeps its last value) *)
Definition macro_dict : dict (option str) :=
  fold_left (fun d kv => dset d (fst kv) (snd kv)) shacl_macro_mapping_iri [].

(** _add_node_type: macro, else shape, else "it should be a literal" *)
Definition add_node_type (ty : str) : option (list (str * rnode)) :=
  match dget macro_dict ty with
  | Some (Some k) => Some [(c_shacl_R_SHACL_NODEKIND_PROP, RIri k)]
  | Some None => Some []
  | None =>
    if prefixb c_STARTING_CHAR_FOR_SHAPE_NAME ty then
      match generate_shape_uri ty with
      | Some u => Some [(c_shacl_R_SHACL_NODE_PROP, RIri u)]
      | None => None
      end
    else Some [(c_shacl_R_SHACL_DATATYPE_PROP, RIri ty)]
  end.

Definition min_occurs_from_cardinality (v : pyval) : option pyval :=
  if pyval_in v shacl_min_occurs_none then None
  else if pyval_eqb v (PStr shacl_min_occurs_eq) then Some (PInt shacl_min_occurs_eq_val)
  else Some v.

Definition max_occurs_from_cardinality (v : pyval) : option pyval :=
  if pyval_in v shacl_max_occurs_none then None
  else if pyval_eqb v (PStr shacl_max_occurs_eq) then Some (PInt shacl_max_occurs_eq_val)
  else Some v.

(** _map_rdflib_datatype; [None] = ValueError *)
Definition map_rdflib_datatype (l_type : str) : option str :=
  if str_eqb l_type c_shacl_INTEGER then Some rdflib_XSD_integer
  else if str_eqb l_type c_shacl_STRING then Some rdflib_XSD_string
  else None.

(** _generate_r_literal(value, l_type): rdflib's [Literal(value, datatype=..)]
    keeps [str(value)] as lexical form *)
Definition generate_r_literal (v : pyval) (l_type : str) : option rnode :=
  match map_rdflib_datatype l_type with
  | Some dt => Some (RLit (py_str v) dt)
  | None => None
  end.

Definition add_occurs (prop : str) (v : option pyval) : option (list (str * rnode)) :=
  match v with
  | None => Some []
  | Some x => match generate_r_literal x c_shacl_INTEGER with
              | Some lit => Some [(prop, lit)]
              | None => None
              end
  end.

Definition opt_app {A} (a b : option (list A)) : option (list A) :=
  match a, b with Some x, Some y => Some (x ++ y) | _, _ => None end.

(** _add_cardinality *)
Definition add_cardinality (v : pyval) : option (list (str * rnode)) :=
  opt_app (add_occurs c_shacl_R_SHACL_MIN_COUNT_PROP (min_occurs_from_cardinality v))
          (add_occurs c_shacl_R_SHACL_MAX_COUNT_PROP (max_occurs_from_cardinality v)).

(** _add_exactly_one_cardinality (min_occurs=1, max_occurs=1); no longer called by
    [_add_instantiation_constraint], kept so that a tree that calls it is still modelled *)
Definition add_exactly_one_cardinality : option (list (str * rnode)) :=
  opt_app (add_occurs c_shacl_R_SHACL_MIN_COUNT_PROP (Some (PInt 1)))
          (add_occurs c_shacl_R_SHACL_MAX_COUNT_PROP (Some (PInt 1))).

Definition add_direct_path (prop : str) : option (list (str * rnode)) :=
  match generate_r_uri prop with
  | Some u => Some [(c_shacl_R_SHACL_PATH_PROP, RIri u)]
  | None => None
  end.

Definition add_inverse_path (prop : str) : option (list (str * rnode)) :=
  match generate_r_uri prop with
  | Some u => Some [(c_shacl_R_SHACL_PROPERTY_PROP, RBlank [(c_shacl_R_SHACL_INVERSE_PATH_PROP, RIri u)])]
  | None => None
  end.

Definition add_path (inv : bool) (prop : str) : option (list (str * rnode)) :=
  if inv then add_inverse_path prop else add_direct_path prop.

(** _add_in_instance *)
Definition add_in_instance (ty : str) : option (list (str * rnode)) :=
  match generate_r_uri ty with
  | Some u => Some [(c_shacl_R_SHACL_IN_PROP,
                     RBlank [(rdflib_RDF_first, RIri u); (rdflib_RDF_rest, RIri rdflib_RDF_nil)])]
  | None => None
  end.

(** second triple of _add_bnode_property *)
Definition property_shape_type : list (str * rnode) :=
  [(rdflib_RDF_type, RIri c_shacl_R_SHACL_PROPERTY_SHAPE_URI)].

(** one helper call of [_add_instantiation_constraint] / [_add_regular_constraint];
    outer [None] = a helper this model does not know *)
Definition step_arcs (st : stmt) (ty : str) (step : str) : option (option (list (str * rnode))) :=
  if str_eqb step (Str "_generate_bnode") then Some (Some [])
  else if str_eqb step (Str "_add_bnode_property") then Some (Some property_shape_type)
  else if str_eqb step (Str "_add_node_type") then Some (add_node_type ty)
  else if str_eqb step (Str "_add_cardinality") then Some (add_cardinality (card_value (s_card st)))
  else if str_eqb step (Str "_add_exactly_one_cardinality") then Some add_exactly_one_cardinality
  else if str_eqb step (Str "_add_path") then Some (add_path (s_inv st) (s_prop st))
  else if str_eqb step (Str "_add_direct_path") then Some (add_direct_path (s_prop st))
  else if str_eqb step (Str "_add_inverse_path") then Some (add_inverse_path (s_prop st))
  else if str_eqb step (Str "_add_in_instance") then Some (add_in_instance ty)
  else None.

Fixpoint run_steps (st : stmt) (ty : str) (steps : list str) : vres (list (str * rnode)) :=
  match steps with
  | [] => VOk []
  | x :: rest =>
    match step_arcs st ty x with
    | None => VUnmodelled
    | Some None => VValueError
    | Some (Some a) =>
      match run_steps st ty rest with
      | VOk b => VOk (a ++ b)
      | v => v
      end
    end
  end.

(** _add_constraint: the arcs of the property shape's blank node, in the order of
    the helper calls as they stand in the source ([shacl_instantiation_steps],
    [shacl_regular_steps] of Gen/Consts.v).  The instantiation property is
    compared as handed to the serialiser (no corner removal on this side). *)
(** a disjunction (FixedPropChoiceStatement, [s_choice]): [st_property], [cardinality] and
    [is_inverse] are those of any statement, the property [st_type] raises TypeError
    ([c_choice_st_type_raises]).  The helpers of the sequence run in order until the first one that
    reads [statement.st_type] ([shacl_steps_reading_st_type] of Gen/Consts.v: [_add_node_type],
    [_add_in_instance]); an earlier helper may raise first ([_add_path]: ValueError). *)
Fixpoint run_steps_choice (st : stmt) (steps : list str) : vres (list (str * rnode)) :=
  match steps with
  | [] => VOk []
  | x :: rest =>
    if mem_str x shacl_steps_reading_st_type then
      (if str_eqb c_choice_st_type_raises (Str "TypeError") then VTypeError else VUnmodelled)
    else
      match step_arcs st [] x with
      | None => VUnmodelled
      | Some None => VValueError
      | Some (Some a) =>
        match run_steps_choice st rest with
        | VOk b => VOk (a ++ b)
        | v => v
        end
      end
  end.

Definition shacl_arcs (tau : str) (st : stmt) : vres (list (str * rnode)) :=
  if s_choice st then run_steps_choice st (if str_eqb (s_prop st) tau then shacl_instantiation_steps
                                           else shacl_regular_steps)
  else match s_types st with
       | [ty] => run_steps st ty (if str_eqb (s_prop st) tau then shacl_instantiation_steps
                                  else shacl_regular_steps)
       | _ => VUnmodelled
       end.

Definition shacl_view (tau : str) (st : stmt) : vres rnode :=
  match shacl_arcs tau st with
  | VOk arcs => VOk (RBlank arcs)
  | VValueError => VValueError
  | VUnreadable => VUnreadable
  | VUnmodelled => VUnmodelled
  | VTypeError => VTypeError
  end.

(** _add_shape with detect_minimal_iri off: the node shape's IRI and arcs *)
Definition shacl_shape (tau : str) (sh : shape) : vres (str * list (str * rnode)) :=
  match generate_shape_uri (sh_name sh) with
  | None => VValueError
  | Some u =>
    match vres_all (map (shacl_view tau) (sh_stmts sh)) with
    | VOk ps =>
      VOk (u, (rdflib_RDF_type, RIri c_shacl_R_SHACL_SHAPE_URI) ::
              (c_shacl_R_SHACL_TARGET_CLASS_PROP, RIri (target_class_obj (sh_class sh))) ::
              map (fun p => (c_shacl_R_SHACL_PROPERTY_PROP, p)) ps)
    | VValueError => VValueError
    | VUnreadable => VUnreadable
    | VUnmodelled => VUnmodelled
    | VTypeError => VTypeError
    end
  end.

(** the ShExC side carries the class key of a shape as it is ([cs_class]); the node shape names
    [target_class_obj] of it as its target *)
Definition retarget (s : cshape) : cshape :=
  {| cs_label := cs_label s; cs_class := target_class_obj (cs_class s); cs_constraints := cs_constraints s |}.

Definition shacl_doc (tau : str) (l : list shape) : vres (list (str * list (str * rnode))) :=
  vres_all (map (shacl_shape tau) l).

(** ** the proved domain *)

Fixpoint nodup_strb (l : list str) : bool :=
  match l with
  | [] => true
  | x :: l' => negb (mem_str x l') && nodup_strb l'
  end.

(** a prefix a ShExC reader can tell from the other token forms *)
Definition prefix_ok (p : str) : bool :=
  negb (contains (Str ":") p) &&
  match p with
  | [] => true
  | c :: _ => negb (Ascii.eqb c "<"%char || Ascii.eqb c "["%char || Ascii.eqb c "@"%char)
  end.

(** namespaces dict: distinct prefixes, readable prefixes, every namespace
    ends a path or fragment step somewhere (contains '/' or '#') *)
Definition ns_ok (ns : nsdict) : bool :=
  nodup_strb (map snd ns) && forallb prefix_ok (map snd ns) &&
  forallb (fun n => contains (Str "/") n || contains (Str "#") n) (map fst ns).

Definition http_iri (s : str) : bool :=
  existsb (fun p => prefixb p s) [Str "http://"; Str "https://"].

(** an IRI token the two serialisers both print as an IRI: absolute (has a
    ':'), not a shape sentinel, not one of the keywords *)
Definition plain_iri (s : str) : bool :=
  contains (Str ":") s && negb (prefixb (Str "%") s) &&
  negb (mem_str s [Str "IRI"; Str "BNode"; Str "NONLITERAL"; Str "LITERAL"; Str "."]).

Definition shape_ref (s : str) : bool := prefixb (Str "%<") s && suffixb (Str ">") s.

Definition card_pos (c : card) : bool :=
  match c with CExact k => negb (N.eqb k 0) | _ => true end.

(** the domain of the property: statements the extraction produces with
    [disable_or_statements] at its default, on graphs whose predicates and
    class values SHACL serialisation accepts (http(s) IRIs) *)
Definition C11_dom (ns : nsdict) (tau : str) (st : stmt) : bool :=
  ns_ok ns && str_eqb (shex_tau tau) tau &&
  negb (s_choice st) && card_pos (s_card st) && http_iri (s_prop st) &&
  match s_types st with
  | [ty] =>
    if str_eqb (s_prop st) tau then http_iri ty
    else mem_str ty [Str "IRI"; Str "BNode"; Str "NONLITERAL"] || shape_ref ty || plain_iri ty
  | _ => false
  end.

Definition C11_dom_shape (ns : nsdict) (tau : str) (sh : shape) : bool :=
  ns_ok ns && shape_ref (sh_name sh) && forallb (C11_dom ns tau) (sh_stmts sh).
