(** * The whole SHACL output as an abstract RDF graph (property C05, SHACL half).

    [ShaclSerializer.serialize_shapes] = [_add_namespaces] (prefix bindings
    only: no triple is added, so the namespaces dictionary does not reach the
    graph), [_add_shapes] (this file), [_produce_output] (rdflib's Turtle
    writer: trusted to print the triples of the graph, see the correspondence
    of harness/vp/shacldoc.py, which re-parses the text).

    [shape_node] follows [_add_shape] step by step in the order of the helper
    calls as they stand in the source ([shacl_add_shape_steps] of
    Gen/Consts.v): [_generate_shape_uri] (ValueError on a label that is not
    [%<..>]), [_add_shape_uri] ([rdf:type sh:NodeShape]), [_add_target_class]
    ([Model.SerialShacl.target_class_obj]: the class key, with one pair of corners
    removed when the repaired text of the method was read),
    [_add_min_iri] (only under [detect_minimal_iri]; [sh:pattern "^stem"], a
    literal without datatype; KeyError when the examples dictionary has no
    entry for the class), [_add_shape_constraints] (one [sh:property] arc to
    a fresh blank node per statement: [Model.SerialShacl.shacl_view]).

    [doc_triples] then lists the triples in the order of the [_add_triple]
    calls.  A blank node is [TBlank path], [path] = its position in that call
    tree (shape index, arc index, arc index, ...): [BNode()] is fresh at every
    call, so two blank nodes of the real graph are equal iff they come from
    the same call, i.e. iff their positions are equal.

    Every raise of the Python code is an explicit error. *)
From Coq Require Import List Ascii String ZArith NArith Bool.
From Shexer Require Import Lib.PyStr Lib.Dict Gen.Consts Model.Tokens Model.Freq Model.Shexing
     Spec.ConstraintSpec Spec.ShaclGraphSpec Model.SerialShacl.
Import ListNotations.

(** ** from the tree of arcs to triples *)

Definition node_term (path : list nat) (r : rnode) : term :=
  match r with
  | RIri i => TIri i
  | RLit lex dt => TLit lex dt
  | RBlank _ => TBlank path
  end.

(** the triples below a node that sits at [path], in emission order: the arc
    to a value, then everything below that value, then the next arc *)
Fixpoint node_triples (path : list nat) (r : rnode) : list rdf_triple :=
  match r with
  | RBlank arcs =>
    (fix go (k : nat) (l : list (str * rnode)) : list rdf_triple :=
       match l with
       | [] => []
       | (p, v) :: l' =>
         (TBlank path, p, node_term (path ++ [k]) v) :: node_triples (path ++ [k]) v ++ go (S k) l'
       end) 0 arcs
  | _ => []
  end.

(** the same for the arcs of an arbitrary subject, numbered from [k] *)
Fixpoint arcs_triples (subj : term) (path : list nat) (k : nat) (l : list (str * rnode)) : list rdf_triple :=
  match l with
  | [] => []
  | (p, v) :: l' =>
    (subj, p, node_term (path ++ [k]) v) :: node_triples (path ++ [k]) v ++ arcs_triples subj path (S k) l'
  end.

(** a document: node shapes (IRI, arcs), numbered from [i] *)
Fixpoint doc_triples (i : nat) (d : list (str * list (str * rnode))) : list rdf_triple :=
  match d with
  | [] => []
  | (u, arcs) :: d' => arcs_triples (TIri u) [i] 0 arcs ++ doc_triples (S i) d'
  end.

(** ** [_add_shape] *)

Inductive gerr :=
| GValueError       (* the Python code raises ValueError *)
| GKeyError         (* [shape_min_iri] subscripts a dictionary without the class *)
| GUnmodelled       (* a helper this model does not know *)
| GTypeError.       (* [st_type] of a choice statement (disable_or_statements=False) *)

Definition of_vres {A} (v : vres A) : A + gerr :=
  match v with
  | VOk a => inl a
  | VValueError => inr GValueError
  | VUnreadable => inr GUnmodelled      (* never produced by the SHACL side *)
  | VUnmodelled => inr GUnmodelled
  | VTypeError => inr GTypeError
  end.

(** [detect_minimal_iri] and what [shape_example_features.shape_min_iri(class)]
    answers after the shexing stage: outer [None] = KeyError, [Some None] =
    no pattern, [Some (Some stem)] *)
Record dcfg := { d_detect : bool; d_pat : str -> option (option str) }.

Definition no_patterns : dcfg := {| d_detect := false; d_pat := fun _ => None |}.

(** [Literal("^{}".format(stem))]: no datatype *)
Definition literal_iri_pattern (stem : str) : rnode := RLit (Str "^" ++ stem) [].

(** one helper call of [_add_shape]; outer [None] = a helper this model does not know *)
Definition shape_step (z : dcfg) (tau : str) (sh : shape) (step : str) : option (list (str * rnode) + gerr) :=
  if str_eqb step (Str "_generate_shape_uri") then
    Some (match generate_shape_uri (sh_name sh) with Some _ => inl [] | None => inr GValueError end)
  else if str_eqb step (Str "_add_shape_uri") then
    Some (inl [(rdflib_RDF_type, RIri c_shacl_R_SHACL_SHAPE_URI)])
  else if str_eqb step (Str "_add_target_class") then
    Some (inl [(c_shacl_R_SHACL_TARGET_CLASS_PROP, RIri (target_class_obj (sh_class sh)))])
  else if str_eqb step (Str "_add_min_iri") then
    Some (if d_detect z then
            match d_pat z (sh_class sh) with
            | None => inr GKeyError
            | Some None => inl []
            | Some (Some stem) => inl [(c_shacl_R_SHACL_PATTERN_PROP, literal_iri_pattern stem)]
            end
          else inl [])
  else if str_eqb step (Str "_add_shape_constraints") then
    Some (match of_vres (vres_all (map (shacl_view tau) (sh_stmts sh))) with
          | inl ps => inl (map (fun p => (c_shacl_R_SHACL_PROPERTY_PROP, p)) ps)
          | inr e => inr e
          end)
  else None.

Fixpoint run_shape_steps (z : dcfg) (tau : str) (sh : shape) (steps : list str) : list (str * rnode) + gerr :=
  match steps with
  | [] => inl []
  | x :: rest =>
    match shape_step z tau sh x with
    | None => inr GUnmodelled
    | Some (inr e) => inr e
    | Some (inl a) =>
      match run_shape_steps z tau sh rest with
      | inl b => inl (a ++ b)
      | inr e => inr e
      end
    end
  end.

(** the node shape: its IRI ([r_shape_uri], the subject of every arc of the
    shape) and its arcs *)
Definition shape_node (z : dcfg) (tau : str) (sh : shape) : (str * list (str * rnode)) + gerr :=
  match run_shape_steps z tau sh shacl_add_shape_steps with
  | inr e => inr e
  | inl arcs =>
    match generate_shape_uri (sh_name sh) with
    | Some u => inl (u, arcs)
    | None => inr GValueError
    end
  end.

(** [_add_shapes]: the first shape that raises ends the serialisation *)
Fixpoint doc_nodes (z : dcfg) (tau : str) (l : list shape) : list (str * list (str * rnode)) + gerr :=
  match l with
  | [] => inl []
  | sh :: l' =>
    match shape_node z tau sh with
    | inr e => inr e
    | inl n => match doc_nodes z tau l' with inl d => inl (n :: d) | inr e => inr e end
    end
  end.

(** ** the graph.  [ns] is the namespaces dictionary handed to the serialiser
    (with the SHACL prefix the serialiser adds to its private copy): it only
    feeds [Graph.bind] and is not part of the abstract graph. *)
Definition shacl_graph_gen (z : dcfg) (ns : nsdict) (tau : str) (l : list shape) : list rdf_triple + gerr :=
  match doc_nodes z tau l with
  | inl d => inl (doc_triples 0 d)
  | inr e => inr e
  end.

(** [detect_minimal_iri] off (the default) *)
Definition shacl_graph (ns : nsdict) (tau : str) (l : list shape) : list rdf_triple + gerr :=
  shacl_graph_gen no_patterns ns tau l.

(** ** [_produce_output]: [self._g_shapes.serialize(format="turtle")].  rdflib's Turtle writer is
    trusted to print the triples of the graph (harness/vp/shacldoc.py re-parses the text) with one
    exception that sheXer can reach: an IRI in subject or object position that it cannot abbreviate
    goes through [URIRef.n3()], which raises [Exception] ('"..." does not look like a valid URI, I
    cannot serialize this as N3/Turtle') when the IRI holds one of the characters of
    [rdflib.term._invalid_uri_chars].  None of these characters is a name character, so an IRI
    holding one is abbreviated only when a bound namespace holds it too: the model assumes the bound
    namespaces (the caller's dictionary, the shapes namespace, rdflib's defaults) do not -- the
    harness generates no other.  The predicates of the graph are the fixed SHACL / RDF vocabulary.
    A shape-map label kept in its corners as the object of [sh:targetClass] (finding C04-F2) is
    the case in point. *)
Definition rdflib_invalid_uri_chars : str := Str "<>"" {}|\^`".

Definition iri_printable (i : str) : bool :=
  forallb (fun ch => negb (existsb (Ascii.eqb ch) i)) rdflib_invalid_uri_chars.

Definition term_printable (t : term) : bool :=
  match t with TIri i => iri_printable i | _ => true end.

Definition triple_printable (t : rdf_triple) : bool :=
  term_printable (tr_subj t) && term_printable (tr_obj t).

Inductive oerr :=
| OGraph (e : gerr)     (* raised while the graph is built ([_add_shapes]) *)
| OException.           (* raised by rdflib's writer in [_produce_output] *)

Definition produce_output (g : list rdf_triple) : list rdf_triple + oerr :=
  if forallb triple_printable g then inl g else inr OException.

(** [serialize_shapes] *)
Definition shacl_output_gen (z : dcfg) (ns : nsdict) (tau : str) (l : list shape) : list rdf_triple + oerr :=
  match shacl_graph_gen z ns tau l with
  | inl g => produce_output g
  | inr e => inr (OGraph e)
  end.

Definition shacl_output (ns : nsdict) (tau : str) (l : list shape) : list rdf_triple + oerr :=
  shacl_output_gen no_patterns ns tau l.
