(** * SHACL output of a shape-map extraction:
    Shaper(shape_map_raw / shape_map_file ...).shex_graph(output_format=SHACL_TURTLE).

    Nothing is re-modelled: [RunMap.run_shapes_map] (C10's trackers, the frozen
    profiler and shexing stage) gives the shapes, [ShaclDoc.shacl_output] is
    [ShaclSerializer.serialize_shapes] ([_add_shapes], then rdflib's writer in
    [_produce_output]).  Anchors: shaper.py [shex_graph] /
    [_build_shapes_serializer] (the serialiser receives
    [self._instantiation_property] = [RunMap.tau_shaper], the Shaper's namespaces
    dictionary and [detect_minimal_iri], off here),
    utils/factories/shape_serializer_factory.py [get_shape_serializer].

    The class key of the shape of a label is the label as the shape map has it,
    [<iri>]: [_add_target_class] used to hand it to [URIRef] with its corners and
    rdflib refused to print the graph (finding C04-F2: every SHACL output of a
    shape-map extraction raised [Exception]); the repaired text removes them
    ([SerialShacl.target_class_obj], flag [c_shacl_target_strips_corners]). *)
From Coq Require Import List Ascii String ZArith NArith Bool.
From Shexer Require Import Lib.PyStr Lib.Dict Gen.Consts Spec.Rdf Model.Tracker Model.Profiler
     Model.Tokens Model.Freq Model.Shexing Model.ShexingFix Model.Run Model.RunMap
     Spec.ConstraintSpec Spec.ShaclGraphSpec Model.SerialShacl Model.ShaclDoc.
From Shexer Require Model.Selectors.
Import ListNotations.

Inductive mserr :=
| MSRun (e : merr)       (* the extraction itself fails (constructor, trackers, profiler, shexing stage) *)
| MSShacl (e : oerr).    (* the SHACL serialiser raises *)

Section RunMapShacl.
  Variable fa : FreqAlg.

  Definition run_shacl_map (c : rcfg) (orc : Selectors.oracles) (sp : Selectors.tspec) (thr : F fa) (g : graph)
    : list rdf_triple + mserr :=
    match run_shapes_map fa c orc sp thr g with
    | inr e => inr (MSRun e)
    | inl (ns, shapes) =>
      match shacl_output ns (tau_shaper sp) shapes with
      | inl tr => inl tr
      | inr e => inr (MSShacl e)
      end
    end.
End RunMapShacl.
