(** * The two frequency algebras: exact rationals and binary64 (Lib/Bin64). *)
From Coq Require Import ZArith NArith Bool.
From Shexer Require Import Lib.Bin64 Model.Freq.
Local Open Scope Z_scope.

(** exact rationals as unreduced fractions; a zero denominator (division by
    zero in Python: ZeroDivisionError) is guarded by the callers *)
Definition q_ratio (n d : N) : frac := (Z.of_N n, Z.of_N d).
Definition q_add (x y : frac) : frac := let (a, b) := x in let (c, d) := y in (a * d + c * b, b * d).

Definition QAlg : FreqAlg :=
  {| F := frac; ratio := q_ratio; fadd := q_add; fle := fle64; feqb := feq64; fone := (1, 1) |}.

(** CPython: [float(n) / float(d)], [+], [>=], [!=] on doubles *)
Definition b_ratio (n d : N) : frac := div64 (Z.of_N n) (Z.of_N d).

Definition BAlg : FreqAlg :=
  {| F := frac; ratio := b_ratio; fadd := add64; fle := fle64; feqb := feq64; fone := (1, 1) |}.
