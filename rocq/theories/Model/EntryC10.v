(** Entry points of the C10 model (glue: table rows <-> Gallina values).

    Row formats (field 0 is the row tag):
    - common:  ["ns"; namespace; prefix]   ["t"; skind; sid; p; okind; oid; odt]  (kinds I/B/L)
               ["bn"; label; rdflib id]    ["wf"; query; 0/1]   ["ans"; query; kind; id; dt]
    - c10_ast: ["cfg"; tau_tag; tau_a; tau_b; all; N|L|F; N|fsm|json; disamb_count]
               ["cl"; tag; a; b]
               ["it"; node|fs|fo|sq; x1tag; x1a; x1b; x2tag; x2a; x2b; query; ltag; la; lb]
               (reference tags F/A/P, term tags W/a/F/A/P)
    - c10_raw: ["cfg"; tau; all; N|L|F; N|fsm|json; disamb_count]
               ["cl"; name]  ["clfile"; content]  ["smraw"; text]  ["smjson"; selector; label] *)
From Coq Require Import List Ascii String ZArith NArith Bool.
From Shexer Require Import Lib.PyStr Lib.Dict Gen.Consts Spec.Rdf Spec.Selectors Model.Table Model.Tracker
     Model.Selectors Model.SelectorsDom.
Import ListNotations.

Definition rows_tagged (tag : str) (t : table) : list (list str) :=
  filter (fun r => str_eqb (fld r 0) tag) t.

Definition tagis (s : str) (lit : string) : bool := str_eqb s (Str lit).

Definition dec_ref (tag a b : str) : iriref :=
  if tagis tag "F" then Full a else if tagis tag "A" then Angle a else Pref a b.

Definition dec_fterm (tag a b : str) : fterm :=
  if tagis tag "W" then FWild else if tagis tag "a" then FA else FIri (dec_ref tag a b).

Definition dec_obj (k id dt : str) : obj :=
  if tagis k "I" then ON (Node KIri id) else if tagis k "B" then ON (Node KBnode id) else OL id dt.

Definition dec_node (k id : str) : node := Node (if tagis k "B" then KBnode else KIri) id.

Definition dec_graph (t : table) : graph :=
  map (fun r => T (dec_node (fld r 1) (fld r 2)) (fld r 3) (dec_obj (fld r 4) (fld r 5) (fld r 6)))
      (rows_tagged (Str "t") t).

Definition dec_ns (t : table) : dict str :=
  map (fun r => (fld r 1, fld r 2)) (rows_tagged (Str "ns") t).

Definition dec_oracles (t : table) (dis0 : str) : oracles :=
  let bn := rows_tagged (Str "bn") t in
  let wf := rows_tagged (Str "wf") t in
  let ans := rows_tagged (Str "ans") t in
  {| o_rid := fun b => match List.find (fun r => str_eqb (fld r 1) b) bn with
                       | Some r => fld r 2
                       | None => b
                       end;
     o_wf := fun q => existsb (fun r => str_eqb (fld r 1) q && fbool r 2) wf;
     o_ans := fun q => map (fun r => dec_obj (fld r 2) (fld r 3) (fld r 4))
                           (filter (fun r => str_eqb (fld r 1) q) ans);
     o_dis0 := N_of_dec dis0;
     o_rand_prefix := Str "rnd" |}.

Definition enc_exn (e : exn) : str :=
  match e with
  | ExValue => Str "ValueError"
  | ExType => Str "TypeError"
  | ExAttr => Str "AttributeError"
  | ExIndex => Str "IndexError"
  end.

Definition enc_outcome (o : outcome) : table :=
  match o with
  | OOk d => [Str "ok"] :: map (fun e => Str "i" :: fst e :: snd e) d
  | OCtorErr e => [[Str "err"; Str "ctor"; enc_exn e]]
  | OTrackErr e => [[Str "err"; Str "track"; enc_exn e]]
  end.

Definition enc_obj (x : obj) : list str :=
  match x with
  | ON (Node KIri i) => [Str "I"; i; []]
  | ON (Node KBnode b) => [Str "B"; b; []]
  | OL c dt => [Str "L"; c; dt]
  end.

(** ---- c10_raw ---- *)

Definition dec_tspec_raw (t : table) : tspec * str :=
  let cfg := nth 0 (rows_tagged (Str "cfg") t) [] in
  let cmode := fld cfg 3 in
  let fmt := fld cfg 4 in
  ({| sp_ns := dec_ns t;
      sp_tau := fld cfg 1;
      sp_classes := if tagis cmode "L" then CList (map (fun r => fld r 1) (rows_tagged (Str "cl") t))
                    else if tagis cmode "F" then CFile (fld (nth 0 (rows_tagged (Str "clfile") t) []) 1)
                    else CNone;
      sp_all := fbool cfg 2;
      sp_smap := if tagis fmt "fsm" then SMFixed (fld (nth 0 (rows_tagged (Str "smraw") t) []) 1)
                 else if tagis fmt "json" then SMJson (map (fun r => (fld r 1, fld r 2)) (rows_tagged (Str "smjson") t))
                 else SMNone |}, fld cfg 5).

Definition c10_raw (t : table) : table :=
  let '(sp, dis0) := dec_tspec_raw t in
  enc_outcome (run (dec_oracles t dis0) sp (dec_graph t)).

(** ---- c10_ast ---- *)

Definition dec_selector (r : list str) : selector :=
  let k := fld r 1 in
  if tagis k "node" then SelNode (dec_ref (fld r 2) (fld r 3) (fld r 4))
  else if tagis k "fs" then SelFocusSubj (dec_fterm (fld r 2) (fld r 3) (fld r 4)) (dec_fterm (fld r 5) (fld r 6) (fld r 7))
  else if tagis k "fo" then SelFocusObj (dec_fterm (fld r 2) (fld r 3) (fld r 4)) (dec_fterm (fld r 5) (fld r 6) (fld r 7))
  else SelSparql (fld r 8).

Definition dec_target (t : table) : target * clsrc * smfmt * str :=
  let cfg := nth 0 (rows_tagged (Str "cfg") t) [] in
  let cmode := fld cfg 5 in
  let fmt := fld cfg 6 in
  ({| t_ns := dec_ns t;
      t_tau := dec_ref (fld cfg 1) (fld cfg 2) (fld cfg 3);
      t_classes := if tagis cmode "N" then None
                   else Some (map (fun r => dec_ref (fld r 1) (fld r 2) (fld r 3)) (rows_tagged (Str "cl") t));
      t_all := fbool cfg 4;
      t_items := if tagis fmt "N" then None
                 else Some (map (fun r => {| it_sel := dec_selector r;
                                             it_label := dec_ref (fld r 9) (fld r 10) (fld r 11) |})
                                (rows_tagged (Str "it") t)) |},
   (if tagis cmode "F" then ClsFile else ClsList),
   (if tagis fmt "json" then FmtJson else FmtFixed),
   fld cfg 7).

Definition enc_tspec (sp : tspec) : table :=
  [Str "tau"; sp_tau sp] ::
  match sp_classes sp with
  | CNone => []
  | CList l => map (fun c => [Str "cl"; c]) l
  | CFile c => [[Str "clfile"; c]]
  end ++
  match sp_smap sp with
  | SMNone => []
  | SMFixed s => [[Str "smraw"; s]]
  | SMJson l => map (fun e => [Str "smjson"; fst e; snd e]) l
  end.

Definition enc_denotation (tg : target) (orc : oracles) (G : graph) : table :=
  flat_map (fun S =>
              map (fun x => Str "den" :: (match S with KClass c => [Str "C"; c] | KLabel l => [Str "L"; l] end)
                                ++ enc_obj x)
                  (denote_list tg (o_ans orc) G S))
           (candidate_keys tg G).

Definition c10_ast (t : table) : table :=
  let '(tg, cs, fmt, dis0) := dec_target t in
  let orc := dec_oracles t dis0 in
  let G := dec_graph t in
  let sp := to_tspec tg cs fmt in
  [Str "dom"; bstr (C10_dom tg orc G)] ::
  [Str "domc"; bstr (C10_dom_count tg orc G)] ::
  [Str "domt"; bstr (C10_dom_text tg orc G)] ::
  (if rc_nonIri_answer tg orc G then [[Str "rc"; Str "nonIri_answer"]] else []) ++
  (if rc_at_in_label tg fmt then [[Str "rc"; Str "at_in_label"]] else []) ++
  (if rc_repeated_statement G then [[Str "rc"; Str "repeated_statement"]] else []) ++
  (if rc_tau_literal tg G then [[Str "rc"; Str "tau_literal"]] else []) ++
  (if rc_prefix_in_local tg then [[Str "rc"; Str "prefix_in_local"]] else []) ++
  (if rc_sparql_kw_in_query tg then [[Str "rc"; Str "sparql_kw_in_query"]] else []) ++
  (if rc_same_shape_name tg G then [[Str "rc"; Str "same_shape_name"]] else []) ++
  enc_tspec sp ++ enc_denotation tg orc G ++ enc_outcome (run orc sp G).

Definition entry_c10 (name : str) (t : table) : option table :=
  if str_eqb name (Str "c10_raw") then Some (c10_raw t)
  else if str_eqb name (Str "c10_ast") then Some (c10_ast t)
  else None.
