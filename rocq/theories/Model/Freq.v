(** * Frequencies.

    The code computes [float(n)/N], compares with [>=], tests [!= 1], sorts on
    it and adds two of them (IRI+BNode merge).  A statement's probability is
    kept *symbolically* ([prob]); only the comparisons go through a frequency
    algebra, of which there are two instances: exact rationals ([QFreq], laws
    proved outright) and IEEE binary64 ([FloatFreq], bit-identical to CPython;
    the instance the correspondence check runs). *)
From Coq Require Import List ZArith NArith Bool.
Import ListNotations.

Inductive prob :=
| PRatio (n : N)          (* float(n)/float(N) *)
| PSum (a b : N)          (* float(a)/float(N) + float(b)/float(N) *)
| POne.                   (* the int 1 assigned by the all-compliant rule *)

Record FreqAlg := {
  F : Type;
  ratio : N -> N -> F;
  fadd : F -> F -> F;
  fle : F -> F -> bool;      (* <= *)
  feqb : F -> F -> bool;     (* == *)
  fone : F
}.

Definition pval (fa : FreqAlg) (cnt : N) (p : prob) : F fa :=
  match p with
  | PRatio n => ratio fa n cnt
  | PSum a b => fadd fa (ratio fa a cnt) (ratio fa b cnt)
  | POne => fone fa
  end.

(** a threshold given as the quotient k/m the harness also hands to Python *)
Definition thr_val (fa : FreqAlg) (k m : N) : F fa := ratio fa k m.
