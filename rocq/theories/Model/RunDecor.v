(** * The ShExC text with the decorations of [detect_minimal_iri] and
    [examples_mode].

    Anchors (shexer/io/shex/formater/shex_serializer.py): [_serialize_shape],
    [_serialize_shape_name], [_minimal_iri], [_serialize_shape_rules],
    [_tune_statement_examples_if_needed], [_add_statement_examples],
    [_get_node_constraint_example_no_inverse/_inverse],
    [_turn_str_comment_into_proper_rdf], [_serialize_closure_of_rules],
    [_serialize_example]; shexer/utils/uri.py: [prefixize_uri_if_possible];
    shexer/core/profiling/class_profiler.py: [_init_class_features_dict];
    shexer/core/shexing/strategy/minimal_iri_strategy: [annotate_shape_iri].

    The shapes are those of [Model/Run.v: run_shapes]; the per-class data
    (stem slot, shape example, constraint examples) is
    [Model/Examples.v: profile_examples].  Nothing is added before the
    serialiser runs: the decorations are computed while one shape is printed,
    in the order of the code (label, stem, example comments, statements,
    closing example), so the first exception is the one the code raises.

    All text constants of the layout come from [Gen/Consts.v] ([c17d_*]). *)
From Coq Require Import List Ascii String ZArith NArith Bool.
From Shexer Require Import Lib.PyStr Lib.Dict Gen.Consts Spec.Rdf Model.Tracker Model.Profiler
     Model.Tokens Model.Freq Model.Shexing Model.SerialShexc Model.Run Model.MinIri Model.Examples.
Import ListNotations.

(** errors: those of the plain run, plus [KeyError] (a bare subscript of
    [ShapeExampleFeaturesDict] that misses) *)
Inductive derr := DE (e : rerr) | DEKey.

Record dcfg := {
  d_dmi : bool;                (* detect_minimal_iri *)
  d_mode : option str;         (* examples_mode *)
  d_inverse : bool             (* inverse_paths: selects the getter and the dictionary layout *)
}.

Definition in_modes (m : option str) (l : list (option str)) : bool :=
  existsb (fun x => match m, x with
                    | None, None => true
                    | Some a, Some b => str_eqb a b
                    | _, _ => false
                    end) l.

(** ** the data: [profile_classes], example-related part, for the class set
    of the run.

    [_init_class_features_dict] iterates over [_class_counts], whose keys are
    the requested target classes followed by the classes of the instances;
    [Examples.profile_examples] initialises the second group ([class_keys]).
    A requested class without any instance is in the first group only: its
    slot stays at the sentinel.  [complete_features] adds those entries (the
    position of an entry in the dictionary is never observed: the serialiser
    only subscripts it). *)
Definition complete_features (C : ccounts) (d : exdict) : exdict :=
  fold_left (fun d c =>
               match dget d c with
               | Some e => match e_min_iri e with
                           | Some _ => d
                           | None => set_min d c (Some c_MINIMAL_IRI_INIT)
                           end
               | None => set_min d c (Some c_MINIMAL_IRI_INIT)
               end) (dkeys C) d.

Definition decor_dict (dmi : bool) (mode : option str) (inverse : bool) (ins : insts) (g : graph) (C : ccounts)
  : option exdict :=
  match profile_examples dmi mode inverse ins g with
  | None => None
  | Some d => Some (if dmi || wants_shape_examples mode then complete_features C d else d)
  end.

(** ** value rendering *)

(** [prefixize_uri_if_possible(target_uri, namespaces_prefix_dict, corners=False)] *)
Definition prefixize_plain (ns : nsdict) (target : str) : str :=
  match best_ns ns target with
  | None => target
  | Some (n, p) => py_replace n (p ++ Str ":") target
  end.

(** [prefixed if prefixed != candidate else f'<{candidate}>'] *)
Definition iri_or_prefixed (ns : nsdict) (candidate : str) : str :=
  let prefixed := prefixize_plain ns candidate in
  if str_eqb prefixed candidate then Str "<" ++ candidate ++ Str ">" else prefixed.

(** [str.count(ch)] for a one-character argument *)
Definition py_count1 (ch : str) (s : str) : nat :=
  match ch with
  | [c] => count_char c s
  | _ => O
  end.

(** [_turn_str_comment_into_proper_rdf].  The first test of the source is
    [" " not in s and "".count(":") == 1]: the receiver of [count] is the
    empty literal, so the branch is dead ([c17d_count_on_empty = true];
    finding C17-F3).  The flag lets the model follow the repaired form too. *)
Definition turn_proper_rdf (ns : nsdict) (s : str) : str :=
  if negb (contains (Str " ") s) &&
     Nat.eqb (py_count1 c17d_count_char (if c17d_count_on_empty then [] else s)) c17d_count_n
  then s
  else if existsb (fun p => prefixb p s) c17d_uri_starts     (* _INIT_URI_PATTERN.match *)
  then iri_or_prefixed ns s
  else Str """" ++ s ++ Str """".

(** [_get_node_constraint_example_no_inverse] / [_inverse]: the bare
    subscripts raise KeyError *)
Definition cons_candidate (dc : dcfg) (ns : nsdict) (d : exdict) (cls : str) (s : stmt) : str + derr :=
  match constraint_example d cls (s_prop s) (d_inverse dc && s_inv s) with
  | None => inr DEKey
  | Some cand =>
    inl (if prefixb (if d_inverse dc then c17d_prefixize_if_inverse else c17d_prefixize_if_direct) cand
         then prefixize_plain ns cand else cand)
  end.

Definition example_comment (ns : nsdict) (candidate : str) : str :=
  c17d_cons_pre ++ turn_proper_rdf ns candidate ++ c17d_cons_post.

(** one statement of [_add_statement_examples]; the comment is a string, the
    membership test compares it with the rendered comments *)
Definition decorate_stmt (z : sercfg) (dc : dcfg) (d : exdict) (cls : str) (cnt : N) (s : stmt) : stmt + derr :=
  if str_eqb (s_prop s) (z_tau z) then inl s
  else match cons_candidate dc (z_ns z) d cls s with
       | inr e => inr e
       | inl cand =>
         let comment := example_comment (z_ns z) cand in
         if existsb (fun k => str_eqb (comment_text z cnt k) comment) (s_comments s) then inl s
         else inl (add_comment_first s (KRaw comment))
       end.

(** [_tune_statement_examples_if_needed] *)
Definition decorate_stmts (z : sercfg) (dc : dcfg) (d : exdict) (sh : shape) : list stmt + derr :=
  if in_modes (d_mode dc) c17d_modes_cons_example
  then map_err (decorate_stmt z dc d (sh_class sh) (sh_n sh)) (sh_stmts sh)
  else inl (sh_stmts sh).

(** [_minimal_iri].  The slot was replaced by [annotate_shape_iri] with
    [_determine_suitable_iri_pattern(slot)] ([Examples.shape_stem]); a class
    missing from the dictionary is a KeyError there. *)
Definition min_iri_text (dc : dcfg) (d : exdict) (sh : shape) : str + derr :=
  if d_dmi dc then
    match shape_stem d (sh_class sh) with
    | None => inr DEKey
    | Some None => inl []
    | Some (Some s) => inl (c17d_stem_pre ++ s ++ c17d_stem_post)
    end
  else inl [].

(** [_serialize_example].  [shape_example] answers [False] for an unknown
    class and [None] for a class without example (a printed shape whose class
    has no instance: a requested target class, [remove_empty_shapes=False]).
    Two texts of the function ([Gen/Consts.v: c_example_none_guard], set by
    tools/gen_consts.py from the source):
    - [false]: the candidate goes to [prefixize_uri_if_possible] as it is,
      which calls [.startswith] on it as soon as there is one namespace
      (AttributeError; finding C17-F4); with no namespace at all the value is
      formatted;
    - [true]: [if candidate is None: return ""] first -- the shape is printed
      without an example.  [False] (unknown class) is not [None]: unchanged. *)
Definition example_text (z : sercfg) (dc : dcfg) (d : exdict) (sh : shape) : str + derr :=
  if in_modes (d_mode dc) c17d_modes_shape_example then
    match dget d (sh_class sh) with
    | Some e =>
      match e_example e with
      | Some cand => inl (c17d_inst_pre ++ iri_or_prefixed (z_ns z) cand ++ c17d_inst_post)
      | None => if c_example_none_guard then inl []
                else match z_ns z with
                     | [] => inl (c17d_inst_pre ++ Str "<None>" ++ c17d_inst_post)
                     | _ :: _ => inr (DE REAttr)
                     end
      end
    | None => match z_ns z with
              | [] => inl (c17d_inst_pre ++ Str "<False>" ++ c17d_inst_post)
              | _ :: _ => inr (DE REAttr)
              end
    end
  else inl [].

(** ** one shape ([_serialize_shape]); [SerialShexc.shape_lines] with the
    decorations, errors in the order the code meets them *)
Definition shape_lines_decor (z : sercfg) (dc : dcfg) (d : exdict) (sh : shape) : list str + derr :=
  match prefixize_shape_name (z_ns z) (sh_name sh) with
  | None => inr (DE REValue)
  | Some name =>
    match min_iri_text dc d sh with
    | inr e => inr e
    | inl mi =>
      match decorate_stmts z dc d sh with
      | inr e => inr e
      | inl stmts =>
        match statements_lines z (sh_n sh) stmts with
        | None => inr (DE REValue)
        | Some body =>
          match example_text z dc d sh with
          | inr e => inr e
          | inl ex =>
            inl ([name ++ mi ++ instance_count z (sh_n sh) ++ nl; Str "{" ++ nl] ++ body ++
                 [Str "}" ++ ex ++ nl; nl; nl])
          end
        end
      end
    end
  end.

Fixpoint shapes_lines_decor (z : sercfg) (dc : dcfg) (d : exdict) (l : list shape) : list str + derr :=
  match l with
  | [] => inl []
  | sh :: l' =>
    match shape_lines_decor z dc d sh with
    | inr e => inr e
    | inl a => match shapes_lines_decor z dc d l' with
               | inr e => inr e
               | inl b => inl (a ++ b)
               end
    end
  end.

Definition render_lines_decor (z : sercfg) (dc : dcfg) (d : exdict) (l : list shape) : list str + derr :=
  match shapes_lines_decor z dc d l with
  | inl ls => inl (prefix_lines (z_ns z) ++ ls)
  | inr e => inr e
  end.

Definition render_decor (z : sercfg) (dc : dcfg) (d : exdict) (l : list shape) : str + derr :=
  match render_lines_decor z dc d l with
  | inl ls => inl (List.concat ls)
  | inr e => inr e
  end.

(** ** the run *)

Definition zcfg_of (c : rcfg) (ns : nsdict) : sercfg :=
  {| z_ns := ns; z_tau := r_tau c; z_disable_comments := r_disable_comments c; z_mode := r_mode c |}.

Definition tmode_of (c : rcfg) : tmode :=
  match r_targets c with Some l => TClasses l | None => TAll end.

(** the instance dictionary and the example dictionary of the run (the same
    tracker and profiler calls as in [run_shapes]) *)
Definition run_decor_data (c : rcfg) (dmi : bool) (mode : option str) (g : graph) : option (insts * exdict) :=
  match track (r_tau c) (tmode_of c) (r_cap c) g with
  | inr _ => None
  | inl ins =>
    match profile (pcfg_of c) ins g with
    | inr _ => None
    | inl (_, C, _) =>
      match decor_dict dmi mode (r_inverse c) ins g C with
      | None => None
      | Some d => Some (ins, d)
      end
    end
  end.

Section RunDecor.
  Variable fa : FreqAlg.

  Definition run_shexc_decor_lines (c : rcfg) (dmi : bool) (mode : option str) (thr : F fa) (g : graph)
    : list str + derr :=
    match run_shapes fa c thr g with
    | inr e => inr (DE e)
    | inl (ns, shapes) =>
      match run_decor_data c dmi mode g with
      | None => inr DEKey
      | Some (_, d) =>
        render_lines_decor (zcfg_of c ns) {| d_dmi := dmi; d_mode := mode; d_inverse := r_inverse c |} d shapes
      end
    end.

  Definition run_shexc_decor (c : rcfg) (dmi : bool) (mode : option str) (thr : F fa) (g : graph) : str + derr :=
    match run_shexc_decor_lines c dmi mode thr g with
    | inl ls => inl (List.concat ls)
    | inr e => inr e
    end.

  (** the plain run as lines ([run_shexc] is their concatenation) *)
  Definition run_shexc_lines (c : rcfg) (thr : F fa) (g : graph) : list str + rerr :=
    match run_shapes fa c thr g with
    | inr e => inr e
    | inl (ns, shapes) =>
      match render_lines (zcfg_of c ns) shapes with
      | Some ls => inl ls
      | None => inr REValue
      end
    end.
End RunDecor.
