(** * Table encoding used between the harness and the model (glue). *)
From Coq Require Import List Ascii String ZArith Bool.
From Shexer Require Import Lib.PyStr.
Import ListNotations.

Definition table := list (list str).

Definition fld (r : list str) (i : nat) : str := nth i r [].
Definition fbool (r : list str) (i : nat) : bool := str_eqb (fld r i) (Str "1").
(** option: "N" = None, "S..." = Some ... *)
Definition fopt (r : list str) (i : nat) : option str :=
  match fld r i with
  | c :: rest => if Ascii.eqb c "S"%char then Some rest else None
  | [] => None
  end.
Definition fZ (r : list str) (i : nat) : Z := Z_of_dec (fld r i).

Definition bstr (b : bool) : str := if b then Str "1" else Str "0".
Definition optstr (o : option str) : str := match o with None => Str "N" | Some s => "S"%char :: s end.
