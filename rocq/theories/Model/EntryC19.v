(** Entry points of the C19 model (oracle sites run with explicit orders / oracles).

    c19_prefix   [dict; fuel; cand_0; cand_1; ...]  -> [prefix] | [hang]
                 find_adequate_prefix_for_shapes_namespaces with [rand i] = cand_i
    c19_remove   [order (csv); e_1; e_2; ...], e = class RS prop RS type   (insertion order)
                 -> the profile after ClassProfiler._iteration_remove_empty_shapes, flattened:
                    "C" RS class | "P" RS class RS prop | "T" RS class RS prop RS type
    c19_targets  [order (csv); classes_at_last_level (0/1); t_1; ...],
                 t = "T" RS s RS p RS o RS (i|l)   a p-o triple of subject s (object an IRI / not)
                   | "K" RS s RS c                 a class triple of s
                 -> the yielded triples, one field each: s RS p RS o
    c19_integrate [n0; e_1; e_2; ...], e = ("R" | "N") RS instance RS class_1 RS ... RS class_k : the entries of
                 the reference dictionary (R) and of the second tracker's dictionary (N), each in insertion
                 order; n0 = value of the global disambiguation counter
                 -> MixedInstanceTracker._integrate_dicts: the entries of the merged dictionary IN ORDER, one
                    field each (instance RS class_1 RS ...), then the counter *)
From Coq Require Import List Ascii String ZArith NArith Bool.
From Shexer Require Import Lib.PyStr Lib.Dict Gen.Consts Model.Table Model.Determinism Model.EntryC18.
From Shexer Require Model.Selectors.
Import ListNotations.

Definition csv (s : str) : list str := match s with [] => [] | _ => split (Str ",") s end.

Definition c19_prefix_row (r : list str) : list str :=
  let d := parse_dict (fld r 0) in
  let fuel := parse_nat (fld r 1) in
  let cands := skipn 2 r in
  match find_prefix (fun i => nth i cands (Str "zzz")) fuel d with
  | Some p => [p]
  | None => [Str "hang"]
  end.

(** build class -> prop -> type -> unit, keeping insertion order *)
Definition add_entry (p : profile unit) (e : str) : profile unit :=
  let fs := split RS e in
  let c := nth 0 fs [] in let pr := nth 1 fs [] in let ty := nth 2 fs [] in
  let props := match dget p c with Some x => x | None => [] end in
  match pr with
  | [] => dset p c props
  | _ =>
    let types := match dget props pr with Some x => x | None => [] end in
    dset p c (dset props pr (match ty with [] => types | _ => dset types ty tt end))
  end.

Definition flatten_profile (p : profile unit) : list str :=
  flat_map (fun cp : str * dict (dict unit) =>
              (Str "C" ++ RS ++ fst cp) ::
              flat_map (fun pt : str * dict unit =>
                          (Str "P" ++ RS ++ fst cp ++ RS ++ fst pt) ::
                          map (fun tu : str * unit => Str "T" ++ RS ++ fst cp ++ RS ++ fst pt ++ RS ++ fst tu) (snd pt))
                       (snd cp)) p.

Definition c19_remove_row (r : list str) : list str :=
  flatten_profile (remove_iteration (csv (fld r 0)) (fold_left add_entry (skipn 1 r) [])).

Definition tr3 := (str * str * str * bool)%type.   (* s, p, o, object is an IRI *)

Definition c19_targets_row (r : list str) : list str :=
  let order := csv (fld r 0) in
  let last := fbool r 1 in
  let recs := map (split RS) (skipn 2 r) in
  let po (s : str) : list tr3 :=
      flat_map (fun f => if str_eqb (nth 0 f []) (Str "T") && str_eqb (nth 1 f []) s
                         then [(nth 1 f [], nth 2 f [], nth 3 f [], str_eqb (nth 4 f []) (Str "i"))] else []) recs in
  let cls (s : str) : list tr3 :=
      flat_map (fun f => if str_eqb (nth 0 f []) (Str "K") && str_eqb (nth 1 f []) s
                         then [(nth 1 f [], Str "a", nth 2 f [], true)] else []) recs in
  let obj_iri (t : tr3) : option str := let '(_, _, o, b) := t in if b then Some o else None in
  map (fun t : tr3 => let '(s, p, o, _) := t in s ++ RS ++ p ++ RS ++ o)
      (yield_triples tr3 po obj_iri cls last order).

Definition c19_integrate_row (r : list str) : list str :=
  let recs := map (split RS) (skipn 1 r) in
  let pick (tag : str) : dict (list str) :=
      flat_map (fun f => if str_eqb (nth 0 f []) tag then [(nth 1 f [], skipn 2 f)] else []) recs in
  let '(d, n) := Selectors.integrate_dicts (pick (Str "R")) (pick (Str "N")) (N_of_dec (fld r 0)) in
  map (fun e : str * list str => join RS (fst e :: snd e)) d ++ [dec_of_N n].

Definition entry_c19 (name : str) (t : table) : option table :=
  if str_eqb name (Str "c19_prefix") then Some (map c19_prefix_row t)
  else if str_eqb name (Str "c19_remove") then Some (map c19_remove_row t)
  else if str_eqb name (Str "c19_targets") then Some (map c19_targets_row t)
  else if str_eqb name (Str "c19_integrate") then Some (map c19_integrate_row t)
  else None.
