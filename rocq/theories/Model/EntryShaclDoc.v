(** Entry points of the SHACL document model (table glue).

    [shacl_doc]        input: the table of [pipe_shexc] (Model/EntryPipe.v); the model
                       runs the extraction ([RunCur.run_shapes_cur], binary64) and hands the
                       shapes to [ShaclDoc.shacl_graph].
    [shacl_doc_shapes] input: a shape list written out row by row (serialiser level,
                       faults and [detect_minimal_iri] included):
                         ["Z"; tau; detect]
                         ["S"; name; class; pattern]   pattern: "K" KeyError | "N" None | "S"stem
                         ["T"; inv; property; type; cardinality]   a statement of the last "S" row
    output, both:      row 0 = ["ok"; S1; S2; refs_closed; labels distinct]   (the computable
                       versions of the Spec predicates, evaluated on the model's graph)
                       | ["err"; exception]  ("Exception": rdflib's writer refuses an IRI in [_produce_output];
                       the header row of a printed graph carries a sixth field "1")
                       | ["runerr"; exception]  (the extraction itself fails)
                       then one row per triple, in emission order:
                         [subject kind; subject; predicate; object kind; object; datatype]
                       kinds: "I" IRI, "B" blank node (position path "i.k.j"), "L" literal. *)
From Coq Require Import List Ascii String ZArith NArith Bool.
From Shexer Require Import Lib.PyStr Lib.Dict Gen.Consts Spec.Rdf Model.Table Model.Tracker Model.Profiler
     Model.Tokens Model.Freq Model.FreqInst Model.Shexing Model.Run Model.RunCur Model.EntryPipe Model.EntryC11
     Spec.ConstraintSpec Spec.ShaclGraphSpec Model.SerialShacl Model.ShaclDoc.
Import ListNotations.

Fixpoint path_str (p : list nat) : str :=
  match p with
  | [] => []
  | [k] => dec_of_N (N.of_nat k)
  | k :: p' => dec_of_N (N.of_nat k) ++ Str "." ++ path_str p'
  end.

Definition term_fields (t : term) : list str :=
  match t with
  | TIri i => [Str "I"; i; []]
  | TBlank p => [Str "B"; path_str p; []]
  | TLit lex dt => [Str "L"; lex; dt]
  end.

Definition triple_row (t : rdf_triple) : list str :=
  firstn 2 (term_fields (tr_subj t)) ++ [tr_pred t] ++ term_fields (tr_obj t).

Definition gerr_str (e : gerr) : str :=
  match e with
  | GValueError => Str "ValueError"
  | GKeyError => Str "KeyError"
  | GUnmodelled => Str "unmodelled"
  | GTypeError => Str "TypeError"
  end.

(** the shape IRIs, as the serialiser computes them *)
Definition shape_iris (l : list shape) : list str :=
  flat_map (fun sh => match generate_shape_uri (sh_name sh) with Some u => [u] | None => [] end) l.

Definition refs_closedb' (l : list shape) : bool :=
  forallb (fun sh => forallb (fun st => forallb (fun k => negb (is_shape_type k) || mem_str k (map sh_name l))
                                                (s_types st)) (sh_stmts sh)) l.

Definition graph_rows (z : dcfg) (ns : nsdict) (tau : str) (shapes : list shape) : table :=
  match shacl_graph_gen z ns tau shapes with
  | inr e => [[Str "err"; gerr_str e]]
  | inl g =>
    [Str "ok"; bstr (node_objects_declaredb g (shape_iris shapes)); bstr (property_shapes_one_pathb g);
     bstr (refs_closedb' shapes); bstr (nodup_strb (map sh_name shapes))] :: map triple_row g
  end.

(** the same through [_produce_output] ([ShaclDoc.shacl_output_gen]): rdflib's refusal to print an
    invalid IRI is the error ["Exception"]; the header row gets a sixth field (the graph is printable) *)
Definition output_rows (z : dcfg) (ns : nsdict) (tau : str) (shapes : list shape) : table :=
  match shacl_output_gen z ns tau shapes with
  | inr (OGraph e) => [[Str "err"; gerr_str e]]
  | inr OException => [[Str "err"; Str "Exception"]]
  | inl g =>
    [Str "ok"; bstr (node_objects_declaredb g (shape_iris shapes)); bstr (property_shapes_one_pathb g);
     bstr (refs_closedb' shapes); bstr (nodup_strb (map sh_name shapes)); bstr true] :: map triple_row g
  end.

Definition shacl_doc_pipe (t : table) : table :=
  let c := rcfg_of t in
  match run_shapes_cur BAlg c (thr_of t) (graph_of t) with
  | inr e => [[Str "runerr"; rerr_str e]]
  | inl (ns, shapes) => output_rows no_patterns ns (r_tau c) shapes
  end.

(** ** serialiser level *)
Definition pat_of_field (f : str) : option (option str) :=
  match f with
  | c :: rest => if Ascii.eqb c "S"%char then Some (Some rest)
                 else if Ascii.eqb c "N"%char then Some None else None
  | [] => None
  end.

(** shapes in row order; statements attach to the last shape row read *)
Fixpoint shapes_of_rows (rows : table) (acc : list shape) : list shape :=
  match rows with
  | [] => rev acc
  | r :: rows' =>
    if tag_is r "S" then
      shapes_of_rows rows' ({| sh_name := fld r 1; sh_class := fld r 2; sh_n := 1%N; sh_stmts := [] |} :: acc)
    else if tag_is r "T" then
      match acc with
      | sh :: acc' =>
        shapes_of_rows rows'
          ({| sh_name := sh_name sh; sh_class := sh_class sh; sh_n := sh_n sh;
              sh_stmts := sh_stmts sh ++ [mk_stmt (fbool r 1) (fld r 2) (fld r 3) (card_of_field (fld r 4))] |} :: acc')
      | [] => shapes_of_rows rows' acc
      end
    else shapes_of_rows rows' acc
  end.

Definition pats_of_rows (rows : table) : dict (option (option str)) :=
  fold_left (fun d r => if tag_is r "S" then dset d (fld r 2) (pat_of_field (fld r 3)) else d) rows [].

Definition shacl_doc_shapes (t : table) : table :=
  let z := nth 0 t [] in
  let pats := pats_of_rows t in
  output_rows {| d_detect := fbool z 2;
                d_pat := fun c => match dget pats c with Some x => x | None => None end |}
             [] (fld z 1) (shapes_of_rows t []).

Definition entry_shacldoc (name : str) (t : table) : option table :=
  if str_eqb name (Str "shacl_doc") then Some (shacl_doc_pipe t)
  else if str_eqb name (Str "shacl_doc_shapes") then Some (shacl_doc_shapes t)
  else None.
