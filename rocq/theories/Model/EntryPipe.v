(** Entry points of the extraction-pipeline model.

    input table: row 0 = configuration, then one row per item:
      ["N"; namespace; prefix] | ["C"; class IRI] | ["T"; sk; sid; p; ok; oid-or-content; dt]
    (sk/ok: "I" IRI, "B" blank node, "L" literal).  *)
From Coq Require Import List Ascii String ZArith NArith Bool.
From Shexer Require Import Lib.PyStr Lib.Dict Gen.Consts Spec.Rdf Model.Table Model.Tracker Model.Profiler
     Model.Tokens Model.Freq Model.FreqInst Model.Shexing Model.SerialShexc Model.Run Model.RunCur.
Import ListNotations.

Definition tag_is (r : list str) (t : string) : bool := str_eqb (fld r 0) (Str t).

Definition node_of (k id : str) : node :=
  Node (if str_eqb k (Str "B") then KBnode else KIri) id.

Definition triple_of_row (r : list str) : triple :=
  T (node_of (fld r 1) (fld r 2)) (fld r 3)
    (if str_eqb (fld r 4) (Str "L") then OL (fld r 5) (fld r 6) else ON (node_of (fld r 4) (fld r 5))).

Definition graph_of (t : table) : graph :=
  map triple_of_row (filter (fun r => tag_is r "T") t).

Definition ns_of (t : table) : nsdict :=
  map (fun r => (fld r 1, fld r 2)) (filter (fun r => tag_is r "N") t).

Definition classes_of (t : table) : list str :=
  map (fun r => fld r 1) (filter (fun r => tag_is r "C") t).

Definition mode_of (s : str) : freq_mode :=
  if str_eqb s c_RATIO_INSTANCES then FRatio else if str_eqb s c_ABSOLUTE_INSTANCES then FAbs else FMixed.

(** config row: 0 tau | 1 all_classes | 2 shapes_ns | 3 cap | 4 inverse | 5 remove_empty | 6 discard_useless
    | 7 keep_less_specific | 8 all_compliant | 9 disable_or | 10 allow_redundant_or | 11 allow_opt
    | 12 disable_exact | 13 disable_comments | 14 report mode | 15 thr num | 16 thr den *)
Definition rcfg_of (t : table) : rcfg :=
  let r := nth 0 t [] in
  {| r_tau := fld r 0;
     r_targets := if fbool r 1 then None else Some (classes_of t);
     r_ns := ns_of t; r_shapes_ns := fld r 2; r_cap := fZ r 3; r_inverse := fbool r 4;
     r_remove_empty := fbool r 5; r_discard_useless := fbool r 6; r_keep_less_specific := fbool r 7;
     r_all_compliant := fbool r 8; r_disable_or := fbool r 9; r_allow_redundant_or := fbool r 10;
     r_allow_opt := fbool r 11; r_disable_exact := fbool r 12; r_disable_comments := fbool r 13;
     r_mode := mode_of (fld r 14) |}.

Definition thr_of (t : table) : F BAlg :=
  let r := nth 0 t [] in b_ratio (Z.to_N (fZ r 15)) (Z.to_N (fZ r 16)).

Definition rerr_str (e : rerr) : str :=
  match e with
  | REAttr => Str "AttributeError" | REType => Str "TypeError" | REValue => Str "ValueError"
  | REZeroDiv => Str "ZeroDivisionError" | RERandom => Str "random-prefix"
  end.

(** the one-document run with the shexing stage in the order the code has
    ([RunCur.run_shexc_cur]; it is [Run.run_shexc] where Props/ShexStage.v:
    [E2E_class_mode_order_irrelevant_shexc] applies) *)
Definition pipe_shexc (t : table) : table :=
  match run_shexc_cur BAlg (rcfg_of t) (thr_of t) (graph_of t) with
  | inl text => [[Str "ok"; text]]
  | inr e => [[Str "err"; rerr_str e]]
  end.

Definition entry_pipe (name : str) (t : table) : option table :=
  if str_eqb name (Str "pipe_shexc") then Some (pipe_shexc t)
  else None.
