(** * Instance tracking (shexer/core/instances: InstanceTracker, BaseAnnotator,
    AllClasesMode, TargetClassesMode, InstanceCapMode).

    Result: the instances dictionary [instance id -> list of class IRIs], in
    insertion order (the order the later stages iterate in). *)
From Coq Require Import List Ascii String ZArith Bool.
From Shexer Require Import Lib.PyStr Lib.Dict Spec.Rdf.
Import ListNotations.

Definition insts := dict (list str).

(** Target mode of the "pure" instance tracker.  [TAll] = all_classes_mode,
    [TClasses l] = target_classes / file_target_classes after
    [tune_target_classes_if_needed] (full IRIs without corners). *)
Inductive tmode := TAll | TClasses (l : list str).

Inductive terr := TEAttr.   (* [Literal] has no [.iri]: AttributeError *)

(** [is_relevant_triple] of the strategy: the predicate is the instantiation
    property (and, with target classes, the object is one of them: model
    [IRI.__eq__] -- same type and same string). *)
Definition relevant (tau : str) (m : tmode) (t : triple) : bool :=
  str_eqb (tp t) tau &&
  match m with
  | TAll => true
  | TClasses l => match to t with
                  | ON (Node KIri c) => mem_str c l
                  | _ => false
                  end
  end.

(** [annotate_triple]: create the instance entry if absent, append the class *)
Definition annotate (d : insts) (t : triple) : insts + terr :=
  match to t with
  | ON o => inl (dupd d (nid (ts t)) [] (fun cs => cs ++ [nid o]))
  | OL _ _ => inr TEAttr
  end.

(** plain run: no cap *)
Fixpoint track_plain (tau : str) (m : tmode) (g : graph) (d : insts) : insts + terr :=
  match g with
  | [] => inl d
  | t :: g' =>
    if relevant tau m t then
      match annotate d t with
      | inl d' => track_plain tau m g' d'
      | inr e => inr e
      end
    else track_plain tau m g' d
  end.

(** [InstanceCapMode].  State: per-class counts and the number of completed
    classes.  [n_targets] is [Some n] when the early stop applies (pure
    target_classes mode: stop reading once [n] classes are full). *)
Record capst := { cc : dict nat; completed : nat }.

Definition cap_allows (tau : str) (cap : nat) (st : capst) (t : triple) : option bool :=
  if negb (str_eqb (tp t) tau) then Some true
  else match to t with
       | OL _ _ => None            (* a_triple[_O].iri on a Literal *)
       | ON o => match dget (cc st) (nid o) with
                 | None => Some true
                 | Some n => Some (Nat.ltb n cap)
                 end
       end.

Fixpoint track_cap (tau : str) (m : tmode) (cap : nat) (n_targets : option nat)
         (g : graph) (d : insts) (st : capst) : insts + terr :=
  match g with
  | [] => inl d
  | t :: g' =>
    (* [InstanceCapMode.is_relevant_triple]: the wrapped strategy is asked first,
       then [_check_class_counts] *)
    if relevant tau m t then
      match cap_allows tau cap st t with
      | None => inr TEAttr
      | Some false => track_cap tau m cap n_targets g' d st
      | Some true =>
        match to t with
        | OL _ _ => inr TEAttr
        | ON o =>
          let d' := dupd d (nid (ts t)) [] (fun cs => cs ++ [nid o]) in
          let n := match dget (cc st) (nid o) with Some n => S n | None => 1 end in
          let cc' := dset (cc st) (nid o) n in
          let completed' := if Nat.eqb n cap then S (completed st) else completed st in
          let st' := {| cc := cc'; completed := completed' |} in
          match n_targets with
          | Some nt => if Nat.eqb completed' nt then inl d'   (* InstancesCapException: stop reading *)
                       else track_cap tau m cap n_targets g' d' st'
          | None => track_cap tau m cap n_targets g' d' st'
          end
        end
      end
    else track_cap tau m cap n_targets g' d st
  end.

(** [instances_cap <= 0] means no cap.  The early stop is used only when the
    single strategy is TargetClassesMode ([n_target_classes = len(target_classes)]). *)
Definition track (tau : str) (m : tmode) (cap : Z) (g : graph) : insts + terr :=
  if (cap <=? 0)%Z then track_plain tau m g []
  else track_cap tau m (Z.to_nat cap)
                 (match m with TClasses l => Some (List.length l) | TAll => None end)
                 g [] {| cc := []; completed := 0 |}.
