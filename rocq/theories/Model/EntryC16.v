(** Entry points of C16.

    [pipe_shexc_ign]: same table as [EntryPipe.pipe_shexc] plus rows
      ["X"; namespace]  for [namespaces_to_ignore] (in list order).
    [pipe_shexc2]: rows ["T"; ...] feed the feature pass, rows ["U"; ...] (same
      layout) the instance pass ([instances_file_input]).
    [c16_child]: rows [p; ns1; ns2; ...] -> ["1"|"0"]  ([check_if_property_belongs_to_namespace_list]).
    [c16_restrict]: the Spec-level [restrict_typing] (oracle cross-check):
      input as [pipe_shexc] (cap in the configuration row), output one row per
      triple, "1" kept / "0" deleted.
    [c16_track]: the instances dictionary [track] computes: rows [instance; class1; class2; ...]
      or [["err"]]. *)
From Coq Require Import List Ascii String ZArith NArith Bool.
From Shexer Require Import Lib.PyStr Lib.Dict Gen.Consts Spec.Rdf Spec.Restrict Model.Table Model.Tracker
     Model.Freq Model.FreqInst Model.Run Model.NsFilter Model.Run2 Model.EntryPipe.
Import ListNotations.

Definition ign_of (t : table) : list str :=
  map (fun r => fld r 1) (filter (fun r => tag_is r "X") t).

Definition inst_graph_of (t : table) : graph :=
  map triple_of_row (filter (fun r => tag_is r "U") t).

Definition out_of (r : str + rerr) : table :=
  match r with
  | inl text => [[Str "ok"; text]]
  | inr e => [[Str "err"; rerr_str e]]
  end.

Definition pipe_shexc_ign (t : table) : table :=
  out_of (run_shexc_ign BAlg (rcfg_of t) (ign_of t) (thr_of t) (graph_of t)).

Definition pipe_shexc2 (t : table) : table :=
  out_of (run_shexc2 BAlg (rcfg_of t) (thr_of t) (inst_graph_of t) (graph_of t)).

Definition c16_child_row (r : list str) : list str :=
  match r with
  | p :: nss => [bstr (child_of_ns nss p)]
  | [] => [Str "?"]
  end.

Definition scope_of_cfg (c : rcfg) : scope := r_targets c.

Definition c16_restrict (t : table) : table :=
  let c := rcfg_of t in
  let g := graph_of t in
  map (fun tr => [bstr (keep_typing (r_tau c) (scope_of_cfg c) (Z.to_nat (r_cap c)) g tr)]) g.

Definition c16_track (t : table) : table :=
  let c := rcfg_of t in
  match track (r_tau c) (match r_targets c with Some l => TClasses l | None => TAll end) (r_cap c) (graph_of t) with
  | inl ins => map (fun ie : str * list str => fst ie :: snd ie) ins
  | inr _ => [[Str "err"]]
  end.

Definition entry_c16 (name : str) (t : table) : option table :=
  if str_eqb name (Str "pipe_shexc_ign") then Some (pipe_shexc_ign t)
  else if str_eqb name (Str "pipe_shexc2") then Some (pipe_shexc2 t)
  else if str_eqb name (Str "c16_child") then Some (map c16_child_row t)
  else if str_eqb name (Str "c16_restrict") then Some (c16_restrict t)
  else if str_eqb name (Str "c16_track") then Some (c16_track t)
  else None.
