(** * Class profiling (shexer/core/profiling: ClassProfiler,
    AbstractFeatureDirectionStrategy, DirectFeaturesStrategy,
    IncludeReverseFeaturesStrategy; shexer/utils/shapes.py).

    Two folds: over the triple stream ([_annotate_target_subject/_object],
    building per-instance feature counts) and over the instances dictionary
    ([_annotate_*_instance_features_for_class], building the class profile).
    All dictionaries are insertion-ordered because the later stages iterate
    over them and their order reaches the output. *)
From Coq Require Import List Ascii String ZArith NArith Bool.
From Shexer Require Import Lib.PyStr Lib.Dict Gen.Consts Spec.Rdf Model.Tracker.
Import ListNotations.

(** ** shape names: [build_shapes_name_for_class_uri] *)

Definition last_char_is (c : ascii) (s : str) : bool :=
  match at_idx s (-1) with Some x => Ascii.eqb x c | None => false end.

Definition shape_name (shapes_ns class_uri : str) : str :=
  if prefixb (Str "@") class_uri then class_uri
  else if prefixb (Str "<") class_uri && suffixb (Str ">") class_uri
  then c_STARTING_CHAR_FOR_SHAPE_NAME ++ class_uri
  else
    let lp0 := class_uri in
    let lp1 := if contains (Str "#") lp0 && negb (last_char_is "#"%char lp0)
               then slice_from lp0 (rfind (Str "#") lp0 + 1) else lp0 in
    let lp2 := if contains (Str "/") lp1
               then if negb (last_char_is "/"%char lp1)
                    then slice_from lp1 (rfind (Str "/") lp1 + 1)
                    else slice_from lp1 (rfind (Str "/") (slice_to lp1 (-1)) + 1)
               else lp1 in
    let lp3 := if suffixb (Str ">") lp2 then slice_to lp2 (-1) else lp2 in
    let lp4 := if prefixb (Str "<") lp3 then slice_from lp3 1 else lp3 in
    c_STARTING_CHAR_FOR_SHAPE_NAME ++ Str "<" ++ shapes_ns ++ lp4 ++ Str ">".

(** ** data *)

(** cardinality keys of the profile: an exact count or "+" *)
Inductive ckey := CKn (n : N) | CKplus.

Definition ckey_eqb (a b : ckey) : bool :=
  match a, b with
  | CKn x, CKn y => N.eqb x y
  | CKplus, CKplus => true
  | _, _ => false
  end.

Definition cdict := list (ckey * N).

Fixpoint cget (d : cdict) (k : ckey) : N :=
  match d with
  | [] => 0
  | (k', v) :: d' => if ckey_eqb k k' then v else cget d' k
  end.

Fixpoint cincr (d : cdict) (k : ckey) : cdict :=
  match d with
  | [] => [(k, 1%N)]
  | (k', v) :: d' => if ckey_eqb k k' then (k', (v + 1)%N) :: d' else (k', v) :: cincr d' k
  end.

Definition feat := dict (dict N).            (* property -> type key -> number of values *)
Definition pdict := dict (dict cdict).       (* property -> type key -> cardinality -> number of instances *)

Record ientry := { i_classes : list str; i_direct : feat; i_inverse : feat }.
Definition idict := dict ientry.

Record centry := { c_direct : pdict; c_inverse : pdict }.
Definition cprofile := dict centry.
Definition ccounts := dict N.

Inductive perr := PEAttr | PEType.

(** ** first fold: features of instances *)

Definition elem_type_node (n : node) : str :=
  match nk n with KIri => c_IRI_ELEM_TYPE | KBnode => c_BNODE_ELEM_TYPE end.

(** [_decide_type_elem] for an object; [None] = AttributeError
    ([Literal] has no [.iri]) *)
Definition type_of_obj (tau p : str) (o : obj) : option str :=
  if negb (str_eqb p tau) then
    Some (match o with ON n => elem_type_node n | OL _ dt => dt end)
  else match o with ON n => Some (nid n) | OL _ _ => None end.

Definition type_of_subj (tau p : str) (s : node) : str :=
  if negb (str_eqb p tau) then elem_type_node s else nid s.

(** [_decide_shapes_elem]: shape names of the classes of a tracked node.
    The profiler is never given [shapes_namespace]: it always names shapes in
    the default namespace. *)
Definition shapes_of (I : idict) (id : str) : list str :=
  match dget I id with
  | None => []
  | Some e => map (shape_name c_SHAPES_DEFAULT_NAMESPACE) (i_classes e)
  end.

Definition incr_feat (f : feat) (p k : str) : feat :=
  dupd f p [] (fun m => dupd m k 0%N (fun n => (n + 1)%N)).

(** [_introduce_needed_elements_in_shape_instances_dict_for_subj] creates the
    keys (type first, then the shapes) and the increments follow in the same
    order, so creation order = order of first increment: one fold. *)
Definition annotate_keys (f : feat) (p : str) (keys : list str) : feat :=
  fold_left (fun acc k => incr_feat acc p k) keys f.

Definition is_node_type (k : str) : bool :=
  str_eqb k c_IRI_ELEM_TYPE || str_eqb k c_BNODE_ELEM_TYPE.

(** [_annotate_target_subject] *)
Definition annotate_subject (tau : str) (I : idict) (t : triple) : idict + perr :=
  match type_of_obj tau (tp t) (to t) with
  | None => inr PEAttr
  | Some ty =>
    let shapes := if is_node_type ty
                  then match to t with ON n => shapes_of I (nid n) | OL _ _ => [] end
                  else [] in
    inl (dupd I (nid (ts t)) {| i_classes := []; i_direct := []; i_inverse := [] |}
              (fun e => {| i_classes := i_classes e;
                           i_direct := annotate_keys (i_direct e) (tp t) (ty :: shapes);
                           i_inverse := i_inverse e |}))
  end.

(** [_annotate_target_object] (inverse paths): shapes only for IRI subjects *)
Definition annotate_object (tau : str) (I : idict) (t : triple) (o : node) : idict :=
  let ty := type_of_subj tau (tp t) (ts t) in
  let shapes := if str_eqb ty c_IRI_ELEM_TYPE then shapes_of I (nid (ts t)) else [] in
  dupd I (nid o) {| i_classes := []; i_direct := []; i_inverse := [] |}
       (fun e => {| i_classes := i_classes e;
                    i_direct := i_direct e;
                    i_inverse := annotate_keys (i_inverse e) (tp t) (ty :: shapes) |}).

Definition tracked (I : idict) (id : str) : bool := dmem I id.

(** one triple of the feature pass *)
Definition annotate_triple (tau : str) (inverse : bool) (I : idict) (t : triple) : idict + perr :=
  let r1 := if tracked I (nid (ts t)) then annotate_subject tau I t else inl I in
  match r1 with
  | inr e => inr e
  | inl I1 =>
    if inverse then
      match to t with
      | ON o => if tracked I1 (nid o) then inl (annotate_object tau I1 t o) else inl I1
      | OL _ _ => inl I1
      end
    else inl I1
  end.

Fixpoint annotate_all (tau : str) (inverse : bool) (g : graph) (I : idict) : idict + perr :=
  match g with
  | [] => inl I
  | t :: g' =>
    match annotate_triple tau inverse I t with
    | inl I' => annotate_all tau inverse g' I'
    | inr e => inr e
    end
  end.

(** ** second fold: the class profile *)

(** [_infer_direct_3tuple_features] / [_infer_valid_cardinalities] *)
Definition tuples_of (tau : str) (f : feat) : list (str * str * ckey) :=
  flat_map (fun pe : str * dict N =>
    let (p, m) := pe in
    flat_map (fun ke : str * N =>
      let (k, n) := ke in
      if str_eqb p tau then [(p, k, CKn 1)]
      else [(p, k, CKn n); (p, k, CKplus)]) m) f.

Definition pincr (d : pdict) (x : str * str * ckey) : pdict :=
  let '(p, k, c) := x in
  dupd d p [] (fun m => dupd m k [] (fun cd => cincr cd c)).

Definition empty_centry : centry := {| c_direct := []; c_inverse := [] |}.

Definition annotate_instance_for_class (direct : list (str * str * ckey))
           (P : cprofile) (c : str) : cprofile :=
  dupd P c empty_centry
       (fun e => {| c_direct := fold_left pincr direct (c_direct e);
                    c_inverse := c_inverse e |}).

Definition annotate_instance_inv_for_class (inverse : list (str * str * ckey))
           (P : cprofile) (c : str) : cprofile :=
  dupd P c empty_centry
       (fun e => {| c_direct := c_direct e;
                    c_inverse := fold_left pincr inverse (c_inverse e) |}).

(** [annotate_instance_features]: all direct features for every class of the
    instance, then (inverse mode) all inverse features for every class *)
Definition annotate_instance (tau : str) (inverse : bool) (P : cprofile) (e : ientry) : cprofile :=
  let d := tuples_of tau (i_direct e) in
  let P1 := fold_left (annotate_instance_for_class d) (i_classes e) P in
  if inverse then
    let iv := tuples_of tau (i_inverse e) in
    fold_left (annotate_instance_inv_for_class iv) (i_classes e) P1
  else P1.

(** [_init_class_counts_and_shape_dict]: requested target classes first (with
    count 0), then the classes of the instances in dictionary order *)
Definition init_targets (targets : list str) : cprofile * ccounts :=
  fold_left (fun (acc : cprofile * ccounts) c => (dset (fst acc) c empty_centry, dset (snd acc) c 0%N))
            targets ([], []).

Definition init_annotated (I : insts) (acc : cprofile * ccounts) : cprofile * ccounts :=
  fold_left (fun (acc : cprofile * ccounts) (ie : str * list str) =>
    fold_left (fun (acc : cprofile * ccounts) c =>
      let P := if dmem (fst acc) c then fst acc else dset (fst acc) c empty_centry in
      let C := if dmem (fst acc) c then snd acc else dset (snd acc) c 0%N in
      (P, dupd C c 0%N (fun n => (n + 1)%N))) (snd ie) acc) I acc.

(** ** cleaning: [_clean_class_profile] *)

Definition has_features (inverse : bool) (e : centry) : bool :=
  match c_direct e with
  | _ :: _ => true
  | [] => if inverse then match c_inverse e with _ :: _ => true | [] => false end else false
  end.

(** class keys that are neither "original target nodes" nor have features.
    The code compares class keys with shape *labels* of the original targets. *)
Definition shapes_to_remove (inverse : bool) (orig_labels : list str) (P : cprofile) : list str :=
  map fst (filter (fun ce : str * centry =>
                     negb (mem_str (fst ce) orig_labels) && negb (has_features inverse (snd ce))) P).

Definition remove_keys_pdict (ks : list str) (d : pdict) : pdict :=
  map (fun pe : str * dict cdict =>
         (fst pe, filter (fun ke : str * cdict => negb (mem_str (fst ke) ks)) (snd pe))) d.

(** one iteration: the removed class keys disappear from every property's
    type-key dictionary (direct and, with inverse paths, inverse features) and
    from the profile itself *)
Definition remove_iteration (ks : list str) (P : cprofile) : cprofile :=
  filter (fun ce : str * centry => negb (mem_str (fst ce) ks))
         (map (fun ce : str * centry =>
                 (fst ce, {| c_direct := remove_keys_pdict ks (c_direct (snd ce));
                             c_inverse := remove_keys_pdict ks (c_inverse (snd ce)) |})) P).

Fixpoint clean_profile (fuel : nat) (inverse : bool) (orig_labels : list str) (P : cprofile)
  : cprofile + perr :=
  match fuel with
  | O => inl P
  | S f =>
    match shapes_to_remove inverse orig_labels P with
    | [] => inl P
    | ks => clean_profile f inverse orig_labels (remove_iteration ks P)
    end
  end.

(** ** the profiler *)

Record pcfg := {
  p_tau : str;
  p_inverse : bool;
  p_remove_empty : bool;
  (* tuned target classes handed to the profiler ([None] unless target_classes was given) *)
  p_targets : option (list str);
  (* labels of a shape map, if any *)
  p_map_labels : list str
}.

Definition adapt (I : insts) : idict :=
  map (fun ie : str * list str => (fst ie, {| i_classes := snd ie; i_direct := []; i_inverse := [] |})) I.

Definition orig_labels (c : pcfg) : list str :=
  match p_targets c with
  | Some l => map (shape_name c_SHAPES_DEFAULT_NAMESPACE) l
  | None => []
  end ++ p_map_labels c.

Definition profile (c : pcfg) (I : insts) (g : graph) : (cprofile * ccounts * idict) + perr :=
  let '(P0, C0) := init_annotated I (init_targets (match p_targets c with Some l => l | None => [] end)) in
  match annotate_all (p_tau c) (p_inverse c) g (adapt I) with
  | inr e => inr e
  | inl ID =>
    let P1 := fold_left (fun P (ie : str * ientry) => annotate_instance (p_tau c) (p_inverse c) P (snd ie)) ID P0 in
    if p_remove_empty c then
      match clean_profile (S (List.length P1)) (p_inverse c) (orig_labels c) P1 with
      | inl P2 => inl (P2, C0, ID)
      | inr e => inr e
      end
    else inl (P1, C0, ID)
  end.
