(** Entry point of the decorated extraction-pipeline model.

    Input table: as [Model/EntryPipe.v] (row 0 = configuration, then "N" / "C" /
    "T" rows); two more configuration fields:
      17 detect_minimal_iri ("1"/"0") | 18 examples_mode ("N" = None, "S<mode>").
    Output: [["ok"; text; dom]] ([dom] = [run_decor_domb_cur], [RunDecor]'s functions with the
    shexing stage in the order the code has: [Model/RunDecorCur.v]; the computable domain
    of the strip theorem of Props/C17.v) or [["err"; exception name]].
    Entry [pipe_decor_info]: [["1"]] / [["0"]] = [c_example_none_guard]. *)
From Coq Require Import List Ascii String ZArith NArith Bool.
From Shexer Require Import Lib.PyStr Lib.Dict Gen.Consts Spec.Rdf Model.Table Model.Tracker Model.Profiler
     Model.Tokens Model.Freq Model.FreqInst Model.Shexing Model.SerialShexc Model.Run Model.EntryPipe
     Model.MinIri Model.Examples Model.RunDecor Model.DecorDom Model.RunCur Model.RunDecorCur.
Import ListNotations.

Definition derr_str (e : derr) : str :=
  match e with
  | DE e' => rerr_str e'
  | DEKey => Str "KeyError"
  end.

Definition dmi_of (t : table) : bool := fbool (nth 0 t []) 17.
Definition exmode_of (t : table) : option str := fopt (nth 0 t []) 18.

Definition pipe_shexc_decor (t : table) : table :=
  match run_shexc_decor_cur BAlg (rcfg_of t) (dmi_of t) (exmode_of t) (thr_of t) (graph_of t) with
  | inl text => [[Str "ok"; text;
                  bstr (run_decor_domb_cur BAlg (rcfg_of t) (dmi_of t) (exmode_of t) (thr_of t) (graph_of t))]]
  | inr e => [[Str "err"; derr_str e]]
  end.

(** which text of [ShexSerializer._serialize_example] the constants were generated from
    ([Gen/Consts.v: c_example_none_guard]); the harness asks, so that finding C17-F4 excuses a
    crash only on the text without the guard *)
Definition pipe_decor_info (t : table) : table := [[bstr c_example_none_guard]].

Definition entry_rundecor (name : str) (t : table) : option table :=
  if str_eqb name (Str "pipe_shexc_decor") then Some (pipe_shexc_decor t)
  else if str_eqb name (Str "pipe_decor_info") then Some (pipe_decor_info t)
  else None.
