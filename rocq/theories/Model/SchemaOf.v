(** * The schema a list of model shapes denotes (bridge from [Model/Shexing]
    to [Spec/ShexSem]), and the instance typing of a graph.

    Labels are the shape names as the model carries them (sentinel + cornered
    IRI), which is also how a reference to a shape is written in a statement's
    type, so [VRef (s_type s)] points at the shape named [s_type s]. *)
From Coq Require Import List Ascii String ZArith NArith Bool.
From Shexer Require Import Lib.PyStr Lib.Dict Gen.Consts Spec.Rdf Spec.ShexSem Model.Profiler Model.Shexing.
Import ListNotations.

Definition ve_of (tau : str) (s : stmt) : vexpr :=
  let k := s_type s in
  if str_eqb (s_prop s) tau then VClass k
  else if str_eqb k c_IRI_ELEM_TYPE then VIri
  else if str_eqb k c_BNODE_ELEM_TYPE then VBnode
  else if str_eqb k c_NONLITERAL_ELEM_TYPE then VNonLit
  else if is_shape_type k then VRef k
  else VDatatype k.

Definition scard_of (c : card) : scard :=
  match c with
  | CExact k => KExact (N.to_nat k)
  | CPlus => KPlus
  | CStar => KStar
  | COpt => KOpt
  end.

(** a disjunction ([s_choice]) has no counterpart in [Spec/ShexSem]; with
    [disable_or_statements] (the default, and part of C03's domain) the model
    never builds one *)
Definition tc_of (tau : str) (s : stmt) : tc :=
  TC (s_inv s) (s_prop s) (ve_of tau s) (scard_of (s_card s)).

Definition schema_of (tau : str) (l : list shape) : schema :=
  map (fun sh => (sh_name sh, map (tc_of tau) (sh_stmts sh))) l.

Definition has_choice (l : list shape) : bool :=
  existsb (fun sh => existsb s_choice (sh_stmts sh)) l.

(** every subject of a [tau]-triple with a node object, paired with the shape
    name of that class: the nodes "used to extract a shape" in all-classes
    mode without instance cap *)
Definition instance_typing (tau shapes_ns : str) (G : graph) : typing :=
  flat_map (fun t => if str_eqb (tp t) tau
                     then match to t with
                          | ON c => [(ts t, shape_name shapes_ns (nid c))]
                          | OL _ _ => []
                          end
                     else []) G.
