(** * The computable domain of the strip theorem (Props/C17.v,
    [C17_text_strip_decor]): what the line-level reference
    [Spec/DecorSpec.v: strip_decor] needs in order to recognise the lines of
    the model's text.

    - a printed shape label is not empty and contains no blank (the header's
      label is "the text before the first blank");
    - a printed stem does not contain the first character of the closing
      marker [">~]  AND"] (no IRI contains ['>']);
    - the printed property of a direct constraint is not empty and does not
      start with a blank (so that a constraint line is never taken for a
      comment line).
    IRIs, blank-node labels and prefixed names satisfy all three. *)
From Coq Require Import List Ascii String ZArith NArith Bool.
From Shexer Require Import Lib.PyStr Lib.Dict Gen.Consts Spec.Rdf Model.Tracker Model.Profiler
     Model.Tokens Model.Freq Model.Shexing Model.SerialShexc Model.Run Model.MinIri Model.Examples Model.RunDecor.
Import ListNotations.

Definition label_ok (name : str) : bool :=
  match name with [] => false | _ :: _ => forallb (fun c => negb (Ascii.eqb c " "%char)) name end.

Definition stem_char_ok (c : ascii) : bool :=
  match c17d_stem_post with
  | p0 :: _ => negb (Ascii.eqb c p0)
  | [] => false
  end.

Definition stem_ok (s : str) : bool := forallb stem_char_ok s.

Definition tok_ok (t : str) : bool :=
  match t with [] => false | c :: _ => negb (Ascii.eqb c " "%char) end.

Definition stmt_ok (ns : nsdict) (s : stmt) : bool :=
  s_inv s || match tune_token ns (s_prop s) with Some t => tok_ok t | None => true end.

Definition shape_ok (z : sercfg) (dc : dcfg) (d : exdict) (sh : shape) : bool :=
  match prefixize_shape_name (z_ns z) (sh_name sh) with Some name => label_ok name | None => true end &&
  (if d_dmi dc then match shape_stem d (sh_class sh) with Some (Some s) => stem_ok s | _ => true end else true) &&
  forallb (stmt_ok (z_ns z)) (sh_stmts sh).

Definition decor_domb (z : sercfg) (dc : dcfg) (d : exdict) (l : list shape) : bool :=
  forallb (shape_ok z dc d) l.

Section RunDom.
  Variable fa : FreqAlg.
  Definition run_decor_domb (c : rcfg) (dmi : bool) (mode : option str) (thr : F fa) (g : graph) : bool :=
    match run_shapes fa c thr g, run_decor_data c dmi mode g with
    | inl (ns, shapes), Some (_, d) =>
      decor_domb (zcfg_of c ns) {| d_dmi := dmi; d_mode := mode; d_inverse := r_inverse c |} d shapes
    | _, _ => true
    end.
End RunDom.
