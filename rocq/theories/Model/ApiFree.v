(** * The free (symbolic) instance of the pipeline of [Model/ShaperApi.v].

    Every stage returns a DESCRIPTION of what it was applied to, so that the
    text a call "returns" in this instance says exactly which constructor
    arguments, which threshold and which dictionary contents reached which
    stage.  Two calls have equal descriptions iff they applied the stages to
    the same data; the correspondence check of C18 runs histories through this
    instance and compares the predicted dependencies with the real outputs
    (harness/vp/props/c18.py), and the [..._refuted] lemmas of [Props/C18.v]
    use it as the most general witness.

    description of a ShExC text:  shexc US <dict at serialisation> US <E(dict) per examples pass> US <shapes>
                    SHACL text:   shacl US <dict at serialisation> US <shapes>
                    profile:      profile US <profile>
    shapes  = S[<threshold>|<dict at shexing>|<profile>]
    profile = P[<dict at profiling>|T[<args id>|<dict at tracking>]]
    dict    = prefix=namespace,prefix=namespace,...   (insertion order) *)
From Coq Require Import List Ascii String ZArith Bool.
From Shexer Require Import Lib.PyStr Lib.Dict Gen.Consts Model.Config Model.Determinism Model.ShaperApi.
Import ListNotations.

Record fargs := mkFargs {
  fa_id : str;                 (* stands for all constructor arguments other than the ones below *)
  fa_ns : str;                 (* shapes_namespace *)
  fa_ex : option str;          (* examples_mode *)
  fa_reader : nsd              (* prefixes the reader integrates into the dict (rdflib input); [] for line readers *)
}.

Definition US : str := Str "^".

Definition show_dict (d : nsd) : str :=
  join (Str ",") (map (fun np : str * str => snd np ++ Str "=" ++ fst np) d).

Definition f_track (a : fargs) (d : nsd) : str :=
  Str "T[" ++ fa_id a ++ Str "|" ++ show_dict d ++ Str "]".

(** [_integrate_namespaces_from_parsed_graph]: add what is not there yet *)
Definition f_reader_ns (a : fargs) (d : nsd) : nsd :=
  fold_left (fun acc (np : str * str) => if dmem acc (fst np) then acc else dset acc (fst np) (snd np))
            (fa_reader a) d.

Definition f_profile (a : fargs) (d : nsd) (tc : str) : str :=
  Str "P[" ++ show_dict d ++ Str "|" ++ tc ++ Str "]".

(** shapes: the dictionaries seen by each examples pass (latest first) and the core term *)
Definition fshapes := (list nsd * str)%type.

Definition f_shex (a : fargs) (d : nsd) (p : str) (t : str) : fshapes :=
  ([], Str "S[" ++ t ++ Str "|" ++ show_dict d ++ Str "|" ++ p ++ Str "]").

Definition f_add_examples (a : fargs) (d : nsd) (s : fshapes) : fshapes := (d :: fst s, snd s).

Definition show_examples (l : list nsd) : str :=
  List.concat (map (fun d => Str "E(" ++ show_dict d ++ Str ")") l).

(** a "line" per field: the sink concatenates them *)
Definition f_shexc_lines (a : fargs) (d : nsd) (s : fshapes) : list str :=
  [Str "shexc"; US; show_dict d; US; show_examples (fst s); US; snd s].

Definition f_shacl_text (a : fargs) (d : nsd) (s : fshapes) : str :=
  Str "shacl" ++ US ++ show_dict d ++ US ++ snd s.

Definition f_profile_text (p : str) : str := Str "profile" ++ US ++ p.

(** no random prefix is ever drawn in the histories the harness runs (the four
    priority prefixes are never all taken); the oracle is a constant and the
    loop gets no fuel, so a history that would need it shows [OHang] *)
Definition f_rand (i : nat) : str := Str "zzz".
Definition f_fuel : nat := 0.

Definition fop := op fargs str.

Definition f_step := step fargs str str fshapes str fa_ns fa_ex f_track f_reader_ns f_profile f_shex
                          f_add_examples f_shexc_lines f_shacl_text f_profile_text f_rand f_fuel str_eqb.
Definition f_init := init fargs str str fshapes str.
Definition f_run := run fargs str str fshapes str fa_ns fa_ex f_track f_reader_ns f_profile f_shex
                        f_add_examples f_shexc_lines f_shacl_text f_profile_text f_rand f_fuel str_eqb.
Definition f_dom := C18_dom fargs str.
