(** * The extraction with separate inputs for the two passes.

    [Shaper] builds two triple yielders: one for the instance tracker and one
    for the class profiler.  They read the same source except that
    (a) [namespaces_to_ignore] wraps only the profiler's yielder
        ([Shaper._build_class_profiler]; [_build_instance_tracker] does not pass
        it on), and
    (b) [instances_file_input] replaces the tracker's source.
    [run_shapes2] is [Run.run_shapes] with the instance pass reading [g_inst]
    and the feature pass reading [g_feat], and with the shexing stage in the
    order the code has ([ShexingFix.shex_cur], selected by the generated flag
    [Gen.Consts.c_clean_before_merge]): with two documents a class that HAS
    instances can lose its typing constraint in the feature pass
    (namespaces_to_ignore covering the instantiation property), so its shape can
    be empty at the threshold while other shapes reference it, and the two
    orders of ClassShexer.shex_classes then differ
    ([Proofs/OrderIrrelevant.v: order_two_documents_refuted]).
    [run_shapes2 c thr g g] is [RunCur.run_shapes_cur c thr g] by reflexivity, and
    equals [Run.run_shapes c thr g] where [Proofs/OrderIrrelevant.v] shows the
    order to be irrelevant. *)
From Coq Require Import List Ascii String ZArith NArith Bool.
From Shexer Require Import Lib.PyStr Lib.Dict Gen.Consts Spec.Rdf Model.Tracker Model.Profiler
     Model.Tokens Model.Freq Model.Shexing Model.ShexingFix Model.SerialShexc Model.Run Model.NsFilter.
Import ListNotations.

Section Run2.
  Variable fa : FreqAlg.

  Definition run_shapes2 (c : rcfg) (thr : F fa) (g_inst g_feat : graph) : (nsdict * list shape) + rerr :=
    match full_ns c with
    | None => inr RERandom
    | Some ns =>
      match track (r_tau c) (match r_targets c with Some l => TClasses l | None => TAll end) (r_cap c) g_inst with
      | inr _ => inr REAttr
      | inl ins =>
        match profile (pcfg_of c) ins g_feat with
        | inr PEAttr => inr REAttr
        | inr PEType => inr REType
        | inl (P, C, _) =>
          match shex_cur fa (scfg_of c ns) thr P C with
          | inr e => inr (rerr_of_s e)
          | inl shapes => inl (ns, shapes)
          end
        end
      end
    end.

  Definition run_shexc2 (c : rcfg) (thr : F fa) (g_inst g_feat : graph) : str + rerr :=
    match run_shapes2 c thr g_inst g_feat with
    | inr e => inr e
    | inl (ns, shapes) =>
      match render {| z_ns := ns; z_tau := r_tau c; z_disable_comments := r_disable_comments c;
                      z_mode := r_mode c |} shapes with
      | Some t => inl t
      | None => inr REValue
      end
    end.

  (** [Shaper(namespaces_to_ignore=ign, ...)]: instances from the full stream,
      features from the filtered one *)
  Definition run_shexc_ign (c : rcfg) (ign : list str) (thr : F fa) (g : graph) : str + rerr :=
    run_shexc2 c thr g (filter_ns ign g).
End Run2.
