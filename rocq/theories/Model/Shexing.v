(** * Shape extraction from the class profile (shexer/core/shexing:
    ClassShexer, DirectShexingStrategy, DirectAndInverseShexingStrategy,
    AbstractShexingStrategy, MergeableConstraints). *)
From Coq Require Import List Ascii String ZArith NArith Bool.
From Shexer Require Import Lib.PyStr Lib.Dict Gen.Consts Model.Profiler Model.Tokens Model.Freq.
Import ListNotations.

Inductive card := CExact (k : N) | CPlus | CStar | COpt.

Definition card_eqb (a b : card) : bool :=
  match a, b with
  | CExact x, CExact y => N.eqb x y
  | CPlus, CPlus | CStar, CStar | COpt, COpt => true
  | _, _ => false
  end.

Definition is_plus (c : card) : bool := match c with CPlus => true | _ => false end.

(** a comment attached to a statement: a snapshot of another (or the same)
    statement taken when the comment was created -- the code renders the text
    at that moment; the figures and the token are frozen here and turned into
    text by the serialiser model *)
Inductive comment :=
| KStmt (choice : bool) (p : prob) (nocc : N) (token : str) (c : card)
| KRaw (text : str).

Record stmt := {
  s_inv : bool;
  s_prop : str;
  s_types : list str;       (* one type; several for a FixedPropChoiceStatement *)
  s_choice : bool;
  s_card : card;
  s_nocc : N;
  s_prob : prob;
  s_comments : list comment
}.

Definition s_type (s : stmt) : str := hd [] (s_types s).

Record shape := {
  sh_name : str;
  sh_class : str;
  sh_n : N;
  sh_stmts : list stmt
}.

Inductive serr := SEAttr | SEType | SEValue | SEZeroDiv.

Record scfg := {
  x_tau : str;
  x_inverse : bool;
  x_shapes_ns : str;
  x_ns : nsdict;
  x_remove_empty : bool;
  x_discard_useless : bool;
  x_keep_less_specific : bool;
  x_all_compliant : bool;
  x_disable_or : bool;
  x_allow_redundant_or : bool;
  x_allow_opt : bool;
  x_disable_exact : bool;
  x_disable_comments : bool
}.

Section WithFreq.
  Variable fa : FreqAlg.
  Variable cfg : scfg.

  Definition card_of_key (k : ckey) : card :=
    match k with CKn n => CExact n | CKplus => CPlus end.

  (** ** base statements: every profile entry at or above the threshold *)
  Definition base_statements (thr : F fa) (cnt : N) (inv : bool) (pd : pdict) : list stmt :=
    flat_map (fun pe : str * dict cdict =>
      flat_map (fun ke : str * cdict =>
        flat_map (fun ce : ckey * N =>
          if fle fa thr (ratio fa (snd ce) cnt)
          then [{| s_inv := inv; s_prop := fst pe; s_types := [fst ke]; s_choice := false;
                   s_card := card_of_key (fst ce); s_nocc := snd ce; s_prob := PRatio (snd ce);
                   s_comments := [] |}]
          else []) (snd ke)) (snd pe)) pd.

  (** ** stable descending sort on the probability ([list.sort(reverse=True)]) *)
  Definition pv (cnt : N) (s : stmt) : F fa := pval fa cnt (s_prob s).

  Fixpoint insert_desc (cnt : N) (x : stmt) (l : list stmt) : list stmt :=
    match l with
    | [] => [x]
    | y :: l' => if fle fa (pv cnt x) (pv cnt y) then y :: insert_desc cnt x l' else x :: l
    end.

  Definition sort_desc (cnt : N) (l : list stmt) : list stmt :=
    fold_left (fun acc x => insert_desc cnt x acc) l [].

  (** ** comments *)
  Definition comment_of (s : stmt) : comment + serr :=
    if s_choice s then inl (KStmt true (s_prob s) (s_nocc s) [] (s_card s))
    else match tune_token (x_ns cfg) (s_type s) with
         | Some tok => inl (KStmt false (s_prob s) (s_nocc s) tok (s_card s))
         | None => inr SEValue
         end.

  Definition add_comment (s : stmt) (k : comment) : stmt :=
    {| s_inv := s_inv s; s_prop := s_prop s; s_types := s_types s; s_choice := s_choice s;
       s_card := s_card s; s_nocc := s_nocc s; s_prob := s_prob s;
       s_comments := s_comments s ++ [k] |}.

  Definition add_comment_first (s : stmt) (k : comment) : stmt :=
    {| s_inv := s_inv s; s_prop := s_prop s; s_types := s_types s; s_choice := s_choice s;
       s_card := s_card s; s_nocc := s_nocc s; s_prob := s_prob s;
       s_comments := k :: s_comments s |}.

  Fixpoint add_comments_of (dom : stmt) (l : list stmt) : stmt + serr :=
    match l with
    | [] => inl dom
    | x :: l' => match comment_of x with
                 | inl k => add_comments_of (add_comment dom k) l'
                 | inr e => inr e
                 end
    end.

  (** ** first merge: same property and same type, different cardinalities *)
  Definition same_tokens (a b : stmt) : bool :=
    str_eqb (s_prop a) (s_prop b) && str_eqb (s_type a) (s_type b).

  Definition count_plus (l : list stmt) : nat := List.length (filter (fun s => is_plus (s_card s)) l).

  (** [_is_a_group_of_statements_with_useless_positive_closure] (tolerance 0) *)
  Definition useless_plus_group (cnt : N) (g : list stmt) : bool :=
    match g with
    | [a; b] => feqb fa (pv cnt a) (pv cnt b) && Nat.odd (count_plus g)
    | _ => false
    end.

  Definition first_such (f : stmt -> bool) (l : list stmt) : option stmt := List.find f l.

  Definition decide_best (cnt : N) (g : list stmt) : stmt + serr :=
    if x_discard_useless cfg && useless_plus_group cnt g then
      match first_such (fun s => negb (is_plus (s_card s))) g with
      | Some s => inl s
      | None => inr SEValue
      end
    else
      let gs := sort_desc cnt g in
      let pick := if x_keep_less_specific cfg
                  then first_such (fun s => is_plus (s_card s)) gs
                  else first_such (fun s => negb (is_plus (s_card s))) gs in
      match (match pick with Some s => Some s | None => hd_error gs end) with
      | None => inr SEValue
      | Some res =>
        add_comments_of res (filter (fun s => negb (card_eqb (s_card s) (s_card res))) gs)
      end.

  Fixpoint group_same (fuel : nat) (cnt : N) (l : list stmt) : list stmt + serr :=
    match fuel with
    | O => inl l
    | S f =>
      match l with
      | [] => inl []
      | a :: rest =>
        let grp := filter (same_tokens a) rest in
        let others := filter (fun b => negb (same_tokens a b)) rest in
        match (match grp with [] => inl a | _ => decide_best cnt (a :: grp) end) with
        | inr e => inr e
        | inl r => match group_same f cnt others with
                   | inl rs => inl (r :: rs)
                   | inr e => inr e
                   end
        end
      end
    end.

  (** ** second merge: node kinds and shape references of one property *)
  Definition is_shape_type (k : str) : bool := prefixb c_STARTING_CHAR_FOR_SHAPE_NAME k.

  Definition is_nonliteral_type (k : str) : bool :=
    is_shape_type k || str_eqb k c_IRI_ELEM_TYPE || str_eqb k c_BNODE_ELEM_TYPE.

  Definition last_such (f : stmt -> bool) (l : list stmt) : option stmt := List.find f (rev l).

  Definition most_general_card (a b : card) : card :=
    if is_plus a || is_plus b || negb (card_eqb a b) then CPlus else a.

  (** identity of statement objects inside one merge group: the statements of
      a group have pairwise different types (one per (property, type) after
      the first merge), so "same object" is "same type and not a new
      NONLITERAL / choice statement" *)
  Definition same_obj (a b : stmt) : bool :=
    negb (s_choice a) && negb (s_choice b) && str_eqb (s_type a) (s_type b).

  Definition merge_group (cnt : N) (g : list stmt) : stmt + serr :=
    let bnode := last_such (fun s => str_eqb (s_type s) c_BNODE_ELEM_TYPE) g in
    let iri := last_such (fun s => str_eqb (s_type s) c_IRI_ELEM_TYPE) g in
    let shapes := sort_desc cnt (filter (fun s => negb (str_eqb (s_type s) c_BNODE_ELEM_TYPE) &&
                                                  negb (str_eqb (s_type s) c_IRI_ELEM_TYPE)) g) in
    let dominant : stmt + serr :=
      match bnode with
      | Some b =>
        match iri with
        | Some i =>
          match shapes with
          | [s0] =>
            if N.eqb (s_nocc i + s_nocc b) (s_nocc s0) then inl s0
            else inl {| s_inv := s_inv b; s_prop := s_prop b; s_types := [c_NONLITERAL_ELEM_TYPE];
                        s_choice := false; s_card := most_general_card (s_card b) (s_card i);
                        s_nocc := (s_nocc b + s_nocc i)%N;
                        s_prob := match s_prob b, s_prob i with
                                  | PRatio x, PRatio y => PSum x y
                                  | _, _ => PSum (s_nocc b) (s_nocc i)
                                  end;
                        s_comments := [] |}
          | _ =>
            inl {| s_inv := s_inv b; s_prop := s_prop b; s_types := [c_NONLITERAL_ELEM_TYPE];
                   s_choice := false; s_card := most_general_card (s_card b) (s_card i);
                   s_nocc := (s_nocc b + s_nocc i)%N;
                   s_prob := match s_prob b, s_prob i with
                             | PRatio x, PRatio y => PSum x y
                             | _, _ => PSum (s_nocc b) (s_nocc i)
                             end;
                   s_comments := [] |}
          end
        | None =>
          match shapes with
          | s0 :: _ => if N.eqb (s_nocc s0) (s_nocc b) then inl s0 else inl b
          | [] => inl b
          end
        end
      | None =>
        match shapes with
        | [] => match iri with Some i => inl i | None => inr SEValue end
        | s0 :: _ =>
          match iri with
          | None => inl s0
          | Some i => if N.ltb (s_nocc s0) (s_nocc i) then inl i else inl s0
          end
        end
      end in
    match dominant with
    | inr e => inr e
    | inl dom0 =>
      (* _tune_dominant_constraint_wrt_or_config *)
      let dom_in_shapes := existsb (same_obj dom0) shapes in
      let dom1 :=
        if x_disable_or cfg then dom0     (* the guarded branch compares an int with a Statement: never true *)
        else
          let st_types :=
            if x_allow_redundant_or cfg
            then (if dom_in_shapes then [] else [s_type dom0]) ++ map s_type shapes
            else if dom_in_shapes then map s_type shapes else [] in
          if Nat.ltb 1 (List.length st_types)
          then {| s_inv := s_inv dom0; s_prop := s_prop dom0; s_types := st_types; s_choice := true;
                  s_card := s_card dom0; s_nocc := s_nocc dom0; s_prob := s_prob dom0; s_comments := [] |}
          else dom0 in
      (* _feed_dominant_constraint_with_comments *)
      let first :=
        match bnode with
        | Some b => b :: match iri with Some i => [i] | None => [] end
        | None => []
        end in
      add_comments_of dom1 (first ++ filter (fun s => negb (same_obj dom1 s)) shapes)
    end.

  Definition mergeable_with (a b : stmt) : bool :=
    is_nonliteral_type (s_type b) && str_eqb (s_prop a) (s_prop b).

  Fixpoint group_nodes (fuel : nat) (cnt : N) (l : list stmt) : list stmt + serr :=
    match fuel with
    | O => inl l
    | S f =>
      match l with
      | [] => inl []
      | a :: rest =>
        if str_eqb (s_prop a) (x_tau cfg) || negb (is_nonliteral_type (s_type a)) then
          match group_nodes f cnt rest with
          | inl rs => inl (a :: rs)
          | inr e => inr e
          end
        else
          let grp := filter (mergeable_with a) rest in
          let others := filter (fun b => negb (mergeable_with a b)) rest in
          match (match grp with [] => inl a | _ => merge_group cnt (a :: grp) end) with
          | inr e => inr e
          | inl r => match group_nodes f cnt others with
                     | inl rs => inl (r :: rs)
                     | inr e => inr e
                     end
          end
      end
    end.

  (** [_select_valid_statements_of_shape] *)
  Definition select_valid (cnt : N) (l : list stmt) : list stmt + serr :=
    match l with
    | [] => inl []
    | _ => match group_same (List.length l) cnt l with
           | inr e => inr e
           | inl l1 => group_nodes (List.length l1) cnt l1
           end
    end.

  (** ** tuning: [_tune_list_of_valid_statements] *)
  Definition relax_card (c : card) : card :=
    if x_allow_opt cfg && card_eqb c (CExact 1) then COpt else CStar.

  Definition relax (cnt : N) (s : stmt) : stmt + serr :=
    if negb (feqb fa (pv cnt s) (fone fa)) then
      match comment_of s with
      | inr e => inr e
      | inl k =>
        inl {| s_inv := s_inv s; s_prop := s_prop s; s_types := s_types s; s_choice := s_choice s;
               s_card := relax_card (s_card s); s_nocc := s_nocc s; s_prob := POne;
               s_comments := k :: s_comments s |}
      end
    else inl s.

  Definition generalize_exact (s : stmt) : stmt :=
    match s_card s with
    | CExact k =>
      if N.ltb 1 k then
        {| s_inv := s_inv s; s_prop := s_prop s; s_types := s_types s; s_choice := s_choice s;
           s_card := CPlus; s_nocc := s_nocc s; s_prob := s_prob s; s_comments := s_comments s |}
      else s
    | _ => s
    end.

  Definition drop_comments (s : stmt) : stmt :=
    {| s_inv := s_inv s; s_prop := s_prop s; s_types := s_types s; s_choice := s_choice s;
       s_card := s_card s; s_nocc := s_nocc s; s_prob := s_prob s; s_comments := [] |}.

  Fixpoint map_err {A B E} (f : A -> B + E) (l : list A) : list B + E :=
    match l with
    | [] => inl []
    | x :: l' => match f x with
                 | inr e => inr e
                 | inl y => match map_err f l' with
                            | inl ys => inl (y :: ys)
                            | inr e => inr e
                            end
                 end
    end.

  Definition tune (cnt : N) (valid : list stmt) : list stmt + serr :=
    match valid with
    | [] => inl []
    | _ =>
      let l0 := sort_desc cnt valid in
      match (if x_all_compliant cfg then map_err (relax cnt) l0 else inl l0) with
      | inr e => inr e
      | inl l1 =>
        let l2 := if x_disable_exact cfg then map generalize_exact l1 else l1 in
        inl (if x_disable_comments cfg then map drop_comments l2 else l2)
      end
    end.

  (** ** one shape *)
  Definition shex_class (thr : F fa) (counts : ccounts) (ce : str * centry) : shape + serr :=
    let cls := fst ce in
    let cnt := match dget counts cls with Some n => n | None => 0%N end in
    let direct := base_statements thr cnt false (c_direct (snd ce)) in
    let inverse := if x_inverse cfg then base_statements thr cnt true (c_inverse (snd ce)) else [] in
    let sorted := sort_desc cnt (direct ++ inverse) in
    match select_valid cnt (filter (fun s => negb (s_inv s)) sorted) with
    | inr e => inr e
    | inl vd =>
      match select_valid cnt (filter (fun s => s_inv s) sorted) with
      | inr e => inr e
      | inl vi =>
        match tune cnt (vd ++ vi) with
        | inr e => inr e
        | inl stmts =>
          inl {| sh_name := shape_name (x_shapes_ns cfg) cls; sh_class := cls; sh_n := cnt;
                 sh_stmts := stmts |}
        end
      end
    end.

  (** ** [_clean_empty_shapes] *)
  Definition empty_names (l : list shape) : list str :=
    map sh_name (filter (fun s => match sh_stmts s with [] => true | _ => false end) l).

  (** statements whose type is a removed shape go; a choice statement has no
      single type: TypeError.  The setters rebuild the list as direct ++ inverse. *)
  Definition prune_shape (names : list str) (s : shape) : shape + serr :=
    if existsb (fun st => s_choice st) (sh_stmts s) then inr SEType
    else
      let keep := filter (fun st => negb (mem_str (s_type st) names)) (sh_stmts s) in
      inl {| sh_name := sh_name s; sh_class := sh_class s; sh_n := sh_n s;
             sh_stmts := filter (fun st => negb (s_inv st)) keep ++ filter (fun st => s_inv st) keep |}.

  Fixpoint clean_shapes (fuel : nat) (l : list shape) : list shape + serr :=
    match fuel with
    | O => inl l
    | S f =>
      match empty_names l with
      | [] => inl l
      | names =>
        match map_err (prune_shape names) (filter (fun s => negb (mem_str (sh_name s) names)) l) with
        | inr e => inr e
        | inl l' => clean_shapes f l'
        end
      end
    end.

  Definition shex (thr : F fa) (P : cprofile) (counts : ccounts) : list shape + serr :=
    match map_err (shex_class thr counts) P with
    | inr e => inr e
    | inl shapes =>
      if x_remove_empty cfg then clean_shapes (S (List.length shapes)) shapes else inl shapes
    end.

End WithFreq.
