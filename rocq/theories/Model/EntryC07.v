(** Entry points of the C07 model (table glue). *)
From Coq Require Import List Ascii String ZArith Bool.
From Shexer Require Import Lib.PyStr Gen.Consts Spec.Rdf Model.Table Model.TtlReader.
Import ListNotations.

Definition terr_str (e : terr) : str :=
  match e with
  | TEValue => Str "ValueError"
  | TEIndex => Str "IndexError"
  | TEAttr => Str "AttributeError"
  | TERuntime => Str "RuntimeError"
  | TEHang => Str "hang"
  | TEUnmodelled => Str "unmodelled"
  end.

Definition pstate_str (x : pstate) : str :=
  match x with WS => Str "WS" | WP => Str "WP" | WO => Str "WO" | NW => Str "NW" end.

Definition nkind_str (k : nkind) : str := match k with KIri => Str "I" | KBnode => Str "B" end.

(** the observable of C07: (subject kind, subject id, predicate, object kind, object id or datatype) *)
Definition triple_fields (t : triple) : list str :=
  [nkind_str (nk (ts t)); nid (ts t); tp t] ++
  match to t with
  | ON n => [nkind_str (nk n); nid n]
  | OL _ dt => [Str "L"; dt]
  end.

Definition result_fields (r : list triple * res st) : list str :=
  (match snd r with Ok s => [Str "ok"; pstate_str (state s)] | Err e => [terr_str e; Str "-"] end)
  ++ flat_map triple_fields (fst r).

(** row: [doc] -> [status; end state; 5 fields per yielded triple] *)
Definition c07_read_row (r : list str) : list str := result_fields (read_ttl (fld r 0)).

(** row: [line] -> [status; cleaned line] *)
Definition c07_clean_row (r : list str) : list str :=
  match clean_line (fld r 0) with Ok l => [Str "ok"; l] | Err e => [terr_str e; []] end.

Definition entry_c07 (name : str) (t : table) : option table :=
  if str_eqb name (Str "c07_read") then Some (map c07_read_row t)
  else if str_eqb name (Str "c07_clean") then Some (map c07_clean_row t)
  else None.

(** ** abstract documents with their layout (entry [c07_case])

    One row = one case = a flat list of fields:
      line := "L" lead tok* ("C" text | "N")  |  "D" lead dir gap* ("C" text | "N")
      tok  := "s" ref gap | "sb" label gap | "p" ref gap | "pa" gap | "o" ref gap | "ob" label gap
            | "l" lex sfx gap | "i" digits gap | "," gap | ";" gap | "." gap
      ref  := "A" iri | "R" ref | "P" pfx loc        sfx := "-" | "@" tag | "^" ref
      dir  := "prefix" pfx ref | "base" ref          (a directive line has exactly as many gaps as words)
    Answer: [lays_out?; root causes; rendered text; "undef" | number of triples of sem; their fields...;
             result of the reader model on the rendered text]. *)
From Shexer Require Import Spec.TtlSyntax Spec.TtlDomain.

Definition is (f : str) (s : string) : bool := str_eqb f (Str s).

Definition dec_ref (fs : list str) : option (iri_ref * list str) :=
  match fs with
  | k :: a :: rest =>
    if is k "A" then Some (IAbs a, rest)
    else if is k "R" then Some (IRel a, rest)
    else if is k "P" then match rest with b :: rest' => Some (IPre a b, rest') | [] => None end
    else None
  | _ => None
  end.

(** one token and its gap *)
Definition dec_tok (fs : list str) : option (atok * str * list str) :=
  match fs with
  | k :: rest =>
    let with_gap (t : atok) (r : list str) :=
      match r with g :: r' => Some (t, g, r') | [] => None end in
    if is k "s" then match dec_ref rest with Some (r, x) => with_gap (ASubj (SIri r)) x | None => None end
    else if is k "sb" then match rest with l :: x => with_gap (ASubj (SBn l)) x | [] => None end
    else if is k "p" then match dec_ref rest with Some (r, x) => with_gap (APred (PIri r)) x | None => None end
    else if is k "pa" then with_gap (APred PA) rest
    else if is k "o" then match dec_ref rest with Some (r, x) => with_gap (AObj (OIri r)) x | None => None end
    else if is k "ob" then match rest with l :: x => with_gap (AObj (OBn l)) x | [] => None end
    else if is k "i" then match rest with d :: x => with_gap (AObj (OInt d)) x | [] => None end
    else if is k "l" then
      match rest with
      | lex :: sk :: x =>
        if is sk "-" then with_gap (AObj (OLit lex LPlain)) x
        else if is sk "@" then match x with t :: x' => with_gap (AObj (OLit lex (LLang t))) x' | [] => None end
        else if is sk "^" then match dec_ref x with Some (r, x') => with_gap (AObj (OLit lex (LTyped r))) x' | None => None end
        else None
      | _ => None
      end
    else if is k "," then with_gap AComma rest
    else if is k ";" then with_gap ASemi rest
    else if is k "." then with_gap ADot rest
    else None
  | [] => None
  end.

Definition dec_cmt (fs : list str) : option (option str * list str) :=
  match fs with
  | k :: rest =>
    if is k "N" then Some (None, rest)
    else if is k "C" then match rest with t :: r => Some (Some t, r) | [] => None end
    else None
  | [] => None
  end.

Fixpoint dec_toks (fuel : nat) (fs : list str) (acc : list (atok * str)) : option (list (atok * str) * option str * list str) :=
  match fuel with
  | O => None
  | S f =>
    match dec_cmt fs with
    | Some (c, rest) => Some (rev acc, c, rest)
    | None =>
      match dec_tok fs with
      | Some (t, g, rest) => dec_toks f rest ((t, g) :: acc)
      | None => None
      end
    end
  end.

Fixpoint take_n {A} (n : nat) (l : list A) : option (list A * list A) :=
  match n with
  | O => Some ([], l)
  | S n' => match l with x :: l' => match take_n n' l' with Some (a, b) => Some (x :: a, b) | None => None end | [] => None end
  end.

Definition dec_dir (fs : list str) : option (directive * list str) :=
  match fs with
  | k :: rest =>
    if is k "prefix" then
      match rest with p :: x => match dec_ref x with Some (r, x') => Some (DPrefix p r, x') | None => None end | [] => None end
    else if is k "base" then match dec_ref rest with Some (r, x') => Some (DBase r, x') | None => None end
    else None
  | [] => None
  end.

Fixpoint dec_lines (fuel : nat) (fs : list str) (acc : list line) : option (list line) :=
  match fuel with
  | O => None
  | S f =>
    match fs with
    | [] => Some (rev acc)
    | k :: lead :: rest =>
      if is k "L" then
        match dec_toks (S (List.length rest)) rest [] with
        | Some (toks, c, rest') => dec_lines f rest' (LToks lead toks c :: acc)
        | None => None
        end
      else if is k "D" then
        match dec_dir rest with
        | Some (d, rest1) =>
          match take_n (List.length (directive_words d)) rest1 with
          | Some (gaps, rest2) =>
            match dec_cmt rest2 with
            | Some (c, rest3) => dec_lines f rest3 (LDir lead d gaps c :: acc)
            | None => None
            end
          | None => None
          end
        | None => None
        end
      else None
    | _ => None
    end
  end.

(** regroup a token stream into statement groups (glue; validated by [lays_outb] below) *)
Record gacc := GA { ga_doc : list item; ga_subj : option subj; ga_pos : list (pred * list object);
                    ga_pred : option pred; ga_objs : list object }.

Definition close_po (a : gacc) : list (pred * list object) :=
  match ga_pred a with
  | Some p => ga_pos a ++ [(p, ga_objs a)]
  | None => ga_pos a
  end.

Definition regroup_step (a : gacc) (x : directive + atok) : gacc :=
  match x with
  | inl d => GA (ga_doc a ++ [IDir d]) (ga_subj a) (ga_pos a) (ga_pred a) (ga_objs a)
  | inr (ASubj s) => GA (ga_doc a) (Some s) [] None []
  | inr (APred p) => GA (ga_doc a) (ga_subj a) (ga_pos a) (Some p) []
  | inr (AObj o) => GA (ga_doc a) (ga_subj a) (ga_pos a) (ga_pred a) (ga_objs a ++ [o])
  | inr AComma => a
  | inr ASemi => GA (ga_doc a) (ga_subj a) (close_po a) None []
  | inr ADot =>
    match ga_subj a with
    | Some s => GA (ga_doc a ++ [IGrp (Group s (close_po a))]) None [] None []
    | None => a
    end
  end.

Definition regroup (xs : list (directive + atok)) : doc :=
  ga_doc (fold_left regroup_step xs (GA [] None [] None [])).

(** decidable [lays_out] *)
Definition ref_eqb (a b : iri_ref) : bool := str_eqb (render_ref a) (render_ref b) &&
  match a, b with IAbs _, IAbs _ | IRel _, IRel _ | IPre _ _, IPre _ _ => true | _, _ => false end &&
  match a, b with IPre p _, IPre q _ => str_eqb p q | _, _ => true end.
Definition atok_eqb (a b : atok) : bool :=
  match a, b with
  | ASubj (SIri r), ASubj (SIri r') | APred (PIri r), APred (PIri r') | AObj (OIri r), AObj (OIri r') => ref_eqb r r'
  | ASubj (SBn l), ASubj (SBn l') | AObj (OBn l), AObj (OBn l') | AObj (OInt l), AObj (OInt l') => str_eqb l l'
  | APred PA, APred PA | AComma, AComma | ASemi, ASemi | ADot, ADot => true
  | AObj (OLit x LPlain), AObj (OLit y LPlain) => str_eqb x y
  | AObj (OLit x (LLang t)), AObj (OLit y (LLang u)) => str_eqb x y && str_eqb t u
  | AObj (OLit x (LTyped r)), AObj (OLit y (LTyped r')) => str_eqb x y && ref_eqb r r'
  | _, _ => false
  end.
Definition dir_eqb (a b : directive) : bool :=
  match a, b with
  | DPrefix p r, DPrefix q r' => str_eqb p q && ref_eqb r r'
  | DBase r, DBase r' => ref_eqb r r'
  | _, _ => false
  end.
Fixpoint stream_eqb (a b : list (directive + atok)) : bool :=
  match a, b with
  | [], [] => true
  | inl x :: a', inl y :: b' => dir_eqb x y && stream_eqb a' b'
  | inr x :: a', inr y :: b' => atok_eqb x y && stream_eqb a' b'
  | _, _ => false
  end.

Definition lays_outb (ls : list line) (d : doc) : bool :=
  forallb line_wf ls &&
  forallb (fun i => match i with IGrp g => group_wf g | IDir x => dir_wf x end) d &&
  stream_eqb (flat_map line_stream ls) (flat_map item_stream d).

Definition rc_str (r : rc) : str :=
  match r with
  | RC_ini_base => Str "ini_base" | RC_concat => Str "concat"
  | RC_dt_custom_prefix => Str "dt_custom_prefix"
  | RC_dir_unresolved => Str "dir_unresolved"
  | RC_ws_in_literal => Str "ws_in_literal" | RC_long_number => Str "long_number"
  end.

Definition c07_case_row (r : list str) : list str :=
  match dec_lines (S (List.length r)) r [] with
  | None => [Str "decode-error"]
  | Some ls =>
    let d := regroup (flat_map line_stream ls) in
    let text := render_doc ls in
    [bstr (lays_outb ls d); join (Str ",") (map rc_str (C07_rcs ls d)); text] ++
    (match sem d with
     | None => [Str "undef"]
     | Some ts => dec_of_N (N.of_nat (List.length ts)) :: flat_map triple_fields ts
     end) ++
    result_fields (read_ttl text)
  end.

Definition entry_c07b (name : str) (t : table) : option table :=
  if str_eqb name (Str "c07_case") then Some (map c07_case_row t) else None.
