(** Entry points of the C07 model (table glue). *)
From Coq Require Import List Ascii String ZArith Bool.
From Shexer Require Import Lib.PyStr Gen.Consts Spec.Rdf Model.Table Model.TtlReader.
Import ListNotations.

Definition terr_str (e : terr) : str :=
  match e with
  | TEValue => Str "ValueError"
  | TEIndex => Str "IndexError"
  | TEAttr => Str "AttributeError"
  | TERuntime => Str "RuntimeError"
  | TEHang => Str "hang"
  | TEUnmodelled => Str "unmodelled"
  end.

Definition pstate_str (x : pstate) : str :=
  match x with WS => Str "WS" | WP => Str "WP" | WO => Str "WO" | NW => Str "NW" end.

Definition nkind_str (k : nkind) : str := match k with KIri => Str "I" | KBnode => Str "B" end.

(** the observable of C07: (subject kind, subject id, predicate, object kind, object id or datatype) *)
Definition triple_fields (t : triple) : list str :=
  [nkind_str (nk (ts t)); nid (ts t); tp t] ++
  match to t with
  | ON n => [nkind_str (nk n); nid n]
  | OL _ dt => [Str "L"; dt]
  end.

Definition result_fields (r : list triple * res st) : list str :=
  (match snd r with Ok s => [Str "ok"; pstate_str (state s)] | Err e => [terr_str e; Str "-"] end)
  ++ flat_map triple_fields (fst r).

(** row: [doc] -> [status; end state; 5 fields per yielded triple] *)
Definition c07_read_row (r : list str) : list str := result_fields (read_ttl (fld r 0)).

(** row: [line] -> [status; cleaned line] *)
Definition c07_clean_row (r : list str) : list str :=
  match clean_line (fld r 0) with Ok l => [Str "ok"; l] | Err e => [terr_str e; []] end.

Definition entry_c07 (name : str) (t : table) : option table :=
  if str_eqb name (Str "c07_read") then Some (map c07_read_row t)
  else if str_eqb name (Str "c07_clean") then Some (map c07_clean_row t)
  else None.
