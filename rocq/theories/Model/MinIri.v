(** * Minimal IRI detection (detect_minimal_iri).

    Anchors:
    - [shexer/utils/uri.py: longest_common_prefix]
    - [shexer/core/profiling/class_profiler.py: _MINIMAL_IRI_INIT,
      _init_class_features_dict, _annotate_min_iris, _update_shape_min_iri]
    - [shexer/core/shexing/strategy/minimal_iri_strategy/annotate_min_iri_strategy.py:
      _SEP_CHARS, annotate_shape_iri, _determine_suitable_iri_pattern]

    Strings are UTF-8 byte lists.  [longest_common_prefix] compares code
    points; the byte-wise prefix computed here can only be longer by a partial
    multi-byte sequence, which contains no ASCII separator and is cut away by
    [determine] (the candidate ends at the last separator), so the printed stem
    is the same.  [len(...)] tests use [pylen] (number of code points). *)
From Coq Require Import List Ascii String ZArith Bool.
From Shexer Require Import Lib.PyStr Lib.Dict Gen.Consts Model.Tracker.
Import ListNotations.
Local Open Scope Z_scope.

(** ** [longest_common_prefix(uri1, uri2)] *)

(** the [for i in range(shortest)] loop: [uri1[:i]] at the first index where
    the strings differ, [uri1[:shortest]] when the loop runs out *)
Fixpoint lcp_loop (u1 u2 : str) : str :=
  match u1, u2 with
  | a :: u1', b :: u2' => if Ascii.eqb a b then a :: lcp_loop u1' u2' else []
  | _, _ => []
  end.

Definition lcp (uri1 uri2 : str) : str :=
  if (len uri1 =? 0) || (len uri2 =? 0) then []
  else lcp_loop uri1 uri2.

(** ** [_update_shape_min_iri]: one step of the per-class fold.

    The slot of a class starts at the sentinel [_MINIMAL_IRI_INIT] (the shape
    name marker ["%"]); the test [curr_iri == _MINIMAL_IRI_INIT] is how the
    code recognises "first instance".  Fault kept: a running prefix that
    happens to *equal* the sentinel is taken for "no instance yet" and is
    overwritten by the next instance. *)
Definition update_min_iri (curr instance_iri : str) : str :=
  if str_eqb curr c_MINIMAL_IRI_INIT then instance_iri
  else lcp instance_iri curr.

(** the slot of one class after all its instances (in dictionary order) *)
Definition fold_min_iri (iris : list str) : str :=
  fold_left update_min_iri iris c_MINIMAL_IRI_INIT.

(** ** [_determine_suitable_iri_pattern] *)

Definition is_sep_char (c : ascii) : bool :=
  existsb (Ascii.eqb c) c_SEP_CHARS.

(** [_SEP_CHARS.search(s)]: offset of the first separator, [None] = no match *)
Fixpoint search_sep (s : str) : option nat :=
  match s with
  | [] => None
  | c :: s' => if is_sep_char c then Some O
               else match search_sep s' with Some k => Some (S k) | None => None end
  end.

(** [_BARE_SCHEME.fullmatch(s)] for [_BARE_SCHEME = "[^<excl>]+<colon>/?/?"]:
    a non-empty run of characters outside the class, the colon character,
    then at most [c_BARE_SCHEME_MAX_SLASHES] slashes and nothing else.  The
    colon is itself in the excluded class (checked by gen_consts.py), so the
    greedy run is the only possible match of the first part. *)
Definition in_excl (c : ascii) : bool := existsb (Ascii.eqb c) c_BARE_SCHEME_EXCL.

Fixpoint span_not_excl (s : str) : str * str :=
  match s with
  | [] => ([], [])
  | c :: s' => if in_excl c then ([], s) else let (a, b) := span_not_excl s' in (c :: a, b)
  end.

Definition opt_slashes (s : str) : bool :=
  forallb (fun a => Ascii.eqb a "/"%char) s && Nat.leb (List.length s) c_BARE_SCHEME_MAX_SLASHES.

Definition bare_scheme_match (s : str) : bool :=
  let (scheme, rest) := span_not_excl s in
  match scheme, rest with
  | _ :: _, c :: rest' => str_eqb [c] c_BARE_SCHEME_COLON && opt_slashes rest'
  | _, _ => false
  end.

(** the second test of [_determine_suitable_iri_pattern].  Two shapes of the
    source are recognised by gen_consts.py ([c_min_iri_rule_bare]): the current
    one, [_BARE_SCHEME.fullmatch(candidate)], and the former one,
    [candidate.startswith("http") and len(candidate) < 9]; the constants of the
    shape that is absent from the source are inert placeholders. *)
Definition scheme_test (candidate : str) : bool :=
  if c_min_iri_rule_bare then bare_scheme_match candidate
  else prefixb c_min_iri_http_prefix candidate && (pylen candidate <? c_min_iri_http_len).

(** the body of the function below its (optional) first test: the cut at the
    last separator and the two acceptance tests *)
Definition determine_cut (longest_common_prefix : str) : option str :=
  let backwards_str := rev longest_common_prefix in                    (* [::-1] *)
  match search_sep backwards_str with
  | None => None
  | Some k =>
    let candidate := rev (skipn k backwards_str) in                   (* backwards_str[start:][::-1] *)
    if pylen candidate <? c_min_iri_min_len then None
    else if scheme_test candidate then None
    else Some candidate
  end.

(** the first test, [if longest_common_prefix.startswith("_:"): return None]:
    every instance is a blank node, their labels are not IRIs (repair of finding
    C09-F3).  gen_consts.py recognises the function with and without it
    ([c_min_iri_skips_bnode_prefix]; the marker [c_min_iri_bnode_prefix] is the
    literal of the test, an inert placeholder when the test is absent).
    [str.startswith] on an ASCII marker is the byte-wise prefix test. *)
Definition bnode_prefix_test (longest_common_prefix : str) : bool :=
  c_min_iri_skips_bnode_prefix && prefixb c_min_iri_bnode_prefix longest_common_prefix.

Definition determine (longest_common_prefix : str) : option str :=
  if bnode_prefix_test longest_common_prefix then None
  else determine_cut longest_common_prefix.

(** the stem printed for a class whose instances are [iris] (in order) *)
Definition stem (iris : list str) : option str := determine (fold_min_iri iris).

(** keys of [_class_counts]: classes in order of first appearance in the
    instance dictionary ([init_annotated_targets]).  The per-class dictionary
    ([ShapeExampleFeaturesDict]) that carries the fold is in [Model/Examples.v]
    ([detect_features], [shape_stem]). *)
Definition class_keys (I : insts) : list str :=
  fold_left (fun acc ic => fold_left (fun acc c => if mem_str c acc then acc else acc ++ [c]) (snd ic) acc) I [].
