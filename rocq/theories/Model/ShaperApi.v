(** * Model of the API glue of [shexer/shaper.py] (property C18): call histories.

    STATE OF THIS FILE: the code AFTER the four repairs of notes/proposed_fixes/
    (C18-ctor-dict-copy, C18-shacl-dict-copy, C18-threshold-memo, C18-examples-once).

    The extraction pipeline itself (tracker, profiler, shexing, serialisers) is
    NOT modelled here: its stages are [Section] variables.  What is modelled is
    everything that could let one call influence another:

    - the caller's namespaces dictionary is an OBJECT the caller may hand to
      several constructors; [Shaper.__init__] now takes a PRIVATE COPY
      ([dict(namespaces_dict)]) and writes the shapes namespace into the copy
      ([_add_shapes_namespaces_to_namespaces_dict]); the rdflib readers write the
      parsed graph's prefixes into the copy during the first tracker / profiler
      pass; [ShaclSerializer.__init__] copies again before
      [_add_shacl_namespace] writes the SHACL namespace.  The caller's objects are
      never written: they are kept in [cdicts] only to give [DShared] a meaning;
    - the memo slots of a Shaper: [_target_classes_dict], [_profile] (together
      with [_class_counts], [_class_min_iris]), [_shape_list] together with
      [_shape_list_threshold]: the shapes are recomputed (by a new ClassShexer)
      whenever the threshold of the call differs from the memoised one;
    - [ShexSerializer._add_statement_examples] appends the example comment to the
      statement OBJECTS of the memoised shapes unless it is already there
      ([if comment not in a_statement.comments]); the comment text depends on the
      Shaper's dictionary, which no longer changes once the shapes exist, so the
      annotation happens once per computed shape list: the flag [annotated];
    - the ShExC sink: [_write_line] buffers lines and flushes every
      [c_flush_size] lines into a string or a file; [_flush] writes the rest.

    Modelled, not verified (external code): the SHACL sink is rdflib's
    [Graph.serialize] (to a string or to [destination]); the profile sink is
    [json.dumps]/[json.dump].  Both are taken to produce the same text on both
    channels; the harness monitors this (SHACL: up to graph isomorphism). *)

From Coq Require Import List Ascii String ZArith Bool Arith.
From Shexer Require Import Lib.PyStr Lib.Dict Gen.Consts Model.Config Model.Determinism.
Import ListNotations.

(** ** The ShExC sink (shex_serializer.py: _reset_target_file, _write_line,
       _write_lines_buffer, _flush) *)

Inductive sink_kind := SString | SFile.

Record ser_state := mkSer {
  buf : list str;      (* self._lines_buffer *)
  sres : str;          (* self._string_result *)
  file : str           (* content of self._target_file *)
}.

(** [_write_lines_buffer]: string: [self._string_result += "".join(buffer)];
    file: opened in append mode, [for a_line in buffer: write(a_line)].  The
    buffer itself is left untouched here. *)
Definition write_lines_buffer (k : sink_kind) (s : ser_state) : ser_state :=
  match k with
  | SString => mkSer (buf s) (sres s ++ List.concat (buf s)) (file s)
  | SFile => mkSer (buf s) (sres s) (fold_left (fun f l => f ++ l) (buf s) (file s))
  end.

(** [_write_line] (the line already carries indentation and "\n"):
    append; [if len(buffer) >= flush_size: write buffer; buffer = []] *)
Definition write_line (fs : Z) (k : sink_kind) (s : ser_state) (line : str) : ser_state :=
  let s1 := mkSer (buf s ++ [line]) (sres s) (file s) in
  if (fs <=? Z.of_nat (List.length (buf s1)))%Z
  then let s2 := write_lines_buffer k s1 in mkSer [] (sres s2) (file s2)
  else s1.

(** [_reset_target_file]: nothing for a string; the file is truncated *)
Definition reset_target_file (k : sink_kind) (old_file : str) : str :=
  match k with SString => old_file | SFile => [] end.

(** [serialize_shapes]: reset, write every line, [_flush] *)
Definition serialize (fs : Z) (k : sink_kind) (old_file : str) (lines : list str) : ser_state :=
  write_lines_buffer k (fold_left (write_line fs k) lines (mkSer [] [] (reset_target_file k old_file))).

Definition string_result (fs : Z) (lines : list str) : str := sres (serialize fs SString [] lines).
Definition file_content (fs : Z) (old_file : str) (lines : list str) : str := file (serialize fs SFile old_file lines).

(** ** ShaclSerializer._add_shacl_namespace_if_needed (writes into the shared dict) *)

(** [counter = 1; while "sh"+str(counter) in prefixes: counter += 1].  The
    dictionary is finite, so among the candidates 1..|d|+1 one is free
    (pigeonhole); [fuel = |values|] checks 1..|d| and otherwise returns
    candidate |d|+1, which is then necessarily free: the function below is
    total and equal to the Python loop. *)
Fixpoint shacl_counter (fuel n : nat) (vals : list str) : str :=
  let cand := hd [] c18_SHACL_PRIORITY_PREFIXES ++ dec_of_N (N.of_nat n) in
  match fuel with
  | O => cand
  | S f => if mem_str cand vals then shacl_counter f (S n) vals else cand
  end.

Definition shacl_prefix (d : nsd) : str :=
  match first_free c18_SHACL_PRIORITY_PREFIXES (values d) with
  | Some p => p
  | None => shacl_counter (List.length d) 1 (values d)
  end.

Definition add_shacl (d : nsd) : nsd :=
  if dmem d c18_SHACL_NAMESPACE then d else dset d c18_SHACL_NAMESPACE (shacl_prefix d).

(** ** The state machine *)

Inductive fmt := ShExC | SHACL.

Fixpoint set_nth {A} (n : nat) (x : A) (l : list A) : list A :=
  match l, n with
  | [], _ => []
  | _ :: l', O => x :: l'
  | y :: l', S n' => y :: set_nth n' x l'
  end.

Inductive outcome :=
| ONew                  (* constructor returned *)
| OText (s : str)       (* string_output=True: the returned text *)
| OFile (s : str)       (* output_file=...: returns None; the content of the written file *)
| OErr                  (* no such Shaper / dictionary (caller error) / unreachable slot state *)
| OHang.                (* the random-prefix loop of the constructor did not terminate *)

(** how the caller supplies namespaces_dict *)
Inductive dict_arg :=
| DNone                 (* namespaces_dict=None -> a new {} *)
| DNew (d : nsd)        (* a dictionary object no Shaper has seen *)
| DShared (i : nat).    (* the very object (the i-th the caller created) handed to an earlier Shaper *)

Section Api.
  (** the pipeline, abstract *)
  Variables args tcd prof shapes thr : Type.
  Variable a_shapes_ns : args -> str.              (* shapes_namespace *)
  Variable a_examples : args -> option str.        (* examples_mode *)
  Variable st_track : args -> nsd -> tcd.          (* instance tracker: reads the dict *)
  Variable st_reader_ns : args -> nsd -> nsd.      (* what a reader pass leaves in the dict (rdflib readers add prefixes) *)
  Variable st_profile : args -> nsd -> tcd -> prof.
  Variable st_shex : args -> nsd -> prof -> thr -> shapes.   (* ClassShexer.shex_classes(threshold) *)
  Variable st_add_examples : args -> nsd -> shapes -> shapes. (* in-place annotation of the statements *)
  Variable st_shexc_lines : args -> nsd -> shapes -> list str.
  Variable st_shacl_text : args -> nsd -> shapes -> str.
  Variable st_profile_text : prof -> str.
  (** nondeterminism of [find_adequate_prefix_for_shapes_namespaces] *)
  Variable rand : nat -> str.
  Variable fuel : nat.
  Variable thr_eqb : thr -> thr -> bool.           (* [self._shape_list_threshold != acceptance_threshold] *)

  Record memo := mkMemo { m_thr : thr; m_shapes : shapes; m_annotated : bool }.

  Record shaper := mkShaper {
    sh_args : args;
    sh_dict : nsd;                  (* self._namespaces_dict: the private copy *)
    sh_tcd : option tcd;            (* self._target_classes_dict *)
    sh_prof : option prof;          (* self._profile, _class_counts, _class_min_iris *)
    sh_shapes : option memo         (* self._shape_list, self._shape_list_threshold *)
  }.

  Record state := mkState { cdicts : list nsd; shapers : list shaper; dead : bool }.
  Definition init : state := mkState [] [] false.

  Inductive op :=
  | New (a : args) (d : dict_arg)
  | Shex (i : nat) (f : fmt) (k : sink_kind) (t : thr)     (* shex_graph on Shaper i *)
  | Profile (i : nat) (k : sink_kind).                     (* profile_graph on Shaper i *)

  Definition mutating (a : args) : bool := mem_opt_str (a_examples a) c18_examples_modes_mutating.

  (** [_add_shapes_namespaces_to_namespaces_dict] (on the private copy) *)
  Definition ctor_dict (a : args) (d : nsd) : option nsd :=
    match find_prefix rand fuel d with
    | Some p => Some (dset d (a_shapes_ns a) p)
    | None => None
    end.

  Definition do_new (st : state) (a : args) (da : dict_arg) : state * outcome :=
    let '(cds, od) := match da with
                      | DNone => (cdicts st ++ [[]], Some [])
                      | DNew d => (cdicts st ++ [d], Some d)
                      | DShared i => (cdicts st, nth_error (cdicts st) i)
                      end in
    match od with
    | None => (st, OErr)
    | Some d =>
      match ctor_dict a d with
      | None => (mkState (cdicts st) (shapers st) true, OHang)
      | Some d' => (mkState cds (shapers st ++ [mkShaper a d' None None None]) false, ONew)
      end
    end.

  (** [if self._target_classes_dict is None: self._launch_instance_tracker()] *)
  Definition ensure_tcd (s : shaper) : shaper :=
    match sh_tcd s with
    | Some _ => s
    | None => mkShaper (sh_args s) (st_reader_ns (sh_args s) (sh_dict s))
                       (Some (st_track (sh_args s) (sh_dict s))) (sh_prof s) (sh_shapes s)
    end.

  (** [if self._profile is None: self._launch_class_profiler()] *)
  Definition ensure_prof (s : shaper) : shaper :=
    match sh_prof s, sh_tcd s with
    | Some _, _ => s
    | None, Some t => mkShaper (sh_args s) (st_reader_ns (sh_args s) (sh_dict s)) (sh_tcd s)
                               (Some (st_profile (sh_args s) (sh_dict s) t)) (sh_shapes s)
    | None, None => s
    end.

  (** [if self._shape_list is None or self._shape_list_threshold != acceptance_threshold:
          self._launch_class_shexer(acceptance_threshold)]   (a new ClassShexer every time) *)
  Definition ensure_shapes (s : shaper) (t : thr) : shaper :=
    let fresh :=
        match sh_prof s with
        | Some p => mkShaper (sh_args s) (sh_dict s) (sh_tcd s) (sh_prof s)
                             (Some (mkMemo t (st_shex (sh_args s) (sh_dict s) p t) false))
        | None => s
        end in
    match sh_shapes s with
    | Some m => if thr_eqb (m_thr m) t then s else fresh
    | None => fresh
    end.

  Definition emit_lines (k : sink_kind) (lines : list str) : outcome :=
    match k with
    | SString => OText (string_result c_flush_size lines)
    | SFile => OFile (file_content c_flush_size [] lines)
    end.

  Definition emit_text (k : sink_kind) (t : str) : outcome :=
    match k with SString => OText t | SFile => OFile t end.

  Definition shex_on (s : shaper) (f : fmt) (k : sink_kind) (t : thr) : shaper * outcome :=
    let s3 := ensure_shapes (ensure_prof (ensure_tcd s)) t in
    match sh_shapes s3 with
    | None => (s3, OErr)
    | Some m =>
      match f with
      | ShExC =>
        (** [_add_statement_examples]: annotate unless the comment is already there *)
        let m' := if mutating (sh_args s) && negb (m_annotated m)
                  then mkMemo (m_thr m) (st_add_examples (sh_args s) (sh_dict s3) (m_shapes m)) true
                  else m in
        (mkShaper (sh_args s3) (sh_dict s3) (sh_tcd s3) (sh_prof s3) (Some m'),
         emit_lines k (st_shexc_lines (sh_args s) (sh_dict s3) (m_shapes m')))
      | SHACL =>
        (** the serialiser's own copy of the dictionary receives the SHACL namespace *)
        (s3, emit_text k (st_shacl_text (sh_args s) (add_shacl (sh_dict s3)) (m_shapes m)))
      end
    end.

  Definition profile_on (s : shaper) (k : sink_kind) : shaper * outcome :=
    let s2 := ensure_prof (ensure_tcd s) in
    match sh_prof s2 with
    | None => (s2, OErr)
    | Some p => (s2, emit_text k (st_profile_text p))
    end.

  Definition on_shaper (st : state) (i : nat) (g : shaper -> shaper * outcome) : state * outcome :=
    match nth_error (shapers st) i with
    | None => (st, OErr)
    | Some s => let '(s', o) := g s in (mkState (cdicts st) (set_nth i s' (shapers st)) false, o)
    end.

  Definition step (st : state) (o : op) : state * outcome :=
    if dead st then (st, OHang)
    else match o with
         | New a da => do_new st a da
         | Shex i f k t => on_shaper st i (fun s => shex_on s f k t)
         | Profile i k => on_shaper st i (fun s => profile_on s k)
         end.

  Fixpoint run_from (st : state) (h : list op) : list outcome * state :=
    match h with
    | [] => ([], st)
    | o :: h' => let '(st', out) := step st o in
                 let '(outs, stf) := run_from st' h' in (out :: outs, stf)
    end.

  Definition run (h : list op) : list outcome := fst (run_from init h).
  (** the caller's dictionary objects after the history (never written) *)
  Definition final_store (h : list op) : list nsd := cdicts (snd (run_from init h)).

  (** ** Well-formed histories (the property's whole domain, hypothesis of [C18_pure]):
      every call names an existing Shaper, every [DShared] an existing
      dictionary, and no constructor needs the random prefix (the property
      excludes "all four default prefixes taken"; with them taken the result is
      the oracle's, and the loop may not terminate). *)
  Fixpoint wf_from (ds : list nsd) (n : nat) (h : list op) : bool :=
    match h with
    | [] => true
    | New a da :: h' =>
      match da with
      | DNone => prio_free [] && wf_from (ds ++ [[]]) (S n) h'
      | DNew d => prio_free d && wf_from (ds ++ [d]) (S n) h'
      | DShared i => match nth_error ds i with
                     | Some d => prio_free d && wf_from ds (S n) h'
                     | None => false
                     end
      end
    | Shex i _ _ _ :: h' => Nat.ltb i n && wf_from ds n h'
    | Profile i _ :: h' => Nat.ltb i n && wf_from ds n h'
    end.

  Definition C18_dom (h : list op) : bool := wf_from [] 0 h.
End Api.

Arguments mkShaper {args tcd prof shapes thr}.
Arguments mkState {args tcd prof shapes thr}.
Arguments mkMemo {shapes thr}.
Arguments New {args thr}.
Arguments Shex {args thr}.
Arguments Profile {args thr}.
Arguments sh_args {args tcd prof shapes thr}.
Arguments sh_dict {args tcd prof shapes thr}.
Arguments sh_tcd {args tcd prof shapes thr}.
Arguments sh_prof {args tcd prof shapes thr}.
Arguments sh_shapes {args tcd prof shapes thr}.
Arguments cdicts {args tcd prof shapes thr}.
Arguments shapers {args tcd prof shapes thr}.
Arguments dead {args tcd prof shapes thr}.
Arguments m_thr {shapes thr}.
Arguments m_shapes {shapes thr}.
Arguments m_annotated {shapes thr}.
