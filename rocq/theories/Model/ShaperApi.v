(** * Model of the API glue of [shexer/shaper.py] (property C18): call histories.

    The extraction pipeline itself (tracker, profiler, shexing, serialisers) is
    NOT modelled here: its stages are [Section] variables.  What is modelled,
    AS IT IS in /repo, is everything that lets one call influence another:

    - the caller's namespaces dictionary is an OBJECT: [Shaper.__init__] keeps a
      reference ([self._namespaces_dict = namespaces_dict]) and writes the shapes
      namespace into it ([_add_shapes_namespaces_to_namespaces_dict]); the rdflib
      readers write the parsed graph's prefixes into it during the first
      tracker / profiler pass ([_integrate_namespaces_from_parsed_graph]);
      [ShaclSerializer._add_shacl_namespace] writes the SHACL namespace into it.
      A store of dictionary objects models this; two Shapers may hold the same
      index (the caller reuses the dict);
    - the memo slots of a Shaper: [_target_classes_dict], [_profile] (together
      with [_class_counts], [_class_min_iris]), [_shape_list].  ([_instance_tracker],
      [_class_profiler], [_class_shexer] are built immediately before their only
      use and hold the same references: no observable state of their own.)
      [shex_graph] fills each slot only when it is [None]: the threshold of the
      first call is baked into [_shape_list];
    - [ShexSerializer._add_statement_examples] appends a comment to the statement
      OBJECTS of the memoised shapes on every ShExC serialisation when
      examples_mode is in [c18_examples_modes_mutating];
    - the ShExC sink: [_write_line] buffers lines and flushes every
      [c_flush_size] lines into a string or a file; [_flush] writes the rest.

    Modelled, not verified (external code): the SHACL sink is rdflib's
    [Graph.serialize] (to a string or to [destination]); the profile sink is
    [json.dumps]/[json.dump].  Both are taken to produce the same text on both
    channels; the harness monitors this (SHACL: up to graph isomorphism). *)

From Coq Require Import List Ascii String ZArith Bool Arith.
From Shexer Require Import Lib.PyStr Lib.Dict Gen.Consts Model.Config Model.Determinism.
Import ListNotations.

(** ** The ShExC sink (shex_serializer.py: _reset_target_file, _write_line,
       _write_lines_buffer, _flush) *)

Inductive sink_kind := SString | SFile.

Record ser_state := mkSer {
  buf : list str;      (* self._lines_buffer *)
  sres : str;          (* self._string_result *)
  file : str           (* content of self._target_file *)
}.

(** [_write_lines_buffer]: string: [self._string_result += "".join(buffer)];
    file: opened in append mode, [for a_line in buffer: write(a_line)].  The
    buffer itself is left untouched here. *)
Definition write_lines_buffer (k : sink_kind) (s : ser_state) : ser_state :=
  match k with
  | SString => mkSer (buf s) (sres s ++ List.concat (buf s)) (file s)
  | SFile => mkSer (buf s) (sres s) (fold_left (fun f l => f ++ l) (buf s) (file s))
  end.

(** [_write_line] (the line already carries indentation and "\n"):
    append; [if len(buffer) >= flush_size: write buffer; buffer = []] *)
Definition write_line (fs : Z) (k : sink_kind) (s : ser_state) (line : str) : ser_state :=
  let s1 := mkSer (buf s ++ [line]) (sres s) (file s) in
  if (fs <=? Z.of_nat (List.length (buf s1)))%Z
  then let s2 := write_lines_buffer k s1 in mkSer [] (sres s2) (file s2)
  else s1.

(** [_reset_target_file]: nothing for a string; the file is truncated *)
Definition reset_target_file (k : sink_kind) (old_file : str) : str :=
  match k with SString => old_file | SFile => [] end.

(** [serialize_shapes]: reset, write every line, [_flush] *)
Definition serialize (fs : Z) (k : sink_kind) (old_file : str) (lines : list str) : ser_state :=
  write_lines_buffer k (fold_left (write_line fs k) lines (mkSer [] [] (reset_target_file k old_file))).

Definition string_result (fs : Z) (lines : list str) : str := sres (serialize fs SString [] lines).
Definition file_content (fs : Z) (old_file : str) (lines : list str) : str := file (serialize fs SFile old_file lines).

(** ** ShaclSerializer._add_shacl_namespace_if_needed (writes into the shared dict) *)

(** [counter = 1; while "sh"+str(counter) in prefixes: counter += 1].  The
    dictionary is finite, so among the candidates 1..|d|+1 one is free
    (pigeonhole); [fuel = |values|] checks 1..|d| and otherwise returns
    candidate |d|+1, which is then necessarily free: the function below is
    total and equal to the Python loop. *)
Fixpoint shacl_counter (fuel n : nat) (vals : list str) : str :=
  let cand := hd [] c18_SHACL_PRIORITY_PREFIXES ++ dec_of_N (N.of_nat n) in
  match fuel with
  | O => cand
  | S f => if mem_str cand vals then shacl_counter f (S n) vals else cand
  end.

Definition shacl_prefix (d : nsd) : str :=
  match first_free c18_SHACL_PRIORITY_PREFIXES (values d) with
  | Some p => p
  | None => shacl_counter (List.length d) 1 (values d)
  end.

Definition add_shacl (d : nsd) : nsd :=
  if dmem d c18_SHACL_NAMESPACE then d else dset d c18_SHACL_NAMESPACE (shacl_prefix d).

(** ** The state machine *)

Inductive fmt := ShExC | SHACL.

Fixpoint set_nth {A} (n : nat) (x : A) (l : list A) : list A :=
  match l, n with
  | [], _ => []
  | _ :: l', O => x :: l'
  | y :: l', S n' => y :: set_nth n' x l'
  end.

Inductive outcome :=
| ONew                  (* constructor returned *)
| OText (s : str)       (* string_output=True: the returned text *)
| OFile (s : str)       (* output_file=...: returns None; the content of the written file *)
| OErr                  (* no such Shaper (caller error) / unreachable slot state *)
| OHang.                (* the random-prefix loop of the constructor did not terminate *)

Section Api.
  (** the pipeline, abstract *)
  Variables args tcd prof shapes thr : Type.
  Variable a_shapes_ns : args -> str.              (* shapes_namespace *)
  Variable a_examples : args -> option str.        (* examples_mode *)
  Variable st_track : args -> nsd -> tcd.          (* instance tracker: reads the dict *)
  Variable st_reader_ns : args -> nsd -> nsd.      (* what a reader pass leaves in the dict (rdflib readers add prefixes) *)
  Variable st_profile : args -> nsd -> tcd -> prof.
  Variable st_shex : args -> nsd -> prof -> thr -> shapes.   (* ClassShexer.shex_classes(threshold) *)
  Variable st_add_examples : args -> nsd -> shapes -> shapes. (* in-place mutation of the statements *)
  Variable st_shexc_lines : args -> nsd -> shapes -> list str.
  Variable st_shacl_text : args -> nsd -> shapes -> str.
  Variable st_profile_text : prof -> str.
  (** nondeterminism of [find_adequate_prefix_for_shapes_namespaces] *)
  Variable rand : nat -> str.
  Variable fuel : nat.

  Record shaper := mkShaper {
    sh_args : args;
    sh_ns : nat;                    (* which dictionary object self._namespaces_dict is *)
    sh_tcd : option tcd;            (* self._target_classes_dict *)
    sh_prof : option prof;          (* self._profile, _class_counts, _class_min_iris *)
    sh_shapes : option shapes       (* self._shape_list *)
  }.

  Record state := mkState { store : list nsd; shapers : list shaper; dead : bool }.
  Definition init : state := mkState [] [] false.

  (** how the caller supplies namespaces_dict *)
  Inductive dict_arg :=
  | DNone                 (* namespaces_dict=None -> a new {} *)
  | DNew (d : nsd)        (* a dictionary object no Shaper has seen *)
  | DShared (i : nat).    (* the very object store[i] handed to an earlier Shaper *)

  Inductive op :=
  | New (a : args) (d : dict_arg)
  | Shex (i : nat) (f : fmt) (k : sink_kind) (t : thr)     (* shex_graph on Shaper i *)
  | Profile (i : nat) (k : sink_kind).                     (* profile_graph on Shaper i *)

  Definition mutating (a : args) : bool := mem_opt_str (a_examples a) c18_examples_modes_mutating.

  (** [_add_shapes_namespaces_to_namespaces_dict] *)
  Definition ctor_dict (a : args) (d : nsd) : option nsd :=
    match find_prefix rand fuel d with
    | Some p => Some (dset d (a_shapes_ns a) p)
    | None => None
    end.

  Definition do_new (st : state) (a : args) (da : dict_arg) : state * outcome :=
    let '(sto, idx) := match da with
                       | DNone => (store st ++ [[]], List.length (store st))
                       | DNew d => (store st ++ [d], List.length (store st))
                       | DShared i => (store st, i)
                       end in
    match nth_error sto idx with
    | None => (st, OErr)
    | Some d =>
      match ctor_dict a d with
      | None => (mkState (store st) (shapers st) true, OHang)
      | Some d' => (mkState (set_nth idx d' sto) (shapers st ++ [mkShaper a idx None None None]) false, ONew)
      end
    end.

  (** [if self._target_classes_dict is None: self._launch_instance_tracker()] *)
  Definition ensure_tcd (s : shaper) (d : nsd) : shaper * nsd :=
    match sh_tcd s with
    | Some _ => (s, d)
    | None => (mkShaper (sh_args s) (sh_ns s) (Some (st_track (sh_args s) d)) (sh_prof s) (sh_shapes s),
               st_reader_ns (sh_args s) d)
    end.

  (** [if self._profile is None: self._launch_class_profiler()] *)
  Definition ensure_prof (s : shaper) (d : nsd) : shaper * nsd :=
    match sh_prof s, sh_tcd s with
    | Some _, _ => (s, d)
    | None, Some t => (mkShaper (sh_args s) (sh_ns s) (sh_tcd s) (Some (st_profile (sh_args s) d t)) (sh_shapes s),
                       st_reader_ns (sh_args s) d)
    | None, None => (s, d)
    end.

  (** [if self._shape_list is None: self._launch_class_shexer(acceptance_threshold)] *)
  Definition ensure_shapes (s : shaper) (d : nsd) (t : thr) : shaper :=
    match sh_shapes s, sh_prof s with
    | Some _, _ => s
    | None, Some p => mkShaper (sh_args s) (sh_ns s) (sh_tcd s) (sh_prof s) (Some (st_shex (sh_args s) d p t))
    | None, None => s
    end.

  Definition emit_lines (k : sink_kind) (lines : list str) : outcome :=
    match k with
    | SString => OText (string_result c_flush_size lines)
    | SFile => OFile (file_content c_flush_size [] lines)
    end.

  Definition emit_text (k : sink_kind) (t : str) : outcome :=
    match k with SString => OText t | SFile => OFile t end.

  Definition shex_on (s : shaper) (d : nsd) (f : fmt) (k : sink_kind) (t : thr) : shaper * nsd * outcome :=
    let '(s1, d1) := ensure_tcd s d in
    let '(s2, d2) := ensure_prof s1 d1 in
    let s3 := ensure_shapes s2 d2 t in
    match sh_shapes s3 with
    | None => (s3, d2, OErr)
    | Some shp =>
      match f with
      | ShExC =>
        let shp' := if mutating (sh_args s) then st_add_examples (sh_args s) d2 shp else shp in
        (mkShaper (sh_args s3) (sh_ns s3) (sh_tcd s3) (sh_prof s3) (Some shp'), d2,
         emit_lines k (st_shexc_lines (sh_args s) d2 shp'))
      | SHACL =>
        let d3 := add_shacl d2 in
        (s3, d3, emit_text k (st_shacl_text (sh_args s) d3 shp))
      end
    end.

  Definition profile_on (s : shaper) (d : nsd) (k : sink_kind) : shaper * nsd * outcome :=
    let '(s1, d1) := ensure_tcd s d in
    let '(s2, d2) := ensure_prof s1 d1 in
    match sh_prof s2 with
    | None => (s2, d2, OErr)
    | Some p => (s2, d2, emit_text k (st_profile_text p))
    end.

  Definition on_shaper (st : state) (i : nat) (g : shaper -> nsd -> shaper * nsd * outcome) : state * outcome :=
    match nth_error (shapers st) i with
    | None => (st, OErr)
    | Some s =>
      match nth_error (store st) (sh_ns s) with
      | None => (st, OErr)
      | Some d =>
        let '(s', d', o) := g s d in
        (mkState (set_nth (sh_ns s) d' (store st)) (set_nth i s' (shapers st)) false, o)
      end
    end.

  Definition step (st : state) (o : op) : state * outcome :=
    if dead st then (st, OHang)
    else match o with
         | New a da => do_new st a da
         | Shex i f k t => on_shaper st i (fun s d => shex_on s d f k t)
         | Profile i k => on_shaper st i (fun s d => profile_on s d k)
         end.

  Fixpoint run_from (st : state) (h : list op) : list outcome * state :=
    match h with
    | [] => ([], st)
    | o :: h' => let '(st', out) := step st o in
                 let '(outs, stf) := run_from st' h' in (out :: outs, stf)
    end.

  Definition run (h : list op) : list outcome := fst (run_from init h).
  Definition final_store (h : list op) : list nsd := store (snd (run_from init h)).

  (** ** The domain of histories on which the code as it is answers every call
      with [pure] of that call's own arguments (hypothesis of
      [C18_history_partial]).  Derived from the state machine above:
      - (D0) every call names an existing Shaper;
      - (D1) no dictionary object is handed to two constructors ([DShared]), and
             the constructor does not need the random prefix ([prio_free]);
      - (D2) every [shex_graph] call on one Shaper has the threshold of the
             first one ([_shape_list] is computed once);
      - (D3) no ShExC call after a SHACL call on the same Shaper (the SHACL
             serialiser leaves its namespace in the dictionary);
      - (D4) with a mutating examples_mode, at most one ShExC call per Shaper
             (the example comments are appended to the memoised statements). *)
  Variable thr_eqb : thr -> thr -> bool.

  Record track := mkTrack {
    tr_thr : option thr;     (* threshold of the first shex_graph call *)
    tr_shacl : bool;         (* a SHACL call has been made *)
    tr_shexc : nat;          (* number of ShExC calls made *)
    tr_mut : bool            (* examples_mode mutates the statements *)
  }.

  Definition dict_arg_ok (da : dict_arg) : bool :=
    match da with
    | DNone => prio_free []
    | DNew d => prio_free d
    | DShared _ => false
    end.

  Definition call_ok (tr : track) (f : fmt) (t : thr) : bool :=
    match tr_thr tr with None => true | Some t0 => thr_eqb t0 t end &&
    match f with
    | ShExC => negb (tr_shacl tr) && (negb (tr_mut tr) || Nat.eqb (tr_shexc tr) 0)
    | SHACL => true
    end.

  Definition track_call (tr : track) (f : fmt) (t : thr) : track :=
    mkTrack (match tr_thr tr with None => Some t | Some t0 => Some t0 end)
            (match f with SHACL => true | ShExC => tr_shacl tr end)
            (match f with ShExC => S (tr_shexc tr) | SHACL => tr_shexc tr end)
            (tr_mut tr).

  Fixpoint dom_from (trs : list track) (h : list op) : bool :=
    match h with
    | [] => true
    | New a da :: h' => dict_arg_ok da && dom_from (trs ++ [mkTrack None false 0 (mutating a)]) h'
    | Shex i f k t :: h' =>
      match nth_error trs i with
      | None => false
      | Some tr => call_ok tr f t && dom_from (set_nth i (track_call tr f t) trs) h'
      end
    | Profile i k :: h' =>
      match nth_error trs i with
      | None => false
      | Some _ => dom_from trs h'
      end
    end.

  Definition C18_dom (h : list op) : bool := dom_from [] h.
End Api.

Arguments mkShaper {args tcd prof shapes}.
Arguments mkState {args tcd prof shapes}.
Arguments New {args thr}.
Arguments Shex {args thr}.
Arguments Profile {args thr}.
Arguments sh_args {args tcd prof shapes}.
Arguments sh_ns {args tcd prof shapes}.
Arguments sh_tcd {args tcd prof shapes}.
Arguments sh_prof {args tcd prof shapes}.
Arguments sh_shapes {args tcd prof shapes}.
Arguments store {args tcd prof shapes}.
Arguments shapers {args tcd prof shapes}.
Arguments dead {args tcd prof shapes}.
Arguments mkTrack {thr}.
Arguments tr_thr {thr}.
Arguments tr_shacl {thr}.
Arguments tr_shexc {thr}.
Arguments tr_mut {thr}.
