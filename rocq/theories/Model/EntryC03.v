(** Entry point of the C03 oracle: the EXTRACTED [Spec/ShexSem.v] validator
    applied to a schema parsed from the implementation's ShExC text.

    input rows:
      ["S"; label]                                         a shape (in order)
      ["C"; label; inv; pred; vk; varg; ck; k]             a triple constraint of shape [label]
           vk: "D" datatype varg | "I" IRI | "B" BNode | "N" NONLITERAL | "R" @varg | "V" [varg]
           ck: "E" exact k | "P" + | "S" * | "O" ?
      ["T"; sk; sid; p; ok; oid-or-content; dt]            a triple (as in EntryPipe)
      ["Y"; nk; nid; label]                                a pair of the typing
    output: ["valid"; b] then one row per "Y" row:
      [nk; nid; label; verdict under the given typing; first reason; member of the refined typing] *)
From Coq Require Import List Ascii String ZArith NArith Bool.
From Shexer Require Import Lib.PyStr Spec.Rdf Spec.ShexSem Model.Table Model.EntryPipe.
From Shexer Require Import Lib.Dict Gen.Consts Model.Freq Model.FreqInst Model.Shexing Model.Run Model.RunCur Model.SchemaOf Model.C03Dom.
Import ListNotations.

Definition ve_of_row (r : list str) : vexpr :=
  let k := fld r 4 in
  if str_eqb k (Str "D") then VDatatype (fld r 5)
  else if str_eqb k (Str "I") then VIri
  else if str_eqb k (Str "B") then VBnode
  else if str_eqb k (Str "N") then VNonLit
  else if str_eqb k (Str "R") then VRef (fld r 5)
  else VClass (fld r 5).

Definition card_of_row (r : list str) : scard :=
  let k := fld r 6 in
  if str_eqb k (Str "E") then KExact (Z.to_nat (fZ r 7))
  else if str_eqb k (Str "P") then KPlus
  else if str_eqb k (Str "S") then KStar
  else KOpt.

Definition tc_of_row (r : list str) : tc :=
  TC (fbool r 2) (fld r 3) (ve_of_row r) (card_of_row r).

Definition schema_of_table (t : table) : schema :=
  map (fun s => (fld s 1,
                 map tc_of_row (filter (fun r => tag_is r "C" && str_eqb (fld r 1) (fld s 1)) t)))
      (filter (fun r => tag_is r "S") t).

Definition typing_of_table (t : table) : typing :=
  map (fun r => (node_of (fld r 1) (fld r 2), fld r 3)) (filter (fun r => tag_is r "Y") t).

Definition nat_str (n : nat) : str := dec_of_N (N.of_nat n).

Definition ve_str (v : vexpr) : str :=
  match v with
  | VDatatype d => Str "D:" ++ d
  | VIri => Str "IRI"
  | VBnode => Str "BNode"
  | VNonLit => Str "NONLITERAL"
  | VRef l => Str "@" ++ l
  | VClass c => Str "[" ++ c ++ Str "]"
  end.

Definition card_str (c : scard) : str :=
  match c with
  | KExact k => Str "{" ++ nat_str k ++ Str "}"
  | KPlus => Str "+" | KStar => Str "*" | KOpt => Str "?"
  end.

Definition obj_str (x : obj) : str :=
  match x with
  | ON n => (match nk n with KIri => Str "I:" | KBnode => Str "B:" end) ++ nid n
  | OL c d => Str "L:" ++ c ++ Str "^^" ++ d
  end.

Definition reason_str (o : option reason) : str :=
  match o with
  | None => []
  | Some RNoShape => Str "noshape"
  | Some (RCard c n) =>
    Str "card|" ++ bstr (tc_inv c) ++ Str "|" ++ tc_pred c ++ Str "|" ++ ve_str (tc_ve c) ++ Str "|" ++
    card_str (tc_card c) ++ Str "|" ++ nat_str n
  | Some (RUnmatched c x) =>
    Str "unmatched|" ++ bstr (tc_inv c) ++ Str "|" ++ tc_pred c ++ Str "|" ++ obj_str x
  end.

Definition c03_validate (t : table) : table :=
  let Sc := schema_of_table t in
  let G := graph_of t in
  let tau := typing_of_table t in
  let tau' := refine (List.length tau) Sc G tau in
  [Str "valid"; bstr (valid_typingb Sc G tau)] ::
  map (fun nl : node * label =>
         [ (match nk (fst nl) with KIri => Str "I" | KBnode => Str "B" end); nid (fst nl); snd nl;
           bstr (pair_ok Sc G tau nl); reason_str (explain Sc G tau nl);
           bstr (in_typing tau' (fst nl) (snd nl)) ]) tau.


(** ** the model's own output seen through [schema_of] (ties the [schema_of]
    used by the theorems of Props/C03.v to the ShExC text the correspondence
    compares): input = a pipe table, output = the "S"/"C" rows of the schema
    of [RunCur.run_shapes_cur] (= [Run.run_shapes] with the shexing stage in the
    order the code has), or ["err"] *)

Definition ve_row (v : vexpr) : list str :=
  match v with
  | VDatatype d => [Str "D"; d]
  | VIri => [Str "I"; []]
  | VBnode => [Str "B"; []]
  | VNonLit => [Str "N"; []]
  | VRef l => [Str "R"; l]
  | VClass c => [Str "V"; c]
  end.

Definition card_row (c : scard) : list str :=
  match c with
  | KExact k => [Str "E"; nat_str k]
  | KPlus => [Str "P"; Str "0"] | KStar => [Str "S"; Str "0"] | KOpt => [Str "O"; Str "0"]
  end.

Definition schema_rows (Sc : schema) : table :=
  flat_map (fun ls : label * shape_expr =>
              [Str "S"; fst ls] ::
              map (fun c => [Str "C"; fst ls; bstr (tc_inv c); tc_pred c] ++ ve_row (tc_ve c) ++ card_row (tc_card c))
                  (snd ls)) Sc.

Definition c03_model_schema (t : table) : table :=
  match run_shapes_cur BAlg (rcfg_of t) (thr_of t) (graph_of t) with
  | inl (_, shapes) =>
    if has_choice shapes then [[Str "err"; Str "choice"]]
    else [Str "ok"] :: schema_rows (schema_of (r_tau (rcfg_of t)) shapes)
  | inr e => [[Str "err"; rerr_str e]]
  end.

(** the model's schema judged by the spec validator on the instance typing of the graph *)
Definition c03_model_valid (t : table) : table :=
  match run_shapes_cur BAlg (rcfg_of t) (thr_of t) (graph_of t) with
  | inl (_, shapes) =>
    let c := rcfg_of t in
    [[Str "ok"; bstr (valid_typingb (schema_of (r_tau c) shapes) (graph_of t)
                                    (instance_typing (r_tau c) (r_shapes_ns c) (graph_of t)))]]
  | inr e => [[Str "err"; rerr_str e]]
  end.

(** the two premises of Props/C03.v's [C03_conformance_partial] evaluated on the model's own
    tracker and profiler: [strict_domb] (the property's strict domain) and [profile_exactb] (the
    profile characterisation P1, monitored on every generated case) *)
Definition c03_premises_entry (t : table) : table :=
  match c03_premises okN53b (rcfg_of t) (graph_of t) with
  | Some (a, b) => [[Str "ok"; bstr a; bstr b]]
  | None => [[Str "err"]]
  end.

Definition entry_c03 (name : str) (t : table) : option table :=
  if str_eqb name (Str "c03_validate") then Some (c03_validate t)
  else if str_eqb name (Str "c03_model_schema") then Some (c03_model_schema t)
  else if str_eqb name (Str "c03_model_valid") then Some (c03_model_valid t)
  else if str_eqb name (Str "c03_premises") then Some (c03_premises_entry t)
  else None.
