(** Entry point of the SHACL output of a shape-map extraction ([Model.RunMapShacl]).

    [shacl_doc_map]  input: the table of [pipe_shexc_map] (Model/EntryRunMap.v).
    output: row 0 = ["ok"; S1; S2; refs_closed; labels distinct; printable]   (as [shacl_doc] of
            Model/EntryShaclDoc.v), then one row per triple
            | ["err"; exception]              the serialiser raises ([Exception] = rdflib's writer)
            | ["runerr"; ctor|track|run; exception]   the extraction itself fails. *)
From Coq Require Import List Ascii String ZArith NArith Bool.
From Shexer Require Import Lib.PyStr Lib.Dict Gen.Consts Spec.Rdf Model.Table Model.Tracker Model.Profiler
     Model.Tokens Model.Freq Model.FreqInst Model.Shexing Model.Run Model.EntryPipe Model.RunMap
     Spec.ConstraintSpec Spec.ShaclGraphSpec Model.SerialShacl Model.ShaclDoc Model.EntryShaclDoc
     Model.EntryRunMap Model.RunMapShacl.
From Shexer Require Model.Selectors Model.EntryC10.
Import ListNotations.

Definition shacl_doc_map (t : table) : table :=
  let '(sp, dis0) := tspec_of t in
  match run_shapes_map BAlg (rcfg_of t) (EntryC10.dec_oracles t dis0) sp (thr_of t) (graph_of t) with
  | inr e => match merr_rows e with
             | (_ :: rest) :: _ => [Str "runerr" :: rest]
             | r => r
             end
  | inl (ns, shapes) => output_rows no_patterns ns (tau_shaper sp) shapes
  end.

Definition entry_runmapshacl (name : str) (t : table) : option table :=
  if str_eqb name (Str "shacl_doc_map") then Some (shacl_doc_map t) else None.
