(** Entry points of the C17 model (glue: table decoding / encoding). *)
From Coq Require Import List Ascii String ZArith Bool.
From Shexer Require Import Lib.PyStr Lib.Dict Gen.Consts Spec.Rdf Spec.MinIriSpec Model.Table Model.Tracker Model.MinIri Model.Examples.
Import ListNotations.

Definition ooptstr (o : option (option str)) : str :=
  match o with None => Str "E" | Some x => optstr x end.

(** function level *)
Definition c17_lcp_row (r : list str) : list str := [lcp (fld r 0) (fld r 1)].
Definition c17_det_row (r : list str) : list str := [optstr (determine (fld r 0))].
(** a row is the list of instance ids of one class, in order; the last field
    is the computable domain test of the theorems ([Spec.MinIriSpec.C17_domb]) *)
Definition c17_stem_row (r : list str) : list str := [fold_min_iri r; optstr (stem r); bstr (C17_domb r)].

(** graph level.  Row 0: [detect_minimal_iri; examples_mode (N / S...); inverse_paths].
    Other rows: one triple each: [subject kind I|B; subject id; predicate;
    object kind I|B|L; object id / literal content; datatype]. *)
Definition dec_kind (s : str) : nkind := if str_eqb s (Str "B") then KBnode else KIri.

Definition dec_triple (r : list str) : triple :=
  T (Node (dec_kind (fld r 0)) (fld r 1)) (fld r 2)
    (if str_eqb (fld r 3) (Str "L") then OL (fld r 4) (fld r 5)
     else ON (Node (dec_kind (fld r 3)) (fld r 4))).

Definition c17_graph (t : table) : table :=
  match t with
  | [] => [[Str "bad-input"]]
  | cfg :: rows =>
    let g := map dec_triple rows in
    let dmi := fbool cfg 0 in
    let mode := fopt cfg 1 in
    let inv := fbool cfg 2 in
    match track c_RDF_TYPE_STR TAll 0 g with
    | inr _ => [[Str "err"; Str "AttributeError"]]
    | inl ins =>
      match profile_examples dmi mode inv ins g with
      | None => [[Str "err"; Str "KeyError"]]
      | Some d =>
        flat_map (fun c =>
          [Str "shape"; c;
           (if dmi then ooptstr (shape_stem d c) else Str "-");
           optstr (shape_example d c);
           bstr (C17_domb (instances_of ins c))] ::
          match dget d c with
          | None => []
          | Some e =>
            map (fun pv => [Str "cons"; c; Str "d"; fst pv; snd pv]) (e_direct e) ++
            map (fun pv => [Str "cons"; c; Str "i"; fst pv; snd pv]) (e_inverse e)
          end) (class_keys ins)
      end
    end
  end.

(** which text of [_determine_suitable_iri_pattern] the constants were generated from:
    [["1"]] = with the first test (a common prefix that starts with "_:" gives no stem;
    [Gen/Consts.v: c_min_iri_skips_bnode_prefix]), [["0"]] = without.  The checks ask, so that
    finding C09-F3 excuses a label stem only on the text that has the defect. *)
Definition c17_info (t : table) : table := [[bstr c_min_iri_skips_bnode_prefix]].

Definition entry_c17 (name : str) (t : table) : option table :=
  if str_eqb name (Str "c17_lcp") then Some (map c17_lcp_row t)
  else if str_eqb name (Str "c17_det") then Some (map c17_det_row t)
  else if str_eqb name (Str "c17_stem") then Some (map c17_stem_row t)
  else if str_eqb name (Str "c17_graph") then Some (c17_graph t)
  else if str_eqb name (Str "c17_info") then Some (c17_info t)
  else None.
