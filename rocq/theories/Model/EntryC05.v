(** Entry point of the C05 oracle: the Spec recogniser and closure checks of
    [Spec/ShexcGrammar.v] run on a document text (the REAL ShExC output).

    [c05_recognise]: one row per document [text] ->
      [verdict ("ok"|"fail"); first failing check; position; detail]
    checks, in order: lex, parse, prefixes_functional, prefixes_declared,
    labels_distinct, refs_resolve.  The verdict and the check name come from
    the Spec functions; the position (byte offset for lex/parse failures) and
    the detail (offending name) are glue computed with the same [lex_step] /
    [pstep]. *)
From Coq Require Import List Ascii String ZArith NArith Bool.
From Shexer Require Import Lib.PyStr Model.Table Spec.ShexcGrammar.
From Shexer Require Import Model.FreqInst Model.SerialShexc Model.Run Model.RunCur Model.EntryPipe Model.C05Dom.
Import ListNotations.

Definition nat_str (n : nat) : str := dec_of_N (N.of_nat n).

(** tokens with the offset of the character that completed them, or the
    offset of the character the lexer rejects *)
Fixpoint lex_pos (st : lstate) (i : nat) (s : str) : list (token * nat) + nat :=
  match s with
  | [] => match lex_finish st with
          | Some o => inl (map (fun t => (t, i)) o)
          | None => inr i
          end
  | c :: s' =>
    match lex_step st c with
    | None => inr i
    | Some (st', out) =>
      match lex_pos st' (S i) s' with
      | inl r => inl (map (fun t => (t, i)) out ++ r)
      | inr p => inr p
      end
    end
  end.

Fixpoint parse_pos (st : pstate) (ts : list (token * nat)) (eof : nat) : nat :=
  match ts with
  | [] => eof
  | (t, i) :: r => match pstep st t with Some st' => parse_pos st' r eof | None => i end
  end.

Fixpoint first_dup (l : list str) : str :=
  match l with
  | [] => []
  | x :: r => if mem_str x r then x else first_dup r
  end.

Definition first_missing (l have : list str) : str :=
  match List.find (fun x => negb (mem_str x have)) l with Some x => x | None => [] end.

Definition c05_row (r : list str) : list str :=
  let s := fld r 0 in
  match lex s with
  | None => [Str "fail"; Str "lex"; nat_str (match lex_pos LDef 0 s with inr p => p | inl _ => 0 end); []]
  | Some ts =>
    if negb (parses ts) then
      [Str "fail"; Str "parse";
       nat_str (match lex_pos LDef 0 s with inl l => parse_pos PTop l (List.length s) | inr p => p end); []]
    else if negb (prefixes_functional ts) then
      [Str "fail"; Str "prefixes_functional"; Str "0"; first_dup (map fst (decls ts))]
    else if negb (prefixes_declared ts) then
      [Str "fail"; Str "prefixes_declared"; Str "0"; first_missing (used false ts) (map fst (decls ts))]
    else if negb (labels_distinct ts) then
      [Str "fail"; Str "labels_distinct"; Str "0"; first_dup (label_iris ts)]
    else if negb (refs_resolve ts) then
      [Str "fail"; Str "refs_resolve"; Str "0"; first_missing (ref_iris ts) (label_iris ts)]
    else [Str "ok"; []; Str "0"; []]
  end.

(** the row's verdict is "ok" exactly when the Spec predicate holds *)
Lemma c05_row_ok s rest : hd [] (c05_row (s :: rest)) = Str "ok" <-> wellformed_closed s = true.
Proof.
  unfold c05_row, wellformed_closed, closed_tokens, fld. cbn [nth].
  destruct (lex s) as [ts|]; cbn; [|split; discriminate].
  destruct (parses ts); cbn; [|split; discriminate].
  destruct (prefixes_functional ts); cbn; [|split; discriminate].
  destruct (prefixes_declared ts); cbn; [|split; discriminate].
  destruct (labels_distinct ts); cbn; [|split; discriminate].
  destruct (refs_resolve ts); cbn; split; (reflexivity || discriminate).
Qed.

(** [c05_dom]: a pipeline input table (as for [pipe_shexc]) ->
    [ran; C05_dom; refs_closedb; labels_nodupb] of the shape list the model
    computes: classifies a generated run as inside / outside the hypotheses of
    the theorems of Props/C05.v *)
Definition zcfg_of (c : rcfg) (ns : Tokens.nsdict) : sercfg :=
  {| z_ns := ns; z_tau := r_tau c; z_disable_comments := r_disable_comments c; z_mode := r_mode c |}.

Definition c05_dom_row (t : table) : list str :=
  let c := rcfg_of t in
  match run_shapes_cur BAlg c (thr_of t) (graph_of t) with
  | inl (ns, shapes) =>
    [Str "1"; bstr (C05_dom (zcfg_of c ns) shapes); bstr (refs_closedb shapes); bstr (labels_nodupb shapes)]
  | inr _ => [Str "0"; Str "0"; Str "0"; Str "0"]
  end.

Definition entry_c05 (name : str) (t : table) : option table :=
  if str_eqb name (Str "c05_recognise") then Some (map c05_row t)
  else if str_eqb name (Str "c05_dom") then Some [c05_dom_row t]
  else None.
