(** * [namespaces_to_ignore]: FilterNamespacesTriplesYielder and
    [check_if_property_belongs_to_namespace_list] (shexer/utils/triple_yielders.py,
    shexer/io/graph/yielder/filter/filter_namespaces_triple_yielder.py).

    The Shaper hands [namespaces_to_ignore] to the class profiler's yielder
    only ([Shaper._build_class_profiler]); [_build_instance_tracker] does not
    forward it, so the instance pass always reads the unfiltered stream. *)
From Coq Require Import List Ascii String ZArith Bool.
From Shexer Require Import Lib.PyStr Gen.Consts Spec.Rdf.
Import ListNotations.

(** one iteration of the loop:
    [str_prop.startswith(ns)] and
    ["/" not in str_prop[len(ns):] and "#" not in str_prop[len(ns):]]
    (the separator characters come from the source: [Consts.c_ns_child_separators]) *)
Definition child_of_one (ns p : str) : bool :=
  if prefixb ns p then
    let rest := slice_from p (len ns) in
    forallb (fun sep => negb (contains sep rest)) c_ns_child_separators
  else false.

(** [check_if_property_belongs_to_namespace_list]: first namespace that matches wins ([return True]) *)
Fixpoint child_of_ns (nss : list str) (p : str) : bool :=
  match nss with
  | [] => false
  | ns :: nss' => if child_of_one ns p then true else child_of_ns nss' p
  end.

(** [_pass_filters] *)
Definition pass_filters (ign : list str) (t : triple) : bool := negb (child_of_ns ign (tp t)).

(** [FilterNamespacesTriplesYielder.yield_triples] *)
Fixpoint filter_ns (ign : list str) (g : graph) : graph :=
  match g with
  | [] => []
  | t :: g' => if pass_filters ign t then t :: filter_ns ign g' else filter_ns ign g'
  end.
