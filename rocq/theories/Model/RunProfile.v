(** * [Shaper(...).profile_graph(...)]: tracker -> profiler -> json text
    (shexer/shaper.py: [profile_graph]; the same front as [Run.run_shapes]).

    [profile_graph] runs [_launch_instance_tracker] and [_launch_class_profiler]
    (exactly the first two stages of [shex_graph]) and hands [self._profile] to
    [AbstractProfileSerializer]: no ClassShexer, no namespaces, no threshold.
    The shapes namespace prefix ([Run.full_ns]) plays no part: the constructor
    chooses it, the profile text never shows it.

    Error outcomes: [REAttr] = AttributeError of the tracker / the feature pass
    ([Literal] has no [.iri]); [REType] from the serialiser = the TypeError of
    [sorted()] under [sort_keys=True] (not the code as it is: [c_profile_json_sort_keys]
    = false, see [Proofs/ProfileJsonProofs.v: run_profile_json_total]). *)
From Coq Require Import List Ascii String ZArith NArith Bool.
From Shexer Require Import Lib.PyStr Lib.Dict Gen.Consts Gen.ConstsProfile Spec.Rdf Model.Tracker Model.Profiler
     Model.Tokens Model.Freq Model.Shexing Model.SerialShexc Model.Run Model.ProfileJson Model.RunMap.
From Shexer Require Model.Selectors.
Import ListNotations.

(** the front: stages 1-2 of [Run.run_shapes] *)
Definition run_front (c : rcfg) (g : graph) : (cprofile * ccounts * idict) + rerr :=
  match track (r_tau c) (match r_targets c with Some l => TClasses l | None => TAll end) (r_cap c) g with
  | inr _ => inr REAttr
  | inl ins =>
    match profile (pcfg_of c) ins g with
    | inr PEAttr => inr REAttr
    | inr PEType => inr REType
    | inl x => inl x
    end
  end.

Definition run_profile_json (k : psink) (c : rcfg) (g : graph) : str + rerr :=
  match run_front c g with
  | inr e => inr e
  | inl (P, _, _) =>
    match profile_text k (r_inverse c) P with
    | Some t => inl t
    | None => inr REType
    end
  end.

(** the same call when the targets come from a shape map / any [tspec]
    ([Model/RunMap.v]: same constructor checks, tracker model and profiler
    configuration as [run_shapes_map]) *)
Definition run_profile_json_map (k : psink) (c : rcfg) (orc : Selectors.oracles) (sp : Selectors.tspec) (g : graph)
  : str + merr :=
  if r_disable_or c && r_allow_redundant_or c then inr (MECtor Selectors.ExValue)
  else
  match Selectors.find_adequate_prefix (Selectors.sp_ns sp) with
  | None => inr (MERun RERandom)
  | Some _ =>
    match Selectors.run orc sp g with
    | Selectors.OCtorErr e => inr (MECtor e)
    | Selectors.OTrackErr e => inr (METrack e)
    | Selectors.OOk ins =>
      match prof_targets orc sp with
      | Selectors.Err _ => inr (MERun REValue)
      | Selectors.Ok targets =>
        match profile (pcfg_map c orc sp targets) ins g with
        | inr e => inr (merr_of_p e)
        | inl (P, _, _) =>
          match profile_text k (r_inverse c) P with
          | Some t => inl t
          | None => inr (MERun REType)
          end
        end
      end
    end
  end.
