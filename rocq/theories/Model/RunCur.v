(** * The class-mode extraction with the shexing stage in the order the code
    has ([ShexingFix.shex_cur]: [Shexing.shex] -- merge, then
    [_clean_empty_shapes] -- when [Gen.Consts.c_clean_before_merge = false],
    [ShexingFix.shex_f] -- [_clean_empty_shapes], then merge -- when it is
    [true], i.e. since commit a3b99df of /repo).

    [run_shapes_cur] / [run_shexc_cur] are [Run.run_shapes] / [Run.run_shexc]
    with [shex] replaced by [shex_cur]; nothing else differs.  The two-document
    variants ([Model/Run2.v], [Model/Channels.v]) call [shex_cur] themselves, and
    [Run2.run_shapes2 fa c thr g g] is [run_shapes_cur fa c thr g] by reflexivity.
    [Proofs/OrderIrrelevant.v] proves where [run_shapes_cur] and [Run.run_shapes]
    coincide, and shows inputs on which they do not. *)
From Coq Require Import List Ascii String ZArith NArith Bool.
From Shexer Require Import Lib.PyStr Lib.Dict Gen.Consts Spec.Rdf Model.Tracker Model.Profiler
     Model.Tokens Model.Freq Model.Shexing Model.ShexingFix Model.SerialShexc Model.Run.
Import ListNotations.

Section RunCur.
  Variable fa : FreqAlg.

  Definition run_shapes_cur (c : rcfg) (thr : F fa) (g : graph) : (nsdict * list shape) + rerr :=
    match full_ns c with
    | None => inr RERandom
    | Some ns =>
      match track (r_tau c) (match r_targets c with Some l => TClasses l | None => TAll end) (r_cap c) g with
      | inr _ => inr REAttr
      | inl ins =>
        match profile (pcfg_of c) ins g with
        | inr PEAttr => inr REAttr
        | inr PEType => inr REType
        | inl (P, C, _) =>
          match shex_cur fa (scfg_of c ns) thr P C with
          | inr e => inr (rerr_of_s e)
          | inl shapes => inl (ns, shapes)
          end
        end
      end
    end.

  Definition run_shexc_cur (c : rcfg) (thr : F fa) (g : graph) : str + rerr :=
    match run_shapes_cur c thr g with
    | inr e => inr e
    | inl (ns, shapes) =>
      match render {| z_ns := ns; z_tau := r_tau c; z_disable_comments := r_disable_comments c;
                      z_mode := r_mode c |} shapes with
      | Some t => inl t
      | None => inr REValue
      end
    end.
End RunCur.
