(** * The decorated extraction ([Model/RunDecor.v], [Model/DecorDom.v]) with the
    shexing stage in the order the code has: [run_shexc_decor_lines] /
    [run_shexc_decor] / [run_shexc_lines] / [run_decor_domb] with
    [Run.run_shapes] replaced by [RunCur.run_shapes_cur]; nothing else differs.
    These are what the correspondence runs compare with the real text
    ([Model/EntryRunDecor.v]).  They are the functions of [Model/RunDecor.v] where
    the order of ClassShexer's stages is irrelevant
    ([Proofs/OrderDecor.v], from [Proofs/OrderIrrelevant.v]). *)
From Coq Require Import List Ascii String ZArith NArith Bool.
From Shexer Require Import Lib.PyStr Lib.Dict Gen.Consts Spec.Rdf Model.Tracker Model.Profiler
     Model.Tokens Model.Freq Model.Shexing Model.SerialShexc Model.Run Model.RunCur
     Model.MinIri Model.Examples Model.RunDecor Model.DecorDom.
Import ListNotations.

Section RunDecorCur.
  Variable fa : FreqAlg.

  Definition run_shexc_decor_lines_cur (c : rcfg) (dmi : bool) (mode : option str) (thr : F fa) (g : graph)
    : list str + derr :=
    match run_shapes_cur fa c thr g with
    | inr e => inr (DE e)
    | inl (ns, shapes) =>
      match run_decor_data c dmi mode g with
      | None => inr DEKey
      | Some (_, d) =>
        render_lines_decor (zcfg_of c ns) {| d_dmi := dmi; d_mode := mode; d_inverse := r_inverse c |} d shapes
      end
    end.

  Definition run_shexc_decor_cur (c : rcfg) (dmi : bool) (mode : option str) (thr : F fa) (g : graph) : str + derr :=
    match run_shexc_decor_lines_cur c dmi mode thr g with
    | inl ls => inl (List.concat ls)
    | inr e => inr e
    end.

  Definition run_shexc_lines_cur (c : rcfg) (thr : F fa) (g : graph) : list str + rerr :=
    match run_shapes_cur fa c thr g with
    | inr e => inr e
    | inl (ns, shapes) =>
      match render_lines (zcfg_of c ns) shapes with
      | Some ls => inl ls
      | None => inr REValue
      end
    end.

  Definition run_decor_domb_cur (c : rcfg) (dmi : bool) (mode : option str) (thr : F fa) (g : graph) : bool :=
    match run_shapes_cur fa c thr g, run_decor_data c dmi mode g with
    | inl (ns, shapes), Some (_, d) =>
      decor_domb (zcfg_of c ns) {| d_dmi := dmi; d_mode := mode; d_inverse := r_inverse c |} d shapes
    | _, _ => true
    end.
End RunDecorCur.
