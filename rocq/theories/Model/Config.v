(** * Model of [Shaper.__init__]'s argument checks and of the call-time checks
    of [shex_graph] (shexer/shaper.py, shexer/utils/obj_references.py).

    An abstract configuration records, for every argument the checks look at,
    what the checks can see of it: presence ([is not None]) for the graph
    sources and target arguments, the value for enum-like arguments.  The
    membership lists come from [Gen.Consts] (regenerated from the source). *)

From Coq Require Import List Ascii String ZArith Bool Lia.
From Shexer Require Import Lib.PyStr Gen.Consts.
Import ListNotations.

Record ctor_cfg := {
  (* graph sources, in the order of [shaper_source_args] *)
  src_graph_file : bool;
  src_list_of_files : bool;
  src_raw_graph : bool;
  src_url_graph : bool;
  src_list_of_url : bool;
  src_url_endpoint : bool;
  src_rdflib_graph : bool;
  (* target arguments *)
  tgt_target_classes : bool;
  tgt_file_target_classes : bool;
  tgt_shape_map_file : bool;
  tgt_shape_map_raw : bool;
  all_classes_mode : bool;
  (* enum-like arguments *)
  input_format : str;
  compression_mode : option str;
  examples_mode : option str;
  disable_or_statements : bool;
  allow_redundant_or : bool
}.

Inductive outcome := Accept | RejectValueError | ObscureFailure.

Definition outcome_eqb (a b : outcome) : bool :=
  match a, b with
  | Accept, Accept | RejectValueError, RejectValueError | ObscureFailure, ObscureFailure => true
  | _, _ => false
  end.

Definition count_true (l : list bool) : nat := List.length (filter (fun b => b) l).

(** [check_just_one_not_none]: counts the arguments that are not None and
    raises unless the count is exactly one. *)
Definition just_one (l : list bool) : bool := Nat.eqb (count_true l) 1.

Definition sources (c : ctor_cfg) : list bool :=
  [src_graph_file c; src_list_of_files c; src_raw_graph c; src_url_graph c;
   src_list_of_url c; src_url_endpoint c; src_rdflib_graph c].

Definition targets (c : ctor_cfg) : list bool :=
  [tgt_target_classes c; tgt_file_target_classes c; tgt_shape_map_file c; tgt_shape_map_raw c].

Fixpoint mem_opt_str (x : option str) (l : list (option str)) : bool :=
  match l with
  | [] => false
  | y :: l' =>
    (match x, y with
     | None, None => true
     | Some a, Some b => str_eqb a b
     | _, _ => false
     end) || mem_opt_str x l'
  end.

Definition is_some {A} (o : option A) : bool := match o with Some _ => true | None => false end.

(** [_check_target_classes] *)
Definition check_target_classes (c : ctor_cfg) : bool :=
  if all_classes_mode c
  then negb (tgt_target_classes c || tgt_file_target_classes c)
  else just_one (targets c).

(** [_check_or_config] *)
Definition check_or_config (c : ctor_cfg) : bool :=
  negb (disable_or_statements c && allow_redundant_or c).

(** [_check_input_format] *)
Definition check_input_format (c : ctor_cfg) : bool :=
  mem_str (input_format c) shaper_input_formats.

(** [_check_compression_mode] *)
Definition check_compression_mode (c : ctor_cfg) : bool :=
  mem_opt_str (compression_mode c) shaper_compression_modes &&
  negb (is_some (compression_mode c) &&
        (src_url_endpoint c || src_url_graph c || src_list_of_url c)).

(** [_check_examples_mode] *)
Definition check_examples_mode (c : ctor_cfg) : bool :=
  mem_opt_str (examples_mode c) shaper_examples_modes.

(** The six checks of [__init__], in source order.  All raise [ValueError],
    so only the conjunction is observable. *)
Definition ctor_checks (c : ctor_cfg) : bool :=
  just_one (sources c) && check_target_classes c && check_or_config c &&
  check_input_format c && check_compression_mode c && check_examples_mode c.

(** After the checks, [get_shape_map_if_needed] runs when a shape map is
    given.  Without an endpoint it builds an [RdflibSgraph] from
    (rdflib_graph | raw_graph | graph_file_input); none of the other three
    sources is forwarded, and rdflib then raises [ValueError] ("exactly one of
    source, location, file or data must be given").  With a forwarded text
    source, rdflib parses it eagerly with [format=input_format] and without
    decompression: formats rdflib does not know ([tsv_spo], [turtle_iter]) and
    compressed files fail there with a non-[ValueError] exception. *)
Definition has_shape_map (c : ctor_cfg) : bool := tgt_shape_map_file c || tgt_shape_map_raw c.

Definition rdflib_knows_format (f : str) : bool :=
  mem_str f [c_NT; c_N3; c_TURTLE; c_RDF_XML; c_JSON_LD].

(** Stage 1: building the graph wrapper. *)
Definition sgraph_stage (c : ctor_cfg) : outcome :=
  if src_url_endpoint c then Accept
  else if src_rdflib_graph c then Accept
  else if src_raw_graph c || src_graph_file c then
    if negb (rdflib_knows_format (input_format c)) then ObscureFailure
    else if src_graph_file c && is_some (compression_mode c) then
      (* compressed bytes handed to a text parser: UnicodeDecodeError (a
         ValueError subclass) from the text formats, a SAX error from RDF/XML *)
      if str_eqb (input_format c) c_RDF_XML then ObscureFailure else RejectValueError
    else Accept
  else RejectValueError.

(** Stage 2: the shape-map parser insists on exactly one of file / raw content
    ("Yoy must provide exactly one kind of input", a [ValueError]); only
    reachable with both in [all_classes_mode]. *)
Definition shape_map_stage (c : ctor_cfg) : outcome :=
  if negb (has_shape_map c) then Accept
  else match sgraph_stage c with
       | Accept => if tgt_shape_map_file c && tgt_shape_map_raw c then RejectValueError else Accept
       | o => o
       end.

Definition ctor (c : ctor_cfg) : outcome :=
  if ctor_checks c then shape_map_stage c else RejectValueError.

(** ** [shex_graph] call-time checks *)

Record call_cfg := {
  string_output : bool;
  has_output_file : bool;
  has_uml_path : bool;
  output_format : str;
  (* threshold as a rational num/den with den > 0 *)
  thr_num : Z;
  thr_den : Z
}.

Definition check_output_params (k : call_cfg) : bool :=
  negb (negb (string_output k) && negb (has_output_file k) && negb (has_uml_path k)).

Definition check_output_format (k : call_cfg) : bool :=
  mem_str (output_format k) shaper_output_formats.

(** [aceptance_threshold < 0 or aceptance_threshold > 1] raises *)
Definition check_threshold (k : call_cfg) : bool :=
  negb ((thr_num k <? 0)%Z || (thr_den k <? thr_num k)%Z).

Definition call (k : call_cfg) : outcome :=
  if check_output_params k && check_output_format k && check_threshold k
  then Accept else RejectValueError.
