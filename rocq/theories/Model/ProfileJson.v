(** * The text of [Shaper.profile_graph]: CPython's [json.dumps(obj, indent=k)]
    on the class profile (shexer/io/profile/formater/abstract_profile_serializer.py).

    Anchors
    - [AbstractProfileSerializer.get_string_representation]:
        [return json.dumps(self._profile_obj, indent=2)]
    - [AbstractProfileSerializer.write_profile_to_file]:
        [with open(target_file, "w") as out_stream: json.dump(self._profile_obj, out_stream, indent=2)]
      The keyword arguments (indent, sort_keys), the function names and the file
      mode are read from /repo's AST into [Gen/ConstsProfile.v]; any other
      keyword (ensure_ascii, separators, default, cls, skipkeys, ...) makes
      [tools/gen_consts.py] fail closed.
    - CPython 3.12 [Lib/json/encoder.py]: with an indent the pure-Python
      [_make_iterencode] is used by BOTH [dumps] ([''.join(chunks)]) and [dump]
      ([fp.write(chunk)] for every chunk): item separator [","], key separator
      [": "], newline + [indent * level] blanks before every item and before the
      closing bracket, [{}] / [[]] for empty containers, keys in dictionary
      (insertion) order unless [sort_keys], int keys and int values by
      [int.__repr__], a tuple like a list, strings by
      [encode_basestring_ascii] ([ensure_ascii=True], the default).

    The profile object ([ClassProfiler._classes_shape_dict]) is what
    [Model/Profiler.v: profile] returns:
    - without inverse_paths   { class : { property : { type key : { cardinality : count }}}}
    - with inverse_paths      { class : ( {direct features}, {inverse features} ) }   -- a TUPLE, printed as a list
    cardinality keys are ints ([CKn n]) or the string [c_ONE_TO_MANY] = "+" ([CKplus]).

    STRINGS.  [Lib/PyStr.v] represents a Python [str] by the list of its UTF-8
    BYTES; json escapes CODE POINTS.  [utf8_decode] is the strict UTF-8 decoder
    (shortest form only, no surrogates, at most U+10FFFF).  Exactly rendered =
    every string that is well-formed UTF-8 ([utf8_ok]), i.e. the encoding of ANY
    Python [str] without lone surrogate code points -- all that a reader
    decoding a UTF-8 document can produce, IRIs included.  A byte that is not
    part of a well-formed sequence is printed as the lone surrogate U+DC00+byte
    (what [errors="surrogateescape"] would have made of it): this keeps the
    function total; nothing is claimed about such strings. *)
From Coq Require Import List Ascii String ZArith NArith Bool.
From Shexer Require Import Lib.PyStr Lib.Dict Gen.Consts Gen.ConstsProfile Model.Profiler.
Import ListNotations.
Local Open Scope N_scope.

(** ** 1. UTF-8 bytes <-> code points *)

Definition byte (a : ascii) : N := N_of_ascii a.
Definition chr (n : N) : ascii := ascii_of_N n.

Definition is_surrogate (cp : N) : bool := (55296 <=? cp) && (cp <=? 57343).     (* U+D800 .. U+DFFF *)
Definition scalar (cp : N) : bool := negb (is_surrogate cp) && (cp <=? 1114111). (* a Unicode scalar value *)

(** payload of a continuation byte 10xxxxxx *)
Definition cont_val (a : ascii) : option N :=
  let b := byte a in if (128 <=? b) && (b <? 192) then Some (b - 128) else None.

(** one well-formed sequence at the head of [s]: its code point and the rest *)
Definition utf8_step (s : str) : option (N * str) :=
  match s with
  | [] => None
  | a :: s1 =>
    let b := byte a in
    if b <? 128 then Some (b, s1)
    else if b <? 192 then None                                 (* stray continuation byte *)
    else if b <? 224 then
      match s1 with
      | a2 :: s2 =>
        match cont_val a2 with
        | Some y => let cp := (b - 192) * 64 + y in
                    if 128 <=? cp then Some (cp, s2) else None  (* no overlong forms *)
        | None => None
        end
      | _ => None
      end
    else if b <? 240 then
      match s1 with
      | a2 :: a3 :: s3 =>
        match cont_val a2, cont_val a3 with
        | Some y, Some z =>
          let cp := ((b - 224) * 64 + y) * 64 + z in
          if (2048 <=? cp) && negb (is_surrogate cp) then Some (cp, s3) else None
        | _, _ => None
        end
      | _ => None
      end
    else if b <? 248 then
      match s1 with
      | a2 :: a3 :: a4 :: s4 =>
        match cont_val a2, cont_val a3, cont_val a4 with
        | Some y, Some z, Some w =>
          let cp := (((b - 240) * 64 + y) * 64 + z) * 64 + w in
          if (65536 <=? cp) && (cp <=? 1114111) then Some (cp, s4) else None
        | _, _, _ => None
        end
      | _ => None
      end
    else None
  end.

(** the code points of a byte string; a byte outside any well-formed sequence
    becomes U+DC00 + byte.  Fuel = number of bytes (every step consumes one). *)
Fixpoint utf8_decode_f (fuel : nat) (s : str) : list N :=
  match fuel with
  | O => []
  | S f =>
    match s with
    | [] => []
    | a :: s1 =>
      match utf8_step s with
      | Some (cp, r) => cp :: utf8_decode_f f r
      | None => (56320 + byte a) :: utf8_decode_f f s1
      end
    end
  end.

Definition utf8_decode (s : str) : list N := utf8_decode_f (List.length s) s.

(** well-formed UTF-8 = the exactly rendered strings *)
Definition utf8_ok (s : str) : bool := forallb scalar (utf8_decode s).

(** UTF-8 encoding of one code point (used by the parser of section 5) *)
Definition utf8_enc1 (cp : N) : str :=
  if cp <? 128 then [chr cp]
  else if cp <? 2048 then [chr (192 + cp / 64); chr (128 + cp mod 64)]
  else if cp <? 65536 then [chr (224 + cp / 4096); chr (128 + (cp / 64) mod 64); chr (128 + cp mod 64)]
  else [chr (240 + cp / 262144); chr (128 + (cp / 4096) mod 64); chr (128 + (cp / 64) mod 64); chr (128 + cp mod 64)].

Definition utf8_encode (l : list N) : str := flat_map utf8_enc1 l.

(** ** 2. [encode_basestring_ascii]

    ESCAPE_ASCII matches the backslash, the double quote and every character
    outside the range space .. tilde: backslash, the double quote and every
    character outside ' ' .. '~' are replaced: the seven named escapes, else
    [\uXXXX] (lower-case hex), a code point above U+FFFF as a surrogate pair. *)

Definition dq : ascii := chr 34.       (* the double quote *)
Definition bs : ascii := chr 92.       (* the backslash *)

Definition hexdigit (d : N) : ascii := if d <? 10 then chr (48 + d) else chr (87 + d).

Definition hex4 (u : N) : str :=
  [hexdigit (u / 4096); hexdigit ((u / 256) mod 16); hexdigit ((u / 16) mod 16); hexdigit (u mod 16)].

(** UTF-16 code units of a code point:
    [n -= 0x10000; s1 = 0xd800 | ((n >> 10) & 0x3ff); s2 = 0xdc00 | (n & 0x3ff)] *)
Definition units_of_cp (cp : N) : list N :=
  if cp <? 65536 then [cp]
  else let n := cp - 65536 in [55296 + (n / 1024) mod 1024; 56320 + n mod 1024].

Definition esc_unit (u : N) : str :=
  if u =? 34 then [bs; dq]
  else if u =? 92 then [bs; bs]
  else if u =? 10 then [bs; "n"%char]
  else if u =? 13 then [bs; "r"%char]
  else if u =? 9 then [bs; "t"%char]
  else if u =? 8 then [bs; "b"%char]
  else if u =? 12 then [bs; "f"%char]
  else if (32 <=? u) && (u <=? 126) then [chr u]
  else bs :: "u"%char :: hex4 u.

Definition json_escape (s : str) : str := flat_map esc_unit (flat_map units_of_cp (utf8_decode s)).

Definition json_string (s : str) : str := dq :: json_escape s ++ [dq].

(** ** 3. the JSON fragment and [_make_iterencode] *)

Inductive jkey := JKs (s : str) | JKi (n : N).
Inductive json := JInt (n : N) | JObj (l : list (jkey * json)) | JArr (l : list json).

(** [_iterencode_dict]: [if isinstance(key, str): pass ... elif isinstance(key, int): key = _intstr(key)]
    and then [yield _encoder(key)]: an int key is printed as the STRING of its decimal form *)
Definition key_str (k : jkey) : str :=
  match k with JKs s => s | JKi n => dec_of_N n end.

(** ['\n' + indent * level] *)
Definition nl (ind lvl : nat) : str := chr 10 :: repeat " "%char (ind * lvl).

Definition item_sep (ind lvl : nat) : str := ","%char :: nl ind lvl.

Fixpoint render_json (ind lvl : nat) (j : json) : str :=
  match j with
  | JInt n => dec_of_N n
  | JObj l =>
    match l with
    | [] => Str "{}"
    | _ :: _ =>
      Str "{" ++ nl ind (S lvl)
      ++ join (item_sep ind (S lvl))
              (map (fun kv : jkey * json =>
                      json_string (key_str (fst kv)) ++ Str ": " ++ render_json ind (S lvl) (snd kv)) l)
      ++ nl ind lvl ++ Str "}"
    end
  | JArr l =>
    match l with
    | [] => Str "[]"
    | _ :: _ =>
      Str "[" ++ nl ind (S lvl)
      ++ join (item_sep ind (S lvl)) (map (render_json ind (S lvl)) l)
      ++ nl ind lvl ++ Str "]"
    end
  end.

(** *** [sort_keys=True]: [items = sorted(dct.items())]

    Dictionary keys are pairwise different, so the tuples are ordered by their
    keys alone: strings by code point (= byte order of their UTF-8 encodings),
    ints by value; a str next to an int raises TypeError (any comparison sort
    of a list holding both kinds compares a mixed pair). *)
Fixpoint str_leb (a b : str) : bool :=
  match a, b with
  | [], _ => true
  | _ :: _, [] => false
  | x :: a', y :: b' =>
    if byte x <? byte y then true else if byte y <? byte x then false else str_leb a' b'
  end.

Definition key_leb (a b : jkey) : bool :=
  match a, b with
  | JKs x, JKs y => str_leb x y
  | JKi x, JKi y => x <=? y
  | _, _ => true
  end.

Definition is_str_key (k : jkey) : bool := match k with JKs _ => true | JKi _ => false end.

Fixpoint insert_item {V : Type} (kv : jkey * V) (l : list (jkey * V)) : list (jkey * V) :=
  match l with
  | [] => [kv]
  | kv' :: l' => if key_leb (fst kv) (fst kv') then kv :: l else kv' :: insert_item kv l'
  end.

(** [None] = TypeError ('<' not supported between instances of 'str' and 'int') *)
Definition sort_items {V : Type} (l : list (jkey * V)) : option (list (jkey * V)) :=
  if forallb (fun kv => is_str_key (fst kv)) l || forallb (fun kv => negb (is_str_key (fst kv))) l
  then Some (fold_right insert_item [] l)
  else None.

Fixpoint all_some {A : Type} (l : list (option A)) : option (list A) :=
  match l with
  | [] => Some []
  | Some x :: l' => match all_some l' with Some r => Some (x :: r) | None => None end
  | None :: _ => None
  end.

Fixpoint sort_json (j : json) : option json :=
  match j with
  | JInt n => Some (JInt n)
  | JArr l => match all_some (map sort_json l) with Some l' => Some (JArr l') | None => None end
  | JObj l =>
    match all_some (map (fun kv : jkey * json =>
                           match sort_json (snd kv) with Some v => Some (fst kv, v) | None => None end) l) with
    | Some l' => match sort_items l' with Some l'' => Some (JObj l'') | None => None end
    | None => None
    end
  end.

Record jcfg := { j_indent : nat; j_sort_keys : bool }.

(** [json.dumps(obj, indent=.., sort_keys=..)]; [None] = TypeError.  (With the
    file sink the chunks before the failing dictionary have already been
    written when the exception is raised; error outcomes carry no text.) *)
Definition dumps (c : jcfg) (j : json) : option str :=
  if j_sort_keys c
  then match sort_json j with Some j' => Some (render_json (j_indent c) 0 j') | None => None end
  else Some (render_json (j_indent c) 0 j).

(** ** 4. the profile object *)

Definition ckey_json (k : ckey) : jkey :=
  match k with CKn n => JKi n | CKplus => JKs c_ONE_TO_MANY end.

Definition cdict_json (d : cdict) : json :=
  JObj (map (fun kn : ckey * N => (ckey_json (fst kn), JInt (snd kn))) d).

Definition tdict_json (m : dict cdict) : json :=
  JObj (map (fun kd : str * cdict => (JKs (fst kd), cdict_json (snd kd))) m).

Definition pdict_json (d : pdict) : json :=
  JObj (map (fun pm : str * dict cdict => (JKs (fst pm), tdict_json (snd pm))) d).

(** DirectFeaturesStrategy: the entry of a class is the features dictionary;
    IncludeReverseFeaturesStrategy: the tuple (direct, inverse) *)
Definition centry_json (inverse : bool) (e : centry) : json :=
  if inverse then JArr [pdict_json (c_direct e); pdict_json (c_inverse e)]
  else pdict_json (c_direct e).

Definition profile_json (inverse : bool) (P : cprofile) : json :=
  JObj (map (fun ce : str * centry => (JKs (fst ce), centry_json inverse (snd ce))) P).

(** the two sinks *)
Inductive psink := PString | PFile.

Definition sink_cfg (k : psink) : jcfg :=
  match k with
  | PString => {| j_indent := c_profile_json_indent; j_sort_keys := c_profile_json_sort_keys |}
  | PFile => {| j_indent := c_profile_json_file_indent; j_sort_keys := c_profile_json_file_sort_keys |}
  end.

(** [profile_graph(string_output=True)] returns / [profile_graph(output_file=f)]
    leaves in [f] (opened with mode [c_profile_json_file_mode] = "w": truncated;
    every byte of the text is ASCII, so the locale's encoding does not matter;
    no buffering of sheXer's own: [json.dump] writes the chunks in order) *)
Definition profile_text (k : psink) (inverse : bool) (P : cprofile) : option str :=
  dumps (sink_cfg k) (profile_json inverse P).

(** ** 5. reading the text back (used only by the round-trip theorems)

    A total recursive-descent parser for the fragment the renderer produces:
    objects with string keys, arrays, non-negative integers; blanks and
    newlines are skipped between tokens.  Keys come back as strings
    ([stringify_keys]: an int key [n] and the string key "n" are the same JSON
    key -- see [Proofs/ProfileJsonProofs.v: ckey_str_inj] for why this loses
    nothing on profiles). *)

Definition is_ws (c : ascii) : bool :=
  let b := byte c in (b =? 32) || (b =? 10) || (b =? 13) || (b =? 9).

Fixpoint skip_ws (s : str) : str :=
  match s with
  | c :: s' => if is_ws c then skip_ws s' else s
  | [] => []
  end.

Definition unhex (c : ascii) : option N :=
  let b := byte c in
  if (48 <=? b) && (b <=? 57) then Some (b - 48)
  else if (97 <=? b) && (b <=? 102) then Some (b - 87)
  else if (65 <=? b) && (b <=? 70) then Some (b - 55)
  else None.

(** the character after a backslash (other than 'u') *)
Definition unesc (c : ascii) : option N :=
  let b := byte c in
  if b =? 34 then Some 34 else if b =? 92 then Some 92 else if b =? 47 then Some 47
  else if b =? 98 then Some 8 else if b =? 102 then Some 12 else if b =? 110 then Some 10
  else if b =? 114 then Some 13 else if b =? 116 then Some 9 else None.

(** after the opening quote: the UTF-16 code units up to the closing quote *)
Fixpoint read_units (s : str) : option (list N * str) :=
  match s with
  | [] => None
  | c :: s1 =>
    if byte c =? 34 then Some ([], s1)
    else if byte c =? 92 then
      match s1 with
      | [] => None
      | e :: s2 =>
        if byte e =? 117 then
          match s2 with
          | h1 :: h2 :: h3 :: h4 :: s6 =>
            match unhex h1, unhex h2, unhex h3, unhex h4 with
            | Some x1, Some x2, Some x3, Some x4 =>
              match read_units s6 with
              | Some (us, r) => Some ((((x1 * 16 + x2) * 16 + x3) * 16 + x4) :: us, r)
              | None => None
              end
            | _, _, _, _ => None
            end
          | _ => None
          end
        else
          match unesc e with
          | Some u => match read_units s2 with Some (us, r) => Some (u :: us, r) | None => None end
          | None => None
          end
      end
    else match read_units s1 with Some (us, r) => Some (byte c :: us, r) | None => None end
  end.

Definition is_high (u : N) : bool := (55296 <=? u) && (u <=? 56319).
Definition is_low (u : N) : bool := (56320 <=? u) && (u <=? 57343).

(** a high surrogate followed by a low one is one code point *)
Fixpoint combine_units (us : list N) : list N :=
  match us with
  | [] => []
  | u :: us1 =>
    if is_high u then
      match us1 with
      | v :: us2 =>
        if is_low v then (65536 + (u - 55296) * 1024 + (v - 56320)) :: combine_units us2
        else u :: combine_units us1
      | [] => [u]
      end
    else u :: combine_units us1
  end.

Definition parse_string (s : str) : option (str * str) :=
  match s with
  | c :: s1 =>
    if byte c =? 34 then
      match read_units s1 with
      | Some (us, r) => Some (utf8_encode (combine_units us), r)
      | None => None
      end
    else None
  | [] => None
  end.

Definition is_dig (c : ascii) : bool := (48 <=? byte c) && (byte c <=? 57).

Fixpoint span_digits (s : str) : str * str :=
  match s with
  | c :: s' => if is_dig c then let (d, r) := span_digits s' in (c :: d, r) else ([], s)
  | [] => ([], [])
  end.

Fixpoint parse_value (fuel : nat) (s : str) : option (json * str) :=
  match fuel with
  | O => None
  | S f =>
    match skip_ws s with
    | [] => None
    | c :: s1 =>
      if byte c =? 123 then                                          (* { *)
        match skip_ws s1 with
        | [] => None
        | c2 :: s2 =>
          if byte c2 =? 125 then Some (JObj [], s2)
          else match parse_members f (c2 :: s2) with
               | Some (l, r) => Some (JObj l, r)
               | None => None
               end
        end
      else if byte c =? 91 then                                      (* [ *)
        match skip_ws s1 with
        | [] => None
        | c2 :: s2 =>
          if byte c2 =? 93 then Some (JArr [], s2)
          else match parse_elems f (c2 :: s2) with
               | Some (l, r) => Some (JArr l, r)
               | None => None
               end
        end
      else if is_dig c then
        let (d, r) := span_digits (c :: s1) in Some (JInt (N_of_dec d), r)
      else None
    end
  end
with parse_members (fuel : nat) (s : str) : option (list (jkey * json) * str) :=
  match fuel with
  | O => None
  | S f =>
    match parse_string (skip_ws s) with
    | None => None
    | Some (k, r1) =>
      match skip_ws r1 with
      | [] => None
      | c :: r2 =>
        if byte c =? 58 then                                         (* : *)
          match parse_value f r2 with
          | None => None
          | Some (v, r3) =>
            match skip_ws r3 with
            | [] => None
            | c3 :: r4 =>
              if byte c3 =? 44 then                                  (* , *)
                match parse_members f r4 with
                | Some (l, r5) => Some ((JKs k, v) :: l, r5)
                | None => None
                end
              else if byte c3 =? 125 then Some ([(JKs k, v)], r4)    (* } *)
              else None
            end
          end
        else None
      end
    end
  end
with parse_elems (fuel : nat) (s : str) : option (list json * str) :=
  match fuel with
  | O => None
  | S f =>
    match parse_value f s with
    | None => None
    | Some (v, r3) =>
      match skip_ws r3 with
      | [] => None
      | c3 :: r4 =>
        if byte c3 =? 44 then
          match parse_elems f r4 with
          | Some (l, r5) => Some (v :: l, r5)
          | None => None
          end
        else if byte c3 =? 93 then Some ([v], r4)                    (* ] *)
        else None
      end
    end
  end.

(** the whole text is one value (trailing blanks allowed) *)
Definition parse_profile_json (t : str) : option json :=
  match parse_value (S (List.length t)) t with
  | Some (j, r) => match skip_ws r with [] => Some j | _ :: _ => None end
  | None => None
  end.

(** what a JSON reader can see of an object: every key is a string *)
Fixpoint stringify_keys (j : json) : json :=
  match j with
  | JInt n => JInt n
  | JObj l => JObj (map (fun kv : jkey * json => (JKs (key_str (fst kv)), stringify_keys (snd kv))) l)
  | JArr l => JArr (map stringify_keys l)
  end.

(** every string key of the object is well-formed UTF-8 *)
Fixpoint keys_ok (j : json) : bool :=
  match j with
  | JInt _ => true
  | JObj l => forallb (fun kv : jkey * json => utf8_ok (key_str (fst kv)) && keys_ok (snd kv)) l
  | JArr l => forallb keys_ok l
  end.

(** the figures of an object with the path that leads to each *)
Inductive jstep := SKey (k : str) | SIdx (i : nat).

Fixpoint leaves (j : json) : list (list jstep * N) :=
  match j with
  | JInt n => [([], n)]
  | JObj l =>
    flat_map (fun kv : jkey * json =>
                map (fun pn : list jstep * N => (SKey (key_str (fst kv)) :: fst pn, snd pn)) (leaves (snd kv))) l
  | JArr l =>
    (fix go (i : nat) (l : list json) : list (list jstep * N) :=
       match l with
       | [] => []
       | x :: l' => map (fun pn : list jstep * N => (SIdx i :: fst pn, snd pn)) (leaves x) ++ go (S i) l'
       end) O l
  end.
