(** * ShExC serialisation (shexer/io/shex/formater: ShexSerializer,
    BaseStatementSerializer, FixedPropChoiceStatementSerializer, the three
    frequency strategies).

    The text is produced byte for byte, except that the decimal rendering of a
    float ([str(p*100)], ["{:.2f}"], [int(p*100)]) is left as a placeholder
    [\x01 r:n:N \x02] / [\x01 s:a:b:N \x02] / [\x01 o \x02] that the harness
    fills in with the same Python expression before comparing. *)
From Coq Require Import List Ascii String ZArith NArith Bool.
From Shexer Require Import Lib.PyStr Lib.Dict Gen.Consts Model.Tokens Model.Freq Model.Shexing.
Import ListNotations.

Inductive freq_mode := FRatio | FAbs | FMixed.

Record sercfg := {
  z_ns : nsdict;
  z_tau : str;
  z_disable_comments : bool;
  z_mode : freq_mode
}.

Definition ph_open : str := [ascii_of_nat 1].
Definition ph_close : str := [ascii_of_nat 2].

Definition prob_placeholder (cnt : N) (p : prob) : str :=
  ph_open ++
  match p with
  | PRatio n => Str "r:" ++ dec_of_N n ++ Str ":" ++ dec_of_N cnt
  | PSum a b => Str "s:" ++ dec_of_N a ++ Str ":" ++ dec_of_N b ++ Str ":" ++ dec_of_N cnt
  | POne => Str "o"
  end ++ ph_close.

Definition abs_freq (nocc : N) : str :=
  dec_of_N nocc ++ Str " instance" ++ (if N.eqb nocc 1 then [] else Str "s") ++ Str ".".

Definition ratio_freq (cnt : N) (p : prob) : str := prob_placeholder cnt p ++ Str " %".

Definition serialize_frequency (m : freq_mode) (cnt : N) (p : prob) (nocc : N) : str :=
  match m with
  | FRatio => ratio_freq cnt p
  | FAbs => abs_freq nocc
  | FMixed => ratio_freq cnt p ++ Str " (" ++ slice_to (abs_freq nocc) (-1) ++ Str ")."
  end.

Definition card_repr (out_of_comment : bool) (c : card) : str :=
  match c with
  | CExact k => if out_of_comment && N.eqb k 1 then [] else Str "{" ++ dec_of_N k ++ Str "}"
  | CPlus => c_POSITIVE_CLOSURE
  | CStar => c_KLEENE_CLOSURE
  | COpt => c_OPT_CARDINALITY
  end.

Definition probability_representation (z : sercfg) (cnt : N) (p : prob) (nocc : N) : str :=
  c_COMMENT_INI ++ serialize_frequency (z_mode z) cnt p nocc.

Definition comment_text (z : sercfg) (cnt : N) (k : comment) : str :=
  match k with
  | KStmt false p nocc tok c =>
    probability_representation z cnt p nocc ++ Str " obj: " ++ tok ++ Str ". Cardinality: " ++ card_repr false c
  | KStmt true p nocc _ c =>
    probability_representation z cnt p nocc ++ Str " with cardinality " ++ card_repr false c
  | KRaw t => t
  end.

Fixpoint spaces (n : nat) : str := match n with O => [] | S m => " "%char :: spaces m end.

Definition final_spaces (line : str) : str :=
  if (c_TARGET_LINE_LENGHT - 10 <? pylen line)%Z then c_SPACES_GAP_FOR_FREQUENCY
  else spaces (Z.to_nat (c_TARGET_LINE_LENGHT - pylen line)).

Definition indent (n : nat) : str := List.concat (repeat c_SPACES_LEVEL_INDENTATION n).

Definition target_element (z : sercfg) (prop ty : str) : option str :=
  match tune_token (z_ns z) ty with
  | None => None
  | Some t => Some (if str_eqb prop (z_tau z) then Str "[" ++ t ++ Str "]" else t)
  end.

Fixpoint all_some {A} (l : list (option A)) : option (list A) :=
  match l with
  | [] => Some []
  | None :: _ => None
  | Some x :: l' => match all_some l' with Some xs => Some (x :: xs) | None => None end
  end.

(** lines (already indented, newline-terminated) of one statement; [None] = ValueError *)
Definition statement_lines (z : sercfg) (cnt : N) (s : stmt) (is_last : bool) : option (list str) :=
  let gap := c_SPACES_GAP_BETWEEN_TOKENS in
  let comments := map (fun k => indent 4 ++ comment_text z cnt k ++ Str (String (ascii_of_nat 10) EmptyString))
                      (s_comments s) in
  match tune_token (z_ns z) (s_prop s) with
  | None => None
  | Some prop =>
    if s_choice s then
      match all_some (map (target_element z (s_prop s)) (s_types s)) with
      | None => None
      | Some targets =>
        let line := (if s_inv s then Str "^" ++ gap else []) ++ prop ++ gap ++
                    join (gap ++ Str "OR" ++ gap) targets ++ gap ++
                    card_repr true (s_card s) ++ (if is_last then [] else Str ";") in
        Some ((indent 1 ++ line ++ Str (String (ascii_of_nat 10) EmptyString)) :: comments)
      end
    else
      match target_element z (s_prop s) (s_type s) with
      | None => None
      | Some target =>
        let base := (if s_inv s then Str "^" ++ gap else []) ++ prop ++ gap ++ target ++ gap ++
                    card_repr true (s_card s) ++ (if is_last then [] else Str ";") in
        let with_prob :=
          match s_card s with
          | CStar | COpt => base
          | _ => if z_disable_comments z then base
                 else base ++ final_spaces base ++
                      probability_representation z cnt (s_prob s) (s_nocc s)
          end in
        Some ((indent 1 ++ with_prob ++ Str (String (ascii_of_nat 10) EmptyString)) :: comments)
      end
  end.

Fixpoint statements_lines (z : sercfg) (cnt : N) (l : list stmt) : option (list str) :=
  match l with
  | [] => Some []
  | [s] => statement_lines z cnt s true
  | s :: l' =>
    match statement_lines z cnt s false, statements_lines z cnt l' with
    | Some a, Some b => Some (a ++ b)
    | _, _ => None
    end
  end.

Definition nl : str := Str (String (ascii_of_nat 10) EmptyString).

Definition instance_count (z : sercfg) (n : N) : str :=
  match z_mode z with
  | FRatio => []
  | _ => if z_disable_comments z then []
         else Str "   # " ++ dec_of_N n ++ Str " instance" ++ (if N.eqb n 1 then [] else Str "s") ++ Str "."
  end.

(** [min_iri] and [example] are the (already rendered) decorations of
    detect_minimal_iri / examples_mode; empty when those options are off *)
Definition shape_lines (z : sercfg) (sh : shape) (min_iri example : str) : option (list str) :=
  match prefixize_shape_name (z_ns z) (sh_name sh), statements_lines z (sh_n sh) (sh_stmts sh) with
  | Some name, Some body =>
    Some ([name ++ min_iri ++ instance_count z (sh_n sh) ++ nl; Str "{" ++ nl] ++ body ++
          [Str "}" ++ example ++ nl; nl; nl])
  | _, _ => None
  end.

Definition prefix_lines (ns : nsdict) : list str :=
  map (fun np : str * str => Str "PREFIX " ++ snd np ++ Str ": <" ++ fst np ++ Str ">" ++ nl) ns ++ [nl].

Fixpoint shapes_lines (z : sercfg) (l : list shape) : option (list str) :=
  match l with
  | [] => Some []
  | sh :: l' =>
    match shape_lines z sh [] [], shapes_lines z l' with
    | Some a, Some b => Some (a ++ b)
    | _, _ => None
    end
  end.

Definition render_lines (z : sercfg) (l : list shape) : option (list str) :=
  match shapes_lines z l with
  | Some ls => Some (prefix_lines (z_ns z) ++ ls)
  | None => None
  end.

Definition render (z : sercfg) (l : list shape) : option str :=
  match render_lines z l with Some ls => Some (List.concat ls) | None => None end.
