(** * Oracle-site model for property C19 (determinism across processes).

    Every place of [/repo/shexer] where a result could depend on something
    other than the arguments (Python [set] iteration order, which follows the
    per-process string hash seed, and the [random] module) is modelled here as
    a function that takes the nondeterministic choice as an EXPLICIT argument:
    an iteration order (a list that is some permutation of the set's elements)
    or an oracle [rand : nat -> str] (the i-th string drawn).  The theorems of
    [Props/C19.v] say when the result is independent of that argument.

    What is modelled (and tied to the source by [tools/scan_oracle_sites.py],
    which compares an AST scan of /repo/shexer with corpus/C19/sites.json):

    - [find_prefix]          utils/namespaces.py: find_adequate_prefix_for_shapes_namespaces
                             (priority list from [Gen.Consts], then random 3-letter candidates)
    - [remove_iteration]     core/profiling/class_profiler.py: _detect_shapes_to_remove +
                             _iteration_remove_empty_shapes (the set is ITERATED: deletion order)
    - [remove_gone]          core/shexing/class_shexer.py: _detect_shapes_to_remove +
                             _remove_shapes_without_statements/_remove_statements_to_gone_shapes
                             (the set is only tested for membership)
    - [yield_triples]        io/graph/yielder/remote/sgraph_from_selectors_triple_yielder.py:
                             the triples are fetched node by node in the order of
                             _collect_every_target_node (model/graph/abstract_sgraph.py:
                             yield_p_o_triples_of_target_nodes, depth 1).  After
                             notes/proposed_fixes/C19-target-node-order.diff that order is the
                             insertion order of a dict (a function of the arguments); before it
                             was [list(set)] (finding C19-F2, fixed)
    - [first_seen]           what downstream code observes of a triple sequence beyond its
                             multiset: the order in which keys first occur (insertion order of the
                             profile dictionaries, which the stable sort of equally frequent
                             constraints preserves)

    Not modelled here (external): rdflib's own iteration order and BNode ids. *)

From Coq Require Import List Ascii String ZArith Bool.
From Shexer Require Import Lib.PyStr Lib.Dict Gen.Consts.
Import ListNotations.

Definition nsd := dict str.        (* namespace IRI -> prefix, insertion-ordered *)
Definition values (d : nsd) : list str := map snd d.

(** ** find_adequate_prefix_for_shapes_namespaces *)

Fixpoint first_free (cands vals : list str) : option str :=
  match cands with
  | [] => None
  | c :: cs => if mem_str c vals then first_free cs vals else Some c
  end.

(** [candidate = get_random_string(3); while candidate in curr_prefixes: candidate = ...]
    [rand i] is the i-th string drawn; the loop need not terminate: fuel, [None] = hang *)
Fixpoint rand_loop (rand : nat -> str) (fuel i : nat) (vals : list str) : option str :=
  match fuel with
  | O => None
  | S f => if mem_str (rand i) vals then rand_loop rand f (S i) vals else Some (rand i)
  end.

Definition find_prefix (rand : nat -> str) (fuel : nat) (d : nsd) : option str :=
  match first_free c_PRIORITY_PREFIXES_FOR_SHAPES (values d) with
  | Some p => Some p
  | None => rand_loop rand fuel 0 (values d)
  end.

(** some priority prefix is not in use *)
Definition prio_free (d : nsd) : bool :=
  match first_free c_PRIORITY_PREFIXES_FOR_SHAPES (values d) with Some _ => true | None => false end.

(** ** ClassProfiler._iteration_remove_empty_shapes(target_shapes : set)

    profile: class -> property -> type key -> value.  [order] is the iteration
    order of the set.  Python: [if x in d: del d[x]] = [ddel] (no-op when absent). *)
Section RemoveProfile.
  Variable V : Type.
  Definition profile := dict (dict (dict V)).

  Definition del_all {W} (order : list str) (d : dict W) : dict W :=
    fold_left (fun acc k => ddel acc k) order d.

  Definition remove_iteration (order : list str) (p : profile) : profile :=
    del_all order
      (map (fun cp : str * dict (dict V) =>
              (fst cp, map (fun pt : str * dict V => (fst pt, del_all order (snd pt))) (snd cp))) p).
End RemoveProfile.
Arguments del_all {W}.
Arguments remove_iteration {V}.

(** ** ClassShexer._iteration_remove_empty_shapes(names : set): membership only.
    A shape is (name, statements); a statement is seen through its [st_type]. *)
Section RemoveShapes.
  Variable stmt : Type.
  Variable st_type : stmt -> str.
  Definition remove_gone (order : list str) (shapes : list (str * list stmt)) : list (str * list stmt) :=
    map (fun s : str * list stmt => (fst s, filter (fun x => negb (mem_str (st_type x) order)) (snd s)))
        (filter (fun s : str * list stmt => negb (mem_str (fst s) order)) shapes).
End RemoveShapes.
Arguments remove_gone {stmt}.

(** ** SgraphFromSelectorsTripleYielder: triples fetched in target-node order (depth 1) *)
Section Targets.
  Variable triple : Type.
  Variable po : str -> list triple.            (* yield_p_o_triples_of_an_s: endpoint / graph answer *)
  Variable obj_iri : triple -> option str.     (* the object when it is an unprefixed IRI *)
  Variable cls : str -> list triple.           (* yield_class_triples_of_an_s *)

  Definition direct (order : list str) : list triple := flat_map po order.
  Definition next_targets (order : list str) : list str :=
    flat_map (fun t => match obj_iri t with Some o => [o] | None => [] end) (direct order).
  (** [for a_node in new_targets: if a_node not in already_visited: class triples] -- the
      node is not added to the visited set there, duplicates are fetched again *)
  Definition last_level (order : list str) : list triple :=
    flat_map cls (filter (fun n => negb (mem_str n order)) (next_targets order)).
  Definition yield_triples (classes_at_last_level : bool) (order : list str) : list triple :=
    direct order ++ (if classes_at_last_level then last_level order else []).
End Targets.

(** ** what later stages see of the order of a sequence: first occurrences of a key *)
Fixpoint first_seen (keys : list str) : list str :=
  match keys with
  | [] => []
  | k :: ks => k :: filter (fun x => negb (str_eqb x k)) (first_seen ks)
  end.
