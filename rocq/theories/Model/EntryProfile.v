(** Entry points of the profile-text model ([Model/RunProfile.v]).

    input table: exactly the table of [Model.EntryPipe] (entries
    [profile_json], [profile_json_file]) resp. of [Model.EntryRunMap]
    (entries [profile_json_map], [profile_json_map_file]); the threshold fields
    are not read.
    output: [["ok"; text]] | [["err"; exception class]] | [["err"; stage; exception class]] (map runs).
    [json_roundtrip]: one row per string [s] -> [json_string s; "1"/"0" (utf8_ok);
    what [parse_string] reads back]: the string layer on arbitrary bytes. *)
From Coq Require Import List Ascii String ZArith NArith Bool.
From Shexer Require Import Lib.PyStr Lib.Dict Gen.Consts Spec.Rdf Model.Table Model.Tracker Model.Profiler
     Model.Run Model.EntryPipe Model.RunMap Model.EntryRunMap Model.ProfileJson Model.RunProfile.
From Shexer Require Model.Selectors Model.EntryC10.
Import ListNotations.

Definition profile_rows (r : str + rerr) : table :=
  match r with
  | inl text => [[Str "ok"; text]]
  | inr e => [[Str "err"; rerr_str e]]
  end.

Definition profile_map_rows (r : str + merr) : table :=
  match r with
  | inl text => [[Str "ok"; text]]
  | inr e => merr_rows e
  end.

Definition entry_profile_json (k : psink) (t : table) : table :=
  profile_rows (run_profile_json k (rcfg_of t) (graph_of t)).

Definition entry_profile_json_map (k : psink) (t : table) : table :=
  let '(sp, dis0) := tspec_of t in
  profile_map_rows (run_profile_json_map k (rcfg_of t) (EntryC10.dec_oracles t dis0) sp (graph_of t)).

Definition entry_json_roundtrip (t : table) : table :=
  map (fun r => let s := fld r 0 in
                [json_string s; bstr (utf8_ok s);
                 match parse_string (json_string s) with Some (x, []) => x | _ => Str "?" end;
                 match parse_profile_json (render_json 2 0 (JObj [(JKs s, JInt 1)])) with
                 | Some (JObj [(JKs x, JInt 1%N)]) => x
                 | _ => Str "?"
                 end]) t.

Definition entry_profile (name : str) (t : table) : option table :=
  if str_eqb name (Str "profile_json") then Some (entry_profile_json PString t)
  else if str_eqb name (Str "profile_json_file") then Some (entry_profile_json PFile t)
  else if str_eqb name (Str "profile_json_map") then Some (entry_profile_json_map PString t)
  else if str_eqb name (Str "profile_json_map_file") then Some (entry_profile_json_map PFile t)
  else if str_eqb name (Str "json_roundtrip") then Some (entry_json_roundtrip t)
  else None.
