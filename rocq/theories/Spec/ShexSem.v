(** * Spec/ShexSem.v -- ShEx semantics for the schemas sheXer emits (C03).

    Written from the property text, independent of the pipeline model: it
    uses only [Spec/Rdf.v] (nodes, triples) and strings.

    A schema is a list of labelled shapes; a shape is a list of triple
    constraints [tc] = (direction, predicate, value expression, cardinality).
    A typing [tau] is a finite set of (node, label) pairs.

    - [matches tau x ve]: neighbour [x] satisfies value expression [ve]
      (a shape reference [VRef l] is looked up in the typing);
    - [sat tau G n sh]: (a) for every constraint of [sh] the number of
      neighbours of [n] over (direction, predicate) that match its value
      expression satisfies its cardinality, and (b) every neighbour of [n]
      over a MENTIONED (direction, predicate) matches the value expression of
      some constraint of that (direction, predicate) -- shapes are closed for
      the predicates they mention (sheXer never writes EXTRA);
    - a typing is VALID when every pair (n, l) in it has [sat] for the shape
      labelled [l]; a node CONFORMS to a label when the pair belongs to some
      valid typing (coinductive / greatest-fixpoint reading: a cycle of
      references is fine as long as the typing as a whole is valid).

    Everything is an executable boolean function on finite graphs
    ([satb], [valid_typingb]); [explain] gives the first reason of a failure.
    The graph is a list of triples (RDF: [NoDup]); neighbours are counted
    with multiplicity, as the extraction sees them. *)
From Coq Require Import List Ascii String Arith Bool.
From Shexer Require Import Lib.PyStr Spec.Rdf.
Import ListNotations.

Definition label := str.

Inductive vexpr :=
| VDatatype (d : str)      (* literal with datatype IRI d *)
| VIri                     (* IRI *)
| VBnode                   (* BNode *)
| VNonLit                  (* NONLITERAL *)
| VRef (l : label)         (* @l *)
| VClass (c : str).        (* [c]: the value set holding the single IRI c *)

Inductive scard := KExact (k : nat) | KPlus | KStar | KOpt.

Record tc := TC { tc_inv : bool; tc_pred : str; tc_ve : vexpr; tc_card : scard }.

Definition shape_expr := list tc.
Definition schema := list (label * shape_expr).
Definition typing := list (node * label).

(** ** neighbours *)

(** values of [n] over predicate [p]: objects of its [p]-triples, or (inverse)
    subjects of the [p]-triples whose object is [n] *)
Definition nbrs (G : graph) (n : node) (inv : bool) (p : str) : list obj :=
  if inv
  then map (fun t => ON (ts t)) (filter (fun t => str_eqb (tp t) p && obj_eqb (to t) (ON n)) G)
  else map to (filter (fun t => str_eqb (tp t) p && node_eqb (ts t) n) G).

(** ** value expressions *)

Definition in_typing (tau : typing) (n : node) (l : label) : bool :=
  existsb (fun nl => node_eqb (fst nl) n && str_eqb (snd nl) l) tau.

Definition matches (tau : typing) (x : obj) (ve : vexpr) : bool :=
  match ve, x with
  | VDatatype d, OL _ dt => str_eqb dt d
  | VIri, ON n => nkind_eqb (nk n) KIri
  | VBnode, ON n => nkind_eqb (nk n) KBnode
  | VNonLit, ON _ => true
  | VRef l, ON n => in_typing tau n l
  | VClass c, ON n => nkind_eqb (nk n) KIri && str_eqb (nid n) c
  | _, _ => false
  end.

(** ** cardinalities *)

Definition card_ok (c : scard) (n : nat) : bool :=
  match c with
  | KExact k => Nat.eqb n k
  | KPlus => Nat.leb 1 n
  | KStar => true
  | KOpt => Nat.leb n 1
  end.

Definition count_matching (tau : typing) (G : graph) (n : node) (c : tc) : nat :=
  List.length (filter (fun x => matches tau x (tc_ve c)) (nbrs G n (tc_inv c) (tc_pred c))).

(** ** satisfaction of a shape by a node *)

Definition same_path (a b : tc) : bool :=
  Bool.eqb (tc_inv a) (tc_inv b) && str_eqb (tc_pred a) (tc_pred b).

(** (a) *)
Definition card_sat (tau : typing) (G : graph) (n : node) (c : tc) : bool :=
  card_ok (tc_card c) (count_matching tau G n c).

(** (b) for the path of constraint [c]: every neighbour matches some
    constraint of the same path *)
Definition closed_sat (tau : typing) (G : graph) (n : node) (sh : shape_expr) (c : tc) : bool :=
  forallb (fun x => existsb (fun c' => same_path c c' && matches tau x (tc_ve c')) sh)
          (nbrs G n (tc_inv c) (tc_pred c)).

Definition satb (tau : typing) (G : graph) (n : node) (sh : shape_expr) : bool :=
  forallb (card_sat tau G n) sh && forallb (closed_sat tau G n sh) sh.

(** ** typings *)

Fixpoint lookup (Sc : schema) (l : label) : option shape_expr :=
  match Sc with
  | [] => None
  | (l', sh) :: S' => if str_eqb l l' then Some sh else lookup S' l
  end.

Definition pair_ok (Sc : schema) (G : graph) (tau : typing) (nl : node * label) : bool :=
  match lookup Sc (snd nl) with
  | Some sh => satb tau G (fst nl) sh
  | None => false
  end.

Definition valid_typingb (Sc : schema) (G : graph) (tau : typing) : bool :=
  forallb (pair_ok Sc G tau) tau.

(** ** the declarative reading *)

Definition sat (tau : typing) (G : graph) (n : node) (sh : shape_expr) : Prop :=
  (forall c, In c sh -> card_ok (tc_card c) (count_matching tau G n c) = true) /\
  (forall c x, In c sh -> In x (nbrs G n (tc_inv c) (tc_pred c)) ->
     exists c', In c' sh /\ tc_inv c' = tc_inv c /\ tc_pred c' = tc_pred c /\ matches tau x (tc_ve c') = true).

Definition valid_typing (Sc : schema) (G : graph) (tau : typing) : Prop :=
  forall n l, In (n, l) tau -> exists sh, lookup Sc l = Some sh /\ sat tau G n sh.

Definition conforms (Sc : schema) (G : graph) (n : node) (l : label) : Prop :=
  exists tau, valid_typing Sc G tau /\ In (n, l) tau.

Lemma same_path_spec a b : same_path a b = true <-> tc_inv b = tc_inv a /\ tc_pred b = tc_pred a.
Proof.
  unfold same_path. rewrite andb_true_iff, Bool.eqb_true_iff, str_eqb_eq. intuition congruence.
Qed.

Lemma satb_sat tau G n sh : satb tau G n sh = true <-> sat tau G n sh.
Proof.
  unfold satb, sat. rewrite andb_true_iff, !forallb_forall. split.
  - intros [Ha Hb]. split.
    + intros c Hc. apply (Ha c Hc).
    + intros c x Hc Hx. specialize (Hb c Hc). unfold closed_sat in Hb.
      rewrite forallb_forall in Hb. specialize (Hb x Hx). apply existsb_exists in Hb.
      destruct Hb as [c' [Hc' H]]. apply andb_true_iff in H. destruct H as [Hp Hm].
      apply same_path_spec in Hp. exists c'. tauto.
  - intros [Ha Hb]. split.
    + intros c Hc. apply (Ha c Hc).
    + intros c Hc. unfold closed_sat. apply forallb_forall. intros x Hx.
      destruct (Hb c x Hc Hx) as [c' [Hc' [Hi [Hp Hm]]]]. apply existsb_exists. exists c'. split; [assumption|].
      apply andb_true_iff. split; [apply same_path_spec; tauto | assumption].
Qed.

Lemma valid_typingb_valid Sc G tau : valid_typingb Sc G tau = true <-> valid_typing Sc G tau.
Proof.
  unfold valid_typingb, valid_typing. rewrite forallb_forall. split.
  - intros H n l Hin. specialize (H (n, l) Hin). unfold pair_ok in H. cbn in H.
    destruct (lookup Sc l) as [sh|]; [|discriminate]. exists sh. split; [reflexivity | apply satb_sat; assumption].
  - intros H [n l] Hin. destruct (H n l Hin) as [sh [Hl Hs]]. unfold pair_ok. cbn. rewrite Hl. apply satb_sat; assumption.
Qed.

(** every pair of a valid typing conforms *)
Lemma valid_typingb_conforms Sc G tau n l :
  valid_typingb Sc G tau = true -> In (n, l) tau -> conforms Sc G n l.
Proof. intros H Hin. exists tau. split; [apply valid_typingb_valid; assumption | assumption]. Qed.

(** ** greatest valid sub-typing by iterated removal (used by the oracle to
    tell apart the pairs that fail by themselves from those that fail only
    through a reference to a failing pair) *)
Fixpoint refine (fuel : nat) (Sc : schema) (G : graph) (tau : typing) : typing :=
  match fuel with
  | O => tau
  | S f =>
    let tau' := filter (pair_ok Sc G tau) tau in
    if Nat.eqb (List.length tau') (List.length tau) then tau else refine f Sc G tau'
  end.

Lemma filter_len_le {A} (p : A -> bool) l : List.length (filter p l) <= List.length l.
Proof. induction l as [|x l IH]; cbn; [apply le_n|]. destruct (p x); cbn; [apply le_n_S | apply le_S]; exact IH. Qed.

Lemma filter_length_eq {A} (p : A -> bool) l : List.length (filter p l) = List.length l -> forallb p l = true.
Proof.
  induction l as [|x l IH]; cbn; [reflexivity|].
  destruct (p x) eqn:E; cbn; intros H.
  - apply IH. congruence.
  - pose proof (filter_len_le p l). rewrite H in H0. exfalso. apply (Nat.nle_succ_diag_l _ H0).
Qed.

Lemma refine_valid Sc G : forall fuel tau, List.length tau <= fuel -> valid_typingb Sc G (refine fuel Sc G tau) = true.
Proof.
  induction fuel as [|f IH]; intros tau Hlen.
  - destruct tau; [reflexivity | inversion Hlen].
  - cbn. destruct (Nat.eqb _ _) eqn:E.
    + apply Nat.eqb_eq in E. apply filter_length_eq in E. exact E.
    + apply IH. apply Nat.eqb_neq in E. pose proof (filter_len_le (pair_ok Sc G tau) tau).
      apply Nat.lt_succ_r. apply Nat.lt_le_trans with (List.length tau); [|assumption].
      apply Nat.le_neq. split; assumption.
Qed.

(** ** first reason of a failure *)

Inductive reason :=
| RNoShape
| RCard (c : tc) (n : nat)             (* constraint c has n matching values *)
| RUnmatched (c : tc) (x : obj).       (* value x over the path of c matches no constraint *)

Definition explain (Sc : schema) (G : graph) (tau : typing) (nl : node * label) : option reason :=
  match lookup Sc (snd nl) with
  | None => Some RNoShape
  | Some sh =>
    match List.find (fun c => negb (card_sat tau G (fst nl) c)) sh with
    | Some c => Some (RCard c (count_matching tau G (fst nl) c))
    | None =>
      match List.find (fun c => negb (closed_sat tau G (fst nl) sh c)) sh with
      | Some c =>
        match List.find (fun x => negb (existsb (fun c' => same_path c c' && matches tau x (tc_ve c')) sh))
                   (nbrs G (fst nl) (tc_inv c) (tc_pred c)) with
        | Some x => Some (RUnmatched c x)
        | None => None
        end
      | None => None
      end
    end
  end.

Lemma find_none_forallb {A} (p : A -> bool) l : List.find (fun x => negb (p x)) l = None <-> forallb p l = true.
Proof.
  induction l as [|x l IH]; cbn; [tauto|].
  destruct (p x); cbn; [exact IH | split; discriminate].
Qed.

Lemma explain_none Sc G tau nl : explain Sc G tau nl = None <-> pair_ok Sc G tau nl = true.
Proof.
  unfold explain, pair_ok, satb. destruct (lookup Sc (snd nl)) as [sh|]; [|split; discriminate].
  destruct (List.find (fun c => negb (card_sat tau G (fst nl) c)) sh) eqn:E1.
  - split; [discriminate|]. intros H. apply andb_true_iff in H. destruct H as [H _].
    apply find_none_forallb in H. congruence.
  - apply find_none_forallb in E1. rewrite E1. cbn.
    destruct (List.find (fun c => negb (closed_sat tau G (fst nl) sh c)) sh) eqn:E2.
    + apply find_some in E2. destruct E2 as [Hin Hc]. unfold closed_sat in Hc.
      destruct (List.find _ (nbrs _ _ _ _)) eqn:E3.
      * split; [discriminate|]. intros H. rewrite forallb_forall in H. specialize (H t Hin).
        unfold closed_sat in H. rewrite H in Hc. discriminate.
      * apply find_none_forallb in E3. rewrite E3 in Hc. discriminate.
    + apply find_none_forallb in E2. rewrite E2. tauto.
Qed.
