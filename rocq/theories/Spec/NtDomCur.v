(** * The domain and the root causes that apply to the reader /repo has now
    ([Gen.Consts.nt_fixed_tok]: tokeniser repairs present or not; [nt_fixed_dlt]: typing repair;
    [nt_tok_end_at_hash]: a token also ends at '#', notes/proposed_fixes/C06-comment-glued-to-dot.diff). *)
From Coq Require Import List Ascii String ZArith Bool.
From Shexer Require Import Lib.PyStr Gen.Consts Spec.NtSyntax Spec.NtDom.
Import ListNotations.

Definition C06_dom_cur (t : striple) (l : layout) : bool :=
  if nt_fixed_tok then (if nt_fixed_dlt then C06_dom_fx3 nt_tok_end_at_hash t l else C06_dom_fx t l) else C06_dom t l.

Definition root_causes_cur (t : striple) (l : layout) : list bool :=
  if nt_fixed_tok then (if nt_fixed_dlt then root_causes_fx3 nt_tok_end_at_hash t l else root_causes_fx t l)
  else root_causes t l.

(** lines of a document ([nt_skips_comment_lines]: blank lines and comment lines are skipped,
    notes/proposed_fixes/C06-comments-and-blank-lines.diff); raw string / file *)
Definition dline_dom_cur (d : dline) : bool :=
  match d with
  | DStmt t l => C06_dom_cur t l
  | _ => nt_skips_comment_lines || negb (rc_F9 d)
  end.

Definition dline_dom_file_cur (d : dline) : bool :=
  match d with
  | DStmt t l => C06_dom_cur t l
  | _ => nt_skips_comment_lines || negb (rc_F9_file d)
  end.
