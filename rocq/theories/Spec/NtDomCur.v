(** * The domain and the root causes that apply to the reader /repo has now
    ([Gen.Consts.nt_fixed_tok]: tokeniser repairs present or not; [nt_fixed_dlt]: typing repair). *)
From Coq Require Import List Ascii String ZArith Bool.
From Shexer Require Import Lib.PyStr Gen.Consts Spec.NtSyntax Spec.NtDom.
Import ListNotations.

Definition C06_dom_cur (t : striple) (l : layout) : bool :=
  if nt_fixed_tok then (if nt_fixed_dlt then C06_dom_fx2 t l else C06_dom_fx t l) else C06_dom t l.

Definition root_causes_cur (t : striple) (l : layout) : list bool :=
  if nt_fixed_tok then (if nt_fixed_dlt then root_causes_fx2 t l else root_causes_fx t l) else root_causes t l.
