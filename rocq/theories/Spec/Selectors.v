(** * What a target specification denotes on an abstract graph (C10).

    Written from the property text, independently of the model:
    "for target_classes / file_target_classes / all_classes_mode, the subjects
    linked to the class by the configured instantiation property (class names
    accepted as full, <bracketed> or prefixed IRIs); for shape maps, the single
    node, the nodes matching a {FOCUS p o} / {s p FOCUS} pattern with '_'
    wildcards and 'a', or the answers of the SPARQL selector; and both together
    when all_classes_mode is combined with a shape map."

    The second half of the file gives the concrete syntax in which a user
    writes such a specification (class names, shape maps in the fixed and in
    the JSON syntax). *)
From Coq Require Import List Ascii String Bool.
From Shexer Require Import Lib.PyStr Spec.Rdf.
Import ListNotations.

Definition rdf_type : str := Str "http://www.w3.org/1999/02/22-rdf-syntax-ns#type".

(** ** IRIs as the user may write them *)

Inductive iriref :=
| Full (i : str)          (* http://e/C     (class names and the instantiation property only) *)
| Angle (i : str)         (* <http://e/C> *)
| Pref (p l : str).       (* ex:C *)

(** the user's namespaces dictionary: pairs (namespace, prefix) *)
Definition nsdict := list (str * str).

Definition ns_of (ns : nsdict) (p : str) : option str :=
  option_map fst (List.find (fun e => str_eqb (snd e) p) ns).

Definition resolve (ns : nsdict) (r : iriref) : option str :=
  match r with
  | Full i => Some i
  | Angle i => Some i
  | Pref p l => option_map (fun n => n ++ l) (ns_of ns p)
  end.

Definition iri_node (i : str) : node := Node KIri i.

(** ** class targets *)

(** [s] is linked to class [c] by the instantiation property [tau] *)
Definition instance_of (G : graph) (tau c : str) (s : node) : Prop :=
  In (T s tau (ON (iri_node c))) G.

(** ** shape-map selectors *)

(** a position of a FOCUS pattern other than FOCUS itself *)
Inductive fterm :=
| FWild                   (* _ *)
| FA                      (* a *)
| FIri (r : iriref).      (* <iri> or prefixed *)

Definition term_matches (ns : nsdict) (f : fterm) (x : obj) : Prop :=
  match f with
  | FWild => True
  | FA => x = ON (iri_node rdf_type)
  | FIri r => exists i, resolve ns r = Some i /\ x = ON (iri_node i)
  end.

(** the predicate position admits no wildcard *)
Definition pred_matches (ns : nsdict) (f : fterm) (p : str) : Prop :=
  match f with
  | FWild => False
  | FA => p = rdf_type
  | FIri r => resolve ns r = Some p
  end.

Inductive selector :=
| SelNode (r : iriref)             (* a single node *)
| SelFocusSubj (p o : fterm)       (* {FOCUS p o} *)
| SelFocusObj (s p : fterm)        (* {s p FOCUS} *)
| SelSparql (q : str).             (* SPARQL "q" *)

(** [ans q] = the terms the SPARQL engine answers for [q] on this graph (not
    modelled: rdflib evaluates it; monitored by the check) *)
Definition selects (ns : nsdict) (ans : str -> list obj) (G : graph) (sel : selector) (x : obj) : Prop :=
  match sel with
  | SelNode r => exists i, resolve ns r = Some i /\ x = ON (iri_node i)
  | SelFocusSubj p o =>
    exists t, In t G /\ x = ON (ts t) /\ pred_matches ns p (tp t) /\ term_matches ns o (to t)
  | SelFocusObj s p =>
    exists t, In t G /\ x = to t /\ term_matches ns s (ON (ts t)) /\ pred_matches ns p (tp t)
  | SelSparql q => In x (ans q)
  end.

Record item := { it_sel : selector; it_label : iriref }.

(** ** target specifications *)

Record target := {
  t_ns : nsdict;
  t_tau : iriref;                        (* instantiation_property *)
  t_classes : option (list iriref);      (* target_classes / lines of file_target_classes *)
  t_all : bool;                          (* all_classes_mode *)
  t_items : option (list item)           (* shape map *)
}.

(** what a shape stands for: a class of the graph or a label of the shape map.
    With all_classes_mode and a shape map both kinds are present side by side
    (the union of the property text); a class and a label are different shapes
    even when their IRIs coincide. *)
Inductive skey := KClass (c : str) | KLabel (l : str).

Definition class_targeted (tg : target) (c : str) : Prop :=
  t_all tg = true \/
  exists l r, t_classes tg = Some l /\ In r l /\ resolve (t_ns tg) r = Some c.

Definition denote (tg : target) (ans : str -> list obj) (G : graph) (S : skey) (x : obj) : Prop :=
  match S with
  | KClass c =>
    exists tau s, resolve (t_ns tg) (t_tau tg) = Some tau /\ x = ON s /\
                  instance_of G tau c s /\ class_targeted tg c
  | KLabel l =>
    exists its it, t_items tg = Some its /\ In it its /\
                   resolve (t_ns tg) (it_label it) = Some l /\
                   selects (t_ns tg) ans G (it_sel it) x
  end.

(** ** concrete syntax *)

Definition show_ref (r : iriref) : str :=
  match r with
  | Full i => i
  | Angle i => Str "<" ++ i ++ Str ">"
  | Pref p l => p ++ Str ":" ++ l
  end.

Definition show_fterm (f : fterm) : str :=
  match f with
  | FWild => Str "_"
  | FA => Str "a"
  | FIri r => show_ref r
  end.

Definition show_selector (sel : selector) : str :=
  match sel with
  | SelNode r => show_ref r
  | SelFocusSubj p o => Str "{FOCUS " ++ show_fterm p ++ Str " " ++ show_fterm o ++ Str "}"
  | SelFocusObj s p => Str "{" ++ show_fterm s ++ Str " " ++ show_fterm p ++ Str " FOCUS}"
  | SelSparql q => Str "SPARQL '" ++ q ++ Str "'"
  end.

(** fixed syntax: one [selector@label] per line, separated by commas *)
Definition show_item (it : item) : str :=
  show_selector (it_sel it) ++ Str "@" ++ show_ref (it_label it).

Definition show_fixed (its : list item) : str :=
  join (Str "," ++ [ascii_of_nat 10]) (map show_item its).

(** JSON syntax: the decoded list of {"nodeSelector": .., "shapeLabel": ..} *)
Definition show_json (its : list item) : list (str * str) :=
  map (fun it => (show_selector (it_sel it), show_ref (it_label it))) its.

(** file_target_classes: one class name per line *)
Definition show_class_file (l : list iriref) : str :=
  join [ascii_of_nat 10] (map show_ref l).
