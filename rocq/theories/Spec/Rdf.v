(** * Abstract RDF as the triple yielders deliver it.

    A node is what [shexer.model.IRI] / [BNode] carry: a kind and the string
    returned by [.iri] (blank-node identifiers keep their [_:] prefix, so the
    string alone identifies the node for every yielder-produced graph).  A
    literal carries its content and its [elem_type] (datatype IRI). *)
From Coq Require Import List Ascii String ZArith Bool.
From Shexer Require Import Lib.PyStr.
Import ListNotations.

Inductive nkind := KIri | KBnode.

Definition nkind_eqb (a b : nkind) : bool :=
  match a, b with KIri, KIri | KBnode, KBnode => true | _, _ => false end.

Record node := Node { nk : nkind; nid : str }.

Inductive obj :=
| ON (n : node)
| OL (content dt : str).

Record triple := T { ts : node; tp : str; to : obj }.

Definition graph := list triple.   (* in the order the yielder delivers them *)

Definition node_eqb (a b : node) : bool := nkind_eqb (nk a) (nk b) && str_eqb (nid a) (nid b).

Definition obj_eqb (a b : obj) : bool :=
  match a, b with
  | ON x, ON y => node_eqb x y
  | OL c1 d1, OL c2 d2 => str_eqb c1 c2 && str_eqb d1 d2
  | _, _ => false
  end.

Definition triple_eqb (a b : triple) : bool :=
  node_eqb (ts a) (ts b) && str_eqb (tp a) (tp b) && obj_eqb (to a) (to b).

Lemma nkind_eqb_eq a b : nkind_eqb a b = true <-> a = b.
Proof. destruct a, b; cbn; split; congruence. Qed.

Lemma node_eqb_eq a b : node_eqb a b = true <-> a = b.
Proof.
  destruct a as [k1 i1], b as [k2 i2]; unfold node_eqb; cbn.
  rewrite andb_true_iff, nkind_eqb_eq, str_eqb_eq. split; [intros [-> ->]; reflexivity | intros H; inversion H; auto].
Qed.

Lemma obj_eqb_eq a b : obj_eqb a b = true <-> a = b.
Proof.
  destruct a, b; cbn; try (split; congruence).
  - rewrite node_eqb_eq. split; congruence.
  - rewrite andb_true_iff, !str_eqb_eq. split; [intros [-> ->]; reflexivity | intros H; inversion H; auto].
Qed.

Lemma triple_eqb_eq a b : triple_eqb a b = true <-> a = b.
Proof.
  destruct a as [s1 p1 o1], b as [s2 p2 o2]; unfold triple_eqb; cbn.
  rewrite !andb_true_iff, node_eqb_eq, str_eqb_eq, obj_eqb_eq.
  split; [intros [[-> ->] ->]; reflexivity | intros H; inversion H; auto].
Qed.

(** what the code calls [.elem_type]: the element type string of an object *)
Definition is_node (o : obj) : bool := match o with ON _ => true | OL _ _ => false end.
