(** * Reference definitions for the SHACL half of property C05, over an
    abstract RDF graph (written from the property text and the SHACL
    vocabulary; independent of [Model/] and of [Gen/Consts.v]: every IRI is
    spelled out through [SH] / [RDFNS] of Spec/ConstraintSpec.v).

    A graph is a list of triples; what is stated below never depends on the
    order or on repetitions of a triple with an IRI subject other than through
    [objects] (the objects of one subject and predicate, in list order).

    - S1 [node_objects_declared]: every object of an [sh:node] arc is the IRI
      of one of the given labels and is typed [sh:NodeShape] in the graph;
    - S2 [property_shapes_one_path]: every property shape (object of
      [sh:property] from a node shape) has exactly one path in the accepted
      encoding: exactly one [sh:path] arc and no nested [sh:property], or no
      [sh:path] and exactly one nested [sh:property] whose node has exactly
      one [sh:inversePath] arc;
    - S3 [node_shapes_exact]: the nodes typed [sh:NodeShape] are exactly the
      given shape IRIs, each typed once, each with exactly one
      [sh:targetClass], its class. *)
From Coq Require Import List Ascii String Bool Arith.
From Shexer Require Import Lib.PyStr Spec.ConstraintSpec Model.Shexing.
Import ListNotations.

(** ** terms and triples.  A blank node is identified by its position in
    the tree of [_add_triple] calls (index of the shape, index of the arc
    below it, index of the arc below that, ...); labels are never compared. *)
Inductive term :=
| TIri (i : str)
| TLit (lex dt : str)          (* [dt = []]: a literal without datatype *)
| TBlank (path : list nat).

Definition rdf_triple : Type := term * str * term.

Definition tr_subj (t : rdf_triple) : term := fst (fst t).
Definition tr_pred (t : rdf_triple) : str := snd (fst t).
Definition tr_obj (t : rdf_triple) : term := snd t.

Fixpoint path_eqb (a b : list nat) : bool :=
  match a, b with
  | [], [] => true
  | x :: a', y :: b' => Nat.eqb x y && path_eqb a' b'
  | _, _ => false
  end.

Definition term_eqb (a b : term) : bool :=
  match a, b with
  | TIri x, TIri y => str_eqb x y
  | TLit l d, TLit l' d' => str_eqb l l' && str_eqb d d'
  | TBlank p, TBlank q => path_eqb p q
  | _, _ => false
  end.

(** the objects of subject [s] and predicate [p], in list order *)
Definition objects (g : list rdf_triple) (s : term) (p : str) : list term :=
  map tr_obj (filter (fun t => term_eqb (tr_subj t) s && str_eqb (tr_pred t) p) g).

Definition node_shape (g : list rdf_triple) (n : term) : Prop :=
  In (n, RDFNS "type", TIri (SH "NodeShape")) g.

(** ** S1 *)
Definition node_objects_declared (g : list rdf_triple) (labels : list str) : Prop :=
  forall s o, In (s, SH "node", o) g ->
    exists u, In u labels /\ o = TIri u /\ node_shape g (TIri u).

(** ** S2 *)
Definition one_path (g : list rdf_triple) (b : term) : Prop :=
  (exists p, objects g b (SH "path") = [TIri p] /\ objects g b (SH "property") = []) \/
  (objects g b (SH "path") = [] /\
   exists n p, objects g b (SH "property") = [n] /\ objects g n (SH "inversePath") = [TIri p]).

Definition property_shapes_one_path (g : list rdf_triple) : Prop :=
  forall n b, node_shape g n -> In (n, SH "property", b) g -> one_path g b.

(** ** S3: [shapes] = (IRI, class) of every shape of the list *)
Definition node_shapes_exact (g : list rdf_triple) (shapes : list (str * str)) : Prop :=
  (forall n, node_shape g n <-> exists u c, In (u, c) shapes /\ n = TIri u) /\
  (forall u c, In (u, c) shapes ->
     objects g (TIri u) (RDFNS "type") = [TIri (SH "NodeShape")] /\
     objects g (TIri u) (SH "targetClass") = [TIri c]).

(** the (IRI, class) pairs of a shape list: a shape's label is [%<IRI>] *)
Definition names_iris (shapes : list shape) (L : list (str * str)) : Prop :=
  Forall2 (fun sh uc => sh_name sh = Str "%<" ++ fst uc ++ Str ">" /\ sh_class sh = snd uc) shapes L.

(** the same when the class key of a shape is not the IRI its [sh:targetClass] names but
    denotes it through [f] (a shape-map label is kept as [<iri>] by the extraction, and the
    repaired serialiser removes the corners): [names_iris] is [names_iris_by (fun c => c)] *)
Definition names_iris_by (f : str -> str) (shapes : list shape) (L : list (str * str)) : Prop :=
  Forall2 (fun sh uc => sh_name sh = Str "%<" ++ fst uc ++ Str ">" /\ f (sh_class sh) = snd uc) shapes L.

(** ** computable versions (used on the concrete witnesses of Props/C05.v and
    by the harness's model-side self check) *)
Definition node_objects_declaredb (g : list rdf_triple) (labels : list str) : bool :=
  forallb (fun t : rdf_triple =>
             negb (str_eqb (tr_pred t) (SH "node")) ||
             match tr_obj t with
             | TIri u => mem_str u labels &&
                         existsb (fun t' : rdf_triple =>
                                    term_eqb (tr_subj t') (TIri u) && str_eqb (tr_pred t') (RDFNS "type") &&
                                    term_eqb (tr_obj t') (TIri (SH "NodeShape"))) g
             | _ => false
             end) g.

Definition one_pathb (g : list rdf_triple) (b : term) : bool :=
  match objects g b (SH "path"), objects g b (SH "property") with
  | [TIri _], [] => true
  | [], [n] => match objects g n (SH "inversePath") with [TIri _] => true | _ => false end
  | _, _ => false
  end.

Definition node_shapeb (g : list rdf_triple) (n : term) : bool :=
  existsb (fun t : rdf_triple => term_eqb (tr_subj t) n && str_eqb (tr_pred t) (RDFNS "type") &&
                                 term_eqb (tr_obj t) (TIri (SH "NodeShape"))) g.

Definition property_shapes_one_pathb (g : list rdf_triple) : bool :=
  forallb (fun t : rdf_triple =>
             negb (str_eqb (tr_pred t) (SH "property") && node_shapeb g (tr_subj t)) || one_pathb g (tr_obj t)) g.
