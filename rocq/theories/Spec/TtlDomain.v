(** * C07: the part of the dialect on which the current reader is right.

    [C07_rcs ls d] lists the *root causes* (one constructor of [rc] per known
    finding) that a laid-out document exhibits; [C07_dom ls d] says there is
    none.  Everything here is written over the abstract syntax and the layout
    of [Spec.TtlSyntax] -- no model function is used. *)
From Coq Require Import List Ascii String ZArith Bool.
From Shexer Require Import Lib.PyStr Spec.Rdf Spec.TtlSyntax.
Import ListNotations.

Inductive rc :=
| RC_ini_base          (* <#f> / </p> against @base: the first character is dropped *)
| RC_concat            (* relative reference resolved by plain concatenation with the base *)
| RC_abs_test          (* "absolute" is tested as startswith("http") *)
| RC_double_base       (* a base not starting with "http" is applied twice *)
| RC_replace_all       (* pfx: replaced at every occurrence in a prefixed name *)
| RC_dt_custom_prefix  (* datatype written with a prefix other than xsd/rdf/dt/geo: raises *)
| RC_dt_hardwired      (* the four prefixes / namespaces are searched as text in the whole token *)
| RC_lang_marker       (* '@' in the datatype IRI: typed rdf:langString *)
| RC_typed_marker      (* quote ^^ inside the lexical form *)
| RC_quote_regex       (* comment scan misses the quote at column 0, of "" and after \\ *)
| RC_first_literal     (* comment scan protects only the first literal of a line *)
| RC_comment_quote     (* quotes in comments are scanned as literal delimiters *)
| RC_dir_unresolved    (* IRI of @prefix/@base never resolved against the base *)
| RC_ws_in_literal     (* tab / repeated blank inside a lexical form (content altered; not a finding) *)
| RC_long_number.      (* integer of more than 300 digits (float() overflow; not modelled) *)

Definition rc_eqb (a b : rc) : bool :=
  match a, b with
  | RC_ini_base, RC_ini_base | RC_concat, RC_concat | RC_abs_test, RC_abs_test
  | RC_double_base, RC_double_base | RC_replace_all, RC_replace_all
  | RC_dt_custom_prefix, RC_dt_custom_prefix | RC_dt_hardwired, RC_dt_hardwired
  | RC_lang_marker, RC_lang_marker | RC_typed_marker, RC_typed_marker
  | RC_quote_regex, RC_quote_regex | RC_first_literal, RC_first_literal
  | RC_comment_quote, RC_comment_quote | RC_dir_unresolved, RC_dir_unresolved
  | RC_ws_in_literal, RC_ws_in_literal | RC_long_number, RC_long_number => true
  | _, _ => false
  end.

Definition when (b : bool) (x : rc) : list rc := if b then [x] else [].

Definition http : str := Str "http".

(** ** token level, in the environment in force *)

(** an IRI reference in node position *)
Definition rc_ref (e : env) (r : iri_ref) : list rc :=
  match r with
  | IAbs i => when (is_some (e_base e) && negb (prefixb http i)) RC_abs_test
  | IRel x =>
    match e_base e with
    | None => []
    | Some b =>
      when (first_ok (fun c => in_str c "#/") x && negb (Nat.eqb (List.length x) 0)) RC_ini_base ++
      when (prefixb http x) RC_abs_test ++
      when (negb (prefixb http b)) RC_double_base ++
      when (match resolve b x with Some u => negb (str_eqb u (b ++ x)) | None => false end) RC_concat
    end
  | IPre p l =>
    when (contains (p ++ Str ":") l) RC_replace_all ++
    when (str_eqb (render_ref r) (Str "rdf:type") &&
          negb (match lookup p (e_prefixes e) with Some ns => str_eqb ns rdf_ns | None => true end)) RC_dt_hardwired
  end.

(** the prefixes the literal typing knows, with the namespaces it wires to them *)
Definition wired : list (str * str) :=
  [(Str "xsd", xsd_ns); (Str "rdf", rdf_ns);
   (Str "dt", Str "http://dbpedia.org/datatype/"); (Str "geo", Str "http://www.opengis.net/ont/geosparql#")].

(** first wired prefix whose text [pfx:] occurs anywhere in the token *)
Fixpoint first_wired (l : list (str * str)) (tok : str) : option (str * str) :=
  match l with
  | [] => None
  | (p, ns) :: l' => if contains (p ++ Str ":") tok then Some (p, ns) else first_wired l' tok
  end.

Definition rc_lit (e : env) (lex : str) (sfx : lit_suffix) : list rc :=
  let tok := render_obj (OLit lex sfx) in
  when (contains (Str """^^") (Str """" ++ lex)) RC_typed_marker ++
  when (contains [ascii_of_nat 9] lex || contains (Str "  ") lex) RC_ws_in_literal ++
  match sfx with
  | LPlain | LLang _ => []
  | LTyped r =>
    when (contains (Str "@") (render_ref r)) RC_lang_marker ++
    match r, first_wired wired tok with
    | IPre p l, None => [RC_dt_custom_prefix]
    | IPre p l, Some (q, ns) =>
      when (negb (str_eqb p q && Z.eqb (find (q ++ Str ":") tok) (len lex + 4) &&
                  match lookup p (e_prefixes e) with Some ns' => str_eqb ns ns' | None => false end))
           RC_dt_hardwired
    | _, Some _ => [RC_dt_hardwired]
    | IAbs i, None =>
      when (negb (existsb (fun w => contains (snd w) tok) wired) &&
            is_some (e_base e) && negb (prefixb http i)) RC_abs_test
    | IRel x, None =>
      when (existsb (fun w => contains (snd w) tok) wired) RC_dt_hardwired ++
      match e_base e with
      | None => []
      | Some b =>
        when (prefixb http x) RC_abs_test ++
        when (match resolve b x with Some u => negb (str_eqb u (b ++ x)) | None => false end) RC_concat
      end
    end
  end.

Definition rc_subj (e : env) (s : subj) : list rc :=
  match s with SIri r => rc_ref e r | SBn _ => [] end.
Definition rc_pred (e : env) (p : pred) : list rc :=
  match p with PA => [] | PIri r => rc_ref e r end.
Definition rc_obj (e : env) (o : object) : list rc :=
  match o with
  | OIri r => rc_ref e r
  | OBn _ => []
  | OLit lex sfx => rc_lit e lex sfx
  | OInt d => when (Nat.ltb 300 (List.length d)) RC_long_number
  end.

Definition rc_group (e : env) (g : group) : list rc :=
  rc_subj e (g_subj g) ++
  flat_map (fun po => rc_pred e (fst po) ++ flat_map (rc_obj e) (snd po)) (g_pos g).

Definition rc_dir (d : directive) : list rc :=
  match d with
  | DPrefix _ (IAbs _) | DBase (IAbs _) => []
  | _ => [RC_dir_unresolved]
  end.

Fixpoint rc_doc (e : env) (d : doc) : list rc :=
  match d with
  | [] => []
  | IDir x :: d' => rc_dir x ++ match sem_dir e x with Some e' => rc_doc e' d' | None => [] end
  | IGrp g :: d' => rc_group e g ++ rc_doc e d'
  end.

(** ** layout level *)

Definition lex_of (t : atok) : option str :=
  match t with AObj (OLit lex _) => Some lex | _ => None end.

Fixpoint lexes (ts : list atok) : list str :=
  match ts with
  | [] => []
  | t :: ts' => match lex_of t with Some l => l :: lexes ts' | None => lexes ts' end
  end.

(** blank-# in a lexical form; a tab before the # becomes a blank when the line is cleaned *)
Definition hash_in (lex : str) : bool := contains (Str " #") lex || contains [ascii_of_nat 9; chr "#"] lex.

(** a quote preceded by a backslash in a comment: on a line without string
    literal the comment scan then finds no quote position at all *)
Definition escaped_quote_in (cmt : option str) : bool :=
  match cmt with Some t => contains (Str "\""") t | None => false end.

Definition rc_line (l : line) : list rc :=
  match l with
  | LDir _ _ _ cmt => when (escaped_quote_in cmt) RC_comment_quote
  | LToks _ [] cmt =>
    match cmt with
    | Some t => when (contains (Str """") t && contains (Str "#") t) RC_comment_quote
    | None => []
    end
  | LToks _ (tg :: toks) cmt =>
    let ts := fst tg :: map fst toks in
    let ls := lexes ts in
    if negb (is_some cmt) && negb (existsb hash_in ls) then []
    else match ls with
         | [] => when (escaped_quote_in cmt) RC_comment_quote
         | l1 :: rest =>
           when (is_some (lex_of (fst tg)) || Nat.eqb (List.length l1) 0 ||
                 negb (last_ok (fun c => negb (Ascii.eqb c (chr "\"))) l1)) RC_quote_regex ++
           when (existsb hash_in rest) RC_first_literal
         end
  end.

Definition C07_rcs (ls : list line) (d : doc) : list rc := rc_doc env0 d ++ flat_map rc_line ls.

(** the proved domain: no root cause present *)
Definition C07_dom (ls : list line) (d : doc) : bool :=
  match C07_rcs ls d with [] => true | _ => false end.

(** ** the additional restrictions of the partial theorem [C07_partial] *)

(** lines on which [_clean_line] is PROVED right (the remaining
    case -- a string literal and a comment, or blank-# inside a literal, on one
    line -- is covered by the correspondence check only) *)
Definition line_simple (l : line) : bool :=
  match l with
  | LToks _ toks cmt =>
    match lexes (map fst toks) with
    | [] => match cmt with Some t => negb (contains (Str """") t) | None => true end
    | ls => negb (is_some cmt) && negb (existsb hash_in ls)
    end
  | LDir _ _ _ cmt => match cmt with Some t => negb (contains (Str """") t) | None => true end
  end.


Definition C07_partial_dom (ls : list line) (d : doc) : bool :=
  C07_dom ls d && forallb line_simple ls.
