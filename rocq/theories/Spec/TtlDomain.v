(** * C07: the part of the dialect on which the current reader is right.

    [C07_rcs ls d] lists the *root causes* (one constructor of [rc] per known
    finding) that a laid-out document exhibits; [C07_dom ls d] says there is
    none.  Everything here is written over the abstract syntax and the layout
    of [Spec.TtlSyntax] -- no model function is used. *)
From Coq Require Import List Ascii String ZArith Bool.
From Shexer Require Import Lib.PyStr Spec.Rdf Spec.TtlSyntax.
Import ListNotations.

Inductive rc :=
| RC_ini_base          (* </p> against @base: the '/' is dropped and the rest appended to the base *)
| RC_concat            (* relative reference resolved by plain concatenation with the base *)
| RC_dt_custom_prefix  (* the document's prefixes are not consulted for datatypes (nor for the token rdf:type):
                          a prefix other than xsd/rdf/dt/geo raises, those four are wired to fixed namespaces *)
| RC_dir_unresolved    (* IRI of @prefix/@base never resolved against the base *)
| RC_ws_in_literal     (* tab / repeated blank inside a lexical form (content altered; not a finding) *)
| RC_long_number.      (* integer of more than 300 digits (float() overflow; not modelled) *)
(** Repaired and therefore gone from this list (see known_findings.json, status fixed): the '#'
    of <#frag> dropped, "absolute" tested as startswith("http"), a non-http base applied twice,
    pfx: replaced at every occurrence, the three faults of the comment scan, and (repair C06-B of
    decide_literal_type) the texts xsd: rdf: dt: geo: / '@' / quote-^^ searched in the whole token. *)

Definition rc_eqb (a b : rc) : bool :=
  match a, b with
  | RC_ini_base, RC_ini_base | RC_concat, RC_concat
  | RC_dt_custom_prefix, RC_dt_custom_prefix
  | RC_dir_unresolved, RC_dir_unresolved
  | RC_ws_in_literal, RC_ws_in_literal | RC_long_number, RC_long_number => true
  | _, _ => false
  end.

Definition when (b : bool) (x : rc) : list rc := if b then [x] else [].

Definition http : str := Str "http".

(** ** token level, in the environment in force *)

(** an IRI reference in node position *)
Definition rc_ref (e : env) (r : iri_ref) : list rc :=
  match r with
  | IAbs i => []
  | IRel x =>
    match e_base e with
    | None => []
    | Some b =>
      when (first_ok (fun c => in_str c "/") x && negb (Nat.eqb (List.length x) 0)) RC_ini_base ++
      when (match resolve b x with Some u => negb (str_eqb u (b ++ x)) | None => false end) RC_concat
    end
  | IPre p l =>
    when (str_eqb (render_ref r) (Str "rdf:type") &&
          negb (match lookup p (e_prefixes e) with Some ns => str_eqb ns rdf_ns | None => true end)) RC_dt_custom_prefix
  end.

(** the prefixes the literal typing knows, with the namespaces it wires to them *)
Definition wired : list (str * str) :=
  [(Str "xsd", xsd_ns); (Str "rdf", rdf_ns);
   (Str "dt", Str "http://dbpedia.org/datatype/"); (Str "geo", Str "http://www.opengis.net/ont/geosparql#")].

(** a prefixed datatype is read right iff its prefix is wired and the document binds it as wired *)
Definition wired_as_declared (e : env) (p : str) : bool :=
  match lookup p wired, lookup p (e_prefixes e) with
  | Some ns, Some ns' => str_eqb ns ns'
  | _, _ => false
  end.

Definition rc_lit (e : env) (lex : str) (sfx : lit_suffix) : list rc :=
  when (contains [ascii_of_nat 9] lex || contains (Str "  ") lex) RC_ws_in_literal ++
  match sfx with
  | LPlain | LLang _ => []
  | LTyped (IAbs _) => []
  | LTyped (IRel x) =>
    match e_base e with
    | None => []
    | Some b => when (match resolve b x with Some u => negb (str_eqb u (b ++ x)) | None => false end) RC_concat
    end
  | LTyped (IPre p _) => when (negb (wired_as_declared e p)) RC_dt_custom_prefix
  end.

Definition rc_subj (e : env) (s : subj) : list rc :=
  match s with SIri r => rc_ref e r | SBn _ => [] end.
Definition rc_pred (e : env) (p : pred) : list rc :=
  match p with PA => [] | PIri r => rc_ref e r end.
Definition rc_obj (e : env) (o : object) : list rc :=
  match o with
  | OIri r => rc_ref e r
  | OBn _ => []
  | OLit lex sfx => rc_lit e lex sfx
  | OInt d => when (Nat.ltb 300 (List.length d)) RC_long_number
  end.

Definition rc_group (e : env) (g : group) : list rc :=
  rc_subj e (g_subj g) ++
  flat_map (fun po => rc_pred e (fst po) ++ flat_map (rc_obj e) (snd po)) (g_pos g).

Definition rc_dir (d : directive) : list rc :=
  match d with
  | DPrefix _ (IAbs _) | DBase (IAbs _) => []
  | _ => [RC_dir_unresolved]
  end.

Fixpoint rc_doc (e : env) (d : doc) : list rc :=
  match d with
  | [] => []
  | IDir x :: d' => rc_dir x ++ match sem_dir e x with Some e' => rc_doc e' d' | None => [] end
  | IGrp g :: d' => rc_group e g ++ rc_doc e d'
  end.

(** ** layout level

    Since the comment scan was repaired no layout choice is a root cause any
    more: [C07_rcs] depends on the document only. *)

Definition lex_of (t : atok) : option str :=
  match t with AObj (OLit lex _) => Some lex | _ => None end.

Definition C07_rcs (ls : list line) (d : doc) : list rc := rc_doc env0 d.

(** the proved domain: no root cause present *)
Definition C07_dom (ls : list line) (d : doc) : bool :=
  match C07_rcs ls d with [] => true | _ => false end.
