(** * Spec/Counts.v -- what the class profile must contain, said declaratively.

    Independent of the profiler model: it uses only the data types (graph,
    [insts], the cardinality keys [CKn n | CKplus]), the shape-naming function
    [shape_name] and the generated constants.  Nothing here folds over a
    dictionary that is being updated; everything is a sum over the graph or
    over the instance dictionary.

    Inputs: [tau] the instantiation property, [I : insts] the instance
    dictionary (instance id -> list of class keys, as the tracker left it),
    [G] the graph (list of triples).

    Places where this spec deliberately mirrors what the code DOES rather
    than the ideal semantics are marked QUIRK. *)
From Coq Require Import List Ascii String ZArith NArith Bool.
From Shexer Require Import Lib.PyStr Lib.Dict Gen.Consts Spec.Rdf Model.Tracker Model.Profiler.
Import ListNotations.
Local Open Scope N_scope.

Inductive direction := Direct | Inverse.

Fixpoint sumN (l : list N) : N :=
  match l with [] => 0 | x :: r => x + sumN r end.

(** number of occurrences of [k] in [l] *)
Fixpoint count_in (k : str) (l : list str) : N :=
  match l with
  | [] => 0
  | x :: r => (if str_eqb k x then 1 else 0) + count_in k r
  end.

(** ** keys one triple contributes *)

(** the classes listed for a node in [I] (none if it is not an instance) *)
Definition classes_of (I : insts) (id : str) : list str :=
  match dget I id with Some cs => cs | None => [] end.

(** their shape labels.  QUIRK (Q1): the profiler always names shapes in the
    DEFAULT shapes namespace, whatever [shapes_namespace] the user gave. *)
Definition shape_labels (I : insts) (id : str) : list str :=
  map (shape_name c_SHAPES_DEFAULT_NAMESPACE) (classes_of I id).

Definition elem_type (n : node) : str :=
  match nk n with KIri => c_IRI_ELEM_TYPE | KBnode => c_BNODE_ELEM_TYPE end.

(** What triple [t] adds to the DIRECT features of its subject, under
    property [tp t]:
    - [tp t = tau]: the object's identifier (a value set, not a type);
    - otherwise the element type of the object -- "IRI", "BNode" or the
      datatype of a literal -- followed, for node objects, by one shape label
      per class listed for the object in [I].
    QUIRK (Q2): two classes with the same shape label contribute that label
    twice (the list is not de-duplicated).
    QUIRK (Q3): for [tp t = tau] the code decides whether to add shape labels
    by comparing the KEY with "IRI"/"BNode"; the key is the object's
    identifier, so labels are added exactly when the object's identifier is
    literally the string "IRI" or "BNode" (never, for real IRIs).
    A literal object of a [tau]-triple contributes nothing here: with a
    tracked subject the profiler raises instead (see [bad_triple]). *)
Definition keys_direct (tau : str) (I : insts) (t : triple) : list str :=
  match to t with
  | OL _ dt => if str_eqb (tp t) tau then [] else [dt]
  | ON o =>
    if str_eqb (tp t) tau
    then nid o :: (if str_eqb (nid o) c_IRI_ELEM_TYPE || str_eqb (nid o) c_BNODE_ELEM_TYPE
                   then shape_labels I (nid o) else [])                       (* Q3 *)
    else elem_type o :: shape_labels I (nid o)
  end.

(** What triple [t] (with a node object) adds to the INVERSE features of its
    object, under property [tp t]: symmetric, except
    QUIRK (Q4): shape labels are added only for IRI subjects, never for
    blank-node subjects (for [tp t = tau]: only when the subject's identifier
    is literally "IRI", cf. Q3). *)
Definition keys_inverse (tau : str) (I : insts) (t : triple) : list str :=
  let s := ts t in
  if str_eqb (tp t) tau
  then nid s :: (if str_eqb (nid s) c_IRI_ELEM_TYPE then shape_labels I (nid s) else [])   (* Q3 *)
  else elem_type s :: (match nk s with KIri => shape_labels I (nid s) | KBnode => [] end). (* Q4 *)

(** the keys triple [t] contributes to instance [i], property [p], direction [dir].
    QUIRK (Q5): instances are identified by their identifier string alone
    ([nid]); blank-node identifiers keep their "_:" prefix, so an IRI and a
    blank node never collide in yielder-produced graphs. *)
Definition contrib (dir : direction) (tau : str) (I : insts) (t : triple) (i p : str) : list str :=
  match dir with
  | Direct =>
    if str_eqb (nid (ts t)) i && str_eqb (tp t) p then keys_direct tau I t else []
  | Inverse =>
    match to t with
    | ON o => if str_eqb (nid o) i && str_eqb (tp t) p then keys_inverse tau I t else []
    | OL _ _ => []
    end
  end.

(** ** counts *)

(** how many times key [k] is contributed to instance [i] for property [p] in
    direction [dir] by the triples of [G] (Q2: a key contributed twice by one
    triple counts twice) *)
Definition cnt (dir : direction) (tau : str) (I : insts) (G : graph) (i p k : str) : N :=
  sumN (map (fun t => count_in k (contrib dir tau I t i p)) G).

(** does an instance with [n] contributions of a key count under cardinality
    [card]?  Never when [n = 0].  For ordinary properties: [CKn m] iff
    [n = m], [CKplus] iff [n >= 1].
    QUIRK (Q6): for the instantiation property the only cardinality is
    [CKn 1] and it means "[n >= 1]", whatever the count. *)
Definition card_ok (tau p : str) (card : ckey) (n : N) : bool :=
  (0 <? n) &&
  (if str_eqb p tau then ckey_eqb card (CKn 1)                                 (* Q6 *)
   else match card with CKn m => N.eqb m n | CKplus => true end).

(** number of instances of class [c] that have key [k] for property [p] with
    cardinality [card].
    QUIRK (Q7): an instance for which [c] is listed twice in [I] counts twice
    (here and in [class_count]). *)
Definition occ (dir : direction) (tau : str) (I : insts) (G : graph)
           (c p k : str) (card : ckey) : N :=
  sumN (map (fun ie : str * list str =>
               if card_ok tau p card (cnt dir tau I G (fst ie) p k)
               then count_in c (snd ie) else 0) I).

(** number of listings of class [c] in [I] *)
Definition class_count (I : insts) (c : str) : N :=
  sumN (map (fun ie : str * list str => count_in c (snd ie)) I).

(** ** order of the class keys *)

(** duplicates removed, first occurrences kept *)
Fixpoint uniq_first (l : list str) : list str :=
  match l with
  | [] => []
  | x :: r => x :: filter (fun y => negb (str_eqb y x)) (uniq_first r)
  end.

(** requested target classes first, then the classes of the instances in
    dictionary order *)
Definition class_keys (targets : list str) (I : insts) : list str :=
  uniq_first (targets ++ List.concat (map snd I)).

(** ** when the feature pass raises *)

(** a [tau]-triple with a literal object whose subject is an instance:
    [_decide_type_elem] asks a [Literal] for [.iri] (AttributeError) *)
Definition bad_triple (tau : str) (I : insts) (t : triple) : Prop :=
  dmem I (nid (ts t)) = true /\ tp t = tau /\ is_node (to t) = false.

(** ** order of the keys

    Python dictionaries keep insertion order and the later stages iterate over
    them (the order reaches the output through stable sorts), so the profile's
    key orders are part of its specification: always "first occurrence". *)

(** does triple [t] concern instance [i] in direction [dir]? *)
Definition touches (dir : direction) (t : triple) (i : str) : bool :=
  match dir with
  | Direct => str_eqb (nid (ts t)) i
  | Inverse => match to t with ON o => str_eqb (nid o) i | OL _ _ => false end
  end.

(** properties of instance [i], in statement order, without repetition *)
Definition inst_props (dir : direction) (G : graph) (i : str) : list str :=
  uniq_first (map tp (filter (fun t => touches dir t i) G)).

(** keys of instance [i] for property [p], in contribution order, without repetition *)
Definition inst_keys (dir : direction) (tau : str) (I : insts) (G : graph) (i p : str) : list str :=
  uniq_first (List.concat (map (fun t => contrib dir tau I t i p) G)).

(** class level: instance by instance in the order of [I] (an instance listed
    for the class), each instance's own order *)
Definition class_props (dir : direction) (I : insts) (G : graph) (c : str) : list str :=
  uniq_first (List.concat (map (fun ie : str * list str =>
                                  if mem_str c (snd ie) then inst_props dir G (fst ie) else []) I)).

Definition class_type_keys (dir : direction) (tau : str) (I : insts) (G : graph) (c p : str) : list str :=
  uniq_first (List.concat (map (fun ie : str * list str =>
                                  if mem_str c (snd ie) then inst_keys dir tau I G (fst ie) p else []) I)).

(** the cardinalities one instance contributes for a key it has [n] times *)
Definition cards_of (tau p : str) (n : N) : list ckey :=
  if 0 <? n then (if str_eqb p tau then [CKn 1] else [CKn n; CKplus]) else [].

Definition add_new_ckey (acc : list ckey) (c : ckey) : list ckey :=
  if existsb (ckey_eqb c) acc then acc else acc ++ [c].

(** scan left to right, keep what was not seen yet *)
Definition uniq_ckeys (l : list ckey) : list ckey := fold_left add_new_ckey l [].

Definition class_cards (dir : direction) (tau : str) (I : insts) (G : graph) (c p k : str) : list ckey :=
  uniq_ckeys (List.concat (map (fun ie : str * list str =>
                                  if mem_str c (snd ie)
                                  then cards_of tau p (cnt dir tau I G (fst ie) p k) else []) I)).
