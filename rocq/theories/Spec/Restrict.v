(** * C16 -- what "restricting the input" means (declarative; independent of Model/).

    Instances and classes are identified by the string [nid] of their node
    (that is what the instances dictionary of sheXer is keyed by). *)
From Coq Require Import List Ascii String ZArith Bool.
From Shexer Require Import Lib.PyStr Spec.Rdf.
Import ListNotations.

(** ** class membership as the document states it *)

(** which classes count: [None] = every class (all_classes_mode); [Some l] =
    the target classes (an IRI object whose string is in [l]) *)
Definition scope := option (list str).

Definition in_scope (sc : scope) (o : node) : bool :=
  match sc with
  | None => true
  | Some l => nkind_eqb (nk o) KIri && mem_str (nid o) l
  end.

(** the (instance, class) membership a triple states, if it is a typing
    triple ([tau] = instantiation property) with a node object in scope *)
Definition typing_pair (tau : str) (sc : scope) (t : triple) : option (str * str) :=
  match to t with
  | ON o => if str_eqb (tp t) tau && in_scope sc o then Some (nid (ts t), nid o) else None
  | OL _ _ => None
  end.

(** all memberships, in document order *)
Fixpoint memberships (tau : str) (sc : scope) (g : graph) : list (str * str) :=
  match g with
  | [] => []
  | t :: g' => match typing_pair tau sc t with
               | Some m => m :: memberships tau sc g'
               | None => memberships tau sc g'
               end
  end.

Definition subjects_of (c : str) (ms : list (str * str)) : list str :=
  map fst (filter (fun m => str_eqb (snd m) c) ms).

(** subjects of the typing triples of class [c], in document order *)
Definition class_subjects (tau : str) (sc : scope) (g : graph) (c : str) : list str :=
  subjects_of c (memberships tau sc g).

(** the first [min k |class c|] DISTINCT instances of [c] in document order *)
Definition first_k_instances (tau : str) (sc : scope) (k : nat) (g : graph) (c : str) : list str :=
  firstn k (nodup str_eq_dec (class_subjects tau sc g c)).

(** a triple survives the restriction unless it is the typing triple of a
    membership (i, c) with i not among the first k instances of c *)
Definition keep_typing (tau : str) (sc : scope) (k : nat) (g : graph) (t : triple) : bool :=
  match typing_pair tau sc t with
  | None => true
  | Some m => mem_str (fst m) (first_k_instances tau sc k g (snd m))
  end.

(** the restricted document *)
Definition restrict_typing (tau : str) (sc : scope) (k : nat) (g : graph) : graph :=
  filter (keep_typing tau sc k g) g.

(** instances an instances dictionary lists for class [c], in dictionary order *)
Definition inst_of (I : list (str * list str)) (c : str) : list str :=
  map fst (filter (fun e => mem_str c (snd e)) I).

(** the strings identify the nodes (true of every yielder-produced graph:
    blank-node strings start with "_:") *)
Definition node_in (g : graph) (n : node) : Prop :=
  exists t, In t g /\ (ts t = n \/ to t = ON n).

Definition ids_faithful (g : graph) : Prop :=
  forall n n', node_in g n -> node_in g n' -> nid n = nid n' -> n = n'.

(** ** ignored namespaces *)

(** [p] is a direct child of namespace [ns]: [ns] is a prefix of [p] and what
    follows contains no further hierarchy separator *)
Definition direct_child (ns p : str) : Prop :=
  exists r, p = ns ++ r /\ ~ In "/"%char r /\ ~ In "#"%char r.

Definition ignored (ign : list str) (p : str) : Prop :=
  exists ns, In ns ign /\ direct_child ns p.

(** [sub_sat P g' g]: [g'] is [g] with exactly the triples violating [P]
    deleted (order kept) *)
Inductive sub_sat (P : triple -> Prop) : graph -> graph -> Prop :=
| ss_nil : sub_sat P [] []
| ss_keep t g' g : P t -> sub_sat P g' g -> sub_sat P (t :: g') (t :: g)
| ss_drop t g' g : ~ P t -> sub_sat P g' g -> sub_sat P g' (t :: g).
