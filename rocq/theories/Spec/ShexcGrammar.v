(** * Spec: a recogniser for the ShExC subset sheXer can emit, and the closure
    checks of property C05, over the document text.

    Written from the ShEx 2.1 compact-syntax grammar (shex.io/shex-semantics,
    section "ShExC grammar"), independently of the serialiser model.  The
    productions used (numbers of the specification):

    [1] shexDoc ::= directive* ((notStartAction | startActions) statement* )?
    [2] directive ::= baseDecl | prefixDecl          [4] prefixDecl ::= "PREFIX" PNAME_NS IRIREF
    [9] shapeExprDecl ::= shapeExprLabel (shapeExpression | "EXTERNAL")
    [12]-[19] shapeOr / shapeAnd / shapeNot / shapeAtom / inlineShape...:
         the subset  shapeExpression ::= (valueSet "AND")? shapeDefinition  and, inline,
         inlineShapeExpression ::= inlineAtom ("OR" inlineAtom)*,
         inlineAtom ::= nonLiteralKind | "LITERAL" | datatype | valueSet | shapeRef | '.'
    [23] shapeRef ::= ATPNAME_LN | ATPNAME_NS | '@' shapeExprLabel
    [26] nonLiteralKind ::= "IRI" | "BNODE" | "NONLITERAL"
    [33] shapeDefinition ::= (extraPropertySet | "CLOSED")* '{' tripleExpression? '}'
    [39]-[41] groupTripleExpr ::= unaryTripleExpr (';' unaryTripleExpr)* ';'?
    [45] tripleConstraint ::= senseFlags? predicate inlineShapeExpression cardinality?
    [46] cardinality ::= '*' | '+' | '?' | REPEAT_RANGE     [47] senseFlags ::= '^'
    [48] valueSet ::= '[' valueSetValue* ']'   [50] iriRange ::= iri ('~' exclusion* )?
    [61] iri ::= IRIREF | prefixedName         [62] prefixedName ::= PNAME_LN | PNAME_NS
    terminals: IRIREF ::= '<' ([^#x00-#x20<>{}|^`\ DQUOTE] | UCHAR)* '>',
      PNAME_NS ::= PN_PREFIX? ':',  PNAME_LN ::= PNAME_NS PN_LOCAL,
      PN_PREFIX ::= PN_CHARS_BASE ((PN_CHARS | '.')* PN_CHARS)?,
      PN_LOCAL ::= (PN_CHARS_U | ':' | [0-9] | PLX) ((PN_CHARS | '.' | ':' | PLX)* (PN_CHARS | ':' | PLX))?,
      REPEAT_RANGE ::= '{' INTEGER (',' (INTEGER | '*')?)? '}',
      comments: '#' to the end of the line, outside IRIREF and strings.

    Reading of the keyword rule, stated explicitly: in the specification's
    grammar the terminals written in double quotes ("PREFIX", "IRI", "BNODE",
    "NONLITERAL", "LITERAL", "OR", "AND", ...) are matched case-insensitively
    (only 'a', 'true', 'false' are case-sensitive); the reference
    implementations (shex.js, PyShEx) agree.  So sheXer's spelling [BNode] is
    the keyword BNODE and is legal.

    Restrictions of this recogniser (it rejects more than the grammar, never
    less, on ASCII input): names are ASCII (PN_CHARS_BASE restricted to
    [A-Za-z]); PN_LOCAL without ':' and without PLX escapes; no UCHAR check
    inside IRIREF; REPEAT_RANGE only as '{' digits '}'; no strings, numeric
    literals, annotations, semantic actions, BASE/IMPORT/start, blank-node
    labels, EXTRA/CLOSED, nested or parenthesised expressions. *)
From Coq Require Import List Ascii String Bool Arith.
From Shexer Require Import Lib.PyStr.
Import ListNotations.

(** ** characters *)
Definition code (c : ascii) : nat := nat_of_ascii c.

Definition is_upper (c : ascii) : bool := (65 <=? code c) && (code c <=? 90).
Definition is_lower (c : ascii) : bool := (97 <=? code c) && (code c <=? 122).
Definition is_alpha (c : ascii) : bool := is_upper c || is_lower c.
Definition is_digit (c : ascii) : bool := (48 <=? code c) && (code c <=? 57).

(** WS ::= #x20 | #x9 | #xD | #xA *)
Definition is_ws (c : ascii) : bool :=
  (code c =? 32) || (code c =? 9) || (code c =? 13) || (code c =? 10).

(** a character allowed inside '<' ... '>' *)
Definition iri_char (c : ascii) : bool :=
  (32 <? code c) &&
  negb ((code c =? 60) || (code c =? 62) || (code c =? 34) || (code c =? 123) || (code c =? 125) ||
        (code c =? 124) || (code c =? 94) || (code c =? 96) || (code c =? 92)).

(** PN_CHARS (ASCII) plus '.' : what may follow the first character of a
    prefix or of a local part *)
Definition pn_char (c : ascii) : bool :=
  is_alpha c || is_digit c || (code c =? 95) || (code c =? 45) || (code c =? 46).

(** a character of a word (keyword or prefixed name) *)
Definition word_char (c : ascii) : bool := pn_char c || (code c =? 58).

Definition is_dot (c : ascii) : bool := code c =? 46.

(** PN_PREFIX, or empty *)
Definition valid_prefix (p : str) : bool :=
  match p with
  | [] => true
  | c :: r => is_alpha c && forallb pn_char r && negb (is_dot (last p c))
  end.

(** PN_LOCAL (subset), or empty *)
Definition valid_local (l : str) : bool :=
  match l with
  | [] => true
  | c :: r => (is_alpha c || is_digit c || (code c =? 95)) && forallb pn_char r && negb (is_dot (last l c))
  end.

(** ** tokens *)
Inductive kind := NkIri | NkBnode | NkNonlit | NkLit.

Inductive token :=
| TPrefixKw | TIri (i : str) | TPname (p l : str) | TKind (k : kind) | TOr | TAnd
| TAt | TLBrace | TRBrace | TLBrack | TRBrack | TSemi | TCaret | TTilde | TDot
| TStar | TPlus | TOpt | TRepeat (n : str).

Definition upper_char (c : ascii) : ascii := if is_lower c then ascii_of_nat (code c - 32) else c.
Definition upper (s : str) : str := map upper_char s.

Fixpoint split_colon (acc s : str) : option (str * str) :=
  match s with
  | [] => None
  | c :: r => if code c =? 58 then Some (rev acc, r) else split_colon (c :: acc) r
  end.

(** a maximal run of word characters: a prefixed name or a (case-insensitive) keyword *)
Definition classify (w : str) : option token :=
  match split_colon [] w with
  | Some (p, l) => if valid_prefix p && valid_local l then Some (TPname p l) else None
  | None =>
    let u := upper w in
    if str_eqb u (Str "PREFIX") then Some TPrefixKw
    else if str_eqb u (Str "IRI") then Some (TKind NkIri)
    else if str_eqb u (Str "BNODE") then Some (TKind NkBnode)
    else if str_eqb u (Str "NONLITERAL") then Some (TKind NkNonlit)
    else if str_eqb u (Str "LITERAL") then Some (TKind NkLit)
    else if str_eqb u (Str "OR") then Some TOr
    else if str_eqb u (Str "AND") then Some TAnd
    else None
  end.

(** ** the lexer: one pass, one state *)
Inductive lstate :=
| LDef                      (* between tokens *)
| LIri (acc : str)          (* after '<', characters reversed *)
| LWord (acc : str)         (* inside a word, characters reversed *)
| LComment                  (* after '#', up to the end of the line *)
| LBrace                    (* after '{': a repeat range or an opening brace *)
| LRepeat (acc : str).      (* after '{' digit *)

(** a character met between tokens *)
Definition lex_def (c : ascii) : option (lstate * list token) :=
  if is_ws c then Some (LDef, [])
  else if code c =? 35 then Some (LComment, [])
  else if code c =? 60 then Some (LIri [], [])
  else if code c =? 123 then Some (LBrace, [])
  else if code c =? 125 then Some (LDef, [TRBrace])
  else if code c =? 91 then Some (LDef, [TLBrack])
  else if code c =? 93 then Some (LDef, [TRBrack])
  else if code c =? 59 then Some (LDef, [TSemi])
  else if code c =? 94 then Some (LDef, [TCaret])
  else if code c =? 126 then Some (LDef, [TTilde])
  else if code c =? 64 then Some (LDef, [TAt])
  else if code c =? 42 then Some (LDef, [TStar])
  else if code c =? 43 then Some (LDef, [TPlus])
  else if code c =? 63 then Some (LDef, [TOpt])
  else if code c =? 46 then Some (LDef, [TDot])
  else if word_char c then Some (LWord [c], [])
  else None.

Definition lex_step (st : lstate) (c : ascii) : option (lstate * list token) :=
  match st with
  | LDef => lex_def c
  | LIri acc =>
    if code c =? 62 then Some (LDef, [TIri (rev acc)])
    else if iri_char c then Some (LIri (c :: acc), [])
    else None
  | LWord acc =>
    if word_char c then Some (LWord (c :: acc), [])
    else match classify (rev acc), lex_def c with
         | Some t, Some (st', out) => Some (st', t :: out)
         | _, _ => None
         end
  | LComment => if code c =? 10 then Some (LDef, []) else Some (LComment, [])
  | LBrace =>
    if is_digit c then Some (LRepeat [c], [])
    else match lex_def c with
         | Some (st', out) => Some (st', TLBrace :: out)
         | None => None
         end
  | LRepeat acc =>
    if is_digit c then Some (LRepeat (c :: acc), [])
    else if code c =? 125 then Some (LDef, [TRepeat (rev acc)])
    else None
  end.

Fixpoint lex_run (st : lstate) (s : str) : option (lstate * list token) :=
  match s with
  | [] => Some (st, [])
  | c :: s' =>
    match lex_step st c with
    | None => None
    | Some (st', out) =>
      match lex_run st' s' with
      | None => None
      | Some (st'', outs) => Some (st'', out ++ outs)
      end
    end
  end.

(** end of input *)
Definition lex_finish (st : lstate) : option (list token) :=
  match st with
  | LDef | LComment => Some []
  | LWord acc => match classify (rev acc) with Some t => Some [t] | None => None end
  | LBrace => Some [TLBrace]
  | LIri _ | LRepeat _ => None
  end.

Definition lex (s : str) : option (list token) :=
  match lex_run LDef s with
  | None => None
  | Some (st, out) => match lex_finish st with Some o => Some (out ++ o) | None => None end
  end.

(** ** the parser: a deterministic automaton over tokens (the subset is regular) *)
Inductive pstate :=
| PTop          (* directive, shape label, or end of document *)
| PPrefix1      (* after PREFIX: PNAME_NS *)
| PPrefix2      (* after PREFIX pname: IRIREF *)
| PLabel        (* after a shape label: '[' (node constraint of the header) or '{' *)
| PHeadSet      (* in the header value set: iri or ']' *)
| PHeadSetIri   (* after an iri of the header value set: '~', iri or ']' *)
| PHeadSetEnd   (* after the header value set: AND *)
| PHeadAnd      (* after AND: '{' *)
| PBody         (* after '{' or ';': '^', predicate or '}' *)
| PSense        (* after '^': predicate *)
| PPred         (* after the predicate: a value atom *)
| PAt           (* after '@': the referenced label *)
| PSet          (* in a value set: iri or ']' *)
| PSetIri       (* after an iri of a value set: '~', iri or ']' *)
| PVal          (* after a value atom: OR, cardinality, ';' or '}' *)
| POr           (* after OR: a value atom *)
| PCard.        (* after the cardinality: ';' or '}' *)

Definition is_iri_tok (t : token) : bool :=
  match t with TIri _ | TPname _ _ => true | _ => false end.

(** the start of a value atom, read in [PPred] and [POr] *)
Definition atom_start (t : token) : option pstate :=
  match t with
  | TIri _ | TPname _ _ | TKind _ | TDot => Some PVal
  | TAt => Some PAt
  | TLBrack => Some PSet
  | _ => None
  end.

Definition pstep (st : pstate) (t : token) : option pstate :=
  match st, t with
  | PTop, TPrefixKw => Some PPrefix1
  | PTop, (TIri _ | TPname _ _) => Some PLabel
  | PPrefix1, TPname _ [] => Some PPrefix2
  | PPrefix2, TIri _ => Some PTop
  | PLabel, TLBrack => Some PHeadSet
  | PLabel, TLBrace => Some PBody
  | PHeadSet, (TIri _ | TPname _ _) => Some PHeadSetIri
  | PHeadSet, TRBrack => Some PHeadSetEnd
  | PHeadSetIri, TTilde => Some PHeadSet
  | PHeadSetIri, (TIri _ | TPname _ _) => Some PHeadSetIri
  | PHeadSetIri, TRBrack => Some PHeadSetEnd
  | PHeadSetEnd, TAnd => Some PHeadAnd
  | PHeadAnd, TLBrace => Some PBody
  | PBody, TCaret => Some PSense
  | PBody, (TIri _ | TPname _ _) => Some PPred
  | PBody, TRBrace => Some PTop
  | PSense, (TIri _ | TPname _ _) => Some PPred
  | PPred, _ => atom_start t
  | POr, _ => atom_start t
  | PAt, (TIri _ | TPname _ _) => Some PVal
  | PSet, (TIri _ | TPname _ _) => Some PSetIri
  | PSet, TRBrack => Some PVal
  | PSetIri, TTilde => Some PSet
  | PSetIri, (TIri _ | TPname _ _) => Some PSetIri
  | PSetIri, TRBrack => Some PVal
  | PVal, TOr => Some POr
  | PVal, (TStar | TPlus | TOpt | TRepeat _) => Some PCard
  | PVal, TSemi => Some PBody
  | PVal, TRBrace => Some PTop
  | PCard, TSemi => Some PBody
  | PCard, TRBrace => Some PTop
  | _, _ => None
  end.

Fixpoint prun (st : pstate) (ts : list token) : option pstate :=
  match ts with
  | [] => Some st
  | t :: r => match pstep st t with Some st' => prun st' r | None => None end
  end.

Definition parses (ts : list token) : bool :=
  match prun PTop ts with Some PTop => true | _ => false end.

Definition recognise (s : str) : bool :=
  match lex s with Some ts => parses ts | None => false end.

(** ** closure checks over the token stream *)

(** the prefix declarations, in document order: (prefix, namespace) *)
Fixpoint decls (ts : list token) : list (str * str) :=
  match ts with
  | [] => []
  | TPrefixKw :: r =>
    match r with
    | TPname p _ :: TIri n :: _ => (p, n) :: decls r
    | _ => decls r
    end
  | _ :: r => decls r
  end.

(** the prefixes of the prefixed names used outside declarations *)
Fixpoint used (after_kw : bool) (ts : list token) : list str :=
  match ts with
  | [] => []
  | TPrefixKw :: r => used true r
  | TPname p _ :: r => if after_kw then used false r else p :: used false r
  | _ :: r => used false r
  end.

Fixpoint nodupb (l : list str) : bool :=
  match l with
  | [] => true
  | x :: r => negb (mem_str x r) && nodupb r
  end.

Definition prefixes_functional (ts : list token) : bool := nodupb (map fst (decls ts)).

Definition prefixes_declared (ts : list token) : bool :=
  forallb (fun p => mem_str p (map fst (decls ts))) (used false ts).

Fixpoint lookup (d : list (str * str)) (p : str) : option str :=
  match d with
  | [] => None
  | (p', n) :: r => if str_eqb p p' then Some n else lookup r p
  end.

(** the IRI a token denotes under the declarations [d] *)
Definition denot (d : list (str * str)) (t : token) : option str :=
  match t with
  | TIri i => Some i
  | TPname p l => match lookup d p with Some n => Some (n ++ l) | None => None end
  | _ => None
  end.

(** shape labels = iri tokens read at the top level; references = the tokens
    read after '@' (comments never reach the token stream) *)
Fixpoint labels_from (st : pstate) (ts : list token) : list token :=
  match ts with
  | [] => []
  | t :: r =>
    match pstep st t with
    | None => []
    | Some st' =>
      match st with
      | PTop => if is_iri_tok t then t :: labels_from st' r else labels_from st' r
      | _ => labels_from st' r
      end
    end
  end.

Fixpoint refs_from (st : pstate) (ts : list token) : list token :=
  match ts with
  | [] => []
  | t :: r =>
    match pstep st t with
    | None => []
    | Some st' =>
      match st with
      | PAt => t :: refs_from st' r
      | _ => refs_from st' r
      end
    end
  end.

Fixpoint somes {A} (l : list (option A)) : list A :=
  match l with
  | [] => []
  | Some x :: r => x :: somes r
  | None :: r => somes r
  end.

Definition label_iris (ts : list token) : list str := somes (map (denot (decls ts)) (labels_from PTop ts)).
Definition ref_iris (ts : list token) : list str := somes (map (denot (decls ts)) (refs_from PTop ts)).

Definition labels_distinct (ts : list token) : bool := nodupb (label_iris ts).

Definition refs_resolve (ts : list token) : bool :=
  forallb (fun r => mem_str r (label_iris ts)) (ref_iris ts).

Definition closed_tokens (ts : list token) : bool :=
  prefixes_functional ts && prefixes_declared ts && labels_distinct ts && refs_resolve ts.

(** the property's predicate on a document *)
Definition wellformed_closed (s : str) : bool :=
  match lex s with
  | Some ts => parses ts && closed_tokens ts
  | None => false
  end.
