(** * N-Triples, one statement per line: abstract triples, layouts, rendering.

    Written from the property text and the W3C N-Triples grammar,
    independently of the reader's model.  A statement is an abstract triple
    [striple]; a [layout] fixes the white space and the optional trailing
    comment; [nt_line t lay] is the text of the line.  [kinded t] is what the
    RDF semantics of that line says about node kinds, IRIs, blank-node labels
    and the datatype of a literal object ([dt_of]).

    Strings are UTF-8 byte lists ([Lib.PyStr.str]); a non-ASCII character of a
    lexical form is the sequence of its bytes, each an [IChar]. *)

From Coq Require Import List Ascii String ZArith Bool.
From Shexer Require Import Lib.PyStr.
Import ListNotations.

(** ** abstract syntax *)

(** one item of a literal's lexical form, as written between the quotes *)
Inductive item :=
| IChar (c : ascii)                       (* any character but dquote \ LF CR *)
| IEsc (c : ascii)                        (* ECHAR: \t \b \n \r \f \dquote \' \\ *)
| IU4 (a b c d : ascii)                   (* UCHAR \uXXXX *)
| IU8 (a b c d e f g h : ascii).          (* UCHAR \UXXXXXXXX *)

Inductive suffix :=
| SufNone                                 (* "lex"            *)
| SufLang (tag : str)                     (* "lex"@tag        *)
| SufType (dt : str).                     (* "lex"^^<dt>      *)

Inductive snode := NIri (iri : str) | NBn (label : str).
Inductive sobj := ONode (n : snode) | OLit (lex : list item) (suf : suffix).
Record striple := STriple { t_s : snode; t_p : str; t_o : sobj }.

(** white space between the terms, before the final dot, and the optional
    trailing comment [(blanks before '#', text after '#')] *)
Record layout := Layout { sep1 : str; sep2 : str; predot : str; comment : option (str * str) }.

(** ** character classes *)
Definition code (c : ascii) : nat := nat_of_ascii c.
Definition in_range (lo hi : nat) (c : ascii) : bool := Nat.leb lo (code c) && Nat.leb (code c) hi.
Definition is_ch (n : nat) (c : ascii) : bool := Nat.eqb (code c) n.
Definition one_of (l : list nat) (c : ascii) : bool := existsb (fun n => is_ch n c) l.

Definition is_alpha (c : ascii) : bool := in_range 65 90 c || in_range 97 122 c.
Definition is_digit (c : ascii) : bool := in_range 48 57 c.
Definition is_alnum (c : ascii) : bool := is_alpha c || is_digit c.
Definition is_hex (c : ascii) : bool := is_digit c || in_range 65 70 c || in_range 97 102 c.
Definition non_ascii (c : ascii) : bool := Nat.leb 128 (code c).
Definition utf8_cont (c : ascii) : bool := in_range 128 191 c.
(** space or tab *)
Definition is_ws (c : ascii) : bool := one_of [32; 9] c.

(** a string does not begin in the middle of a UTF-8 sequence *)
Definition starts_cp (s : str) : bool :=
  match s with [] => true | c :: _ => negb (utf8_cont c) end.

(** ** validity (N-Triples grammar) *)

(** IRIREF without UCHAR: no control character or space, none of < > dquote { } | ^ ` \ *)
Definition iri_char (c : ascii) : bool :=
  Nat.ltb 32 (code c) && negb (one_of [60; 62; 34; 123; 125; 124; 94; 96; 92] c).
Definition valid_iri (s : str) : bool := forallb iri_char s && starts_cp s.

(** BLANK_NODE_LABEL after "_:" : (PN_CHARS_U | [0-9]) ((PN_CHARS | '.')* PN_CHARS)? ,
    non-ASCII characters accepted byte-wise *)
Definition label_first (c : ascii) : bool := is_alnum c || one_of [95; 58] c || non_ascii c.
Definition label_char (c : ascii) : bool := label_first c || one_of [45; 46] c.
Definition valid_label (s : str) : bool :=
  match s with
  | [] => false
  | c :: _ => label_first c && forallb label_char s && negb (is_ch 46 (last s c))
  end.

(** LANGTAG after "@" : [a-zA-Z]+ ('-' [a-zA-Z0-9]+)*  *)
Fixpoint tag_rest (s : str) (seg_nonempty : bool) : bool :=
  match s with
  | [] => seg_nonempty
  | c :: s' => if is_ch 45 c then seg_nonempty && tag_rest s' false
               else is_alnum c && tag_rest s' true
  end.
Fixpoint tag_first (s : str) (seg_nonempty : bool) : bool :=
  match s with
  | [] => seg_nonempty
  | c :: s' => if is_ch 45 c then seg_nonempty && tag_rest s' false
               else is_alpha c && tag_first s' true
  end.
Definition valid_tag (s : str) : bool := tag_first s false.

Definition valid_item (i : item) : bool :=
  match i with
  | IChar c => negb (one_of [34; 92; 10; 13] c)
  | IEsc c => one_of [116; 98; 110; 114; 102; 34; 39; 92] c
  | IU4 a b c d => forallb is_hex [a; b; c; d]
  | IU8 a b c d e f g h => forallb is_hex [a; b; c; d; e; f; g; h]
  end.

Definition valid_suffix (s : suffix) : bool :=
  match s with SufNone => true | SufLang t => valid_tag t | SufType d => valid_iri d end.

Definition valid_node (n : snode) : bool :=
  match n with NIri s => valid_iri s | NBn l => valid_label l end.

Definition valid_obj (o : sobj) : bool :=
  match o with ONode n => valid_node n | OLit lex suf => forallb valid_item lex && valid_suffix suf end.

(** the bytes of a lexical form are UTF-8: a continuation byte only follows a non-ASCII byte *)
Fixpoint lex_utf8 (after_non_ascii : bool) (l : list item) : bool :=
  match l with
  | [] => true
  | IChar c :: r => (negb (utf8_cont c) || after_non_ascii) && lex_utf8 (non_ascii c) r
  | _ :: r => lex_utf8 false r
  end.

Definition obj_utf8 (o : sobj) : bool :=
  match o with ONode _ => true | OLit lex _ => lex_utf8 false lex end.

Definition valid_triple (t : striple) : bool :=
  valid_node (t_s t) && valid_iri (t_p t) && valid_obj (t_o t) && obj_utf8 (t_o t).

Definition all_ws (s : str) : bool := forallb is_ws s.
Definition comment_char (c : ascii) : bool := negb (one_of [10; 13] c).

(** the layouts of the property: separators (space|tab)+, optional blanks
    before the dot, optional comment *)
Definition valid_layout (l : layout) : bool :=
  all_ws (sep1 l) && negb (str_eqb (sep1 l) []) &&
  all_ws (sep2 l) && negb (str_eqb (sep2 l) []) &&
  all_ws (predot l) &&
  match comment l with None => true | Some (w, txt) => all_ws w && forallb comment_char txt end.

(** ** rendering *)
Definition bs : ascii := ascii_of_nat 92.
Definition dq : ascii := ascii_of_nat 34.

Definition r_item (i : item) : str :=
  match i with
  | IChar c => [c]
  | IEsc c => [bs; c]
  | IU4 a b c d => [bs; "u"%char; a; b; c; d]
  | IU8 a b c d e f g h => [bs; "U"%char; a; b; c; d; e; f; g; h]
  end.

Definition r_lex (l : list item) : str := flat_map r_item l.

Definition r_suffix (s : suffix) : str :=
  match s with
  | SufNone => []
  | SufLang t => Str "@" ++ t
  | SufType d => Str "^^<" ++ d ++ Str ">"
  end.

Definition r_node (n : snode) : str :=
  match n with NIri s => Str "<" ++ s ++ Str ">" | NBn l => Str "_:" ++ l end.

Definition r_obj (o : sobj) : str :=
  match o with
  | ONode n => r_node n
  | OLit lex suf => dq :: r_lex lex ++ dq :: r_suffix suf
  end.

Definition r_tail (c : option (str * str)) : str :=
  match c with None => [] | Some (w, txt) => w ++ Str "#" ++ txt end.

Definition nt_line (t : striple) (l : layout) : str :=
  r_node (t_s t) ++ sep1 l ++ (Str "<" ++ t_p t ++ Str ">") ++ sep2 l ++
  r_obj (t_o t) ++ predot l ++ Str "." ++ r_tail (comment l).

(** a document: one statement per line *)
Definition nt_doc (ts : list (striple * layout)) : str :=
  join [ascii_of_nat 10] (map (fun x => nt_line (fst x) (snd x)) ts).

(** ** what the line means, as far as the property looks *)
Inductive kterm :=
| KIri (iri : str)
| KBn (id : str)          (* identifier with its "_:" sigil, as sheXer's BNode carries it *)
| KLit (datatype : str).

Definition xsd_string : str := Str "http://www.w3.org/2001/XMLSchema#string".
Definition rdf_langString : str := Str "http://www.w3.org/1999/02/22-rdf-syntax-ns#langString".

Definition dt_of (s : suffix) : str :=
  match s with SufNone => xsd_string | SufLang _ => rdf_langString | SufType d => d end.

Definition k_node (n : snode) : kterm :=
  match n with NIri s => KIri s | NBn l => KBn (Str "_:" ++ l) end.

Definition k_obj (o : sobj) : kterm :=
  match o with ONode n => k_node n | OLit _ suf => KLit (dt_of suf) end.

Definition kinded (t : striple) : kterm * str * kterm := (k_node (t_s t), t_p t, k_obj (t_o t)).

(** ** documents with comment lines and blank lines

    A document is a list of LINES.  A line is a statement (with its layout), a
    comment line (optional blanks, '#', anything but a line end) or a blank line
    (blanks only); the line separator is LF, so a final line end is a final
    blank line.  The document MEANS the list of its statements, in order:
    comment lines and blank lines mean nothing. *)
Inductive dline :=
| DStmt (t : striple) (l : layout)
| DComment (w txt : str)
| DBlank (w : str).

Definition valid_dline (d : dline) : bool :=
  match d with
  | DStmt t l => valid_triple t && valid_layout l
  | DComment w txt => all_ws w && forallb comment_char txt
  | DBlank w => all_ws w
  end.

Definition r_dline (d : dline) : str :=
  match d with
  | DStmt t l => nt_line t l
  | DComment w txt => w ++ Str "#" ++ txt
  | DBlank w => w
  end.

Definition nt_document (ds : list dline) : str := join [ascii_of_nat 10] (map r_dline ds).

Fixpoint statements (ds : list dline) : list (striple * layout) :=
  match ds with
  | [] => []
  | DStmt t l :: ds' => (t, l) :: statements ds'
  | _ :: ds' => statements ds'
  end.

Definition doc_kinded (ds : list dline) : list (kterm * str * kterm) :=
  map (fun x => kinded (fst x)) (statements ds).

(** a document of statements only is [nt_doc] *)
Definition stmt_lines (ts : list (striple * layout)) : list dline := map (fun x => DStmt (fst x) (snd x)) ts.
