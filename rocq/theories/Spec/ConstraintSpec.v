(** * Reference definitions of property C11 (written from the property text,
    the ShExC grammar and the SHACL vocabulary; independent of [Model/] and of
    [Gen/Consts.v] -- every IRI below is spelled out here on purpose, so that
    the theorem ties the constants of the Python code to these).

    - [constr]: the abstract triple constraint both documents must state;
    - [read_tc]: how a ShExC reader understands the four tokens of a triple
      constraint line ([^]? predicate valueExpr cardinality);
    - [card_range]: the cardinality table of the property text;
    - [enc]: the one SHACL encoding of a constraint the property accepts
      (sheXer's vocabulary: [sh:dataType], inverse written as a nested
      [sh:property [ sh:inversePath p ]]). *)
From Coq Require Import List Ascii String ZArith NArith Bool Permutation.
From Shexer Require Import Lib.PyStr.
Import ListNotations.

(** ** the abstract constraint *)
Inductive restriction :=
| Datatype (d : str)          (* literal of datatype d *)
| KindIri                     (* node kind IRI *)
| KindBnode                   (* node kind blank node *)
| KindNonLiteral              (* IRI or blank node *)
| Ref (label : str)           (* conforms to the shape with this IRI *)
| ClassValue (c : str).       (* the single allowed value c *)

Record constr := {
  c_inv : bool;               (* incoming (inverse) arc *)
  c_pred : str;               (* predicate IRI *)
  c_restr : restriction;
  c_min : N;
  c_max : option N            (* None = unbounded *)
}.

Record cshape := {
  cs_label : str;             (* shape IRI *)
  cs_class : str;             (* the class the shape was extracted for *)
  cs_constraints : list constr
}.

(** ** reading ShExC tokens *)

(** PREFIX declarations in document order: (prefix, namespace); a later
    declaration of the same prefix overrides an earlier one *)
Definition prefix_map := list (str * str).

Fixpoint lookup_prefix (pm : prefix_map) (p : str) : option str :=
  match pm with
  | [] => None
  | (p', n) :: pm' =>
    match lookup_prefix pm' p with
    | Some x => Some x
    | None => if str_eqb p p' then Some n else None
    end
  end.

(** cut at the first occurrence of [c] *)
Fixpoint cut_at (c : ascii) (s : str) : option (str * str) :=
  match s with
  | [] => None
  | x :: s' =>
    if Ascii.eqb x c then Some ([], s')
    else match cut_at c s' with
         | Some (a, b) => Some (x :: a, b)
         | None => None
         end
  end.

(** [<iri>] or [prefix:local] *)
Definition read_iri (pm : prefix_map) (tok : str) : option str :=
  match tok with
  | [] => None
  | c :: rest =>
    if Ascii.eqb c "<"%char then
      match rest with
      | [] => None
      | _ => if Ascii.eqb (last rest " "%char) ">"%char then Some (removelast rest) else None
      end
    else match cut_at ":"%char tok with
         | Some (p, l) => match lookup_prefix pm p with
                          | Some n => Some (n ++ l)
                          | None => None
                          end
         | None => None
         end
  end.

(** value expression: [[v]] (value set with one IRI), [@label], a node-kind
    keyword, or a datatype IRI *)
Definition read_value (pm : prefix_map) (tok : str) : option restriction :=
  match tok with
  | [] => None
  | c :: rest =>
    if Ascii.eqb c "["%char then
      match rest with
      | [] => None
      | _ => if Ascii.eqb (last rest " "%char) "]"%char
             then option_map ClassValue (read_iri pm (removelast rest)) else None
      end
    else if Ascii.eqb c "@"%char then option_map Ref (read_iri pm rest)
    else if str_eqb tok (Str "IRI") then Some KindIri
    else if str_eqb tok (Str "BNode") then Some KindBnode
    else if str_eqb tok (Str "NONLITERAL") then Some KindNonLiteral
    else option_map Datatype (read_iri pm tok)
  end.

(** the cardinality forms of ShExC that sheXer uses *)
Inductive shex_card := SCabsent | SCbrace (k : N) | SCplus | SCstar | SCopt.

Definition is_digit (c : ascii) : bool :=
  let n := nat_of_ascii c in Nat.leb 48 n && Nat.leb n 57.

Definition read_card (tok : str) : option shex_card :=
  match tok with
  | [] => Some SCabsent
  | c :: rest =>
    if str_eqb tok (Str "+") then Some SCplus
    else if str_eqb tok (Str "*") then Some SCstar
    else if str_eqb tok (Str "?") then Some SCopt
    else if Ascii.eqb c "{"%char then
      match rest with
      | [] => None
      | _ => let ds := removelast rest in
             if Ascii.eqb (last rest " "%char) "}"%char && negb (str_eqb ds []) && forallb is_digit ds
             then Some (SCbrace (N_of_dec ds)) else None
      end
    else None
  end.

(** the table of the property text:
    {k} -> k..k, '+' -> 1.., '*' -> 0..unbounded, '?' -> 0..1, absent -> 1..1 *)
Definition card_range (c : shex_card) : N * option N :=
  match c with
  | SCbrace k => (k, Some k)
  | SCplus => (1%N, None)
  | SCstar => (0%N, None)
  | SCopt => (0%N, Some 1%N)
  | SCabsent => (1%N, Some 1%N)
  end.

(** one triple constraint: sense flag ("" or "^"), predicate, value
    expression, cardinality *)
Definition read_tc (pm : prefix_map) (sense ptok vtok ctok : str) : option constr :=
  match (if str_eqb sense [] then Some false else if str_eqb sense (Str "^") then Some true else None),
        read_iri pm ptok, read_value pm vtok, read_card ctok with
  | Some inv, Some p, Some r, Some c =>
    Some {| c_inv := inv; c_pred := p; c_restr := r; c_min := fst (card_range c); c_max := snd (card_range c) |}
  | _, _, _, _ => None
  end.

(** ** abstract RDF: a node with its outgoing arcs.  Blank nodes are written
    as the tree of what hangs below them (every blank node of a sheXer SHACL
    document has exactly one incoming arc), so no label is ever compared. *)
Inductive rnode :=
| RIri (i : str)
| RLit (lex dt : str)                       (* typed literal *)
| RBlank (arcs : list (str * rnode)).       (* fresh blank node, arcs in emission order *)

Definition SH (local : string) : str := Str "http://www.w3.org/ns/shacl#" ++ Str local.
Definition RDFNS (local : string) : str := Str "http://www.w3.org/1999/02/22-rdf-syntax-ns#" ++ Str local.
Definition xsd_integer : str := Str "http://www.w3.org/2001/XMLSchema#integer".

Definition rint (n : N) : rnode := RLit (dec_of_N n) xsd_integer.

(** RDF collection *)
Fixpoint rdf_list (l : list rnode) : rnode :=
  match l with
  | [] => RIri (RDFNS "nil")
  | x :: l' => RBlank [(RDFNS "first", x); (RDFNS "rest", rdf_list l')]
  end.

(** ** the accepted SHACL encoding *)
Definition enc_restr (r : restriction) : list (str * rnode) :=
  match r with
  | Datatype d => [(SH "dataType", RIri d)]                      (* sheXer's spelling *)
  | KindIri => [(SH "nodeKind", RIri (SH "IRI"))]
  | KindBnode => [(SH "nodeKind", RIri (SH "BlankNode"))]
  | KindNonLiteral => [(SH "nodeKind", RIri (SH "BlankNodeOrIRI"))]
  | Ref l => [(SH "node", RIri l)]
  | ClassValue c => [(SH "in", rdf_list [RIri c])]
  end.

(** no [sh:minCount] for a minimum of 0, no [sh:maxCount] when unbounded *)
Definition enc_counts (mn : N) (mx : option N) : list (str * rnode) :=
  (if N.eqb mn 0 then [] else [(SH "minCount", rint mn)]) ++
  match mx with None => [] | Some m => [(SH "maxCount", rint m)] end.

Definition enc_path (inv : bool) (p : str) : list (str * rnode) :=
  if inv then [(SH "property", RBlank [(SH "inversePath", RIri p)])]
  else [(SH "path", RIri p)].

(** the arcs of a property shape.  An RDF graph is a set of triples, so the
    order of arcs carries no meaning: documents are compared with
    [same_pshape] below (arcs of the property shape up to permutation). *)
Definition enc_arcs (c : constr) : list (str * rnode) :=
  (RDFNS "type", RIri (SH "PropertyShape")) ::
  enc_restr (c_restr c) ++ enc_counts (c_min c) (c_max c) ++ enc_path (c_inv c) (c_pred c).

Definition enc (c : constr) : rnode := RBlank (enc_arcs c).

(** a node shape: its IRI and its arcs *)
Definition enc_shape (s : cshape) : str * list (str * rnode) :=
  (cs_label s,
   (RDFNS "type", RIri (SH "NodeShape")) ::
   (SH "targetClass", RIri (cs_class s)) ::
   map (fun c => (SH "property", enc c)) (cs_constraints s)).

Definition enc_doc (l : list cshape) : list (str * list (str * rnode)) := map enc_shape l.

(** ** sameness of documents: arcs of a property shape in any order; node
    shapes and their property shapes in the same order *)
Definition same_pshape (a b : rnode) : Prop :=
  match a, b with
  | RBlank x, RBlank y => Permutation x y
  | _, _ => a = b
  end.

Definition same_nshape (a b : str * list (str * rnode)) : Prop :=
  fst a = fst b /\
  Forall2 (fun x y : str * rnode => fst x = fst y /\ same_pshape (snd x) (snd y)) (snd a) (snd b).

Definition same_doc (a b : list (str * list (str * rnode))) : Prop := Forall2 same_nshape a b.

(** ** reading the encoding back (shows [enc] loses nothing: [dec (enc c) = Some c]) *)
Fixpoint arcs_get (p : str) (arcs : list (str * rnode)) : list rnode :=
  match arcs with
  | [] => []
  | (q, v) :: a' => if str_eqb p q then v :: arcs_get p a' else arcs_get p a'
  end.

Definition dec_int (r : rnode) : option N :=
  match r with
  | RLit lex dt => if str_eqb dt xsd_integer && negb (str_eqb lex []) && forallb is_digit lex
                   then Some (N_of_dec lex) else None
  | _ => None
  end.

Definition dec_restr (arcs : list (str * rnode)) : option restriction :=
  match arcs_get (SH "dataType") arcs, arcs_get (SH "nodeKind") arcs, arcs_get (SH "node") arcs,
        arcs_get (SH "in") arcs with
  | [RIri d], [], [], [] => Some (Datatype d)
  | [], [RIri k], [], [] =>
    if str_eqb k (SH "IRI") then Some KindIri
    else if str_eqb k (SH "BlankNode") then Some KindBnode
    else if str_eqb k (SH "BlankNodeOrIRI") then Some KindNonLiteral
    else None
  | [], [], [RIri l], [] => Some (Ref l)
  | [], [], [], [RBlank [(f, RIri c); (r, RIri n)]] =>
    if str_eqb f (RDFNS "first") && str_eqb r (RDFNS "rest") && str_eqb n (RDFNS "nil")
    then Some (ClassValue c) else None
  | _, _, _, _ => None
  end.

Definition dec_path (arcs : list (str * rnode)) : option (bool * str) :=
  match arcs_get (SH "path") arcs, arcs_get (SH "property") arcs with
  | [RIri p], [] => Some (false, p)
  | [], [RBlank [(q, RIri p)]] => if str_eqb q (SH "inversePath") then Some (true, p) else None
  | _, _ => None
  end.

Definition dec (r : rnode) : option constr :=
  match r with
  | RBlank arcs =>
    match dec_path arcs, dec_restr arcs,
          (match arcs_get (SH "minCount") arcs with [] => Some 0%N | [x] => dec_int x | _ => None end),
          (match arcs_get (SH "maxCount") arcs with [] => Some None | [x] => option_map Some (dec_int x) | _ => None end) with
    | Some (inv, p), Some rs, Some mn, Some mx =>
      Some {| c_inv := inv; c_pred := p; c_restr := rs; c_min := mn; c_max := mx |}
    | _, _, _, _ => None
    end
  | _ => None
  end.
