(** * Reference semantics of property C18: "results depend only on the
    arguments, not on output channel or call history".

    [pure_shex a d t f] is the text a brand-new Shaper, built from constructor
    arguments [a] and its OWN PRIVATE COPY of the namespaces dictionary value
    [d], returns for [shex_graph(string_output=True, output_format=f,
    acceptance_threshold=t)] as its first and only call -- one pass through the
    stages, nothing memoised, nothing shared.  The specification of a history
    ([spec]) is then: every call yields [pure] of ITS OWN arguments and of the
    constructor arguments of ITS Shaper, by value, on either channel; a
    dictionary the caller passes to several constructors denotes the value the
    caller gave it (in the reference world nobody writes into it).

    The stage functions are the same [Section] variables as in
    [Model/ShaperApi.v]; [ctor_dict]/[add_shacl] describe what ONE call does
    with its own dictionary and are shared with the model. *)

From Coq Require Import List Ascii String ZArith Bool Arith.
From Shexer Require Import Lib.PyStr Lib.Dict Gen.Consts Model.Config Model.Determinism Model.ShaperApi.
Import ListNotations.

Section ApiSpec.
  Variables args tcd prof shapes thr : Type.
  Variable a_shapes_ns : args -> str.
  Variable a_examples : args -> option str.
  Variable st_track : args -> nsd -> tcd.
  Variable st_reader_ns : args -> nsd -> nsd.
  Variable st_profile : args -> nsd -> tcd -> prof.
  Variable st_shex : args -> nsd -> prof -> thr -> shapes.
  Variable st_add_examples : args -> nsd -> shapes -> shapes.
  Variable st_shexc_lines : args -> nsd -> shapes -> list str.
  Variable st_shacl_text : args -> nsd -> shapes -> str.
  Variable st_profile_text : prof -> str.
  Variable rand : nat -> str.
  Variable fuel : nat.

  (** constructor + tracker + profiler of a fresh Shaper: final dictionary and profile *)
  Definition pure_stages (a : args) (d0 : nsd) : option (nsd * prof) :=
    match ctor_dict args a_shapes_ns rand fuel a d0 with
    | None => None
    | Some d1 =>
      let tc := st_track a d1 in
      let d2 := st_reader_ns a d1 in
      let pr := st_profile a d2 tc in
      Some (st_reader_ns a d2, pr)
    end.

  Definition pure_shex (a : args) (d0 : nsd) (t : thr) (f : fmt) : option str :=
    match pure_stages a d0 with
    | None => None
    | Some (d3, pr) =>
      let s := st_shex a d3 pr t in
      match f with
      | ShExC => Some (List.concat (st_shexc_lines a d3
                         (if mem_opt_str (a_examples a) c18_examples_modes_mutating
                          then st_add_examples a d3 s else s)))
      | SHACL => Some (st_shacl_text a (add_shacl d3) s)
      end
    end.

  Definition pure_profile (a : args) (d0 : nsd) : option str :=
    match pure_stages a d0 with
    | None => None
    | Some (_, pr) => Some (st_profile_text pr)
    end.

  Definition on_channel (k : sink_kind) (x : option str) : outcome :=
    match x, k with
    | None, _ => OHang
    | Some t, SString => OText t
    | Some t, SFile => OFile t
    end.

  (** the value a dictionary argument denotes; [origs] = the value each
      dictionary object had when the caller first handed it over *)
  Definition dict_value (origs : list nsd) (da : dict_arg) : option nsd :=
    match da with
    | DNone => Some []
    | DNew d => Some d
    | DShared i => nth_error origs i
    end.

  Fixpoint spec_from (origs : list nsd) (ctors : list (args * nsd)) (h : list (op args thr)) : list outcome :=
    match h with
    | [] => []
    | New a da :: h' =>
      match dict_value origs da with
      | Some d => ONew :: spec_from (match da with DShared _ => origs | _ => origs ++ [d] end) (ctors ++ [(a, d)]) h'
      | None => OErr :: spec_from origs ctors h'
      end
    | Shex i f k t :: h' =>
      match nth_error ctors i with
      | Some (a, d) => on_channel k (pure_shex a d t f)
      | None => OErr
      end :: spec_from origs ctors h'
    | Profile i k :: h' =>
      match nth_error ctors i with
      | Some (a, d) => on_channel k (pure_profile a d)
      | None => OErr
      end :: spec_from origs ctors h'
    end.

  Definition spec (h : list (op args thr)) : list outcome := spec_from [] [] h.
End ApiSpec.
