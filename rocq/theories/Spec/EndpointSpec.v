(** * C15 vocabulary: the graph an endpoint serves, its local reading, and the
    restriction of a graph to a set of target nodes.

    Written from the property text, independent of [Model/Endpoint.v].

    A served graph is a list (without repetition: an RDF graph is a set) of
    RDF triples as a SPARQL endpoint knows them: IRIs, blank nodes, literals
    with optional datatype and language tag.  "The same graph supplied
    locally" is [local_of]: what sheXer's N-Triples yielder delivers for the
    same statement (an [IRI] / [BNode] / [Literal(content, elem_type)] object,
    [Spec/Rdf.v]): plain literals are [xsd:string], language-tagged ones
    [rdf:langString], typed ones carry their datatype. *)
From Coq Require Import List Ascii String ZArith Bool.
From Shexer Require Import Lib.PyStr Spec.Rdf.
Import ListNotations.

Inductive snode := NI (iri : str) | NB (label : str).
Inductive sterm := SN (n : snode) | SLit (lex : str) (dt : option str) (lang : option str).
Record striple := ST { ss : snode; sp : str; so : sterm }.
Definition sgraph := list striple.

Definition xsd_string : str := Str "http://www.w3.org/2001/XMLSchema#string".
Definition xsd_integer : str := Str "http://www.w3.org/2001/XMLSchema#integer".
Definition rdf_langstring : str := Str "http://www.w3.org/1999/02/22-rdf-syntax-ns#langString".

Definition local_node (n : snode) : node :=
  match n with
  | NI i => Node KIri i
  | NB b => Node KBnode (Str "_:" ++ b)
  end.

Definition local_obj (t : sterm) : obj :=
  match t with
  | SN n => ON (local_node n)
  | SLit lex dt lang =>
    OL lex (match lang with
            | Some _ => rdf_langstring
            | None => match dt with Some d => d | None => xsd_string end
            end)
  end.

Definition local_of (t : striple) : triple :=
  {| ts := local_node (ss t); tp := sp t; to := local_obj (so t) |}.

Definition local_graph (G : sgraph) : graph := map local_of G.

(** ** restriction to a set of target nodes (IRIs, given by their strings) *)

Definition subj_in (T : list str) (t : striple) : bool :=
  match ss t with NI i => mem_str i T | NB _ => false end.

Definition obj_in (T : list str) (t : striple) : bool :=
  match so t with SN (NI i) => mem_str i T | _ => false end.

(** outgoing statements of the targets *)
Definition out_of (T : list str) (G : sgraph) : sgraph := filter (subj_in T) G.
(** incoming statements of the targets *)
Definition into (T : list str) (G : sgraph) : sgraph := filter (obj_in T) G.

(** what the property calls "the triples of the targets": outgoing, plus
    incoming with inverse paths.  A statement linking two targets occurs in
    both parts. *)
Definition neighbourhood (inverse : bool) (T : list str) (G : sgraph) : sgraph :=
  out_of T G ++ (if inverse then into T G else []).

(** the same without the repetition: every statement touching a target, once *)
Definition touching (inverse : bool) (T : list str) (G : sgraph) : sgraph :=
  filter (fun t => subj_in T t || (inverse && obj_in T t)) G.

(** the instances of class [c] for instantiation property [tau] that a class
    selector asks for (blank subjects are filtered out by the selector) *)
Definition instances_of (tau c : str) (G : sgraph) : list str :=
  flat_map (fun t => match ss t, so t with
                     | NI i, SN (NI c') => if str_eqb (sp t) tau && str_eqb c' c then [i] else []
                     | _, _ => []
                     end) G.

(** sub-multiset / subsequence used by the log statements *)
Inductive subseq {A : Type} : list A -> list A -> Prop :=
| sub_nil : subseq [] []
| sub_take x l1 l2 : subseq l1 l2 -> subseq (x :: l1) (x :: l2)
| sub_skip x l1 l2 : subseq l1 l2 -> subseq l1 (x :: l2).
