(** * Reference definitions of property C08 (delivery channels), written from
    the property text; the only things shared with the model are data types
    ([Model.Channels.rd], [skind], ...).

    - abstract RDF graphs, their N-Triples semantics as sheXer's model
      objects ([kinded]) and their TSV / line renderings;
    - what a *line-compositional* document reader is (N-Triples, TSV);
    - blank-node renaming of a delivered graph;
    - which (format, compression, source kind) combinations the Shaper
      accepts, and the yielder class each one is documented to reach. *)
From Coq Require Import List Ascii String ZArith Bool.
From Shexer Require Import Lib.PyStr Spec.Rdf Model.Channels.
Import ListNotations.

(** ** abstract RDF *)

Inductive lkind := LPlain | LTyped (dt : str) | LLang (tag : str).
Inductive anode := AIri (s : str) | ABn (label : str).
Inductive aobj := AN (n : anode) | ALit (lex : str) (k : lkind).
Record atriple := AT { a_s : anode; a_p : str; a_o : aobj }.
Definition agraph := list atriple.

Definition xsd_string : str := Str "http://www.w3.org/2001/XMLSchema#string".
Definition rdf_langString : str := Str "http://www.w3.org/1999/02/22-rdf-syntax-ns#langString".

(** the N-Triples reading of a term as a sheXer model object: IRIs without
    corners, blank nodes with their [_:] label, literals with their lexical
    form and the datatype IRI (plain = xsd:string, tagged = rdf:langString) *)
Definition knode (n : anode) : node :=
  match n with AIri s => Node KIri s | ABn l => Node KBnode (Str "_:" ++ l) end.

Definition dt_of (k : lkind) : str :=
  match k with LPlain => xsd_string | LTyped dt => dt | LLang _ => rdf_langString end.

Definition kobj (o : aobj) : obj :=
  match o with AN n => ON (knode n) | ALit lex k => OL lex (dt_of k) end.

Definition kinded (g : agraph) : graph :=
  map (fun t => T (knode (a_s t)) (a_p t) (kobj (a_o t))) g.

(** what rdflib holds for an abstract literal: lexical form, datatype, language *)
Definition rlit_of (lex : str) (k : lkind) : rlit :=
  match k with
  | LPlain => RL lex None None
  | LTyped dt => RL lex (Some dt) None
  | LLang tag => RL lex None (Some tag)
  end.

(** ** renderings (no escapes: the domain predicates exclude what would need one) *)

Definition TAB : ascii := ascii_of_nat 9.
Definition Q : ascii := ascii_of_nat 34.         (* the double quote *)

Definition r_node (n : anode) : str :=
  match n with AIri s => Str "<" ++ s ++ Str ">" | ABn l => Str "_:" ++ l end.

Definition r_obj (o : aobj) : str :=
  match o with
  | AN n => r_node n
  | ALit lex LPlain => Q :: lex ++ [Q]
  | ALit lex (LTyped dt) => Q :: lex ++ Q :: Str "^^<" ++ dt ++ Str ">"
  | ALit lex (LLang tag) => Q :: lex ++ Q :: Str "@" ++ tag
  end.

(** one TSV_SPO line: the three N-Triples terms separated by tabs, no final dot *)
Definition tsv_line_of (t : atriple) : str :=
  r_node (a_s t) ++ TAB :: (Str "<" ++ a_p t ++ Str ">") ++ TAB :: r_obj (a_o t).

(** a document = its lines, each terminated by a line feed *)
Definition render_lines (ls : list str) : str := List.concat (map (fun l => l ++ [LF]) ls).

Definition tsv_doc (g : agraph) : str := render_lines (map tsv_line_of g).

(** ** domain of the TSV theorem: terms a tab-separated line can carry verbatim *)

Definition no_space (s : str) : bool := forallb (fun c => negb (is_space c)) s.
Definition no_char (c : ascii) (s : str) : bool := forallb (fun x => negb (Ascii.eqb x c)) s.

Definition iri_ok (s : str) : bool := no_space s.
Definition node_ok (n : anode) : bool := match n with AIri s => iri_ok s | ABn l => no_space l end.

(** lexical forms: no tab, line feed or double quote, and not starting with
    two carets (the reader searches the three characters quote-caret-caret
    from the opening quote on) *)
Definition lex_ok (lex : str) : bool :=
  no_char TAB lex && no_char LF lex && no_char Q lex && negb (prefixb (Str "^^") lex).

(** datatype IRIs: nothing the typing function mistakes for something else *)
Definition dt_ok (lex dt : str) : bool :=
  no_space dt && no_char Q dt && no_char (ascii_of_nat 64) dt &&
  (let tok := r_obj (ALit lex (LTyped dt)) in
   negb (contains (Str "xsd:") tok) && negb (contains (Str "rdf:") tok) &&
   negb (contains (Str "dt:") tok) && negb (contains (Str "geo:") tok)).

Definition obj_ok (o : aobj) : bool :=
  match o with
  | AN n => node_ok n
  | ALit lex LPlain => lex_ok lex
  | ALit lex (LTyped dt) => lex_ok lex && dt_ok lex dt
  | ALit lex (LLang tag) => lex_ok lex && no_space tag && no_char Q tag
  end.

Definition triple_ok (t : atriple) : bool := node_ok (a_s t) && iri_ok (a_p t) && obj_ok (a_o t).
Definition tsv_dom (g : agraph) : bool := forallb triple_ok g.

(** ** line-compositional document readers.

    A reader consumes the lines a line reader delivers.  It is
    line-compositional when reading a concatenation is the concatenation of
    the readings (triples, counters, first exception) and a line is looked at
    through [strip()] only.  It is blank-silent when a blank line yields no
    triple (it may count as a discarded line). *)
Record line_compositional (read : list str -> rd) : Prop := {
  lc_nil : read [] = inl res_nil;
  lc_app : forall a b, read (a ++ b) = rd_app (read a) (read b);
  lc_strip : forall l l', strip l = strip l' -> read [l] = read [l']
}.

Definition blank_silent (read : list str -> rd) : Prop :=
  forall l, strip l = [] -> exists n, read [l] = inl (Res [] 0 n).

(** either the reader is blank-silent or the document has no blank line *)
Definition blanks_harmless (read : list str -> rd) (ls : list str) : Prop :=
  blank_silent read \/ Forall (fun l => nonblank l = true) ls.

(** lines a text file can hold verbatim on every line reader: no line feed or
    carriage return inside, valid UTF-8 *)
Definition line_ok (l : str) : Prop :=
  ~ In LF l /\ ~ In CR l /\ decode_strict l = Some l.

(** [stored] decompresses to [doc] under compression mode [cm] (plain, gz, xz) *)
Definition stored_as (gunzip unxz : str -> option str) (cm : option str) (doc stored : str) : Prop :=
  match cm with
  | None => stored = doc
  | Some c => (c = Str "gz" /\ gunzip stored = Some doc) \/ (c = Str "xz" /\ unxz stored = Some doc)
  end.

(** ** blank-node renaming of a delivered graph *)

Definition rename_node (f : str -> str) (n : node) : node :=
  match nk n with KBnode => Node KBnode (f (nid n)) | KIri => n end.

Definition rename_obj (f : str -> str) (o : obj) : obj :=
  match o with ON n => ON (rename_node f n) | OL _ _ => o end.

Definition rename_triple (f : str -> str) (t : triple) : triple :=
  T (rename_node f (ts t)) (tp t) (rename_obj f (to t)).

Definition rename (f : str -> str) (g : graph) : graph := map (rename_triple f) g.

Definition is_bnode (n : node) : bool := match nk n with KBnode => true | KIri => false end.

(** the blank nodes of a graph (subjects and objects) *)
Definition bnode_ids (g : graph) : list str :=
  flat_map (fun t => (if is_bnode (ts t) then [nid (ts t)] else []) ++
                     match to t with ON n => if is_bnode n then [nid n] else [] | OL _ _ => [] end) g.

(** no blank node takes part in a typing triple: instances and classes are IRIs *)
Definition typing_iri (tau : str) (g : graph) : Prop :=
  forall t, In t g -> tp t = tau ->
            is_bnode (ts t) = false /\ match to t with ON n => is_bnode n = false | OL _ _ => True end.

(** ** accepted combinations and the yielder each one is documented to reach *)

Definition documented_formats : list str :=
  [Str "nt"; Str "tsv_spo"; Str "n3"; Str "turtle"; Str "xml"; Str "json-ld"; Str "turtle_iter"].
Definition documented_compressions : list (option str) :=
  [None; Some (Str "zip"); Some (Str "gz"); Some (Str "xz")].

Definition is_url (k : skind) : bool := match k with KUrl | KUrls _ => true | _ => false end.
Definition is_some_str (o : option str) : bool := match o with Some _ => true | None => false end.

(** what [Shaper.__init__] lets through (C20): a known format, a known
    compression mode, no compression with a remote source *)
Definition accepted (fmt : str) (cm : option str) (k : skind) : Prop :=
  In fmt documented_formats /\ In cm documented_compressions /\ (is_some_str cm = true -> is_url k = false).

Definition rdflib_formats : list str := [Str "n3"; Str "turtle"; Str "xml"; Str "json-ld"; Str "nt"].

(** combinations outside the dispatch theorem (a recorded finding): a URL
    with a format rdflib's parser plug-ins do not know.  (A compression mode
    given with a raw string or an rdflib graph has nothing to decompress and
    is ignored.) *)
Definition dispatch_dom (fmt : str) (cm : option str) (k : skind) : bool :=
  negb (is_url k && negb (mem_str fmt rdflib_formats)).

(** the class [get_triple_yielder] is documented to return *)
Definition family (fmt : str) : str * str :=
  if str_eqb fmt (Str "nt") then (Str "NtTriplesYielder", Str "MultiNtTriplesYielder")
  else if str_eqb fmt (Str "tsv_spo") then (Str "TsvNtTriplesYielder", Str "MultiTsvNtTriplesYielder")
  else if str_eqb fmt (Str "turtle_iter") then (Str "BigTtlTriplesYielder", Str "MultiBigTtlTriplesYielder")
  else (Str "RdflibParserTripleYielder", Str "MultiRdfLibTripleYielder").

Definition expected_class (fmt : str) (cm : option str) (k : skind) : str :=
  match k with
  | KGraph => Str "RdflibTripleYielder"
  | KUrl => Str "RdflibParserTripleYielder"
  | KUrls _ => Str "MultiRdfLibTripleYielder"
  | KRaw => fst (family fmt)
  | KFile => if opt_str_eqb cm (Str "zip") then snd (family fmt) else fst (family fmt)
  | KFiles n => if opt_str_eqb cm (Str "zip") && negb (Nat.eqb n 1) then Str "MultiZipTriplesYielder"
                else snd (family fmt)
  end.
