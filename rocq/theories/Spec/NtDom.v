(** * C06_dom: the statements and layouts on which the current N-Triples
    reader is proved right (hypothesis of [Props/C06.v: C06_partial]).

    A boolean predicate over the abstract triple and its layout, written over
    the Spec vocabulary only.  Every conjunct that excludes valid input
    corresponds to a root cause recorded in known_findings.json (ids C06-F1 ... C06-F8, C06-F7r). *)

From Coq Require Import List Ascii String ZArith Bool.
From Shexer Require Import Lib.PyStr Spec.NtSyntax.
Import ListNotations.

Definition has (n : nat) (s : str) : bool := existsb (is_ch n) s.

(** the part of [s] that begins at the first occurrence of [p] ([] if none) *)
Definition from_first (p s : str) : str :=
  match find_nat p s with Some n => skipn n s | None => [] end.

Definition no_ws (s : str) : bool := forallb (fun c => negb (is_ws c)) s.

(** an escaped backslash immediately followed by an escaped quote:  \\\dquote  *)
Fixpoint bs_then_quote (l : list item) : bool :=
  match l with
  | [] => false
  | i :: l' =>
    (match i, l' with
     | IEsc a, IEsc b :: _ => is_ch 92 a && is_ch 34 b
     | _, _ => false
     end) || bs_then_quote l'
  end.

(** text of the trailing comment ([] when there is none) *)
Definition ctext (l : layout) : str :=
  match comment l with None => [] | Some (_, txt) => txt end.

(** the final dot directly follows the object and a comment follows the dot *)
Definition glued (l : layout) : bool :=
  str_eqb (predot l) [] && match comment l with None => false | Some _ => true end.

Definition s_hats : str := Str "^^".
Definition s_quote_hats : str := dq :: Str "^^".
Definition prefix_like : list str := [Str "xsd:"; Str "rdf:"; Str "dt:"; Str "geo:"].

Definition lex_is_empty (l : list item) : bool := match l with [] => true | _ => false end.

Definition is_some {A} (o : option A) : bool := match o with Some _ => true | None => false end.

(** ** root causes: each is a way in which the current reader goes wrong on
    valid input (one known finding each); [C06_dom] is their joint absence *)
Section RootCauses.
  Variable t : striple.
  Variable l : layout.

  Definition otext : str := r_obj (t_o t).
  Definition is_plain : bool := match t_o t with OLit _ SufNone => true | _ => false end.
  Definition is_lang : bool := match t_o t with OLit _ (SufLang _) => true | _ => false end.
  Definition is_typed : bool := match t_o t with OLit _ (SufType _) => true | _ => false end.
  Definition olex : list item := match t_o t with OLit lex _ => lex | _ => [] end.
  Definition odt : str := match t_o t with OLit _ (SufType d) => d | _ => [] end.
  Definition is_bnode_obj : bool := match t_o t with ONode (NBn _) => true | _ => false end.

  (** F1: plain literal (scanned quote by quote: no ^^ around) whose lexical
      form has an escaped backslash right before an escaped quote: the
      escaped quote is taken for the closing one *)
  Definition rc_F1 : bool := is_plain && negb (contains s_hats otext) && bs_then_quote olex.

  (** F2: plain or typed literal with ^^ inside the lexical form and a blank
      after it: the token is cut at that blank *)
  Definition rc_F2 : bool :=
    (is_plain || is_typed) && contains s_hats otext && negb (no_ws (from_first s_hats otext)).

  (** F3: dquote^^ occurs before the closing quote (lexical form starting with
      ^^, or containing an escaped quote followed by ^^): a plain literal is
      taken for a typed one without datatype (RuntimeError raised out of the
      reader), a typed literal gets a wrong datatype *)
  Definition rc_F3 : bool :=
    (is_plain && contains s_quote_hats otext) ||
    (is_typed && negb (match find_nat s_quote_hats otext with
                       | Some n => Nat.eqb n (S (List.length (r_lex olex)))
                       | None => false
                       end)).

  (** F4: xsd: rdf: dt: geo: anywhere in a typed literal replaces its datatype *)
  Definition rc_F4 : bool := is_typed && existsb (fun p => contains p otext) prefix_like.

  (** F5: '@' in the datatype IRI: the literal is taken for a language-tagged one *)
  Definition rc_F5 : bool := is_typed && has 64 odt.

  (** F6: the comment moves the last '@' / the last quote of the line *)
  Definition rc_F6 : bool :=
    ((is_plain || is_typed || is_lang) && has 64 (ctext l)) ||
    (is_lang && has 34 (ctext l)) ||
    (is_plain && lex_is_empty olex && has 34 (ctext l)).

  (** F7: no blank before the final dot and a comment after it: tokens ended
      by the first blank (blank node, language tag, datatype, literal with ^^
      inside) swallow the dot *)
  Definition rc_F7 : bool :=
    glued l && (is_bnode_obj || is_lang || is_typed || (is_plain && contains s_hats otext)).

  (** F8: ^^ in the comment after a plain literal: the literal is tokenised as a typed one *)
  Definition rc_F8 : bool := is_plain && negb (contains s_hats otext) && contains s_hats (ctext l).

  Definition root_causes : list bool := [rc_F1; rc_F2; rc_F3; rc_F4; rc_F5; rc_F6; rc_F7; rc_F8].

  Definition C06_dom : bool := forallb negb root_causes.

  (** ** after the repairs of the tokeniser (token-end-before-dot, closing-quote-scan)

      F1, F2, F6, F8 are gone and of F7 only this is left: a blank node object,
      the dot right after it and the comment right after the dot ([_:b2.#c]).
      F3, F4, F5 (typing of the token by [decide_literal_type]) are unchanged. *)
  Definition rc_F7_fx : bool :=
    is_bnode_obj && str_eqb (predot l) [] &&
    match comment l with Some (w, _) => str_eqb w [] | None => false end.

  Definition root_causes_fx : list bool := [false; false; rc_F3; rc_F4; rc_F5; false; rc_F7_fx; false].

  Definition C06_dom_fx : bool := forallb negb root_causes_fx.

  (** ** after the typing repair (literal-type-from-suffix) as well: only the remainder of F7 *)
  Definition root_causes_fx2 : list bool := [false; false; false; false; false; false; rc_F7_fx; false].

  Definition C06_dom_fx2 : bool := forallb negb root_causes_fx2.

End RootCauses.

(** ** after the repair comment-glued-to-dot as well ([hs]: a token also ends at '#'): nothing is
    left; [hs = false] is the reader without that repair ([root_causes_fx2]) *)
Definition rc_F7_fx3 (hs : bool) (t : striple) (l : layout) : bool := negb hs && rc_F7_fx t l.

Definition root_causes_fx3 (hs : bool) (t : striple) (l : layout) : list bool :=
  [false; false; false; false; false; false; rc_F7_fx3 hs t l; false].

Definition C06_dom_fx3 (hs : bool) (t : striple) (l : layout) : bool := forallb negb (root_causes_fx3 hs t l).

(** ** F9: the reader has no notion of a comment line or of a blank line.  Every line the line
    reader delivers is tokenised: a comment line counts as an error line, or -- when exactly
    three tokens can be read out of it, e.g. a commented-out statement -- yields a triple that
    the document does not state.  The raw-string line reader drops blank lines itself; the file
    line reader does not, so there a blank line counts as an error line too. *)
Definition rc_F9 (d : dline) : bool := match d with DComment _ _ => true | _ => false end.
Definition rc_F9_file (d : dline) : bool := match d with DStmt _ _ => false | _ => true end.
