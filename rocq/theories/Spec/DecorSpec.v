(** * Removing the decorations of [detect_minimal_iri] / [examples_mode] from a
    ShExC document, line by line (reference definition for C17's "neither
    option changes any constraint"; independent of the model).

    A document is a list of newline-terminated lines: the PREFIX block up to
    its closing empty line, then per shape a header line, ["{"], the body, a
    closing line that starts with ["}"], two empty lines.

    - header line: the label is the text before the first blank; if it is
      followed by ["  [<"] the text up to and including the next [">~]  AND"]
      goes;
    - closing line: ["} // rdfs:comment ..."] becomes ["}"];
    - body lines that start, after the comment indentation (four levels), with
      ["// rdfs:comment "] go.

    The layout strings are those of the serialiser ([Gen/Consts.v]). *)
From Coq Require Import List Ascii String ZArith Bool.
From Shexer Require Import Lib.PyStr Gen.Consts.
Import ListNotations.

Definition d_nl : str := [ascii_of_nat 10].
Definition d_indent4 : str := List.concat (repeat c_SPACES_LEVEL_INDENTATION 4).

(** text before the first blank, and the rest *)
Fixpoint span_nospace (s : str) : str * str :=
  match s with
  | [] => ([], [])
  | c :: s' => if Ascii.eqb c " "%char then ([], s)
               else let (a, b) := span_nospace s' in (c :: a, b)
  end.

(** split at the first occurrence of [pat]: (before, after) *)
Fixpoint cut_at (pat s : str) : option (str * str) :=
  if prefixb pat s then Some ([], skipn (List.length pat) s)
  else match s with
       | [] => None
       | c :: s' => match cut_at pat s' with
                    | Some (a, b) => Some (c :: a, b)
                    | None => None
                    end
       end.

Definition strip_header (l : str) : str :=
  let (label, rest) := span_nospace l in
  if prefixb c17d_stem_pre rest then
    match cut_at c17d_stem_post (skipn (List.length c17d_stem_pre) rest) with
    | Some (_, after) => label ++ after
    | None => l
    end
  else l.

Definition strip_closing (l : str) : str :=
  if prefixb (Str "}" ++ c17d_inst_pre) l then Str "}" ++ d_nl else l.

Definition is_example_line (l : str) : bool := prefixb (d_indent4 ++ c17d_cons_pre) l.

Inductive dstate := DPre | DOut | DIn.

Fixpoint strip_decor_from (st : dstate) (ls : list str) : list str :=
  match ls with
  | [] => []
  | l :: ls' =>
    match st with
    | DPre => l :: strip_decor_from (if str_eqb l d_nl then DOut else DPre) ls'
    | DOut => if str_eqb l d_nl then l :: strip_decor_from DOut ls'
              else strip_header l :: strip_decor_from DIn ls'
    | DIn => if prefixb (Str "}") l then strip_closing l :: strip_decor_from DOut ls'
             else if is_example_line l then strip_decor_from DIn ls'
             else l :: strip_decor_from DIn ls'
    end
  end.

Definition strip_decor (ls : list str) : list str := strip_decor_from DPre ls.
