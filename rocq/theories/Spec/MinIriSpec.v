(** * C17, declarative side: what an IRI stem / an example must be.

    Written from the property text; does not mention the model.  (The one
    generated constant read here, [Gen.Consts.c_min_iri_skips_bnode_prefix],
    selects the DOMAIN of the stem theorems for the source tree at hand:
    finding C09-F3, see [C17_dom].)

    "With detect_minimal_iri, the IRI stem attached to a shape is a prefix of
    the IRI of every instance of that shape, ends at a separator character
    (':', '/' or '#'), and is the longest such stem; no stem is printed when
    that would be shorter than three characters or just a scheme such as
    http:// or https://.  With examples_mode, the example shown for a shape is
    one of its instances and the example shown for a constraint is an actual
    value of that property (in that direction) on one of the shape's
    instances." *)
From Coq Require Import List Ascii String ZArith Bool Lia.
From Shexer Require Import Lib.PyStr Lib.Dict Gen.Consts Spec.Rdf.
Import ListNotations.
Local Open Scope Z_scope.

(** ** stems *)

Definition is_sep (c : ascii) : Prop := c = ":"%char \/ c = "/"%char \/ c = "#"%char.

Definition prefix (s i : str) : Prop := exists r, i = s ++ r.

Definition common_prefix (s : str) (iris : list str) : Prop := forall i, In i iris -> prefix s i.

Definition ends_with_sep (s : str) : Prop := exists s0 c, s = s0 ++ [c] /\ is_sep c.

Definition sep_free (s : str) : Prop := forall c, In c s -> ~ is_sep c.

(** "just a scheme such as http:// or https://": a scheme name followed by
    [:], [:/] or [://] and nothing else *)
Definition bare_scheme (s : str) : Prop :=
  exists sch, sch <> [] /\ sep_free sch /\
              (s = sch ++ Str ":" \/ s = sch ++ Str ":/" \/ s = sch ++ Str "://").

(** an instance identifier is an IRI or the label of a blank node, written
    [_:label]; a blank node has no IRI *)
Definition bnode_id (i : str) : Prop := prefix (Str "_:") i.

(** the shape of a stem: a common prefix of the identifiers that ends at a
    separator, has three characters and is more than a scheme *)
Definition stem_shaped (s : str) (iris : list str) : Prop :=
  common_prefix s iris /\ ends_with_sep s /\ 3 <= pylen s /\ ~ bare_scheme s.

(** a stem that may be printed for a class whose instances are [iris]: "a
    prefix of the IRI of every instance" -- every instance has an IRI (none is
    a blank node), and the stem has the shape above *)
Definition admissible (s : str) (iris : list str) : Prop :=
  stem_shaped s iris /\ forall i, In i iris -> ~ bnode_id i.

Definition is_longest (s : str) (iris : list str) : Prop :=
  admissible s iris /\ forall s', admissible s' iris -> (List.length s' <= List.length s)%nat.

(** ** the domain of the stem theorems: the class has at least one instance
    and no instance id starts with ['%'] (no IRI and no blank-node label
    does; the code uses that character as its "no instance yet" marker). *)
Definition well_formed_ids (iris : list str) : Prop :=
  iris <> [] /\ forall i, In i iris -> ~ prefix (Str "%") i.

(** [C17_dom_at guard]: the domain of the stem theorems for a source tree in
    which [_determine_suitable_iri_pattern] refuses ([guard = true]) or does
    not refuse ([guard = false]) a common prefix that starts with the
    blank-node marker.  With the guard: every well-formed list, classes with
    blank-node instances included (nothing is printed for them).  Without it
    (finding C09-F3: a "stem" such as [_:genid:] is cut out of the LABELS of a
    class all of whose instances are blank nodes): the lists in which some
    instance is not a blank node. *)
Definition C17_dom_at (guard : bool) (iris : list str) : Prop :=
  well_formed_ids iris /\ (guard = false -> exists i, In i iris /\ ~ bnode_id i).

Definition C17_dom (iris : list str) : Prop := C17_dom_at c_min_iri_skips_bnode_prefix iris.

(** *** the same, computable *)
Definition is_sepb (c : ascii) : bool :=
  Ascii.eqb c ":"%char || Ascii.eqb c "/"%char || Ascii.eqb c "#"%char.

Fixpoint span_scheme (s : str) : str * str :=
  match s with
  | [] => ([], [])
  | c :: s' => if is_sepb c then ([], s) else let (a, b) := span_scheme s' in (c :: a, b)
  end.

Definition bare_schemeb (s : str) : bool :=
  let (sch, rest) := span_scheme s in
  match sch with
  | [] => false
  | _ => str_eqb rest (Str ":") || str_eqb rest (Str ":/") || str_eqb rest (Str "://")
  end.

Definition bnode_idb (i : str) : bool := prefixb (Str "_:") i.

Definition well_formed_idsb (iris : list str) : bool :=
  match iris with
  | [] => false
  | _ :: _ => forallb (fun i => negb (prefixb (Str "%") i)) iris
  end.

Definition C17_domb_at (guard : bool) (iris : list str) : bool :=
  well_formed_idsb iris && (guard || existsb (fun i => negb (bnode_idb i)) iris).

Definition C17_domb (iris : list str) : bool := C17_domb_at c_min_iri_skips_bnode_prefix iris.

(** ** examples *)

(** instance dictionary: instance id -> classes *)
Definition is_instance (I : dict (list str)) (c i : str) : Prop :=
  exists cs, In (i, cs) I /\ In c cs.

(** ids of the instances of [c] in dictionary order (an id occurs once per
    occurrence of [c] in its class list) *)
Definition instances_of (I : dict (list str)) (c : str) : list str :=
  flat_map (fun ic => map (fun _ => fst ic) (filter (str_eqb c) (snd ic))) I.

Definition obj_text (o : obj) : str :=
  match o with ON n => nid n | OL content _ => content end.

(** [v] is a value of property [p] on instance [i], in the given direction *)
Definition value_of (g : graph) (inverse : bool) (i p v : str) : Prop :=
  exists t, In t g /\ tp t = p /\
            if inverse
            then (exists n, to t = ON n /\ nid n = i) /\ nid (ts t) = v
            else nid (ts t) = i /\ obj_text (to t) = v.

Definition constraint_example_ok (I : dict (list str)) (g : graph) (c p : str) (inverse : bool) (v : str) : Prop :=
  exists i, is_instance I c i /\ value_of g inverse i p v.
