(** * The Turtle dialect of property C07 as a layout relation, and its meaning.

    Written from the property text, independent of [Model/].

    A document is a sequence of directives and statement groups ([doc]).  Its
    meaning [sem] is the list of triples, in document order, after prefix and
    base expansion.  A *layout* is a list of physical lines; a statement line
    carries any number of tokens (possibly none: blank and whole-line comment
    lines), with arbitrary runs of blanks/tabs between them and an optional
    trailing comment; a directive sits on a line of its own.  [lays_out ls d]
    says that reading the tokens of [ls] in order gives exactly the token
    sequence of [d] -- so line breaks may fall at ANY token boundary (a
    subject alone on its line, punctuation on its own line, ...). *)
From Coq Require Import List Ascii String ZArith Bool.
From Shexer Require Import Lib.PyStr Spec.Rdf.
Import ListNotations.

(** ** abstract syntax *)

Inductive iri_ref :=
| IAbs (iri : str)        (* <iri> with a scheme: taken as written *)
| IRel (ref : str)        (* <ref> without a scheme: resolved against the base in force *)
| IPre (pfx loc : str).   (* pfx:loc *)

Inductive subj := SIri (r : iri_ref) | SBn (label : str).
Inductive pred := PA | PIri (r : iri_ref).                        (* [a] or an IRI *)
Inductive lit_suffix := LPlain | LLang (tag : str) | LTyped (r : iri_ref).
Inductive object :=
| OIri (r : iri_ref)
| OBn (label : str)
| OLit (lex : str) (sfx : lit_suffix)      (* "lex", "lex"@tag, "lex"^^iri ; lex as written, escapes included *)
| OInt (digits : str).                      (* untyped integer *)

Record group := Group { g_subj : subj; g_pos : list (pred * list object) }.

Inductive directive := DPrefix (pfx : str) (r : iri_ref) | DBase (r : iri_ref).
Inductive item := IDir (d : directive) | IGrp (g : group).
Definition doc := list item.

(** ** meaning *)

Definition xsd_ns : str := Str "http://www.w3.org/2001/XMLSchema#".
Definition rdf_ns : str := Str "http://www.w3.org/1999/02/22-rdf-syntax-ns#".
Definition rdf_type_iri : str := rdf_ns ++ Str "type".
Definition xsd_string : str := xsd_ns ++ Str "string".
Definition xsd_integer : str := xsd_ns ++ Str "integer".
Definition rdf_langString : str := rdf_ns ++ Str "langString".

Record env := Env { e_prefixes : list (str * str); e_base : option str }.
Definition env0 : env := Env [] None.

(** latest declaration of a prefix wins: declarations are consed in front *)
Fixpoint lookup (p : str) (l : list (str * str)) : option str :=
  match l with
  | [] => None
  | (q, ns) :: l' => if str_eqb p q then Some ns else lookup p l'
  end.

(** Reference resolution (RFC 3986 5.2) restricted to what the dialect uses:
    a base [scheme://authority/path] without query and fragment, and references that are
    empty, a fragment [#f], an absolute path [/p] or a relative path without
    dot segments and query.  Anything else is outside the dialect ([None]). *)
Definition chr (s : string) : ascii := match s with String c _ => c | EmptyString => zero end.

Fixpoint upto_last (c : ascii) (s : str) : str :=   (* s up to and including the last c; [] if none *)
  match s with
  | [] => []
  | x :: s' => match upto_last c s' with
               | [] => if Ascii.eqb x c then [x] else []
               | r => x :: r
               end
  end.

Definition before_first (p s : str) : str :=
  match find_nat p s with Some n => firstn n s | None => s end.

(** [scheme://authority] of a hierarchical base, [None] if the base has no [://] *)
Definition authority_part (b : str) : option str :=
  match find_nat (Str "://") b with
  | None => None
  | Some n =>
    let rest := skipn (n + 3) b in
    Some (firstn (n + 3) b ++ before_first (Str "/") rest)
  end.

Definition has_dot_segment (ref : str) : bool :=
  existsb (fun seg => str_eqb seg (Str ".") || str_eqb seg (Str "..")) (split (Str "/") ref).

Definition resolve (b ref : str) : option str :=
  match authority_part b with
  | None => None
  | Some auth =>
    if contains (Str "?") b || contains (Str "#") b || contains (Str "?") ref || has_dot_segment ref then None
    else
      let b0 := b in
      match ref with
      | [] => Some b0
      | c :: _ =>
        if Ascii.eqb c (chr "#") then Some (b0 ++ ref)
        else if Ascii.eqb c (chr "/") then
          (if prefixb (Str "//") ref then None else Some (auth ++ ref))
        else
          (* path of the base up to its last "/" (the authority alone gets a "/") *)
          let path := skipn (List.length auth) b0 in
          match upto_last (chr "/") path with
          | [] => Some (auth ++ Str "/" ++ ref)
          | d => Some (auth ++ d ++ ref)
          end
      end
  end.

Definition resolve_ref (e : env) (r : iri_ref) : option str :=
  match r with
  | IAbs i => Some i
  | IRel ref => match e_base e with Some b => resolve b ref | None => None end
  | IPre p l => match lookup p (e_prefixes e) with Some ns => Some (ns ++ l) | None => None end
  end.

Definition sem_subj (e : env) (s : subj) : option node :=
  match s with
  | SIri r => option_map (Node KIri) (resolve_ref e r)
  | SBn l => Some (Node KBnode (Str "_:" ++ l))
  end.

Definition sem_pred (e : env) (p : pred) : option str :=
  match p with PA => Some rdf_type_iri | PIri r => resolve_ref e r end.

Definition sem_obj (e : env) (o : object) : option obj :=
  match o with
  | OIri r => option_map (fun i => ON (Node KIri i)) (resolve_ref e r)
  | OBn l => Some (ON (Node KBnode (Str "_:" ++ l)))
  | OLit lex LPlain => Some (OL lex xsd_string)
  | OLit lex (LLang _) => Some (OL lex rdf_langString)
  | OLit lex (LTyped r) => option_map (OL lex) (resolve_ref e r)
  | OInt ds => Some (OL ds xsd_integer)
  end.

(** all-or-nothing sequencing *)
Fixpoint seq_opt {A} (l : list (option A)) : option (list A) :=
  match l with
  | [] => Some []
  | None :: _ => None
  | Some a :: l' => option_map (cons a) (seq_opt l')
  end.

Definition sem_po (e : env) (s : node) (po : pred * list object) : option (list triple) :=
  match sem_pred e (fst po) with
  | None => None
  | Some p => option_map (map (T s p)) (seq_opt (map (sem_obj e) (snd po)))
  end.

Definition sem_group (e : env) (g : group) : option (list triple) :=
  match sem_subj e (g_subj g) with
  | None => None
  | Some s => option_map (@List.concat triple) (seq_opt (map (sem_po e s) (g_pos g)))
  end.

Definition sem_dir (e : env) (d : directive) : option env :=
  match d with
  | DPrefix _ (IPre _ _) | DBase (IPre _ _) => None
  | DPrefix p r => option_map (fun ns => Env ((p, ns) :: e_prefixes e) (e_base e)) (resolve_ref e r)
  | DBase r => option_map (fun b => Env (e_prefixes e) (Some b)) (resolve_ref e r)
  end.

Fixpoint sem_from (e : env) (d : doc) : option (list triple) :=
  match d with
  | [] => Some []
  | IDir x :: d' => match sem_dir e x with Some e' => sem_from e' d' | None => None end
  | IGrp g :: d' =>
    match sem_group e g, sem_from e d' with
    | Some ts, Some ts' => Some (ts ++ ts')
    | _, _ => None
    end
  end.

(** the triples of the document, in document order; [None] = the document is
    not meaningful in the dialect (undeclared prefix, relative reference
    without base, reference outside the supported forms) *)
Definition sem (d : doc) : option (list triple) := sem_from env0 d.

(** the property compares node kinds, IRIs, labels and literal datatypes --
    not lexical forms *)
Definition erase_lex (t : triple) : triple :=
  match to t with
  | OL _ dt => T (ts t) (tp t) (OL [] dt)
  | ON _ => t
  end.

(** ** tokens and their rendering *)

Inductive atok :=
| ASubj (s : subj) | APred (p : pred) | AObj (o : object)
| AComma | ASemi | ADot.

Definition render_ref (r : iri_ref) : str :=
  match r with
  | IAbs i => Str "<" ++ i ++ Str ">"
  | IRel x => Str "<" ++ x ++ Str ">"
  | IPre p l => p ++ Str ":" ++ l
  end.

Definition render_subj (s : subj) : str :=
  match s with SIri r => render_ref r | SBn l => Str "_:" ++ l end.

Definition render_pred (p : pred) : str :=
  match p with PA => Str "a" | PIri r => render_ref r end.

Definition render_obj (o : object) : str :=
  match o with
  | OIri r => render_ref r
  | OBn l => Str "_:" ++ l
  | OLit lex LPlain => Str """" ++ lex ++ Str """"
  | OLit lex (LLang t) => Str """" ++ lex ++ Str """@" ++ t
  | OLit lex (LTyped r) => Str """" ++ lex ++ Str """^^" ++ render_ref r
  | OInt ds => ds
  end.

Definition render_tok (t : atok) : str :=
  match t with
  | ASubj s => render_subj s
  | APred p => render_pred p
  | AObj o => render_obj o
  | AComma => Str ","
  | ASemi => Str ";"
  | ADot => Str "."
  end.

(** x1 sep x2 sep ... xn *)
Fixpoint sep_concat {A} (sep : list A) (l : list (list A)) : list A :=
  match l with
  | [] => []
  | [x] => x
  | x :: l' => x ++ sep ++ sep_concat sep l'
  end.

Definition po_tokens (po : pred * list object) : list atok :=
  APred (fst po) :: sep_concat [AComma] (map (fun o => [AObj o]) (snd po)).

(** subject, predicate-object lists separated by [;], final [.] *)
Definition group_tokens (g : group) : list atok :=
  ASubj (g_subj g) :: sep_concat [ASemi] (map po_tokens (g_pos g)) ++ [ADot].

(** a group has at least one predicate and every predicate at least one object *)

(** ** lexical well-formedness of the tokens (the terminals of the dialect) *)

Definition nat_in (c : ascii) (lo hi : nat) : bool :=
  let n := nat_of_ascii c in Nat.leb lo n && Nat.leb n hi.
Definition is_alpha (c : ascii) : bool := nat_in c 65 90 || nat_in c 97 122.
Definition is_dig (c : ascii) : bool := nat_in c 48 57.
Definition is_hex (c : ascii) : bool := is_dig c || nat_in c 65 70 || nat_in c 97 102.
Definition is_utf8 (c : ascii) : bool := Nat.leb 128 (nat_of_ascii c).      (* byte of a non-ASCII character *)
Definition in_str (c : ascii) (s : string) : bool := existsb (Ascii.eqb c) (Str s).
Definition name_char (c : ascii) : bool := is_alpha c || is_dig c || in_str c "_" || is_utf8 c.

(** characters of an IRI reference: no control character or blank, none of < > QUOTE { } | ^ ` BACKSLASH *)
Definition iri_char (c : ascii) : bool :=
  Nat.ltb 32 (nat_of_ascii c) && negb (Nat.eqb (nat_of_ascii c) 127) && negb (in_str c "<>""{}|^`\").
Definition last_ok (f : ascii -> bool) (s : str) : bool :=
  match rev s with c :: _ => f c | [] => true end.
Definition first_ok (f : ascii -> bool) (s : str) : bool :=
  match s with c :: _ => f c | [] => true end.

(** scheme, colon, rest *)
Definition has_scheme (i : str) : bool :=
  match find_nat (Str ":") i with
  | Some (S n) => first_ok is_alpha i && forallb (fun c => is_alpha c || is_dig c || in_str c "+-.") (firstn (S n) i)
  | _ => false
  end.

Definition ref_wf (r : iri_ref) : bool :=
  match r with
  | IAbs i => forallb iri_char i && has_scheme i
  | IRel x => forallb iri_char x && negb (contains (Str ":") x)
  | IPre p l =>
    forallb (fun c => name_char c || in_str c "-") p && first_ok (fun c => is_alpha c || is_utf8 c) p &&
    forallb (fun c => name_char c || in_str c "-.:") l && first_ok (fun c => name_char c || in_str c ":") l &&
    last_ok (fun c => name_char c || in_str c "-:") l
  end.

Definition label_wf (l : str) : bool :=
  negb (Nat.eqb (List.length l) 0) && forallb (fun c => name_char c || in_str c "-.") l &&
  first_ok name_char l && last_ok (fun c => name_char c || in_str c "-") l.

(** a single-line string body: plain characters (not quote, backslash, LF,
    CR) and the escapes backslash + one of t b n r f QUOTE ' backslash, \uXXXX, \UXXXXXXXX *)
Fixpoint lex_wf_fuel (fuel : nat) (s : str) : bool :=
  match fuel with
  | O => false
  | S f =>
    match s with
    | [] => true
    | c :: s' =>
      if Ascii.eqb c (chr "\") then
        match s' with
        | e :: s'' =>
          if in_str e "tbnrf""'\" then lex_wf_fuel f s''
          else if Ascii.eqb e (chr "u") then forallb is_hex (firstn 4 s'') && Nat.leb 4 (List.length s'') && lex_wf_fuel f (skipn 4 s'')
          else if Ascii.eqb e (chr "U") then forallb is_hex (firstn 8 s'') && Nat.leb 8 (List.length s'') && lex_wf_fuel f (skipn 8 s'')
          else false
        | [] => false
        end
      else if in_str c """" || Ascii.eqb c (ascii_of_nat 10) || Ascii.eqb c (ascii_of_nat 13) then false
      else lex_wf_fuel f s'
    end
  end.
Definition lex_wf (s : str) : bool := lex_wf_fuel (S (List.length s)) s.

Definition tag_wf (t : str) : bool :=
  first_ok is_alpha t && negb (Nat.eqb (List.length t) 0) && last_ok (fun c => is_alpha c || is_dig c) t &&
  forallb (fun c => is_alpha c || is_dig c || in_str c "-") t && negb (contains (Str "--") t).

Definition digits_wf (d : str) : bool :=
  let body := match d with c :: t => if in_str c "+-" then t else d | [] => d end in
  negb (Nat.eqb (List.length body) 0) && forallb is_dig body.

Definition subj_wf (s : subj) : bool := match s with SIri r => ref_wf r | SBn l => label_wf l end.
Definition pred_wf (p : pred) : bool := match p with PA => true | PIri r => ref_wf r end.
Definition obj_wf (o : object) : bool :=
  match o with
  | OIri r => ref_wf r
  | OBn l => label_wf l
  | OLit lex LPlain => lex_wf lex
  | OLit lex (LLang t) => lex_wf lex && tag_wf t
  | OLit lex (LTyped r) => lex_wf lex && ref_wf r
  | OInt d => digits_wf d
  end.

Definition dir_wf (d : directive) : bool :=
  match d with
  | DPrefix p r => ref_wf (IPre p []) && ref_wf r && match r with IPre _ _ => false | _ => true end
  | DBase r => ref_wf r && match r with IPre _ _ => false | _ => true end
  end.

(** a group has at least one predicate, every predicate at least one object,
    and every token is lexically well formed *)
Definition group_wf (g : group) : bool :=
  subj_wf (g_subj g) &&
  negb (Nat.eqb (List.length (g_pos g)) 0) &&
  forallb (fun po => pred_wf (fst po) && negb (Nat.eqb (List.length (snd po)) 0) && forallb obj_wf (snd po)) (g_pos g).

(** ** physical lines *)

(** the tokens of a directive line *)
Definition directive_words (d : directive) : list str :=
  match d with
  | DPrefix p r => [Str "@prefix"; p ++ Str ":"; render_ref r; Str "."]
  | DBase r => [Str "@base"; render_ref r; Str "."]
  end.

Inductive line :=
| LToks (lead : str) (toks : list (atok * str)) (cmt : option str)
    (* lead, then each token followed by its run of blanks/tabs, then [#cmt] *)
| LDir (lead : str) (d : directive) (gaps : list str) (cmt : option str).
    (* the words of the directive, word k followed by gap k *)

Definition render_cmt (c : option str) : str :=
  match c with Some t => Str "#" ++ t | None => [] end.

Fixpoint zip_gaps (ws gaps : list str) : str :=
  match ws, gaps with
  | w :: ws', g :: gaps' => w ++ g ++ zip_gaps ws' gaps'
  | w :: ws', [] => w ++ zip_gaps ws' []
  | [], _ => []
  end.

Definition render_line (l : line) : str :=
  match l with
  | LToks lead toks cmt => lead ++ List.concat (map (fun tg => render_tok (fst tg) ++ snd tg) toks) ++ render_cmt cmt
  | LDir lead d gaps cmt => lead ++ zip_gaps (directive_words d) gaps ++ render_cmt cmt
  end.

Definition newline : str := [ascii_of_nat 10].

(** the text of the document: the lines joined by LF (a final [LToks [] [] None]
    gives a trailing newline) *)
Definition render_doc (ls : list line) : str := sep_concat newline (map render_line ls).

Definition is_hspace (c : ascii) : bool := Ascii.eqb c (chr " ") || Ascii.eqb c (ascii_of_nat 9).
Definition hspace (s : str) : bool := forallb is_hspace s.
Definition hspace1 (s : str) : bool := hspace s && negb (Nat.eqb (List.length s) 0).
Definition no_newline (s : str) : bool :=
  forallb (fun c => negb (Ascii.eqb c (ascii_of_nat 10) || Ascii.eqb c (ascii_of_nat 13))) s.

(** every gap between two tokens, and before a comment, is a non-empty run of
    blanks/tabs (tokens are whitespace-separated); the gap closing the line
    may be empty when no comment follows *)
Fixpoint gaps_ok (gs : list str) (cmt : bool) : bool :=
  match gs with
  | [] => true
  | [g] => if cmt then hspace1 g else hspace g
  | g :: gs' => hspace1 g && gaps_ok gs' cmt
  end.

Definition is_some {A} (o : option A) : bool := match o with Some _ => true | None => false end.

Definition line_wf (l : line) : bool :=
  match l with
  | LToks lead toks cmt =>
    hspace lead && gaps_ok (map snd toks) (is_some cmt) &&
    match cmt with Some t => no_newline t | None => true end
  | LDir lead d gaps cmt =>
    hspace lead && Nat.eqb (List.length gaps) (List.length (directive_words d)) &&
    gaps_ok gaps (is_some cmt) &&
    match cmt with Some t => no_newline t | None => true end
  end.

(** ** the layout relation *)

(** what a reader meets, in order: directives and tokens *)
Definition line_stream (l : line) : list (directive + atok) :=
  match l with
  | LToks _ toks _ => map (fun tg => inr (fst tg)) toks
  | LDir _ d _ _ => [inl d]
  end.

Definition item_stream (i : item) : list (directive + atok) :=
  match i with
  | IDir d => [inl d]
  | IGrp g => map inr (group_tokens g)
  end.

(** [ls] is a layout of [d]: well-formed lines whose tokens, read in order,
    are the tokens of [d] -- whatever the placement of the line breaks *)
Definition lays_out (ls : list line) (d : doc) : Prop :=
  forallb line_wf ls = true /\
  forallb (fun i => match i with IGrp g => group_wf g | IDir x => dir_wf x end) d = true /\
  flat_map line_stream ls = flat_map item_stream d.
