(** * Reference predicate of property C20 (written from the property text and
    the README, independently of the code's membership lists). *)

From Coq Require Import List Ascii String ZArith Bool.
From Shexer Require Import Lib.PyStr Model.Config.
Import ListNotations.

(** exactly one element of [l] is [true] *)
Definition exactly_one (l : list bool) : Prop :=
  exists l1 l2, l = l1 ++ true :: l2 /\ Forall (fun b => b = false) l1 /\ Forall (fun b => b = false) l2.

Definition documented_input_formats : list str :=
  [Str "nt"; Str "tsv_spo"; Str "n3"; Str "turtle"; Str "xml"; Str "json-ld"; Str "turtle_iter"].
Definition documented_compression : list str := [Str "zip"; Str "gz"; Str "xz"].
Definition documented_examples : list str := [Str "all"; Str "cons"; Str "shape"].
Definition documented_output_formats : list str := [Str "ShEx"; Str "Shacl"].

Definition opt_in (o : option str) (l : list str) : Prop :=
  match o with None => True | Some s => In s l end.

Definition remote_source (c : ctor_cfg) : Prop :=
  src_url_endpoint c = true \/ src_url_graph c = true \/ src_list_of_url c = true.

(** The constructor must accept exactly these configurations. *)
Definition valid_ctor (c : ctor_cfg) : Prop :=
  exactly_one (sources c) /\
  (if all_classes_mode c
   then tgt_target_classes c = false /\ tgt_file_target_classes c = false /\
        ~ (tgt_shape_map_file c = true /\ tgt_shape_map_raw c = true)
   else exactly_one (targets c)) /\
  In (input_format c) documented_input_formats /\
  opt_in (compression_mode c) documented_compression /\
  (compression_mode c <> None -> ~ remote_source c) /\
  opt_in (examples_mode c) documented_examples /\
  ~ (disable_or_statements c = true /\ allow_redundant_or c = true).

(** [shex_graph] must accept exactly these calls. *)
Definition valid_call (k : call_cfg) : Prop :=
  (string_output k = true \/ has_output_file k = true \/ has_uml_path k = true) /\
  In (output_format k) documented_output_formats /\
  (0 <= thr_num k <= thr_den k)%Z.
