(** * C16: the figures of a capped run are exact for the first-k subset.

    Composition of [C16_cap_is_restriction] with P1 (Proofs/ProfileChar.v, stated
    for an arbitrary instance dictionary with unique keys) and the shexing
    theorem K3 (Proofs/ShexKeys.v).  Section [Composed2] is Section [Composed]
    of Proofs/EndToEnd.v with the hypothesis "I is what the tracker returns on
    g" weakened to "the keys of I are unique": the graph [g] here is the one
    the FEATURE pass reads, whatever produced [I]. *)
From Coq Require Import List Ascii String ZArith NArith Bool Lia Permutation.
From Shexer Require Import Lib.PyStr Lib.Dict Lib.Bin64 Gen.Consts Spec.Rdf Spec.Restrict Model.Tracker Model.Profiler
  Model.Tokens Model.Freq Model.FreqInst Model.Shexing Model.ShexingFix Model.Run Model.NsFilter Model.Run2 Model.RunCur Spec.Counts
  Proofs.DictLemmas Proofs.ProfileChar Proofs.ShexLemmas Proofs.ShexKeys Proofs.EndToEnd Proofs.RestrictProofs
  Proofs.ShexingFixProofs.
Import ListNotations.
Local Open Scope N_scope.

Section Composed2.
  Variable fa : FreqAlg.
  Variable c : rcfg.
  Variable g : graph.
  Variable ns : nsdict.
  Variable I : insts.
  Variable P : cprofile.
  Variable C : ccounts.
  Variable ID : idict.
  Hypothesis Hkeys : NoDup (dkeys I).
  Hypothesis Hprof : profile (pcfg_of c) I g = inl (P, C, ID).

  Let cfg := scfg_of c ns.
  Let tau := r_tau c.
  Let targets := targets_of (pcfg_of c).

  Lemma I_nodup2 : NoDup (dkeys I).
  Proof. exact Hkeys. Qed.

  (** the classes the run knows: requested targets, then the classes of the
      tracked instances in first-occurrence order *)
  Lemma P_keys_sub2 ce : In ce P -> In (fst ce) (class_keys targets I).
  Proof.
    intros Hce. destruct (profile_final_char _ _ _ _ _ _ I_nodup2 Hprof) as (_ & _ & (ks & Hk & _) & _).
    assert (H : In (fst ce) (dkeys P)) by (apply in_map; exact Hce).
    rewrite Hk in H. apply filter_In in H. apply H.
  Qed.

  Lemma cnt_of_class_count2 cls : In cls (class_keys targets I) -> cnt_of C cls = class_count I cls.
  Proof.
    intros H. destruct (profile_final_char _ _ _ _ _ _ I_nodup2 Hprof) as (_ & _ & _ & _ & HC & _).
    unfold cnt_of. rewrite (HC cls H). reflexivity.
  Qed.

  Lemma P_keys_all2 : r_remove_empty c = false -> dkeys P = class_keys targets I.
  Proof.
    intros Hre. destruct (profile_final_char _ _ _ _ _ _ I_nodup2 Hprof) as (_ & _ & (ks & Hk & Hnil) & _).
    rewrite (Hnil Hre) in Hk. rewrite Hk. apply filter_all_true. intros x _. reflexivity.
  Qed.

  Lemma P_nodup2 : NoDup (dkeys P).
  Proof. exact (proj1 (proj2 (profile_final_char _ _ _ _ _ _ I_nodup2 Hprof))). Qed.

  (** every entry of the (final) profile that the shexing stage reads is the
      declarative count, and is positive *)
  Lemma pd_entry_occ2 ce inv p k ck n :
    In ce P -> pd_entry (class_pd cfg ce inv) p k ck n ->
    n = occ (dir_of inv) tau I g (fst ce) p k ck /\ 0 < n /\ (inv = true -> r_inverse c = true).
  Proof.
    intros Hce He. destruct ce as [cls e].
    destruct (profile_final_char _ _ _ _ _ _ I_nodup2 Hprof) as (_ & _ & _ & _ & _ & HE).
    destruct (HE cls e Hce) as (_ & HD & HI & HN).
    destruct He as (kd & cd & H1 & H2 & H3). unfold class_pd in H1. cbn [snd fst] in *.
    destruct inv; cbn [dir_of].
    - change (x_inverse cfg) with (r_inverse c) in H1. destruct (r_inverse c) eqn:Ei; [|destruct H1].
      destruct (HI Ei p kd k cd ck n H1 H2 H3) as [A B]. auto.
    - destruct (HD p kd k cd ck n H1 H2 H3) as [A B]. split; [exact A|]. split; [exact B | discriminate].
  Qed.

  (** conversely every positive declarative count is an entry, provided the
      type key is not a class key removed by the cleaning *)
  Lemma occ_pd_entry2 ce inv p k ck :
    In ce P -> (inv = true -> r_inverse c = true) ->
    (In k (class_keys targets I) -> In k (dkeys P)) ->
    0 < occ (dir_of inv) tau I g (fst ce) p k ck ->
    pd_entry (class_pd cfg ce inv) p k ck (occ (dir_of inv) tau I g (fst ce) p k ck).
  Proof.
    intros Hce Hinv Hk Hpos. destruct ce as [cls e].
    destruct (profile_final_complete _ _ _ _ _ _ I_nodup2 Hprof cls e Hce p k Hk) as [HD HI].
    unfold class_pd. cbn [fst snd] in *. destruct inv; cbn [dir_of] in *.
    - change (x_inverse cfg) with (r_inverse c). rewrite (Hinv eq_refl).
      destruct (HI (Hinv eq_refl) ck Hpos) as (m & cd & A & B & D). exists m, cd. auto.
    - destruct (HD ck Hpos) as (m & cd & A & B & D). exists m, cd. auto.
  Qed.

  Lemma fig_src_occ2 ce inv p ty n pr c0 :
    In ce P -> fig_src (class_pd cfg ce inv) p ty n pr c0 -> fig_occ tau I g (dir_of inv) (fst ce) p ty n pr c0.
  Proof.
    intros Hce H. destruct H as [k ck n He | ckb nb cki ni Hb Hi].
    - destruct (pd_entry_occ2 ce inv p k ck n Hce He) as (-> & Hp & _). apply FO_entry. exact Hp.
    - destruct (pd_entry_occ2 ce inv p _ ckb nb Hce Hb) as (-> & Hpb & _).
      destruct (pd_entry_occ2 ce inv p _ cki ni Hce Hi) as (-> & Hpi & _).
      apply FO_merge; assumption.
  Qed.

  (** a statement of direction [inv = true] exists only with inverse paths *)
  Lemma post_ok_inv2 ce t :
    In ce P -> post_ok cfg (class_pd cfg ce (s_inv t)) t -> s_inv t = true -> r_inverse c = true.
  Proof.
    intros Hce (ty & pr0 & c0 & _ & _ & Hf & _) Hi.
    assert (He : exists k ck n, pd_entry (class_pd cfg ce (s_inv t)) (s_prop t) k ck n).
    { destruct Hf as [k ck n He | ckb nb cki ni Hb _]; eauto. }
    destruct He as (k & ck & n & He). destruct (pd_entry_occ2 ce _ _ _ _ _ Hce He) as (_ & _ & H). auto.
  Qed.

  Variable thr : F fa.
  Variable shapes : list shape.
  Hypothesis Hshex : shex fa cfg thr P C = inl shapes.

  (** C01, header and figures, for one output shape *)
  Lemma composed_shape2 sh :
    In sh shapes ->
    In (sh_class sh) (class_keys targets I) /\
    sh_name sh = shape_name (r_shapes_ns c) (sh_class sh) /\
    sh_n sh = class_count I (sh_class sh) /\
    forall st, In st (sh_stmts sh) ->
      (s_inv st = true -> r_inverse c = true) /\
      post_okR cfg (fig_occ tau I g (dir_of (s_inv st)) (sh_class sh) (s_prop st)) st.
  Proof.
    intros Hsh. destruct (K3 fa cfg thr P C shapes Hshex sh Hsh) as (ce & Hce & E1 & E2 & E3 & Hst).
    pose proof (P_keys_sub2 ce Hce) as Hk. rewrite E2.
    split; [exact Hk|]. split; [exact E1|]. split; [rewrite E3; apply cnt_of_class_count2; exact Hk|].
    intros st Hin. specialize (Hst st Hin). split; [apply (post_ok_inv2 ce st Hce Hst)|].
    apply (post_ok_R cfg (class_pd cfg ce (s_inv st)) _ st); [|exact Hst]. intros ty n pr c0. apply fig_src_occ2. exact Hce.
  Qed.

  (** the same for the stage in the order the code has ([ShexingFix.shex_cur]) *)
  Lemma post_okR_inv2 ce t :
    In ce P -> post_okR cfg (fig_src (class_pd cfg ce (s_inv t)) (s_prop t)) t -> s_inv t = true -> r_inverse c = true.
  Proof.
    intros Hce (ty & pr0 & c0 & _ & _ & Hf & _) Hi.
    assert (He : exists k ck n, pd_entry (class_pd cfg ce (s_inv t)) (s_prop t) k ck n).
    { destruct Hf as [k ck n He | ckb nb cki ni Hb _]; eauto. }
    destruct He as (k & ck & n & He). destruct (pd_entry_occ2 ce _ _ _ _ _ Hce He) as (_ & _ & H). auto.
  Qed.

  Hypothesis Hcur : shex_cur fa cfg thr P C = inl shapes.

  Lemma composed_shape2_cur sh :
    In sh shapes ->
    In (sh_class sh) (class_keys targets I) /\
    sh_name sh = shape_name (r_shapes_ns c) (sh_class sh) /\
    sh_n sh = class_count I (sh_class sh) /\
    forall st, In st (sh_stmts sh) ->
      (s_inv st = true -> r_inverse c = true) /\
      post_okR cfg (fig_occ tau I g (dir_of (s_inv st)) (sh_class sh) (s_prop st)) st.
  Proof.
    intros Hsh. destruct (stage_K3 fa cfg thr P C shapes Hcur sh Hsh) as (ce & Hce & E1 & E2 & E3 & Hst).
    pose proof (P_keys_sub2 ce Hce) as Hk. rewrite E2.
    split; [exact Hk|]. split; [exact E1|]. split; [rewrite E3; apply cnt_of_class_count2; exact Hk|].
    intros st Hin. specialize (Hst st Hin). split; [apply (post_okR_inv2 ce st Hce Hst)|].
    refine (post_okR_impl cfg _ _ st _ Hst). intros ty n pr c0. apply fig_src_occ2. exact Hce.
  Qed.
End Composed2.
(** ** the run with separate sources, decomposed *)

Theorem run_shapes2_decompose fa c thr gi gf ns shapes :
  run_shapes2 fa c thr gi gf = inl (ns, shapes) ->
  exists I P C ID,
    full_ns c = Some ns /\
    track (r_tau c) (mode_of c) (r_cap c) gi = inl I /\
    profile (pcfg_of c) I gf = inl (P, C, ID) /\
    shex_cur fa (scfg_of c ns) thr P C = inl shapes.
Proof.
  unfold run_shapes2, mode_of. destruct (full_ns c) as [ns'|]; [|discriminate].
  destruct (track _ _ _ gi) as [I|e]; [|discriminate].
  destruct (profile (pcfg_of c) I gf) as [[[P C] ID]|[|]] eqn:EP; try discriminate.
  destruct (shex_cur fa (scfg_of c ns') thr P C) as [sh|e] eqn:ES; [|discriminate].
  intros H. injection H as -> ->. exists I, P, C, ID. auto.
Qed.

(** C01 for the run with separate sources: header counts are [class_count] of
    the dictionary tracked on [gi]; every figure is [occ] over the graph [gf]
    the feature pass read, with respect to that dictionary *)
Theorem e2e2_figures fa c thr gi gf ns shapes :
  run_shapes2 fa c thr gi gf = inl (ns, shapes) ->
  exists I, track (r_tau c) (mode_of c) (r_cap c) gi = inl I /\
    forall sh, In sh shapes ->
      In (sh_class sh) (class_keys (targets_of (pcfg_of c)) I) /\
      sh_name sh = shape_name (r_shapes_ns c) (sh_class sh) /\
      sh_n sh = class_count I (sh_class sh) /\
      forall st, In st (sh_stmts sh) ->
        (s_inv st = true -> r_inverse c = true) /\
        post_okR (scfg_of c ns) (fig_occ (r_tau c) I gf (dir_of (s_inv st)) (sh_class sh) (s_prop st)) st.
Proof.
  intros H. apply run_shapes2_decompose in H. destruct H as (I & P & C & ID & _ & HT & HP & HS).
  exists I. split; [exact HT|]. intros sh Hsh.
  apply (composed_shape2_cur fa c gf ns I P C ID (proj1 (track_insts_ok _ _ _ _ _ HT)) HP thr shapes HS sh Hsh).
Qed.

(** ** class lists of the capped dictionary *)

Lemma build_class_lists_nodup ms (I : insts) : NoDup ms -> I = build ms [] ->
  forall i cs, In (i, cs) I -> NoDup cs.
Proof.
  intros Hnd -> i cs Hin.
  assert (Hk : NoDup (dkeys (build ms []))) by (apply NoDup_keys_build; constructor).
  assert (E : cs = cls (build ms []) i) by (unfold cls; rewrite (In_dget _ _ _ Hk Hin); reflexivity).
  rewrite E, cls_build. cbn [cls dget app].
  apply NoDup_map_inj; [apply NoDup_filter; exact Hnd|].
  intros [i1 c1] [i2 c2] H1 H2 Ec. cbn in Ec. subst c2.
  apply filter_In in H1. apply filter_In in H2. cbn in H1, H2.
  destruct H1 as [_ H1]. destruct H2 as [_ H2]. apply str_eqb_eq in H1. apply str_eqb_eq in H2. congruence.
Qed.

Lemma class_count_inst_of (I : insts) c :
  (forall i cs, In (i, cs) I -> NoDup cs) -> class_count I c = N.of_nat (List.length (inst_of I c)).
Proof. intros H. rewrite (class_count_as_length I c H). unfold inst_of. rewrite map_length. reflexivity. Qed.

Lemma mode_of_is_mode_of_cfg c : mode_of c = mode_of_cfg c.
Proof. reflexivity. Qed.

(** ** C16: with a cap all figures are exact for the first-k subset

    For a capped run on a duplicate-free graph [g]:
    - the instance dictionary [I] is the one of the first min(k, |class|)
      instances of every class (and is what the uncapped tracker returns on
      the restricted document);
    - every shape header reports [min k |class|];
    - every statement's figures are [fig_occ ... I g]: for a non-merged type
      key ONE declarative count [occ dir tau I g cls p k card] computed over
      the FULL graph [g] with membership (of subjects and of referenced
      objects) read from [I]; for the merged kind NONLITERAL the sum of two. *)
Theorem cap_figures_exact fa c thr g ns shapes :
  (0 < r_cap c)%Z -> NoDup g -> ids_faithful g ->
  run_shapes fa c thr g = inl (ns, shapes) ->
  let k := Z.to_nat (r_cap c) in
  exists I,
    track (r_tau c) (mode_of c) (r_cap c) g = inl I /\
    (forall z, (z <= 0)%Z ->
       track (r_tau c) (mode_of c) z (restrict_typing (r_tau c) (r_targets c) k g) = inl I) /\
    (forall cl i, In cl (classes_of I i) <-> In i (first_k_instances (r_tau c) (r_targets c) k g cl)) /\
    forall sh, In sh shapes ->
      sh_n sh = N.of_nat (Nat.min k (List.length (class_subjects (r_tau c) (r_targets c) g (sh_class sh)))) /\
      sh_n sh = class_count I (sh_class sh) /\
      forall st, In st (sh_stmts sh) ->
        (s_inv st = true -> r_inverse c = true) /\
        post_okR (scfg_of c ns) (fig_occ (r_tau c) I g (dir_of (s_inv st)) (sh_class sh) (s_prop st)) st.
Proof.
  intros Hk Hnd Hf H k. subst k.
  destruct (e2e_figures fa c thr g ns shapes H) as (I & HT & HS).
  pose proof (memberships_NoDup (r_tau c) (scope_of (mode_of c)) g Hnd Hf) as Hms.
  assert (Esc : scope_of (mode_of c) = r_targets c) by (rewrite mode_of_is_mode_of_cfg; apply scope_of_mode_of_cfg).
  pose proof (cap_firstn _ _ _ _ _ Hk Hms HT) as Hfirst. rewrite Esc in Hfirst.
  exists I. split; [exact HT|]. split; [|split].
  - intros z Hz. pose proof (cap_is_restriction (r_tau c) (mode_of c) (r_cap c) g z Hk Hz Hms) as E.
    rewrite Esc in E. rewrite <- E. exact HT.
  - intros cl i. apply (Hfirst cl).
  - intros sh Hsh. destruct (HS sh Hsh) as (_ & _ & En & Hall).
    split; [|split; [exact En | exact Hall]].
    rewrite En. pose proof (track_cap_is_build _ _ _ _ _ Hk Hms HT) as HI.
    rewrite (class_count_inst_of I (sh_class sh)).
    + f_equal. apply (Hfirst (sh_class sh)).
    + apply (build_class_lists_nodup _ I (NoDup_filter _ _ Hms) HI).
Qed.

(** the same for the one-document run with the shexing stage in the order the
    code has *)
Theorem cap_figures_exact_cur fa c thr g ns shapes :
  (0 < r_cap c)%Z -> NoDup g -> ids_faithful g ->
  run_shapes_cur fa c thr g = inl (ns, shapes) ->
  let k := Z.to_nat (r_cap c) in
  exists I,
    track (r_tau c) (mode_of c) (r_cap c) g = inl I /\
    (forall z, (z <= 0)%Z ->
       track (r_tau c) (mode_of c) z (restrict_typing (r_tau c) (r_targets c) k g) = inl I) /\
    (forall cl i, In cl (classes_of I i) <-> In i (first_k_instances (r_tau c) (r_targets c) k g cl)) /\
    forall sh, In sh shapes ->
      sh_n sh = N.of_nat (Nat.min k (List.length (class_subjects (r_tau c) (r_targets c) g (sh_class sh)))) /\
      sh_n sh = class_count I (sh_class sh) /\
      forall st, In st (sh_stmts sh) ->
        (s_inv st = true -> r_inverse c = true) /\
        post_okR (scfg_of c ns) (fig_occ (r_tau c) I g (dir_of (s_inv st)) (sh_class sh) (s_prop st)) st.
Proof.
  intros Hk Hnd Hf H k. subst k. rewrite run_shapes_is_run_shapes2 in H.
  destruct (e2e2_figures fa c thr g g ns shapes H) as (I & HT & HS).
  pose proof (memberships_NoDup (r_tau c) (scope_of (mode_of c)) g Hnd Hf) as Hms.
  assert (Esc : scope_of (mode_of c) = r_targets c) by (rewrite mode_of_is_mode_of_cfg; apply scope_of_mode_of_cfg).
  pose proof (cap_firstn _ _ _ _ _ Hk Hms HT) as Hfirst. rewrite Esc in Hfirst.
  exists I. split; [exact HT|]. split; [|split].
  - intros z Hz. pose proof (cap_is_restriction (r_tau c) (mode_of c) (r_cap c) g z Hk Hz Hms) as E.
    rewrite Esc in E. rewrite <- E. exact HT.
  - intros cl i. apply (Hfirst cl).
  - intros sh Hsh. destruct (HS sh Hsh) as (_ & _ & En & Hall).
    split; [|split; [exact En | exact Hall]].
    rewrite En. pose proof (track_cap_is_build _ _ _ _ _ Hk Hms HT) as HI.
    rewrite (class_count_inst_of I (sh_class sh)).
    + f_equal. apply (Hfirst (sh_class sh)).
    + apply (build_class_lists_nodup _ I (NoDup_filter _ _ Hms) HI).
Qed.

(** the same through the restricted document: the capped run has the figures
    of the uncapped run whose instance pass reads the restricted document *)
Theorem cap_figures_as_restricted fa c thr g z :
  (0 < r_cap c)%Z -> (z <= 0)%Z -> NoDup g -> ids_faithful g ->
  run_shapes_cur fa c thr g =
  run_shapes2 fa (with_cap c z) thr (restrict_typing (r_tau c) (r_targets c) (Z.to_nat (r_cap c)) g) g.
Proof. intros. apply run_shapes_cap_is_restriction; assumption. Qed.

(** C01 for the one-document run with the shexing stage in the order the code
    has: no domain needed ([run_shapes_cur c thr g] is [run_shapes2 c thr g g],
    and [e2e2_figures] rests on [ShexingFixProofs.stage_K3], which holds in both orders) *)
Corollary cur_figures_exact fa c thr g ns shapes :
  run_shapes_cur fa c thr g = inl (ns, shapes) ->
  exists I, track (r_tau c) (mode_of c) (r_cap c) g = inl I /\
    forall sh, In sh shapes ->
      In (sh_class sh) (class_keys (targets_of (pcfg_of c)) I) /\
      sh_name sh = shape_name (r_shapes_ns c) (sh_class sh) /\
      sh_n sh = class_count I (sh_class sh) /\
      forall st, In st (sh_stmts sh) ->
        (s_inv st = true -> r_inverse c = true) /\
        post_okR (scfg_of c ns) (fig_occ (r_tau c) I g (dir_of (s_inv st)) (sh_class sh) (s_prop st)) st.
Proof. intros H. rewrite run_shapes_is_run_shapes2 in H. exact (e2e2_figures fa c thr g g ns shapes H). Qed.
