(** * C03, T4: the extracted shape is satisfied by every instance of its class
    (parts (a) and (b) of [Spec/ShexSem.sat]) on the strict domain, given the
    profile characterisation. *)
From Coq Require Import List Ascii String ZArith NArith Bool Lia.
From Shexer Require Import Lib.PyStr Lib.Dict Gen.Consts Spec.Rdf Spec.ShexSem Model.Tracker Model.Profiler
     Model.Tokens Model.Freq Model.FreqInst Model.Shexing Model.Run Model.SchemaOf
     Proofs.FreqLaws Proofs.ConformProofs.
Import ListNotations.

(** * Part 1 -- completeness of the selection and tuning stages: nothing a
    candidate stands for is lost *)

Lemma map_err_complete {A B E} (f : A -> B + E) l out x :
  map_err f l = inl out -> In x l -> exists y, In y out /\ f x = inl y.
Proof.
  revert out; induction l as [|a l IH]; cbn; intros out H Hx; [destruct Hx|].
  destruct (f a) as [z|e] eqn:Efa; [|discriminate].
  destruct (map_err f l) as [ys|e]; [|discriminate]. inversion H; subst.
  destruct Hx as [<-|Hx].
  - exists z. split; [left; reflexivity | exact Efa].
  - destruct (IH ys eq_refl Hx) as [y [H1 H2]]. exists y. split; [right; exact H1 | exact H2].
Qed.

Lemma tune_complete fa cfg cnt valid out :
  tune fa cfg cnt valid = inl out ->
  forall v, In v valid -> exists s, In s out /\ s_inv s = s_inv v /\ s_prop s = s_prop v /\ s_types s = s_types v.
Proof.
  rewrite tune_eq. destruct valid as [|a valid]; [intros _ v []|].
  set (l0 := sort_desc fa cnt (a :: valid)).
  assert (Hl0 : forall v, In v (a :: valid) -> In v l0) by (intros v; apply In_sort_desc).
  destruct (x_all_compliant cfg).
  - destruct (map_err _ l0) as [l1|e] eqn:E; [|discriminate].
    intros H v Hv; inversion H; subst.
    destruct (map_err_complete _ _ _ _ E (Hl0 v Hv)) as [s1 [Hs1 Hr]].
    exists (post cfg s1). split; [apply in_map; exact Hs1|].
    pose proof (post_fields cfg s1) as (P1 & P2 & P3 & _).
    apply relax_spec in Hr. destruct Hr as [[_ ->] | (_ & R1 & R2 & R3 & _)].
    + repeat split; assumption.
    + repeat split; congruence.
  - intros H v Hv; inversion H; subst. exists (post cfg v). split; [apply in_map, Hl0, Hv|].
    pose proof (post_fields cfg v) as (P1 & P2 & P3 & _). repeat split; assumption.
Qed.

Definition like (L : list stmt) (s : stmt) : Prop := exists b, In b L /\ same_core s b.

Lemma like_self L : Forall (like L) L.
Proof. apply Forall_forall. intros x Hx. exists x. split; [exact Hx | apply same_core_refl]. Qed.

Lemma decide_best_like fa cfg cnt g r : decide_best fa cfg cnt g = inl r -> like g r.
Proof.
  intros H. eapply (decide_best_inv fa cfg (like g)); [|apply like_self|exact H].
  intros s k Hs. exact Hs.
Qed.

Lemma group_same_like fa cfg cnt fuel l rs : group_same fa cfg fuel cnt l = inl rs -> Forall (like l) rs.
Proof.
  intros H. eapply (group_same_inv fa cfg (like l)); [|apply like_self|exact H].
  intros s k Hs. exact Hs.
Qed.

Lemma group_same_complete fa cfg cnt : forall fuel l rs,
  List.length l <= fuel -> group_same fa cfg fuel cnt l = inl rs ->
  forall a, In a l -> exists r d, In r rs /\ In d l /\ same_tokens a d = true /\ same_core r d.
Proof.
  induction fuel as [|f IH]; intros l rs Hlen H a Ha.
  - destruct l; [destruct Ha | cbn in Hlen; lia].
  - destruct l as [|a0 rest]; [destruct Ha|]. cbn in H.
    match type of H with match ?p with _ => _ end = _ => destruct p as [r0|e] eqn:E0 end; [|discriminate].
    destruct (group_same fa cfg f cnt _) as [rs'|e] eqn:E1; [|discriminate].
    inversion H; subst. clear H.
    destruct (same_tokens a0 a) eqn:Et.
    + assert (Hr0 : exists d, In d (a0 :: filter (same_tokens a0) rest) /\ same_core r0 d).
      { destruct (filter (same_tokens a0) rest) as [|b grp] eqn:Eg.
        - inversion E0; subst. exists r0. split; [left; reflexivity | apply same_core_refl].
        - apply decide_best_like in E0. exact E0. }
      destruct Hr0 as [d [Hd Hc]]. exists r0, d. split; [left; reflexivity|].
      assert (Hd' : In d (a0 :: rest) /\ same_tokens a0 d = true).
      { destruct Hd as [<-|Hd]; [split; [left; reflexivity | apply same_tokens_refl]|].
        apply filter_In in Hd. split; [right; apply Hd | apply Hd]. }
      split; [apply Hd'|]. split; [|exact Hc].
      eapply same_tokens_trans; [|apply Hd']. rewrite same_tokens_sym. exact Et.
    + destruct Ha as [<-|Ha]; [rewrite same_tokens_refl in Et; discriminate|].
      assert (Hin : In a (filter (fun b => negb (same_tokens a0 b)) rest)).
      { apply filter_In. split; [exact Ha | rewrite Et; reflexivity]. }
      assert (Hlen' : List.length (filter (fun b => negb (same_tokens a0 b)) rest) <= f).
      { pose proof (filter_length_le (fun b => negb (same_tokens a0 b)) rest). cbn in Hlen. lia. }
      destruct (IH _ _ Hlen' E1 a Hin) as (r & d & Hr & Hd & Htok & Hc).
      exists r, d. split; [right; exact Hr|]. split; [right; apply filter_In in Hd; apply Hd|]. split; assumption.
Qed.

(** the second merge: a statement of the instantiation property or with a
    literal type passes through; the others are merged with the non-literal
    statements of their property *)
Definition passes (cfg : scfg) (a : stmt) : bool :=
  str_eqb (s_prop a) (x_tau cfg) || negb (is_nonliteral_type (s_type a)).

Lemma group_nodes_complete fa cfg cnt : forall fuel l out,
  List.length l <= fuel -> group_nodes fa cfg fuel cnt l = inl out ->
  forall a, In a l ->
    (passes cfg a = true -> In a out) /\
    (passes cfg a = false ->
     exists r g, In r out /\ g <> [] /\
       (forall d, In d g -> In d l /\ s_prop d = s_prop a /\ is_nonliteral_type (s_type d) = true) /\
       (g = [r] \/ merge_group fa cfg cnt g = inl r)).
Proof.
  induction fuel as [|f IH]; intros l out Hlen H a Ha.
  - destruct l; [destruct Ha | cbn in Hlen; lia].
  - destruct l as [|a0 rest]; [destruct Ha|]. cbn in H. fold (passes cfg a0) in H.
    destruct (passes cfg a0) eqn:Ep0.
    + destruct (group_nodes fa cfg f cnt rest) as [rs|e] eqn:E1; [|discriminate].
      inversion H; subst. clear H.
      assert (Hlen' : List.length rest <= f) by (cbn in Hlen; lia).
      destruct Ha as [<-|Ha].
      * split; [intros _; left; reflexivity | intros Hp; congruence].
      * destruct (IH _ _ Hlen' E1 a Ha) as [I1 I2]. split.
        -- intros Hp. right. apply I1, Hp.
        -- intros Hp. destruct (I2 Hp) as (r & g & Hr & Hne & Hg & Hm).
           exists r, g. split; [right; exact Hr|]. split; [exact Hne|]. split; [|exact Hm].
           intros d Hd. destruct (Hg d Hd) as (G1 & G2 & G3). split; [right; exact G1 | split; assumption].
    + match type of H with match ?p with _ => _ end = _ => destruct p as [r0|e] eqn:E0 end; [|discriminate].
      destruct (group_nodes fa cfg f cnt _) as [rs|e] eqn:E1; [|discriminate].
      inversion H; subst. clear H.
      assert (Hnl0 : is_nonliteral_type (s_type a0) = true /\ str_eqb (s_prop a0) (x_tau cfg) = false).
      { unfold passes in Ep0. apply orb_false_iff in Ep0. destruct Ep0 as [E1' E2'].
        apply negb_false_iff in E2'. split; assumption. }
      set (g0 := a0 :: filter (mergeable_with a0) rest).
      assert (Hg0 : forall d, In d g0 -> In d (a0 :: rest) /\ s_prop d = s_prop a0 /\
                                          is_nonliteral_type (s_type d) = true).
      { intros d [<-|Hd]; [split; [left; reflexivity | split; [reflexivity | apply Hnl0]]|].
        apply filter_In in Hd. destruct Hd as [Hd Hm]. unfold mergeable_with in Hm.
        apply andb_true_iff in Hm. destruct Hm as [M1 M2]. apply str_eqb_eq in M2.
        split; [right; exact Hd | split; [symmetry; exact M2 | exact M1]]. }
      assert (Hr0 : g0 = [r0] \/ merge_group fa cfg cnt g0 = inl r0).
      { unfold g0. destruct (filter (mergeable_with a0) rest) as [|b grp].
        - left. inversion E0; subst. reflexivity.
        - right. exact E0. }
      assert (Hcase : a = a0 \/ (In a rest /\ mergeable_with a0 a = true) \/
                      In a (filter (fun b => negb (mergeable_with a0 b)) rest)).
      { destruct Ha as [<-|Ha]; [left; reflexivity|]. right.
        destruct (mergeable_with a0 a) eqn:Em; [left; split; [exact Ha | reflexivity]|].
        right. apply filter_In. split; [exact Ha | rewrite Em; reflexivity]. }
      destruct Hcase as [-> | [[Har Hm] | Hin]].
      * split; [intros Hp; congruence|]. intros _. exists r0, g0. split; [left; reflexivity|].
        split; [unfold g0; discriminate|]. split; [exact Hg0 | exact Hr0].
      * unfold mergeable_with in Hm. apply andb_true_iff in Hm. destruct Hm as [M1 M2]. apply str_eqb_eq in M2.
        assert (Hpa : passes cfg a = false).
        { unfold passes. rewrite M1. rewrite <- M2. destruct Hnl0 as [_ ->]. reflexivity. }
        split; [intros Hp; congruence|]. intros _. exists r0, g0. split; [left; reflexivity|].
        split; [unfold g0; discriminate|]. split; [|exact Hr0].
        intros d Hd. destruct (Hg0 d Hd) as (G1 & G2 & G3). split; [exact G1 | split; [congruence | exact G3]].
      * assert (Hlen' : List.length (filter (fun b => negb (mergeable_with a0 b)) rest) <= f).
        { pose proof (filter_length_le (fun b => negb (mergeable_with a0 b)) rest). cbn in Hlen. lia. }
        destruct (IH _ _ Hlen' E1 a Hin) as [I1 I2]. split.
        -- intros Hp. right. apply I1, Hp.
        -- intros Hp. destruct (I2 Hp) as (r & g & Hr & Hne & Hg & Hm).
           exists r, g. split; [right; exact Hr|]. split; [exact Hne|]. split; [|exact Hm].
           intros d Hd. destruct (Hg d Hd) as (G1 & G2 & G3). apply filter_In in G1.
           split; [right; apply G1 | split; assumption].
Qed.

(** a merge group without both an IRI and a BNode statement (and disjunctions
    disabled) returns one of its members, up to comments *)
Lemma merge_group_homog fa cfg cnt g r :
  x_disable_or cfg = true ->
  ~ (exists b i, In b g /\ In i g /\ s_type b = c_BNODE_ELEM_TYPE /\ s_type i = c_IRI_ELEM_TYPE) ->
  merge_group fa cfg cnt g = inl r -> like g r.
Proof.
  intros Hor Hno. rewrite merge_group_eq.
  destruct (g_dominant (g_bnode g) (g_iri g) (g_shapes fa cnt g)) as [dom0|e] eqn:E; [|discriminate].
  intros H. unfold g_dom1 in H. rewrite Hor in H. apply add_comments_of_core in H.
  assert (Hdom : In dom0 g).
  { assert (Hsh : forall x, In x (g_shapes fa cnt g) -> In x g).
    { intros x Hx. unfold g_shapes in Hx. apply In_sort_desc in Hx. apply filter_In in Hx. apply Hx. }
    unfold g_dominant in E.
    destruct (g_bnode g) as [b|] eqn:Eb; destruct (g_iri g) as [i|] eqn:Ei.
    - exfalso. apply Hno. unfold g_bnode in Eb. unfold g_iri in Ei.
      apply last_such_In in Eb. apply last_such_In in Ei. destruct Eb as [B1 B2]. destruct Ei as [I1 I2].
      apply str_eqb_eq in B2. apply str_eqb_eq in I2. exists b, i. repeat split; assumption.
    - unfold g_bnode in Eb. apply last_such_In in Eb. destruct Eb as [B1 _].
      destruct (g_shapes fa cnt g) as [|s0 sh] eqn:Es.
      + inversion E; subst; exact B1.
      + destruct (N.eqb _ _); inversion E; subst; [apply Hsh; left; reflexivity | exact B1].
    - unfold g_iri in Ei. apply last_such_In in Ei. destruct Ei as [I1 _].
      destruct (g_shapes fa cnt g) as [|s0 sh] eqn:Es.
      + inversion E; subst; exact I1.
      + destruct (N.ltb _ _); inversion E; subst; [exact I1 | apply Hsh; left; reflexivity].
    - destruct (g_shapes fa cnt g) as [|s0 sh] eqn:Es; [discriminate|].
      inversion E; subst. apply Hsh. left. reflexivity. }
  exists dom0. split; assumption.
Qed.
