(** * C03, T4: the extracted shape is satisfied by every instance of its class
    (parts (a) and (b) of [Spec/ShexSem.sat]) on the strict domain, given the
    profile characterisation. *)
From Coq Require Import List Ascii String ZArith NArith Bool Lia.
From Shexer Require Import Lib.PyStr Lib.Dict Gen.Consts Spec.Rdf Spec.ShexSem Model.Tracker Model.Profiler
     Model.Tokens Model.Freq Model.FreqInst Model.Shexing Model.Run Model.SchemaOf Model.C03Dom
     Proofs.FreqLaws Proofs.ConformProofs.
Import ListNotations.

(** * Part 1 -- completeness of the selection and tuning stages: nothing a
    candidate stands for is lost *)

Lemma map_err_complete {A B E} (f : A -> B + E) l out x :
  map_err f l = inl out -> In x l -> exists y, In y out /\ f x = inl y.
Proof.
  revert out; induction l as [|a l IH]; cbn; intros out H Hx; [destruct Hx|].
  destruct (f a) as [z|e] eqn:Efa; [|discriminate].
  destruct (map_err f l) as [ys|e]; [|discriminate]. inversion H; subst.
  destruct Hx as [<-|Hx].
  - exists z. split; [left; reflexivity | exact Efa].
  - destruct (IH ys eq_refl Hx) as [y [H1 H2]]. exists y. split; [right; exact H1 | exact H2].
Qed.

Lemma tune_complete fa cfg cnt valid out :
  tune fa cfg cnt valid = inl out ->
  forall v, In v valid -> exists s, In s out /\ s_inv s = s_inv v /\ s_prop s = s_prop v /\ s_types s = s_types v.
Proof.
  rewrite tune_eq. destruct valid as [|a valid]; [intros _ v []|].
  set (l0 := sort_desc fa cnt (a :: valid)).
  assert (Hl0 : forall v, In v (a :: valid) -> In v l0) by (intros v; apply In_sort_desc).
  destruct (x_all_compliant cfg).
  - destruct (map_err _ l0) as [l1|e] eqn:E; [|discriminate].
    intros H v Hv; inversion H; subst.
    destruct (map_err_complete _ _ _ _ E (Hl0 v Hv)) as [s1 [Hs1 Hr]].
    exists (post cfg s1). split; [apply in_map; exact Hs1|].
    pose proof (post_fields cfg s1) as (P1 & P2 & P3 & _).
    apply relax_spec in Hr. destruct Hr as [[_ ->] | (_ & R1 & R2 & R3 & _)].
    + repeat split; assumption.
    + repeat split; congruence.
  - intros H v Hv; inversion H; subst. exists (post cfg v). split; [apply in_map, Hl0, Hv|].
    pose proof (post_fields cfg v) as (P1 & P2 & P3 & _). repeat split; assumption.
Qed.

Definition like (L : list stmt) (s : stmt) : Prop := exists b, In b L /\ same_core s b.

Lemma like_self L : Forall (like L) L.
Proof. apply Forall_forall. intros x Hx. exists x. split; [exact Hx | apply same_core_refl]. Qed.

Lemma decide_best_like fa cfg cnt g r : decide_best fa cfg cnt g = inl r -> like g r.
Proof.
  intros H. eapply (decide_best_inv fa cfg (like g)); [|apply like_self|exact H].
  intros s k Hs. exact Hs.
Qed.

Lemma group_same_like fa cfg cnt fuel l rs : group_same fa cfg fuel cnt l = inl rs -> Forall (like l) rs.
Proof.
  intros H. eapply (group_same_inv fa cfg (like l)); [|apply like_self|exact H].
  intros s k Hs. exact Hs.
Qed.

Lemma group_same_complete fa cfg cnt : forall fuel l rs,
  List.length l <= fuel -> group_same fa cfg fuel cnt l = inl rs ->
  forall a, In a l -> exists r d, In r rs /\ In d l /\ same_tokens a d = true /\ same_core r d.
Proof.
  induction fuel as [|f IH]; intros l rs Hlen H a Ha.
  - destruct l; [destruct Ha | cbn in Hlen; lia].
  - destruct l as [|a0 rest]; [destruct Ha|]. cbn in H.
    match type of H with match ?p with _ => _ end = _ => destruct p as [r0|e] eqn:E0 end; [|discriminate].
    destruct (group_same fa cfg f cnt _) as [rs'|e] eqn:E1; [|discriminate].
    inversion H; subst. clear H.
    destruct (same_tokens a0 a) eqn:Et.
    + assert (Hr0 : exists d, In d (a0 :: filter (same_tokens a0) rest) /\ same_core r0 d).
      { destruct (filter (same_tokens a0) rest) as [|b grp] eqn:Eg.
        - inversion E0; subst. exists r0. split; [left; reflexivity | apply same_core_refl].
        - apply decide_best_like in E0. exact E0. }
      destruct Hr0 as [d [Hd Hc]]. exists r0, d. split; [left; reflexivity|].
      assert (Hd' : In d (a0 :: rest) /\ same_tokens a0 d = true).
      { destruct Hd as [<-|Hd]; [split; [left; reflexivity | apply same_tokens_refl]|].
        apply filter_In in Hd. split; [right; apply Hd | apply Hd]. }
      split; [apply Hd'|]. split; [|exact Hc].
      eapply same_tokens_trans; [|apply Hd']. rewrite same_tokens_sym. exact Et.
    + destruct Ha as [<-|Ha]; [rewrite same_tokens_refl in Et; discriminate|].
      assert (Hin : In a (filter (fun b => negb (same_tokens a0 b)) rest)).
      { apply filter_In. split; [exact Ha | rewrite Et; reflexivity]. }
      assert (Hlen' : List.length (filter (fun b => negb (same_tokens a0 b)) rest) <= f).
      { pose proof (filter_length_le (fun b => negb (same_tokens a0 b)) rest). cbn in Hlen. lia. }
      destruct (IH _ _ Hlen' E1 a Hin) as (r & d & Hr & Hd & Htok & Hc).
      exists r, d. split; [right; exact Hr|]. split; [right; apply filter_In in Hd; apply Hd|]. split; assumption.
Qed.

(** the second merge: a statement of the instantiation property or with a
    literal type passes through; the others are merged with the non-literal
    statements of their property *)
Definition passes (cfg : scfg) (a : stmt) : bool :=
  str_eqb (s_prop a) (x_tau cfg) || negb (is_nonliteral_type (s_type a)).

Lemma group_nodes_complete fa cfg cnt : forall fuel l out,
  List.length l <= fuel -> group_nodes fa cfg fuel cnt l = inl out ->
  forall a, In a l ->
    (passes cfg a = true -> In a out) /\
    (passes cfg a = false ->
     exists r g, In r out /\ g <> [] /\
       (forall d, In d g -> In d l /\ s_prop d = s_prop a /\ is_nonliteral_type (s_type d) = true) /\
       (g = [r] \/ merge_group fa cfg cnt g = inl r)).
Proof.
  induction fuel as [|f IH]; intros l out Hlen H a Ha.
  - destruct l; [destruct Ha | cbn in Hlen; lia].
  - destruct l as [|a0 rest]; [destruct Ha|]. cbn in H. fold (passes cfg a0) in H.
    destruct (passes cfg a0) eqn:Ep0.
    + destruct (group_nodes fa cfg f cnt rest) as [rs|e] eqn:E1; [|discriminate].
      inversion H; subst. clear H.
      assert (Hlen' : List.length rest <= f) by (cbn in Hlen; lia).
      destruct Ha as [<-|Ha].
      * split; [intros _; left; reflexivity | intros Hp; congruence].
      * destruct (IH _ _ Hlen' E1 a Ha) as [I1 I2]. split.
        -- intros Hp. right. apply I1, Hp.
        -- intros Hp. destruct (I2 Hp) as (r & g & Hr & Hne & Hg & Hm).
           exists r, g. split; [right; exact Hr|]. split; [exact Hne|]. split; [|exact Hm].
           intros d Hd. destruct (Hg d Hd) as (G1 & G2 & G3). split; [right; exact G1 | split; assumption].
    + match type of H with match ?p with _ => _ end = _ => destruct p as [r0|e] eqn:E0 end; [|discriminate].
      destruct (group_nodes fa cfg f cnt _) as [rs|e] eqn:E1; [|discriminate].
      inversion H; subst. clear H.
      assert (Hnl0 : is_nonliteral_type (s_type a0) = true /\ str_eqb (s_prop a0) (x_tau cfg) = false).
      { unfold passes in Ep0. apply orb_false_iff in Ep0. destruct Ep0 as [E1' E2'].
        apply negb_false_iff in E2'. split; assumption. }
      set (g0 := a0 :: filter (mergeable_with a0) rest).
      assert (Hg0 : forall d, In d g0 -> In d (a0 :: rest) /\ s_prop d = s_prop a0 /\
                                          is_nonliteral_type (s_type d) = true).
      { intros d [<-|Hd]; [split; [left; reflexivity | split; [reflexivity | apply Hnl0]]|].
        apply filter_In in Hd. destruct Hd as [Hd Hm]. unfold mergeable_with in Hm.
        apply andb_true_iff in Hm. destruct Hm as [M1 M2]. apply str_eqb_eq in M2.
        split; [right; exact Hd | split; [symmetry; exact M2 | exact M1]]. }
      assert (Hr0 : g0 = [r0] \/ merge_group fa cfg cnt g0 = inl r0).
      { unfold g0. destruct (filter (mergeable_with a0) rest) as [|b grp].
        - left. inversion E0; subst. reflexivity.
        - right. exact E0. }
      assert (Hcase : a = a0 \/ (In a rest /\ mergeable_with a0 a = true) \/
                      In a (filter (fun b => negb (mergeable_with a0 b)) rest)).
      { destruct Ha as [<-|Ha]; [left; reflexivity|]. right.
        destruct (mergeable_with a0 a) eqn:Em; [left; split; [exact Ha | reflexivity]|].
        right. apply filter_In. split; [exact Ha | rewrite Em; reflexivity]. }
      destruct Hcase as [-> | [[Har Hm] | Hin]].
      * split; [intros Hp; congruence|]. intros _. exists r0, g0. split; [left; reflexivity|].
        split; [unfold g0; discriminate|]. split; [exact Hg0 | exact Hr0].
      * unfold mergeable_with in Hm. apply andb_true_iff in Hm. destruct Hm as [M1 M2]. apply str_eqb_eq in M2.
        assert (Hpa : passes cfg a = false).
        { unfold passes. rewrite M1. rewrite <- M2. destruct Hnl0 as [_ ->]. reflexivity. }
        split; [intros Hp; congruence|]. intros _. exists r0, g0. split; [left; reflexivity|].
        split; [unfold g0; discriminate|]. split; [|exact Hr0].
        intros d Hd. destruct (Hg0 d Hd) as (G1 & G2 & G3). split; [exact G1 | split; [congruence | exact G3]].
      * assert (Hlen' : List.length (filter (fun b => negb (mergeable_with a0 b)) rest) <= f).
        { pose proof (filter_length_le (fun b => negb (mergeable_with a0 b)) rest). cbn in Hlen. lia. }
        destruct (IH _ _ Hlen' E1 a Hin) as [I1 I2]. split.
        -- intros Hp. right. apply I1, Hp.
        -- intros Hp. destruct (I2 Hp) as (r & g & Hr & Hne & Hg & Hm).
           exists r, g. split; [right; exact Hr|]. split; [exact Hne|]. split; [|exact Hm].
           intros d Hd. destruct (Hg d Hd) as (G1 & G2 & G3). apply filter_In in G1.
           split; [right; apply G1 | split; assumption].
Qed.

(** a merge group without both an IRI and a BNode statement (and disjunctions
    disabled) returns one of its members, up to comments *)
Lemma merge_group_homog fa cfg cnt g r :
  x_disable_or cfg = true ->
  ~ (exists b i, In b g /\ In i g /\ s_type b = c_BNODE_ELEM_TYPE /\ s_type i = c_IRI_ELEM_TYPE) ->
  merge_group fa cfg cnt g = inl r -> like g r.
Proof.
  intros Hor Hno. rewrite merge_group_eq.
  destruct (g_dominant (g_bnode g) (g_iri g) (g_shapes fa cnt g)) as [dom0|e] eqn:E; [|discriminate].
  intros H. unfold g_dom1 in H. rewrite Hor in H. apply add_comments_of_core in H.
  assert (Hdom : In dom0 g).
  { assert (Hsh : forall x, In x (g_shapes fa cnt g) -> In x g).
    { intros x Hx. unfold g_shapes in Hx. apply In_sort_desc in Hx. apply filter_In in Hx. apply Hx. }
    unfold g_dominant in E.
    destruct (g_bnode g) as [b|] eqn:Eb; destruct (g_iri g) as [i|] eqn:Ei.
    - exfalso. apply Hno. unfold g_bnode in Eb. unfold g_iri in Ei.
      apply last_such_In in Eb. apply last_such_In in Ei. destruct Eb as [B1 B2]. destruct Ei as [I1 I2].
      apply str_eqb_eq in B2. apply str_eqb_eq in I2. exists b, i. repeat split; assumption.
    - unfold g_bnode in Eb. apply last_such_In in Eb. destruct Eb as [B1 _].
      destruct (g_shapes fa cnt g) as [|s0 sh] eqn:Es.
      + inversion E; subst; exact B1.
      + destruct (N.eqb _ _); inversion E; subst; [apply Hsh; left; reflexivity | exact B1].
    - unfold g_iri in Ei. apply last_such_In in Ei. destruct Ei as [I1 _].
      destruct (g_shapes fa cnt g) as [|s0 sh] eqn:Es.
      + inversion E; subst; exact I1.
      + destruct (N.ltb _ _); inversion E; subst; [exact I1 | apply Hsh; left; reflexivity].
    - destruct (g_shapes fa cnt g) as [|s0 sh] eqn:Es; [discriminate|].
      inversion E; subst. apply Hsh. left. reflexivity. }
  exists dom0. split; assumption.
Qed.

(** * Part 2 -- the data side: instances, type keys of a value, strict domain *)

Lemma str_eqb_sym a b : str_eqb a b = str_eqb b a.
Proof.
  destruct (str_eqb a b) eqn:E1, (str_eqb b a) eqn:E2; try reflexivity.
  - apply str_eqb_eq in E1. subst. rewrite str_eqb_refl in E2. discriminate.
  - apply str_eqb_eq in E2. subst. rewrite str_eqb_refl in E1. discriminate.
Qed.

Section Data.
  Variable tau sns : str.
  Variable G : graph.
  Local Notation T0 := (C03Dom.T0 tau sns G).
  Local Notation labels_of := (C03Dom.labels_of tau sns G).
  Local Notation instances_of := (C03Dom.instances_of tau G).
  Local Notation keys_of := (C03Dom.keys_of tau sns G).
  Local Notation cntk := (C03Dom.cntk tau sns G).
  Local Notation nl_nbrs := (C03Dom.nl_nbrs tau G).

  (** the property's strict domain *)
  Record strict_dom : Prop := {
    sd_ids : forall n n', (exists t, In t G /\ (ts t = n \/ to t = ON n)) ->
                          (exists t, In t G /\ (ts t = n' \/ to t = ON n')) -> nid n = nid n' -> n = n';
    sd_names : forall t1 c1 t2 c2, In t1 G -> tp t1 = tau -> to t1 = ON c1 -> In t2 G -> tp t2 = tau -> to t2 = ON c2 ->
                 shape_name sns (nid c1) = shape_name sns (nid c2) -> nid c1 = nid c2;
    sd_once : NoDup G;
    sd_datatypes : forall t c dt, In t G -> to t = OL c dt ->
                     is_nonliteral_type dt = false /\ dt <> c_NONLITERAL_ELEM_TYPE;
    sd_labels : forall n l, In (n, l) T0 -> is_shape_type l = true;
    sd_classes : forall t, In t G -> tp t = tau ->
                   exists c, to t = ON (Node KIri c) /\ labels_of (Node KIri c) = [] /\
                             c <> c_NONLITERAL_ELEM_TYPE;
    sd_kinds : forall c inv p x y, p <> tau -> In x (nl_nbrs c inv p) -> In y (nl_nbrs c inv p) -> nk x = nk y;
    sd_typed : forall c inv p, p <> tau ->
                 (forall x, In x (nl_nbrs c inv p) -> labels_of x = []) \/
                 (exists l, forall x, In x (nl_nbrs c inv p) -> labels_of x = [l])
  }.

  Lemma in_typing_labels n l : in_typing T0 n l = mem_str l (labels_of n).
  Proof.
    unfold in_typing, labels_of. induction T0 as [|[n' l'] T IH]; cbn; [reflexivity|].
    destruct (node_eqb n' n) eqn:En; cbn.
    - rewrite IH, (str_eqb_sym l' l). reflexivity.
    - exact IH.
  Qed.

  Lemma labels_of_In n l : In l (labels_of n) <-> In (n, l) T0.
  Proof.
    unfold labels_of. rewrite in_map_iff. split.
    - intros [[n' l'] [E H]]. cbn in E. subst l'. apply filter_In in H. destruct H as [H1 H2]. cbn in H2.
      apply node_eqb_eq in H2. subst. exact H1.
    - intros H. exists (n, l). split; [reflexivity|]. apply filter_In. split; [exact H|]. cbn. apply node_eqb_eq. reflexivity.
  Qed.

  Lemma instances_of_In i c :
    In i (instances_of c) <-> exists t cn, In t G /\ tp t = tau /\ to t = ON cn /\ nid cn = c /\ ts t = i.
  Proof.
    unfold instances_of. rewrite in_flat_map. split.
    - intros [t [Ht H]]. destruct (str_eqb (tp t) tau) eqn:Ep; [|destruct H]. apply str_eqb_eq in Ep.
      destruct (to t) as [cn|] eqn:Eo; [|destruct H]. destruct (str_eqb (nid cn) c) eqn:Ec; [|destruct H].
      apply str_eqb_eq in Ec. destruct H as [<-|[]]. exists t, cn. repeat split; assumption.
    - intros (t & cn & Ht & Hp & Ho & Hc & Hi). exists t. split; [exact Ht|].
      rewrite <- Hp, str_eqb_refl, Ho, <- Hc, str_eqb_refl. left. exact Hi.
  Qed.

  Lemma instance_typed i c : In i (instances_of c) -> In (i, shape_name sns c) T0.
  Proof.
    intros H. apply instances_of_In in H. destruct H as (t & cn & Ht & Hp & Ho & Hc & Hi).
    unfold T0, instance_typing. apply in_flat_map. exists t. split; [exact Ht|].
    rewrite <- Hp, str_eqb_refl, Ho, Hc, Hi. left. reflexivity.
  Qed.

  Lemma nbrs_In i inv p x :
    In x (nbrs G i inv p) <->
    exists t, In t G /\ tp t = p /\ (if inv then to t = ON i /\ x = ON (ts t) else ts t = i /\ x = to t).
  Proof.
    unfold nbrs. destruct inv; rewrite in_map_iff; split.
    - intros [t [Hx Ht]]. apply filter_In in Ht. destruct Ht as [Ht Hc]. apply andb_true_iff in Hc.
      destruct Hc as [C1 C2]. apply str_eqb_eq in C1. apply obj_eqb_eq in C2. exists t. repeat split; auto.
    - intros (t & Ht & Hp & Ho & Hx). exists t. split; [auto|]. apply filter_In. split; [exact Ht|].
      apply andb_true_iff. split; [apply str_eqb_eq; exact Hp | apply obj_eqb_eq; exact Ho].
    - intros [t [Hx Ht]]. apply filter_In in Ht. destruct Ht as [Ht Hc]. apply andb_true_iff in Hc.
      destruct Hc as [C1 C2]. apply str_eqb_eq in C1. apply node_eqb_eq in C2. exists t. repeat split; auto.
    - intros (t & Ht & Hp & Hs & Hx). exists t. split; [auto|]. apply filter_In. split; [exact Ht|].
      apply andb_true_iff. split; [apply str_eqb_eq; exact Hp | apply node_eqb_eq; exact Hs].
  Qed.

  Lemma nl_nbrs_In c inv p n :
    In n (nl_nbrs c inv p) <-> exists i, In i (instances_of c) /\ In (ON n) (nbrs G i inv p).
  Proof.
    unfold nl_nbrs. rewrite in_flat_map. split.
    - intros [i [Hi H]]. exists i. split; [exact Hi|]. apply in_flat_map in H. destruct H as [x [Hx H]].
      destruct x as [m|]; [|destruct H]. destruct H as [<-|[]]. exact Hx.
    - intros [i [Hi H]]. exists i. split; [exact Hi|]. apply in_flat_map. exists (ON n). split; [exact H | left; reflexivity].
  Qed.

  (** ** element types and labels never collide on the strict domain *)
  Hypothesis SD : strict_dom.

  Lemma iri_not_shape : is_shape_type c_IRI_ELEM_TYPE = false. Proof. reflexivity. Qed.
  Lemma bnode_not_shape : is_shape_type c_BNODE_ELEM_TYPE = false. Proof. reflexivity. Qed.
  Lemma iri_neq_bnode : str_eqb c_IRI_ELEM_TYPE c_BNODE_ELEM_TYPE = false. Proof. reflexivity. Qed.

  Lemma label_not_mem k n : is_shape_type k = false -> mem_str k (labels_of n) = false.
  Proof.
    intros Hk. destruct (mem_str k (labels_of n)) eqn:E; [|reflexivity].
    apply mem_str_In in E. apply labels_of_In in E. apply (sd_labels SD) in E. congruence.
  Qed.

  Lemma elem_type_shape n : is_shape_type (elem_type_node n) = false.
  Proof. unfold elem_type_node. destruct (nk n); reflexivity. Qed.

  Lemma nbr_literal_datatype i inv p c dt :
    In (OL c dt) (nbrs G i inv p) -> is_nonliteral_type dt = false /\ dt <> c_NONLITERAL_ELEM_TYPE.
  Proof.
    intros H. apply nbrs_In in H. destruct H as (t & Ht & _ & H). destruct inv.
    - destruct H as [_ H]. discriminate H.
    - destruct H as [_ H]. symmetry in H. eapply (sd_datatypes SD); eassumption.
  Qed.

  (** an instance is not the object of a typing triple: no inverse [tau]-neighbour *)
  Lemma instance_no_inverse_tau i c : In i (instances_of c) -> nbrs G i true tau = [].
  Proof.
    intros Hi. destruct (nbrs G i true tau) as [|x l] eqn:E; [reflexivity|exfalso].
    assert (Hx : In x (nbrs G i true tau)) by (rewrite E; left; reflexivity).
    apply nbrs_In in Hx. destruct Hx as (t & Ht & Hp & Ho & _).
    destruct (sd_classes SD t Ht Hp) as [c' [Ho' [Hl _]]]. rewrite Ho in Ho'. inversion Ho'; subst i.
    apply instance_typed in Hi. apply labels_of_In in Hi. rewrite Hl in Hi. destruct Hi.
  Qed.

  Lemma NoDup_all_same {A} (a : A) l : NoDup l -> (forall x, In x l -> x = a) -> List.length l <= 1.
  Proof.
    intros Hnd Hall. destruct l as [|x [|y l]]; cbn; try lia. exfalso.
    inversion Hnd as [|? ? Hnin _]; subst. apply Hnin. left.
    rewrite (Hall x (or_introl eq_refl)), (Hall y (or_intror (or_introl eq_refl))). reflexivity.
  Qed.

  Lemma filter_map_length {A B} (f : A -> B) (p : B -> bool) l :
    List.length (filter p (map f l)) = List.length (filter (fun x => p (f x)) l).
  Proof. induction l as [|x l IH]; cbn; [reflexivity|]. destruct (p (f x)); cbn; rewrite IH; reflexivity. Qed.

  Lemma filter_filter' {A} (f g : A -> bool) l : filter f (filter g l) = filter (fun x => f x && g x) l.
  Proof.
    induction l as [|x l IH]; cbn; [reflexivity|].
    destruct (g x); cbn; [destruct (f x); cbn; rewrite IH; reflexivity | rewrite andb_false_r; exact IH].
  Qed.

  (** a node is typed with a class at most once *)
  Lemma tau_once i inv k c : In i (instances_of c) -> (cntk i inv tau k <= 1)%N.
  Proof.
    intros Hi. unfold cntk. destruct inv.
    - rewrite (instance_no_inverse_tau i c Hi). cbn. lia.
    - unfold nbrs. rewrite filter_map_length, filter_filter'.
      set (l := filter _ G).
      assert (Hl : List.length l <= 1).
      { apply (NoDup_all_same (T i tau (ON (Node KIri k)))).
        - apply NoDup_filter. exact (sd_once SD).
        - intros t Ht. apply filter_In in Ht. destruct Ht as [Ht Hc]. apply andb_true_iff in Hc.
          destruct Hc as [C1 C2]. apply andb_true_iff in C2. destruct C2 as [C2 C3].
          apply str_eqb_eq in C2. apply node_eqb_eq in C3.
          destruct (sd_classes SD t Ht C2) as [c' [Ho _]]. unfold keys_of in C1. rewrite Ho, str_eqb_refl in C1.
          cbn in C1. rewrite orb_false_r in C1. apply str_eqb_eq in C1. subst.
          destruct t as [s p o]; cbn in *. subst. reflexivity. }
      lia.
  Qed.
End Data.

(** * Part 3 -- every instance satisfies the shape of its class *)

Lemma filter_ext_in' {A} (f g : A -> bool) l : (forall x, In x l -> f x = g x) -> filter f l = filter g l.
Proof.
  induction l as [|x l IH]; cbn; intros H; [reflexivity|].
  rewrite (H x (or_introl eq_refl)), IH; [reflexivity|]. intros y Hy. apply H. right. exact Hy.
Qed.

Lemma card_ok_holds c n : card_holds c (N.of_nat n) -> card_ok (scard_of c) n = true.
Proof.
  destruct c as [k| | |]; unfold card_holds, scard_of, card_ok; intros H.
  - apply Nat.eqb_eq. lia.
  - apply Nat.leb_le. lia.
  - reflexivity.
  - apply Nat.leb_le. lia.
Qed.

Section Sat.
  Variable fa : FreqAlg.
  Variable okN : N -> Prop.
  Variable okF : F fa -> Prop.
  Hypothesis L : FreqLaws fa okN okF.
  Variable cfg : scfg.
  Variable G : graph.
  Variable sns : str.
  Let tau := x_tau cfg.

  Hypothesis Hkls : x_keep_less_specific cfg = true.
  Hypothesis Hac : x_all_compliant cfg = true.
  Hypothesis Hor : x_disable_or cfg = true.
  Hypothesis SD : strict_dom tau sns G.

  Variable thr : F fa.
  Hypothesis Hthr : okF thr.
  (** the threshold is minimal (the default 0) *)
  Hypothesis Hthr0 : forall x, okF x -> fle fa thr x = true.

  Variable counts : ccounts.
  Variable ce : str * centry.
  Let c := fst ce.
  Let insts := instances_of tau G c.
  Let cnt := class_cnt counts ce.
  Let dir_ok (inv : bool) : Prop := inv = true -> x_inverse cfg = true.

  (** the profile characterisation P1 for this class *)
  Hypothesis Hcnt : class_cnt counts ce = N.of_nat (List.length insts).
  Hypothesis HokN : okN (class_cnt counts ce).
  Hypothesis Hwf : forall inv, dir_ok inv -> pd_wf cfg node insts (cntk tau sns G) inv (class_pd ce inv).
  Hypothesis Hpos : forall inv, dir_ok inv -> forall p m k cd ck n,
      In (p, m) (class_pd ce inv) -> In (k, cd) m -> In (ck, n) cd -> (0 < n)%N.
  Hypothesis Hcomp : forall inv, dir_ok inv -> forall i p k, In i insts -> (0 < cntk tau sns G i inv p k)%N ->
      exists m cd n, In (p, m) (class_pd ce inv) /\ In (k, cd) m /\
                     In ((if str_eqb p tau then CKn 1 else CKplus), n) cd.

  Lemma filter_nonempty_witness {A} (f : A -> bool) l : 0 < List.length (filter f l) -> exists x, In x l /\ f x = true.
  Proof.
    destruct (filter f l) as [|x r] eqn:E; cbn; [lia|]. intros _.
    assert (Hx : In x (filter f l)) by (rewrite E; left; reflexivity). apply filter_In in Hx. exists x. exact Hx.
  Qed.

  (** a profile entry has a witness: an instance with a value carrying the key *)
  Lemma entry_witness inv p m k cd ck n :
    dir_ok inv -> In (p, m) (class_pd ce inv) -> In (k, cd) m -> In (ck, n) cd ->
    exists i x, In i insts /\ In x (nbrs G i inv p) /\ mem_str k (keys_of tau sns G inv p x) = true.
  Proof.
    intros Hd H1 H2 H3. destruct (Hwf inv Hd) as [W1 _].
    pose proof (W1 p m k cd ck n H1 H2 H3) as En. pose proof (Hpos inv Hd p m k cd ck n H1 H2 H3) as Hp.
    rewrite En in Hp. unfold n_inst in Hp.
    match type of Hp with
    | (0 < N.of_nat (List.length (filter ?f ?l)))%N =>
      destruct (filter_nonempty_witness f l ltac:(lia)) as [i [Hi Hf]]
    end. cbn beta in Hf.
    unfold ck_ok in Hf. apply andb_true_iff in Hf. destruct Hf as [Hf _]. apply N.ltb_lt in Hf.
    unfold cntk in Hf.
    match type of Hf with
    | (0 < N.of_nat (List.length (filter ?f ?l)))%N =>
      destruct (filter_nonempty_witness f l ltac:(lia)) as [x [Hx Hk]]
    end. cbn beta in Hk.
    exists i, x. repeat split; assumption.
  Qed.

  (** a candidate of this class, as (property, key) with its witness *)
  Lemma base_witness inv b :
    In b (class_dir fa cfg thr counts ce inv) ->
    dir_ok inv /\ s_inv b = inv /\ s_choice b = false /\ s_types b = [s_type b] /\
    exists i x, In i insts /\ In x (nbrs G i inv (s_prop b)) /\
                mem_str (s_type b) (keys_of tau sns G inv (s_prop b) x) = true.
  Proof.
    intros Hb. apply class_dir_In in Hb. destruct Hb as [Hb Hinv].
    assert (Hd : dir_ok inv).
    { intros E. apply class_base_In in Hb. destruct Hb as [Hb _]. apply Hb. congruence. }
    apply class_base_In in Hb. destruct Hb as [_ Hb]. apply base_statements_In in Hb.
    destruct Hb as (p & m & k & cd & ck & n & H1 & H2 & H3 & _ & Eb).
    rewrite Hinv in *. split; [exact Hd|]. split; [reflexivity|]. rewrite Eb. cbn.
    split; [reflexivity|]. split; [reflexivity|]. eapply entry_witness; eassumption.
  Qed.

  (** what carrying a key says about a value of an ordinary property *)
  Lemma key_cases inv p i x k :
    In i insts -> In x (nbrs G i inv p) -> str_eqb p tau = false ->
    mem_str k (keys_of tau sns G inv p x) = true ->
    (exists cc dt, x = OL cc dt /\ k = dt /\ is_nonliteral_type k = false /\ k <> c_NONLITERAL_ELEM_TYPE) \/
    (exists n, x = ON n /\ k = elem_type_node n) \/
    (exists n, x = ON n /\ In k (labels_of tau sns G n) /\ is_shape_type k = true /\
               inv && nkind_eqb (nk n) KBnode = false).
  Proof.
    intros Hi Hx Hp Hk. destruct x as [n|cc dt]; cbn in Hk; rewrite Hp in Hk.
    - cbn in Hk. apply orb_true_iff in Hk. destruct Hk as [Hk|Hk].
      + right. left. exists n. split; [reflexivity | apply str_eqb_eq; exact Hk].
      + right. right. exists n. split; [reflexivity|].
        destruct (inv && nkind_eqb (nk n) KBnode); [discriminate Hk|].
        apply mem_str_In in Hk. split; [exact Hk|]. split; [|reflexivity].
        apply labels_of_In in Hk. eapply (sd_labels _ _ _ SD); exact Hk.
    - cbn in Hk. rewrite orb_false_r in Hk. apply str_eqb_eq in Hk. subst k.
      left. exists cc, dt. split; [reflexivity|]. split; [reflexivity|].
      eapply nbr_literal_datatype; eassumption.
  Qed.

  Lemma tau_value i x inv : In i insts -> In x (nbrs G i inv tau) ->
    inv = false /\ exists cn, x = ON (Node KIri cn) /\ cn <> c_NONLITERAL_ELEM_TYPE.
  Proof.
    intros Hi Hx. destruct inv.
    - rewrite (instance_no_inverse_tau tau sns G SD i c Hi) in Hx. destruct Hx.
    - split; [reflexivity|]. apply nbrs_In in Hx. destruct Hx as (t & Ht & Hp & _ & ->).
      destruct (sd_classes _ _ _ SD t Ht Hp) as [cn [Ho [_ Hn]]]. exists cn. split; assumption.
  Qed.

  (** the type of a candidate is never the NONLITERAL word *)
  Lemma base_type_not_nl inv b : In b (class_dir fa cfg thr counts ce inv) -> s_type b <> c_NONLITERAL_ELEM_TYPE.
  Proof.
    intros Hb. destruct (base_witness inv b Hb) as (_ & _ & _ & _ & i & x & Hi & Hx & Hk).
    destruct (str_eqb (s_prop b) tau) eqn:Ep.
    - apply str_eqb_eq in Ep. rewrite Ep in Hx, Hk. destruct (tau_value i x inv Hi Hx) as [_ [cn [-> Hn]]].
      cbn in Hk. fold tau in Hk. rewrite str_eqb_refl in Hk. cbn in Hk. rewrite orb_false_r in Hk.
      apply str_eqb_eq in Hk. congruence.
    - destruct (key_cases inv _ i x _ Hi Hx Ep Hk) as [(cc & dt & _ & _ & _ & Hn) | [(n & _ & E) | (n & _ & _ & Hs & _)]].
      + exact Hn.
      + rewrite E. unfold elem_type_node. destruct (nk n); discriminate.
      + intros E. rewrite E in Hs. discriminate Hs.
  Qed.

  (** no property of this class has both an IRI and a BNode candidate *)
  Lemma no_both_kinds inv (g : list stmt) p :
    p <> tau ->
    (forall d, In d g -> like (class_dir fa cfg thr counts ce inv) d /\ s_prop d = p) ->
    ~ (exists b i, In b g /\ In i g /\ s_type b = c_BNODE_ELEM_TYPE /\ s_type i = c_IRI_ELEM_TYPE).
  Proof.
    intros Hp Hg (b & i & Hb & Hi & Tb & Ti).
    destruct (Hg b Hb) as [[b0 [Hb0 Cb]] Pb]. destruct (Hg i Hi) as [[i0 [Hi0 Ci]] Pi].
    destruct (base_witness inv b0 Hb0) as (_ & _ & _ & _ & i1 & x1 & Hi1 & Hx1 & Hk1).
    destruct (base_witness inv i0 Hi0) as (_ & _ & _ & _ & i2 & x2 & Hi2 & Hx2 & Hk2).
    assert (Eb : s_prop b0 = p /\ s_type b0 = c_BNODE_ELEM_TYPE).
    { split; [destruct Cb as (_ & E & _); congruence | rewrite <- (same_core_type _ _ Cb); exact Tb]. }
    assert (Ei : s_prop i0 = p /\ s_type i0 = c_IRI_ELEM_TYPE).
    { split; [destruct Ci as (_ & E & _); congruence | rewrite <- (same_core_type _ _ Ci); exact Ti]. }
    destruct Eb as [Eb1 Eb2]. destruct Ei as [Ei1 Ei2]. rewrite Eb1, Eb2 in *. rewrite Ei1, Ei2 in *.
    assert (Hpt : str_eqb p tau = false) by (apply str_eqb_neq; exact Hp).
    assert (K1 : exists n, x1 = ON n /\ nk n = KBnode).
    { destruct (key_cases inv p i1 x1 _ Hi1 Hx1 Hpt Hk1) as [(cc & dt & _ & _ & Hn & _) | [(n & -> & E) | (n & _ & _ & Hs & _)]].
      - discriminate Hn.
      - exists n. split; [reflexivity|]. unfold elem_type_node in E. destruct (nk n); [discriminate E | reflexivity].
      - discriminate Hs. }
    assert (K2 : exists n, x2 = ON n /\ nk n = KIri).
    { destruct (key_cases inv p i2 x2 _ Hi2 Hx2 Hpt Hk2) as [(cc & dt & _ & _ & Hn & _) | [(n & -> & E) | (n & _ & _ & Hs & _)]].
      - discriminate Hn.
      - exists n. split; [reflexivity|]. unfold elem_type_node in E. destruct (nk n); [reflexivity | discriminate E].
      - discriminate Hs. }
    destruct K1 as [n1 [-> N1]]. destruct K2 as [n2 [-> N2]].
    assert (H1 : In n1 (nl_nbrs tau G c inv p)) by (apply nl_nbrs_In; exists i1; split; assumption).
    assert (H2 : In n2 (nl_nbrs tau G c inv p)) by (apply nl_nbrs_In; exists i2; split; assumption).
    pose proof (sd_kinds _ _ _ SD c inv p n1 n2 Hp H1 H2) as E. congruence.
  Qed.

  (** ** selected statements are candidates up to comments (no NONLITERAL, no disjunction) *)
  Lemma like_trans B r d : same_core r d -> like B d -> like B r.
  Proof. intros H [b [Hb Hc]]. exists b. split; [exact Hb | eapply same_core_trans; eassumption]. Qed.

  Lemma group_nodes_like inv : forall fuel l out,
    (forall d, In d l -> like (class_dir fa cfg thr counts ce inv) d) ->
    group_nodes fa cfg fuel cnt l = inl out ->
    forall r, In r out -> like (class_dir fa cfg thr counts ce inv) r.
  Proof.
    induction fuel as [|f IH]; cbn; intros l out Hl H r Hr.
    - inversion H; subst. apply Hl, Hr.
    - destruct l as [|a0 rest]; [inversion H; subst; destruct Hr|]. fold (passes cfg a0) in H.
      destruct (passes cfg a0) eqn:Ep0.
      + destruct (group_nodes fa cfg f cnt rest) as [rs|e] eqn:E1; [|discriminate]. inversion H; subst.
        destruct Hr as [<-|Hr]; [apply Hl; left; reflexivity|].
        eapply IH; [|exact E1|exact Hr]. intros d Hd. apply Hl. right. exact Hd.
      + match type of H with match ?p with _ => _ end = _ => destruct p as [r0|e] eqn:E0 end; [|discriminate].
        destruct (group_nodes fa cfg f cnt _) as [rs|e] eqn:E1; [|discriminate]. inversion H; subst.
        destruct Hr as [<-|Hr].
        * destruct (filter (mergeable_with a0) rest) as [|b grp] eqn:Eg.
          -- inversion E0; subst. apply Hl. left. reflexivity.
          -- set (g0 := a0 :: b :: grp) in *.
             assert (Hg0 : forall d, In d g0 -> like (class_dir fa cfg thr counts ce inv) d /\ s_prop d = s_prop a0).
             { intros d [<-|Hd]; [split; [apply Hl; left; reflexivity | reflexivity]|].
               rewrite <- Eg in Hd. apply filter_In in Hd. destruct Hd as [Hd Hm]. split; [apply Hl; right; exact Hd|].
               unfold mergeable_with in Hm. apply andb_true_iff in Hm. destruct Hm as [_ M]. apply str_eqb_eq in M. auto. }
             assert (Hp : s_prop a0 <> tau).
             { unfold passes in Ep0. apply orb_false_iff in Ep0. destruct Ep0 as [E _]. apply str_eqb_neq in E. exact E. }
             destruct (merge_group_homog fa cfg cnt g0 r0 Hor (no_both_kinds inv g0 _ Hp Hg0) E0) as [d [Hd Hc]].
             eapply like_trans; [exact Hc | apply Hg0, Hd].
        * eapply IH; [|exact E1|exact Hr]. intros d Hd. apply filter_In in Hd. apply Hl. right. apply Hd.
  Qed.

  Lemma selected_like inv out :
    select_valid fa cfg cnt (class_dir fa cfg thr counts ce inv) = inl out ->
    forall v, In v out -> like (class_dir fa cfg thr counts ce inv) v.
  Proof.
    unfold select_valid. destruct (class_dir fa cfg thr counts ce inv) as [|a0 L0] eqn:EL.
    - intros H v Hv. inversion H; subst. destruct Hv.
    - destruct (group_same fa cfg _ cnt (a0 :: L0)) as [l1|e] eqn:E1; [|discriminate].
      intros H v Hv. rewrite <- EL in *.
      eapply group_nodes_like; [|exact H|exact Hv].
      pose proof (group_same_like _ _ _ _ _ _ E1) as F. rewrite Forall_forall in F. exact F.
  Qed.

  Lemma class_selected_parts sel :
    class_selected fa cfg thr counts ce = inl sel ->
    exists vd vi, select_valid fa cfg cnt (class_dir fa cfg thr counts ce false) = inl vd /\
                  select_valid fa cfg cnt (class_dir fa cfg thr counts ce true) = inl vi /\ sel = vd ++ vi.
  Proof.
    unfold class_selected. fold cnt.
    destruct (select_valid fa cfg cnt (class_dir fa cfg thr counts ce false)) as [vd|e]; [|discriminate].
    destruct (select_valid fa cfg cnt (class_dir fa cfg thr counts ce true)) as [vi|e]; [|discriminate].
    intros H; inversion H; subst. exists vd, vi. repeat split.
  Qed.

  Lemma selected_dir inv sel out v :
    class_selected fa cfg thr counts ce = inl sel ->
    select_valid fa cfg cnt (class_dir fa cfg thr counts ce inv) = inl out -> In v out -> In v sel.
  Proof.
    intros Hs Ho Hv. destruct (class_selected_parts sel Hs) as (vd & vi & Hd & Hi & ->).
    apply in_or_app. destruct inv; [right | left]; congruence.
  Qed.

  (** ** value expressions and type keys agree on the values of an instance *)
  Lemma ve_of_ext s b : s_prop s = s_prop b -> s_types s = s_types b -> ve_of tau s = ve_of tau b.
  Proof. intros H1 H2. unfold ve_of, s_type. rewrite H1, H2. reflexivity. Qed.

  Lemma keys_of_node inv p n : str_eqb p tau = false ->
    keys_of tau sns G inv p (ON n) =
    elem_type_node n :: (if inv && nkind_eqb (nk n) KBnode then [] else labels_of tau sns G n).
  Proof. intros E. unfold keys_of. rewrite E. reflexivity. Qed.

  Lemma keys_of_lit inv p cc dt : str_eqb p tau = false -> keys_of tau sns G inv p (OL cc dt) = [dt].
  Proof. intros E. unfold keys_of. rewrite E. reflexivity. Qed.

  Lemma mem_str_cons k a l : mem_str k (a :: l) = str_eqb k a || mem_str k l.
  Proof. reflexivity. Qed.

  Lemma mem_str_one k a : mem_str k [a] = str_eqb k a.
  Proof. cbn [mem_str]. apply orb_false_r. Qed.

  Lemma rest_not_mem inv n k : is_shape_type k = false ->
    mem_str k (if inv && nkind_eqb (nk n) KBnode then [] else labels_of tau sns G n) = false.
  Proof.
    intros Hk. destruct (inv && nkind_eqb (nk n) KBnode); [reflexivity | apply (label_not_mem tau sns G SD); exact Hk].
  Qed.

  Lemma match_key inv b i x :
    In b (class_dir fa cfg thr counts ce inv) -> In i insts -> In x (nbrs G i inv (s_prop b)) ->
    matches (T0 tau sns G) x (ve_of tau b) = mem_str (s_type b) (keys_of tau sns G inv (s_prop b) x).
  Proof.
    intros Hb Hi Hx. pose proof (base_type_not_nl inv b Hb) as Hnl.
    destruct (base_witness inv b Hb) as (_ & _ & _ & _ & i' & x' & Hi' & Hx' & Hk').
    set (p := s_prop b) in *. set (k := s_type b) in *.
    unfold ve_of. fold p k. destruct (str_eqb p tau) eqn:Ep.
    - apply str_eqb_eq in Ep. rewrite Ep in Hx. destruct (tau_value i x inv Hi Hx) as [-> [cn [-> _]]].
      rewrite Ep. unfold keys_of. fold tau. rewrite str_eqb_refl. rewrite mem_str_one.
      unfold matches. cbn [nk nid nkind_eqb andb]. apply str_eqb_sym.
    - assert (Hpt : p <> tau) by (apply str_eqb_neq; exact Ep).
      assert (Hlit : forall cc dt, x = OL cc dt -> is_nonliteral_type dt = false).
      { intros cc dt ->. eapply nbr_literal_datatype; eassumption. }
      destruct (str_eqb k c_IRI_ELEM_TYPE) eqn:E1.
      { apply str_eqb_eq in E1. rewrite E1. destruct x as [n|cc dt].
        - rewrite (keys_of_node _ _ _ Ep), mem_str_cons, (rest_not_mem inv n _ iri_not_shape), orb_false_r.
          unfold matches, elem_type_node. destruct (nk n); reflexivity.
        - rewrite (keys_of_lit _ _ _ _ Ep), mem_str_one. unfold matches.
          pose proof (Hlit cc dt eq_refl) as Hd. unfold is_nonliteral_type in Hd.
          apply orb_false_iff in Hd. destruct Hd as [Hd _]. apply orb_false_iff in Hd. destruct Hd as [_ Hd].
          rewrite str_eqb_sym. symmetry. exact Hd. }
      destruct (str_eqb k c_BNODE_ELEM_TYPE) eqn:E2.
      { apply str_eqb_eq in E2. rewrite E2. destruct x as [n|cc dt].
        - rewrite (keys_of_node _ _ _ Ep), mem_str_cons, (rest_not_mem inv n _ bnode_not_shape), orb_false_r.
          unfold matches, elem_type_node. destruct (nk n); reflexivity.
        - rewrite (keys_of_lit _ _ _ _ Ep), mem_str_one. unfold matches.
          pose proof (Hlit cc dt eq_refl) as Hd. unfold is_nonliteral_type in Hd.
          apply orb_false_iff in Hd. destruct Hd as [_ Hd]. rewrite str_eqb_sym. symmetry. exact Hd. }
      destruct (str_eqb k c_NONLITERAL_ELEM_TYPE) eqn:E3; [apply str_eqb_eq in E3; contradiction|].
      destruct (is_shape_type k) eqn:E4.
      { destruct x as [n|cc dt].
        - rewrite (keys_of_node _ _ _ Ep), mem_str_cons. unfold matches. rewrite in_typing_labels.
          assert (He : str_eqb k (elem_type_node n) = false).
          { apply str_eqb_neq. intros E. rewrite E in E4. rewrite elem_type_shape in E4. discriminate. }
          rewrite He, orb_false_l.
          assert (Hnb : inv && nkind_eqb (nk n) KBnode = false).
          { destruct (key_cases inv p i' x' k Hi' Hx' Ep Hk')
              as [(cc & dt & _ & _ & Hn & _) | [(n' & _ & E) | (n' & -> & _ & _ & Hb')]].
            - unfold is_nonliteral_type in Hn. rewrite E4 in Hn. discriminate Hn.
            - rewrite E in E4. rewrite elem_type_shape in E4. discriminate.
            - assert (H1 : In n' (nl_nbrs tau G c inv p)) by (apply nl_nbrs_In; exists i'; split; assumption).
              assert (H2 : In n (nl_nbrs tau G c inv p)) by (apply nl_nbrs_In; exists i; split; assumption).
              rewrite <- (sd_kinds _ _ _ SD c inv p n' n Hpt H1 H2). exact Hb'. }
          rewrite Hnb. reflexivity.
        - rewrite (keys_of_lit _ _ _ _ Ep), mem_str_one. unfold matches.
          pose proof (Hlit cc dt eq_refl) as Hd.
          symmetry. apply str_eqb_neq. intros E. subst dt. unfold is_nonliteral_type in Hd. rewrite E4 in Hd. discriminate Hd. }
      destruct x as [n|cc dt].
      + rewrite (keys_of_node _ _ _ Ep), mem_str_cons, (rest_not_mem inv n _ E4), orb_false_r. unfold matches.
        symmetry. unfold elem_type_node. destruct (nk n); assumption.
      + rewrite (keys_of_lit _ _ _ _ Ep), mem_str_one. unfold matches. apply str_eqb_sym.
  Qed.

  (** ** the statements of the extracted shape *)
  Lemma stmt_base sh s :
    shex_class fa cfg thr counts ce = inl sh -> In s (sh_stmts sh) ->
    exists b, In b (class_dir fa cfg thr counts ce (s_inv s)) /\
              s_prop s = s_prop b /\ s_types s = s_types b /\ s_choice s = false.
  Proof.
    intros Hc Hs. rewrite shex_class_eq in Hc.
    destruct (class_selected fa cfg thr counts ce) as [sel|e] eqn:Esel; [|discriminate].
    destruct (tune fa cfg (class_cnt counts ce) sel) as [stmts|e] eqn:Et; [|discriminate].
    inversion Hc; subst sh; cbn in Hs. clear Hc.
    destruct (tune_spec _ _ _ _ _ Et s Hs) as [v [Hv (T1 & T2 & T3 & T4 & _)]].
    destruct (class_selected_dir _ _ _ _ _ _ _ Esel Hv) as (inv & out & Hout & Hvo).
    destruct (selected_like inv out Hout v Hvo) as [b [Hb Hcore]].
    destruct (base_witness inv b Hb) as (_ & Hbi & Hbc & _).
    destruct Hcore as (C1 & C2 & C3 & C4 & _).
    assert (Einv : s_inv s = inv) by congruence. rewrite Einv.
    exists b. repeat split; congruence.
  Qed.

  (** (a): every cardinality of the shape holds for every instance *)
  Lemma class_sat_cards sh s i :
    shex_class fa cfg thr counts ce = inl sh -> In s (sh_stmts sh) -> In i insts ->
    card_ok (tc_card (tc_of tau s)) (count_matching (T0 tau sns G) G i (tc_of tau s)) = true.
  Proof.
    intros Hc Hs Hi. destruct (stmt_base sh s Hc Hs) as [b [Hb [Ep [Et Hch]]]].
    assert (Ety : s_type s = s_type b) by (unfold s_type; rewrite Et; reflexivity).
    assert (Hnl : s_type s <> c_NONLITERAL_ELEM_TYPE) by (rewrite Ety; eapply base_type_not_nl; exact Hb).
    pose proof (class_cardinalities fa okN okF L cfg node insts (cntk tau sns G) thr counts ce Hthr Hcnt HokN
                  (Hwf false (fun E => False_ind _ (Bool.diff_false_true E)))
                  (fun E => Hwf true (fun _ => E))
                  (fun i0 inv k Hi0 => tau_once tau sns G SD i0 inv k c Hi0)
                  sh Hkls Hac Hc s Hs Hch Hnl i Hi) as Hcard.
    unfold tc_of, count_matching. cbn [tc_card tc_inv tc_pred tc_ve].
    apply card_ok_holds.
    replace (N.of_nat (List.length (filter (fun x => matches (T0 tau sns G) x (ve_of tau s))
                                           (nbrs G i (s_inv s) (s_prop s)))))
      with (cntk tau sns G i (s_inv s) (s_prop s) (s_type s)); [exact Hcard|].
    unfold cntk. f_equal. f_equal. apply filter_ext_in'. intros x Hx.
    rewrite (ve_of_ext s b Ep Et), Ety, Ep. symmetry. apply (match_key (s_inv s) b i x Hb Hi).
    rewrite <- Ep. exact Hx.
  Qed.

  (** (b): every value of an instance over a path the class has candidates
      for is matched by some statement of the shape *)
  Lemma value_matched sh inv i x p :
    shex_class fa cfg thr counts ce = inl sh -> dir_ok inv -> In i insts -> In x (nbrs G i inv p) ->
    exists s', In s' (sh_stmts sh) /\ s_inv s' = inv /\ s_prop s' = p /\
               matches (T0 tau sns G) x (ve_of tau s') = true.
  Proof.
    intros Hc Hd Hi Hx. rewrite shex_class_eq in Hc.
    destruct (class_selected fa cfg thr counts ce) as [sel|e] eqn:Esel; [|discriminate].
    destruct (tune fa cfg (class_cnt counts ce) sel) as [stmts|e] eqn:Et; [|discriminate].
    inversion Hc; subst sh; cbn [sh_stmts]. clear Hc.
    (* the main key of the value *)
    set (k0 := match x with
               | OL _ dt => dt
               | ON n => if str_eqb p tau then nid n else elem_type_node n
               end).
    assert (Hk0 : mem_str k0 (keys_of tau sns G inv p x) = true).
    { unfold k0, keys_of. destruct x as [n|cc dt].
      - destruct (str_eqb p tau); cbn [mem_str]; rewrite str_eqb_refl; reflexivity.
      - destruct (str_eqb p tau) eqn:Ep.
        + exfalso. apply str_eqb_eq in Ep. rewrite Ep in Hx. destruct (tau_value i _ inv Hi Hx) as [_ [cn [E _]]]. discriminate E.
        + cbn [mem_str]. rewrite str_eqb_refl. reflexivity. }
    assert (Hpos0 : (0 < cntk tau sns G i inv p k0)%N).
    { unfold cntk. assert (In x (filter (fun y => mem_str k0 (keys_of tau sns G inv p y)) (nbrs G i inv p)))
        by (apply filter_In; split; assumption).
      destruct (filter _ (nbrs G i inv p)); [destruct H | cbn; lia]. }
    destruct (Hcomp inv Hd i p k0 Hi Hpos0) as (m & cd & n0 & H1 & H2 & H3).
    set (ck0 := if str_eqb p tau then CKn 1 else CKplus) in *.
    set (b0 := mk_base inv p k0 ck0 n0).
    assert (Hb0 : In b0 (class_dir fa cfg thr counts ce inv)).
    { apply class_dir_In. split; [|reflexivity]. apply class_base_In. cbn [s_inv b0 mk_base]. split; [exact Hd|].
      apply base_statements_In. exists p, m, k0, cd, ck0, n0. repeat split; try assumption.
      apply Hthr0. apply (ratio_wf _ _ _ L). exact HokN. }
    destruct (class_selected_parts sel Esel) as (vd & vi & Hvd & Hvi & Esel').
    assert (Hout : exists out, select_valid fa cfg cnt (class_dir fa cfg thr counts ce inv) = inl out)
      by (destruct inv; eauto).
    destruct Hout as [out Hout].
    assert (Hsub : forall v, In v out -> In v sel) by (intros v; eapply selected_dir; eassumption).
    (* through the two merges *)
    pose proof Hout as Hsel. unfold select_valid in Hsel.
    destruct (class_dir fa cfg thr counts ce inv) as [|a0 L0] eqn:EL; [destruct Hb0|]. rewrite <- EL in *.
    destruct (group_same fa cfg _ cnt (class_dir fa cfg thr counts ce inv)) as [l1|e] eqn:E1; [|discriminate].
    destruct (group_same_complete fa cfg cnt _ _ _ (le_n _) E1 b0 Hb0) as (r1 & d & Hr1 & Hdd & Htok & Hcore).
    apply same_tokens_eq in Htok. destruct Htok as [K1 K2]. cbn [s_prop b0 mk_base] in K1.
    assert (K2' : s_type d = k0) by (rewrite <- K2; reflexivity).
    assert (Hl1 : forall y, In y l1 -> like (class_dir fa cfg thr counts ce inv) y).
    { pose proof (group_same_like _ _ _ _ _ _ E1) as F. rewrite Forall_forall in F. exact F. }
    destruct (group_nodes_complete fa cfg cnt _ _ _ (le_n _) Hsel r1 Hr1) as [Hpass Hmerge].
    assert (Hfin : forall r dd, In r out -> In dd (class_dir fa cfg thr counts ce inv) -> same_core r dd ->
                   s_prop dd = p -> matches (T0 tau sns G) x (ve_of tau dd) = true ->
                   exists s', In s' stmts /\ s_inv s' = inv /\ s_prop s' = p /\
                              matches (T0 tau sns G) x (ve_of tau s') = true).
    { intros r dd Hr Hddin Hc Hp Hm. destruct (tune_complete _ _ _ _ _ Et r (Hsub r Hr)) as (s' & Hs' & S1 & S2 & S3).
      destruct Hc as (C1 & C2 & C3 & _). destruct (base_witness inv dd Hddin) as (_ & Hi' & _).
      exists s'. split; [exact Hs'|]. split; [congruence|]. split; [congruence|].
      rewrite (ve_of_ext s' dd); [exact Hm | congruence | congruence]. }
    destruct (passes cfg r1) eqn:Ep1.
    - (* the statement of (p, k0) passes through *)
      apply (Hfin r1 d (Hpass eq_refl) Hdd Hcore (eq_sym K1)).
      rewrite (match_key inv d i x Hdd Hi); [rewrite K2', <- K1; exact Hk0 | rewrite <- K1; exact Hx].
    - (* merged with the non-literal statements of p *)
      destruct (Hmerge eq_refl) as (r & g & Hr & Hne & Hg & Hm).
      assert (Ppr : s_prop r1 = p) by (destruct Hcore as (_ & E & _); congruence).
      assert (Tyr : s_type r1 = k0) by (rewrite (same_core_type _ _ Hcore); exact K2').
      unfold passes in Ep1. apply orb_false_iff in Ep1. destruct Ep1 as [Ep1 Enl]. apply negb_false_iff in Enl.
      fold tau in Ep1. rewrite Ppr in Ep1. rewrite Tyr in Enl.
      assert (Hpt : p <> tau) by (apply str_eqb_neq; exact Ep1).
      assert (Hxn : exists n, x = ON n).
      { destruct x as [n|cc dt]; [eauto|]. exfalso. unfold k0 in Enl.
        destruct (nbr_literal_datatype tau sns G SD i inv p cc dt Hx) as [Hdt _]. congruence. }
      destruct Hxn as [n ->].
      assert (Hg' : forall y, In y g -> like (class_dir fa cfg thr counts ce inv) y /\ s_prop y = p).
      { intros y Hy. destruct (Hg y Hy) as (G1 & G2 & _). split; [apply Hl1; exact G1 | congruence]. }
      assert (Hlike : like g r).
      { destruct Hm as [-> | Hm]; [exists r; split; [left; reflexivity | apply same_core_refl]|].
        apply (merge_group_homog fa cfg cnt g r Hor); [|exact Hm]. apply (no_both_kinds inv g p Hpt Hg'). }
      destruct Hlike as [d' [Hd' Hc']]. destruct (Hg' d' Hd') as [[d'' [Hd'' Hc'']] Pd'].
      destruct (Hg d' Hd') as (_ & _ & Nd').
      assert (Pd'' : s_prop d'' = p) by (destruct Hc'' as (_ & E & _); congruence).
      assert (Nd'' : is_nonliteral_type (s_type d'') = true) by (rewrite <- (same_core_type _ _ Hc''); exact Nd').
      apply (Hfin r d'' Hr Hd'' (same_core_trans _ _ _ Hc' Hc'') Pd'').
      rewrite (match_key inv d'' i (ON n) Hd'' Hi); [|rewrite Pd''; exact Hx].
      rewrite Pd'', (keys_of_node _ _ _ Ep1), mem_str_cons.
      destruct (base_witness inv d'' Hd'') as (_ & _ & _ & _ & i2 & x2 & Hi2 & Hx2 & Hk2). rewrite Pd'' in Hx2, Hk2.
      assert (Hn1 : In n (nl_nbrs tau G c inv p)) by (apply nl_nbrs_In; exists i; split; assumption).
      destruct (key_cases inv p i2 x2 _ Hi2 Hx2 Ep1 Hk2)
        as [(cc & dt & _ & E & Hn & _) | [(n2 & -> & E) | (n2 & -> & Hlab & Hs & Hb2)]].
      + rewrite E in Nd''. congruence.
      + assert (Hn2 : In n2 (nl_nbrs tau G c inv p)) by (apply nl_nbrs_In; exists i2; split; assumption).
        rewrite E. unfold elem_type_node. rewrite (sd_kinds _ _ _ SD c inv p n n2 Hpt Hn1 Hn2).
        rewrite str_eqb_refl. reflexivity.
      + assert (Hn2 : In n2 (nl_nbrs tau G c inv p)) by (apply nl_nbrs_In; exists i2; split; assumption).
        rewrite (sd_kinds _ _ _ SD c inv p n n2 Hpt Hn1 Hn2), Hb2.
        destruct (sd_typed _ _ _ SD c inv p Hpt) as [Hun | [l Hl]].
        * rewrite (Hun n2 Hn2) in Hlab. destruct Hlab.
        * rewrite (Hl n2 Hn2) in Hlab. destruct Hlab as [<-|[]]. rewrite (Hl n Hn1).
          rewrite mem_str_one, str_eqb_refl. apply orb_true_r.
  Qed.

  (** T4 for one class: the extracted shape is satisfied by every instance *)
  Theorem class_sat sh i :
    shex_class fa cfg thr counts ce = inl sh -> In i insts ->
    sat (T0 tau sns G) G i (map (tc_of tau) (sh_stmts sh)).
  Proof.
    intros Hc Hi. split.
    - intros tcx Htc. apply in_map_iff in Htc. destruct Htc as [s [<- Hs]].
      apply (class_sat_cards sh s i Hc Hs Hi).
    - intros tcx x Htc Hx. apply in_map_iff in Htc. destruct Htc as [s [<- Hs]].
      cbn [tc_of tc_inv tc_pred] in Hx.
      destruct (stmt_base sh s Hc Hs) as [b [Hb _]].
      destruct (base_witness (s_inv s) b Hb) as (Hd & _).
      destruct (value_matched sh (s_inv s) i x (s_prop s) Hc Hd Hi Hx) as (s' & Hs' & I' & P' & M').
      exists (tc_of tau s'). split; [apply in_map; exact Hs'|]. cbn [tc_of tc_inv tc_pred tc_ve].
      repeat split; assumption.
  Qed.
End Sat.

(** * Part 4 -- the whole stage: the instance typing is a valid typing *)

Lemma clean_shapes_id fuel l :
  (forall sh, In sh l -> sh_stmts sh <> []) -> clean_shapes fuel l = inl l.
Proof.
  intros H. assert (E : empty_names l = []).
  { unfold empty_names. assert (F : filter (fun s => match sh_stmts s with [] => true | _ => false end) l = []).
    { induction l as [|sh l IH]; [reflexivity|]. cbn.
      destruct (sh_stmts sh) eqn:Es; [exfalso; apply (H sh (or_introl eq_refl)); exact Es|].
      apply IH. intros sh' Hsh'. apply H. right. exact Hsh'. }
    rewrite F. reflexivity. }
  destruct fuel; cbn; [reflexivity|]. rewrite E. reflexivity.
Qed.

Lemma lookup_schema_of tau shapes l :
  (exists sh, In sh shapes /\ sh_name sh = l) ->
  exists sh', In sh' shapes /\ sh_name sh' = l /\
              lookup (schema_of tau shapes) l = Some (map (tc_of tau) (sh_stmts sh')).
Proof.
  induction shapes as [|sh0 shapes IH]; intros [sh [Hin Hn]]; [destruct Hin|].
  cbn. destruct (str_eqb l (sh_name sh0)) eqn:E.
  - apply str_eqb_eq in E. exists sh0. split; [left; reflexivity|]. split; [auto | reflexivity].
  - destruct Hin as [<-|Hin]; [rewrite Hn, str_eqb_refl in E; discriminate|].
    destruct (IH (ex_intro _ sh (conj Hin Hn))) as [sh' [H1 [H2 H3]]].
    exists sh'. split; [right; exact H1|]. split; assumption.
Qed.

Section Stage.
  Variable fa : FreqAlg.
  Variable okN : N -> Prop.
  Variable okF : F fa -> Prop.
  Hypothesis L : FreqLaws fa okN okF.
  Variable cfg : scfg.
  Variable G : graph.
  Let tau := x_tau cfg.
  Let sns := x_shapes_ns cfg.

  (** the profile characterisation (P1, Proofs/ProfileChar.v) as a premise:
      for every class of the profile the count is the number of its instances,
      every entry holds the number of instances that count for it and is
      positive, every key carried by a value of an instance has its entry;
      every class that types a node has a profile entry; labels are distinct *)
  Definition profile_exact (P : cprofile) (C : ccounts) : Prop :=
    (forall ce, In ce P ->
       let insts := instances_of tau G (fst ce) in
       insts <> [] /\
       class_cnt C ce = N.of_nat (List.length insts) /\ okN (class_cnt C ce) /\
       (forall inv, (inv = true -> x_inverse cfg = true) ->
          pd_wf cfg node insts (cntk tau sns G) inv (class_pd ce inv)) /\
       (forall inv, (inv = true -> x_inverse cfg = true) -> forall p m k cd ck n,
          In (p, m) (class_pd ce inv) -> In (k, cd) m -> In (ck, n) cd -> (0 < n)%N) /\
       (forall inv, (inv = true -> x_inverse cfg = true) -> forall i p k,
          In i insts -> (0 < cntk tau sns G i inv p k)%N ->
          exists m cd n, In (p, m) (class_pd ce inv) /\ In (k, cd) m /\
                         In ((if str_eqb p tau then CKn 1 else CKplus), n) cd)) /\
    (forall t cn, In t G -> tp t = tau -> to t = ON cn -> exists ce, In ce P /\ fst ce = nid cn) /\
    (forall ce1 ce2, In ce1 P -> In ce2 P ->
       shape_name sns (fst ce1) = shape_name sns (fst ce2) -> fst ce1 = fst ce2).

  Hypothesis Hkls : x_keep_less_specific cfg = true.
  Hypothesis Hac : x_all_compliant cfg = true.
  Hypothesis Hor : x_disable_or cfg = true.
  Hypothesis SD : strict_dom tau sns G.
  Variable thr : F fa.
  Hypothesis Hthr : okF thr.
  Hypothesis Hthr0 : forall x, okF x -> fle fa thr x = true.
  Variable P : cprofile.
  Variable C : ccounts.
  Hypothesis HP : profile_exact P C.

  Lemma class_shape_nonempty ce sh :
    In ce P -> shex_class fa cfg thr C ce = inl sh -> sh_stmts sh <> [].
  Proof.
    intros Hce Hc. destruct HP as [H1 _]. destruct (H1 ce Hce) as (Hne & Hcnt & HokN & Hwf & Hpos & Hcomp).
    destruct (instances_of tau G (fst ce)) as [|i insts'] eqn:Ei; [contradiction|].
    assert (Hi : In i (instances_of tau G (fst ce))) by (rewrite Ei; left; reflexivity).
    pose proof Hi as Hi'. apply instances_of_In in Hi'. destruct Hi' as (t & cn & Ht & Hp & Ho & _ & Hs).
    assert (Hx : In (ON cn) (nbrs G i false tau)).
    { apply nbrs_In. exists t. split; [exact Ht|]. split; [exact Hp|]. split; [exact Hs | symmetry; exact Ho]. }
    rewrite <- Ei in *.
    destruct (value_matched fa okN okF L cfg G sns Hor SD thr Hthr0 C ce Hcnt HokN Hwf Hpos Hcomp
                            sh false i (ON cn) tau Hc ltac:(discriminate) Hi Hx) as (s' & Hs' & _).
    intros E. rewrite E in Hs'. destruct Hs'.
  Qed.

  (** T4: conformance of every instance, given the profile characterisation *)
  Theorem stage_conformance shapes :
    shex fa cfg thr P C = inl shapes ->
    valid_typing (schema_of tau shapes) G (T0 tau sns G).
  Proof.
    unfold shex. destruct (map_err (shex_class fa cfg thr C) P) as [l|e] eqn:E; [|discriminate].
    assert (Hne : forall sh, In sh l -> sh_stmts sh <> []).
    { intros sh Hsh. destruct (map_err_In _ _ _ _ E Hsh) as [ce [Hce Hc]]. eapply class_shape_nonempty; eassumption. }
    rewrite (clean_shapes_id _ l Hne). intros Hs. assert (shapes = l) by (destruct (x_remove_empty cfg); congruence).
    subst l. clear Hs.
    intros i lab Hin.
    (* the class behind the pair *)
    pose proof Hin as Hin'. unfold T0, instance_typing in Hin'. apply in_flat_map in Hin'.
    destruct Hin' as [t [Ht Hin']]. destruct (str_eqb (tp t) tau) eqn:Ep; [|destruct Hin'].
    apply str_eqb_eq in Ep. destruct (to t) as [cn|] eqn:Eo; [|destruct Hin'].
    destruct Hin' as [Epair|[]]. inversion Epair; subst i lab. clear Epair.
    destruct HP as [H1 [H2 H3]]. destruct (H2 t cn Ht Ep Eo) as [ce [Hce Ecl]].
    destruct (map_err_complete _ _ _ _ E Hce) as [sh [Hsh Hc]].
    assert (Hname : sh_name sh = shape_name sns (nid cn)).
    { rewrite shex_class_eq in Hc. destruct (class_selected _ _ _ _ _); [|discriminate].
      destruct (tune _ _ _ _); [|discriminate]. inversion Hc; subst. cbn. rewrite Ecl. reflexivity. }
    destruct (lookup_schema_of tau shapes (shape_name sns (nid cn)) (ex_intro _ sh (conj Hsh Hname)))
      as [sh' [Hsh' [Hname' Hlook]]].
    exists (map (tc_of tau) (sh_stmts sh')). split; [exact Hlook|].
    destruct (map_err_In _ _ _ _ E Hsh') as [ce' [Hce' Hc']].
    assert (Hname'' : sh_name sh' = shape_name sns (fst ce')).
    { rewrite shex_class_eq in Hc'. destruct (class_selected _ _ _ _ _); [|discriminate].
      destruct (tune _ _ _ _); [|discriminate]. inversion Hc'; subst. reflexivity. }
    assert (Ecls : fst ce' = nid cn).
    { rewrite <- Ecl. apply H3; try assumption. rewrite Ecl. congruence. }
    destruct (H1 ce' Hce') as (_ & Hcnt & HokN & Hwf & Hpos & Hcomp).
    apply (class_sat fa okN okF L cfg G sns Hkls Hac Hor SD thr Hthr Hthr0 C ce' Hcnt HokN Hwf Hpos Hcomp sh').
    - exact Hc'.
    - rewrite Ecls. apply instances_of_In. exists t, cn. repeat split; assumption.
  Qed.
End Stage.

(** * Part 5 -- the strict domain as a boolean, and the run-level statement *)

Lemma nodupb_NoDup l : nodupb l = true -> NoDup l.
Proof.
  induction l as [|x r IH]; cbn; intros H; [constructor|].
  apply andb_true_iff in H. destruct H as [H1 H2]. constructor; [|apply IH; exact H2].
  intros Hin. apply negb_true_iff in H1. assert (existsb (triple_eqb x) r = true); [|congruence].
  apply existsb_exists. exists x. split; [exact Hin | apply triple_eqb_eq; reflexivity].
Qed.

Lemma list_str_eqb_eq a b : list_str_eqb a b = true <-> a = b.
Proof.
  revert b; induction a as [|x a IH]; destruct b as [|y b]; cbn; try (split; congruence).
  rewrite andb_true_iff, str_eqb_eq, IH. split; [intros [-> ->]; reflexivity | intros H; inversion H; auto].
Qed.

Section DomB.
  Variable tau sns : str.
  Variable G : graph.
  Local Notation classes_in := (C03Dom.classes_in tau G).
  Local Notation preds_in := (C03Dom.preds_in G).
  Local Notation typed_homog := (C03Dom.typed_homog tau sns G).
  Local Notation path_ok := (C03Dom.path_ok tau sns G).
  Local Notation strict_domb := (C03Dom.strict_domb tau sns G).

  Lemma instances_of_nil c : ~ In c classes_in -> instances_of tau G c = [].
  Proof.
    intros Hn. destruct (instances_of tau G c) as [|i l] eqn:E; [reflexivity|exfalso].
    assert (Hi : In i (instances_of tau G c)) by (rewrite E; left; reflexivity).
    apply instances_of_In in Hi. destruct Hi as (t & cn & Ht & Hp & Ho & Hc & _).
    apply Hn. unfold classes_in. apply in_flat_map. exists t. split; [exact Ht|].
    rewrite <- Hp, str_eqb_refl, Ho. left. exact Hc.
  Qed.

  Lemma nl_nbrs_nil c inv p : ~ (In c classes_in /\ In p preds_in) -> nl_nbrs tau G c inv p = [].
  Proof.
    intros Hn. destruct (nl_nbrs tau G c inv p) as [|n l] eqn:E; [reflexivity|exfalso].
    assert (Hin : In n (nl_nbrs tau G c inv p)) by (rewrite E; left; reflexivity).
    apply nl_nbrs_In in Hin. destruct Hin as [i [Hi Hx]]. apply Hn. split.
    - destruct (in_dec str_eq_dec c classes_in) as [H|H]; [exact H|].
      rewrite (instances_of_nil c H) in Hi. destruct Hi.
    - apply nbrs_In in Hx. destruct Hx as (t & Ht & Hp & _). unfold preds_in. rewrite <- Hp. apply in_map. exact Ht.
  Qed.

  Lemma strict_domb_sound : strict_domb = true -> strict_dom tau sns G.
  Proof.
    unfold C03Dom.strict_domb. rewrite !andb_true_iff. intros [[[[[[H0a H0b] H1] H2] H3] H4] H5].
    rewrite forallb_forall in H0a, H0b, H2, H3, H4, H5.
    assert (Hmark : forall n, (exists t, In t G /\ (ts t = n \/ to t = ON n)) -> markedb n = true).
    { intros n (t & Ht & Hn). specialize (H0a t Ht). apply andb_true_iff in H0a. destruct H0a as [A B].
      destruct Hn as [<-|Hn]; [exact A | rewrite Hn in B; exact B]. }
    assert (Hpath : forall c inv p, p <> tau ->
              kinds_homog (nl_nbrs tau G c inv p) = true /\ typed_homog (nl_nbrs tau G c inv p) = true).
    { intros c inv p Hp.
      destruct (in_dec str_eq_dec c classes_in) as [Hc|Hc];
        [destruct (in_dec str_eq_dec p preds_in) as [Hpp|Hpp]|].
      - specialize (H5 c Hc). rewrite forallb_forall in H5. specialize (H5 p Hpp).
        apply andb_true_iff in H5. destruct H5 as [A B].
        assert (E : path_ok c inv p = true) by (destruct inv; assumption).
        unfold path_ok in E. apply str_eqb_neq in Hp. rewrite Hp in E. cbn in E. apply andb_true_iff in E. exact E.
      - rewrite (nl_nbrs_nil c inv p) by tauto. split; reflexivity.
      - rewrite (nl_nbrs_nil c inv p) by tauto. split; reflexivity. }
    constructor.
    - intros n n' Hn Hn' E. apply Hmark in Hn. apply Hmark in Hn'. unfold markedb in Hn, Hn'.
      apply Bool.eqb_prop in Hn. apply Bool.eqb_prop in Hn'.
      destruct n as [k i], n' as [k' i']. cbn in *. subst i'. f_equal. rewrite <- Hn' in Hn.
      destruct k, k'; cbn in Hn; congruence.
    - intros t1 c1 t2 c2 Ht1 Hp1 Ho1 Ht2 Hp2 Ho2 E.
      assert (Hc : forall t cn, In t G -> tp t = tau -> to t = ON cn -> In (nid cn) classes_in).
      { intros t cn Ht Hp Ho. unfold C03Dom.classes_in. apply in_flat_map. exists t. split; [exact Ht|].
        rewrite Hp, str_eqb_refl, Ho. left. reflexivity. }
      specialize (H0b _ (Hc t1 c1 Ht1 Hp1 Ho1)). rewrite forallb_forall in H0b. specialize (H0b _ (Hc t2 c2 Ht2 Hp2 Ho2)).
      rewrite E, str_eqb_refl in H0b. cbn in H0b. apply str_eqb_eq. exact H0b.
    - apply nodupb_NoDup. exact H1.
    - intros t cc dt Ht Ho. specialize (H2 t Ht). rewrite Ho in H2. apply andb_true_iff in H2.
      destruct H2 as [A B]. apply negb_true_iff in A. apply negb_true_iff in B. apply str_eqb_neq in B. split; assumption.
    - intros n l Hin. apply (H3 (n, l) Hin).
    - intros t Ht Hp. specialize (H4 t Ht). rewrite Hp, str_eqb_refl in H4.
      destruct (to t) as [[[|] cn]|]; try discriminate H4.
      apply andb_true_iff in H4. destruct H4 as [A B]. apply list_str_eqb_eq in A.
      apply negb_true_iff in B. apply str_eqb_neq in B. exists cn. repeat split; assumption.
    - intros c inv p x y Hp Hx Hy. destruct (Hpath c inv p Hp) as [Hk _]. unfold kinds_homog in Hk.
      destruct (nl_nbrs tau G c inv p) as [|x0 X] eqn:E; [destruct Hx|]. rewrite forallb_forall in Hk.
      pose proof (Hk x Hx) as A. pose proof (Hk y Hy) as B. apply nkind_eqb_eq in A. apply nkind_eqb_eq in B. congruence.
    - intros c inv p Hp. destruct (Hpath c inv p Hp) as [_ Ht]. unfold typed_homog in Ht.
      apply orb_true_iff in Ht. destruct Ht as [Ht|Ht].
      + left. rewrite forallb_forall in Ht. intros x Hx. apply list_str_eqb_eq. apply Ht, Hx.
      + destruct (nl_nbrs tau G c inv p) as [|x0 X] eqn:E; [left; intros x []|].
        destruct (labels_of tau sns G x0) as [|l [|l2 ls]]; try discriminate Ht.
        right. exists l. rewrite forallb_forall in Ht. intros x Hx. apply list_str_eqb_eq. apply Ht, Hx.
  Qed.
End DomB.

(** ** the run: [run_shapes] is tracker, profiler, then [shex] *)
Lemma run_shapes_inv fa c thr g ns shapes :
  run_shapes fa c thr g = inl (ns, shapes) ->
  exists ins P C ID,
    full_ns c = Some ns /\
    track (r_tau c) (match r_targets c with Some l => TClasses l | None => TAll end) (r_cap c) g = inl ins /\
    profile (pcfg_of c) ins g = inl (P, C, ID) /\
    shex fa (scfg_of c ns) thr P C = inl shapes.
Proof.
  unfold run_shapes. destruct (full_ns c) as [ns'|] eqn:E0; [|discriminate].
  destruct (track _ _ _ g) as [ins|e] eqn:E1; [|discriminate].
  destruct (profile (pcfg_of c) ins g) as [[[P C] ID]|[|]] eqn:E2; try discriminate.
  destruct (shex fa (scfg_of c ns') thr P C) as [sh|e] eqn:E3; [|discriminate].
  intros H; inversion H; subst. exists ins, P, C, ID. repeat split; assumption.
Qed.

(** T4 at the level of the whole run.  The premise [profile_exact] about the
    profile the model computes is the profile characterisation P1. *)
Theorem run_conformance fa okN okF (L : FreqLaws fa okN okF) c thr g ns shapes :
  r_keep_less_specific c = true -> r_all_compliant c = true -> r_disable_or c = true ->
  strict_domb (r_tau c) (r_shapes_ns c) g = true ->
  okF thr -> (forall x, okF x -> fle fa thr x = true) ->
  (forall ins P C ID,
     track (r_tau c) (match r_targets c with Some l => TClasses l | None => TAll end) (r_cap c) g = inl ins ->
     profile (pcfg_of c) ins g = inl (P, C, ID) ->
     profile_exact okN (scfg_of c ns) g P C) ->
  run_shapes fa c thr g = inl (ns, shapes) ->
  valid_typing (schema_of (r_tau c) shapes) g (instance_typing (r_tau c) (r_shapes_ns c) g).
Proof.
  intros Hk Ha Ho Hsd Ht Ht0 HP Hrun.
  destruct (run_shapes_inv _ _ _ _ _ _ Hrun) as (ins & P & C & ID & _ & Htr & Hpr & Hsh).
  apply strict_domb_sound in Hsd.
  exact (stage_conformance fa okN okF L (scfg_of c ns) g Hk Ha Ho Hsd thr Ht Ht0 P C (HP ins P C ID Htr Hpr) shapes Hsh).
Qed.

(** * Part 6 -- the premise [profile_exact] as a boolean (run-time monitor of
    the premise, and non-vacuity of T4 on concrete runs) *)
Section ExactB.
  Variable okN : N -> Prop.
  Variable okNb : N -> bool.
  Hypothesis okNb_ok : forall d, okNb d = true -> okN d.
  Variable cfg : scfg.
  Variable G : graph.
  Let tau := x_tau cfg.
  Let sns := x_shapes_ns cfg.
  Local Notation dir_exactb := (C03Dom.dir_exactb cfg G).
  Local Notation class_exactb := (C03Dom.class_exactb okNb cfg G).
  Local Notation profile_exactb := (C03Dom.profile_exactb okNb cfg G).

  Lemma ckey_eqb_eq a b : ckey_eqb a b = true <-> a = b.
  Proof. destruct a, b; cbn; try (split; congruence). rewrite N.eqb_eq. split; congruence. Qed.

  Lemma has_entry_spec pd p k ck : has_entry pd p k ck = true ->
    exists m cd n, In (p, m) pd /\ In (k, cd) m /\ In (ck, n) cd.
  Proof.
    unfold has_entry. intros H. apply existsb_exists in H. destruct H as [[p' m] [H1 H]].
    apply andb_true_iff in H. destruct H as [Ep H]. apply str_eqb_eq in Ep. cbn in Ep, H. subst p'.
    apply existsb_exists in H. destruct H as [[k' cd] [H2 H]].
    apply andb_true_iff in H. destruct H as [Ek H]. apply str_eqb_eq in Ek. cbn in Ek, H. subst k'.
    apply existsb_exists in H. destruct H as [[ck' n] [H3 H]]. apply ckey_eqb_eq in H. cbn in H. subst ck'.
    exists m, cd, n. repeat split; assumption.
  Qed.

  Lemma dir_exactb_sound ce inv : dir_exactb ce inv = true ->
    pd_wf cfg node (instances_of tau G (fst ce)) (cntk tau sns G) inv (class_pd ce inv) /\
    (forall p m k cd ck n, In (p, m) (class_pd ce inv) -> In (k, cd) m -> In (ck, n) cd -> (0 < n)%N) /\
    (forall i p k, In i (instances_of tau G (fst ce)) -> (0 < cntk tau sns G i inv p k)%N ->
       exists m cd n, In (p, m) (class_pd ce inv) /\ In (k, cd) m /\
                      In ((if str_eqb p tau then CKn 1 else CKplus), n) cd).
  Proof.
    unfold dir_exactb. intros H. apply andb_true_iff in H. destruct H as [HA HB].
    rewrite forallb_forall in HA.
    assert (HA' : forall p m k cd ck n, In (p, m) (class_pd ce inv) -> In (k, cd) m -> In (ck, n) cd ->
              n = n_inst node (instances_of tau G (fst ce)) (fun i => ck_ok cfg p ck (cntk tau sns G i inv p k)) /\
              (0 < n)%N /\
              match ck with
              | CKn _ => p = tau \/ exists n', In (CKplus, n') cd
              | CKplus => True
              end).
    { intros p m k cd ck n H1 H2 H3. specialize (HA (p, m) H1). cbn in HA. rewrite forallb_forall in HA.
      specialize (HA (k, cd) H2). cbn in HA. rewrite forallb_forall in HA. specialize (HA (ck, n) H3). cbn in HA.
      apply andb_true_iff in HA. destruct HA as [HA C3]. apply andb_true_iff in HA. destruct HA as [C1 C2].
      apply N.eqb_eq in C1. apply N.ltb_lt in C2. split; [exact C1|]. split; [exact C2|].
      destruct ck; [|exact I]. apply orb_true_iff in C3. destruct C3 as [C3|C3].
      - left. apply str_eqb_eq. exact C3.
      - right. apply existsb_exists in C3. destruct C3 as [[ck' n'] [Hin E]]. cbn in E.
        destruct ck'; [discriminate E|]. exists n'. exact Hin. }
    split; [split|split].
    - intros p m k cd ck n H1 H2 H3. apply (HA' p m k cd ck n H1 H2 H3).
    - intros p m k cd j n H1 H2 H3 Hp. destruct (HA' p m k cd (CKn j) n H1 H2 H3) as (_ & _ & [E|[n' E]]); [contradiction|].
      exists m, cd, n'. repeat split; assumption.
    - intros p m k cd ck n H1 H2 H3. apply (HA' p m k cd ck n H1 H2 H3).
    - intros i p k Hi Hpos. rewrite forallb_forall in HB. specialize (HB i Hi). rewrite forallb_forall in HB.
      unfold cntk in Hpos.
      destruct (filter (fun x => mem_str k (keys_of tau sns G inv p x)) (nbrs G i inv p)) as [|x r] eqn:E;
        [cbn in Hpos; lia|].
      assert (Hx : In x (filter (fun x => mem_str k (keys_of tau sns G inv p x)) (nbrs G i inv p)))
        by (rewrite E; left; reflexivity).
      apply filter_In in Hx. destruct Hx as [Hx Hk]. apply mem_str_In in Hk.
      assert (Hp : In p (preds_in G)).
      { apply nbrs_In in Hx. destruct Hx as (t & Ht & Hpt & _). unfold preds_in. rewrite <- Hpt. apply in_map. exact Ht. }
      specialize (HB p Hp). rewrite forallb_forall in HB. specialize (HB x Hx). rewrite forallb_forall in HB.
      apply has_entry_spec. apply HB. exact Hk.
  Qed.

  Lemma profile_exactb_sound P C : profile_exactb P C = true -> profile_exact okN cfg G P C.
  Proof.
    unfold profile_exactb. rewrite !andb_true_iff. intros [[H1 H2] H3].
    rewrite forallb_forall in H1, H2, H3. split; [|split].
    - intros ce Hce. specialize (H1 ce Hce). unfold class_exactb in H1. rewrite !andb_true_iff in H1.
      destruct H1 as [[[[A1 A2] A3] A4] A5]. cbv zeta.
      split; [intros E; unfold tau in A1; rewrite E in A1; discriminate|].
      split; [apply N.eqb_eq; exact A2|]. split; [apply okNb_ok; exact A3|].
      assert (Hdir : forall inv, (inv = true -> x_inverse cfg = true) -> dir_exactb ce inv = true).
      { intros [|] Hd; [|exact A4]. rewrite (Hd eq_refl) in A5. exact A5. }
      split; [|split].
      + intros inv Hd. apply (dir_exactb_sound ce inv (Hdir inv Hd)).
      + intros inv Hd. apply (dir_exactb_sound ce inv (Hdir inv Hd)).
      + intros inv Hd. apply (dir_exactb_sound ce inv (Hdir inv Hd)).
    - intros t cn Ht Hp Ho. assert (Hc : In (nid cn) (classes_in tau G)).
      { unfold classes_in. apply in_flat_map. exists t. split; [exact Ht|]. fold tau in Hp.
        rewrite <- Hp, str_eqb_refl, Ho. left. reflexivity. }
      specialize (H2 _ Hc). apply existsb_exists in H2. destruct H2 as [ce [Hce E]]. apply str_eqb_eq in E.
      exists ce. split; assumption.
    - intros ce1 ce2 Hc1 Hc2 E. specialize (H3 ce1 Hc1). rewrite forallb_forall in H3. specialize (H3 ce2 Hc2).
      cbv zeta in H3. rewrite E, str_eqb_refl in H3. cbn in H3. apply str_eqb_eq. exact H3.
  Qed.
End ExactB.

(** T4 with computed premises: when both booleans hold the run's schema is satisfied *)
Theorem run_conformance_checked fa okN okF (L : FreqLaws fa okN okF) okNb c thr g ns shapes :
  (forall d, okNb d = true -> okN d) ->
  r_keep_less_specific c = true -> r_all_compliant c = true -> r_disable_or c = true ->
  okF thr -> (forall x, okF x -> fle fa thr x = true) ->
  c03_premises okNb c g = Some (true, true) ->
  run_shapes fa c thr g = inl (ns, shapes) ->
  valid_typingb (schema_of (r_tau c) shapes) g (instance_typing (r_tau c) (r_shapes_ns c) g) = true.
Proof.
  intros Hok Hk Ha Ho Ht Ht0 Hprem Hrun. apply valid_typingb_valid.
  destruct (run_shapes_inv _ _ _ _ _ _ Hrun) as (ins & P & C & ID & Hns & Htr & Hpr & Hsh).
  unfold c03_premises in Hprem. rewrite Hns, Htr, Hpr in Hprem. injection Hprem as Hsd Hpe.
  eapply (run_conformance fa okN okF L c thr g ns shapes); try eassumption.
  intros ins' P' C' ID' Htr' Hpr'. rewrite Htr in Htr'. inversion Htr'; subst ins'.
  rewrite Hpr in Hpr'. inversion Hpr'; subst P' C' ID'.
  apply (profile_exactb_sound okN okNb Hok). exact Hpe.
Qed.

(** ** instances at the default threshold 0 *)
Corollary run_conformance_thr0 fa okN okF (L : FreqLaws fa okN okF) c g ns shapes :
  okN 1%N ->
  r_keep_less_specific c = true -> r_all_compliant c = true -> r_disable_or c = true ->
  strict_domb (r_tau c) (r_shapes_ns c) g = true ->
  (forall ins P C ID,
     track (r_tau c) (match r_targets c with Some l => TClasses l | None => TAll end) (r_cap c) g = inl ins ->
     profile (pcfg_of c) ins g = inl (P, C, ID) ->
     profile_exact okN (scfg_of c ns) g P C) ->
  run_shapes fa c (thr_val fa 0 1) g = inl (ns, shapes) ->
  valid_typing (schema_of (r_tau c) shapes) g (instance_typing (r_tau c) (r_shapes_ns c) g).
Proof.
  intros H1 Hk Ha Ho Hsd HP Hrun.
  eapply (run_conformance fa okN okF L c (thr_val fa 0 1) g ns shapes); try eassumption.
  - apply (thr_ok fa okN okF L). exact H1.
  - intros x Hx. unfold thr_val. apply (ratio_zero_le _ _ _ L); assumption.
Qed.

Corollary run_conformance_checked_thr0 fa okN okF (L : FreqLaws fa okN okF) okNb c g ns shapes :
  okN 1%N -> (forall d, okNb d = true -> okN d) ->
  r_keep_less_specific c = true -> r_all_compliant c = true -> r_disable_or c = true ->
  c03_premises okNb c g = Some (true, true) ->
  run_shapes fa c (thr_val fa 0 1) g = inl (ns, shapes) ->
  valid_typingb (schema_of (r_tau c) shapes) g (instance_typing (r_tau c) (r_shapes_ns c) g) = true.
Proof.
  intros H1 Hok Hk Ha Ho Hprem Hrun.
  eapply (run_conformance_checked fa okN okF L okNb c (thr_val fa 0 1) g ns shapes); try eassumption.
  - apply (thr_ok fa okN okF L). exact H1.
  - intros x Hx. unfold thr_val. apply (ratio_zero_le _ _ _ L); assumption.
Qed.
