(** * Shape-map extraction ([Model.RunMap]): decomposition and the end-to-end
    theorems for C01 / C02 / C04 / C12.

    [run_shapes_map] = C10's tracker model, then the frozen profiler and
    shexing models.  The composition lemmas of Proofs/EndToEnd.v (Section
    [Composed]) and Proofs/RestrictCompose.v (Section [Composed2]) are stated
    for [pcfg_of c] / [scfg_of c ns]; Section [ComposedMap] below restates them
    for an ARBITRARY profiler configuration [pc] (so that [p_map_labels] may
    be the labels of a shape map) and an arbitrary shexing configuration [cfg]
    agreeing with it on inverse_paths and remove_empty_shapes -- the
    instantiation property of the two stages may differ ([Selectors.tau_of] vs
    [tau_shaper]).  The only hypothesis on the instance dictionary is
    [NoDup (dkeys I)], which every dictionary [Selectors.run] returns satisfies
    ([run_keys_nodup], no hypothesis on the specification or the graph).

    Index
    1. [run_keys_nodup]
    2. [run_shapes_map_ok_iff] / [_decompose], [run_shexc_map_ok_iff],
       [map_failure] / [run_shapes_map_err_iff], [map_threshold_only_in_shex]
    3. Section [ComposedMap]: [composed_shape_map], [key_passes_to_occ_map],
       [occ_to_key_passes_map]
    4. [map_figures] (C01), [map_keys_iff_occ] / [map_keys_remove] (C02),
       [map_keys_monotone] (C12, remove_empty off) *)
From Coq Require Import List Ascii String ZArith NArith Bool Lia Permutation.
From Shexer Require Import Lib.PyStr Lib.Dict Lib.Bin64 Gen.Consts Spec.Rdf Model.Tracker Model.Profiler
  Model.Tokens Model.Freq Model.FreqInst Model.Shexing Model.ShexingFix Model.SerialShexc Model.Run Model.RunMap Spec.Counts
  Proofs.DictLemmas Proofs.ProfileChar Proofs.ShexLemmas Proofs.ShexKeys Proofs.Bin64Round Proofs.FreqLaws
  Proofs.EndToEnd Proofs.ShexingFixProofs.
From Shexer Require Model.Selectors.
Import ListNotations.
Local Open Scope N_scope.

(** ** 1. every dictionary the trackers return has unique keys *)

Lemma fold_add_label_keys label nodes : forall d : insts,
  NoDup (dkeys d) -> NoDup (dkeys (fold_left (fun acc n => Selectors.add_label acc n label) nodes d)).
Proof.
  induction nodes as [|n nodes IH]; intros d H; [exact H|]. cbn [fold_left]. apply IH.
  unfold Selectors.add_label. apply NoDup_dkeys_dupd. exact H.
Qed.

Lemma track_items_keys orc g items : forall d d',
  NoDup (dkeys d) -> Selectors.track_items orc g items d = Selectors.Ok d' -> NoDup (dkeys d').
Proof.
  induction items as [|it items IH]; intros d d' Hd H.
  - cbn in H. injection H as <-. exact Hd.
  - cbn [Selectors.track_items] in H. unfold Selectors.solve_item in H.
    destruct (Selectors.sel_targets orc g (Selectors.pi_sel it)) as [nodes|e]; cbn [Selectors.bind] in H; [|discriminate].
    apply (IH _ _ (fold_add_label_keys _ nodes d Hd) H).
Qed.

Lemma integrate_entries_keys orig new : forall (ref : insts) n,
  NoDup (dkeys ref) -> NoDup (dkeys (fst (Selectors.integrate_entries orig new ref n))).
Proof.
  induction new as [|[i cs] new IH]; intros ref n H; [exact H|]. cbn [Selectors.integrate_entries].
  destruct (Selectors.integrate_classes orig cs n) as [cs' n']. apply IH. apply NoDup_dkeys_dupd. exact H.
Qed.

Lemma track_plain_keys tau m g I : track_plain tau m g [] = inl I -> NoDup (dkeys I).
Proof.
  intros H. apply (proj1 (track_insts_ok tau m (-1)%Z g I H)).
Qed.

Theorem run_keys_nodup orc sp g I : Selectors.run orc sp g = Selectors.OOk I -> NoDup (dkeys I).
Proof.
  unfold Selectors.run. destruct (negb (Selectors.check_targets sp)); [discriminate|].
  destruct (Selectors.parse_smap orc _ (Selectors.sp_smap sp)) as [items|e]; [|discriminate].
  destruct (Selectors.pure_mode sp _) as [mode|e]; [|discriminate].
  destruct items as [its|]; destruct mode as [m|].
  - destruct (Selectors.track_items orc g its []) as [d|e] eqn:E1; [|discriminate].
    unfold Selectors.of_terr. destruct (track_plain (Selectors.tau_of sp) m g []) as [d2|[]] eqn:E2; [|discriminate].
    intros H. injection H as <-. unfold Selectors.integrate_dicts. apply integrate_entries_keys.
    apply (track_items_keys orc g its [] d (NoDup_nil _) E1).
  - destruct (Selectors.track_items orc g its []) as [d|e] eqn:E1; [|discriminate].
    intros H. injection H as <-. apply (track_items_keys orc g its [] d (NoDup_nil _) E1).
  - unfold Selectors.of_terr. destruct (track_plain (Selectors.tau_of sp) m g []) as [d2|[]] eqn:E2; [|discriminate].
    intros H. injection H as <-. apply (track_plain_keys _ _ _ _ E2).
  - discriminate.
Qed.

(** ** 2. the run is the composition of the stages *)

Lemma run_shapes_map_unfold fa c orc sp thr g :
  run_shapes_map fa c orc sp thr g =
  if r_disable_or c && r_allow_redundant_or c then inr (MECtor Selectors.ExValue)
  else match Selectors.find_adequate_prefix (Selectors.sp_ns sp) with
       | None => inr (MERun RERandom)
       | Some _ =>
         match Selectors.run orc sp g with
         | Selectors.OCtorErr e => inr (MECtor e)
         | Selectors.OTrackErr e => inr (METrack e)
         | Selectors.OOk ins =>
           match prof_targets orc sp with
           | Selectors.Err _ => inr (MERun REValue)
           | Selectors.Ok targets =>
             match profile (pcfg_map c orc sp targets) ins g with
             | inr e => inr (merr_of_p e)
             | inl (P, C, _) =>
               match shex_cur fa (scfg_map c sp (Selectors.ns_with_shapes orc sp)) thr P C with
               | inr e => inr (MERun (rerr_of_s e))
               | inl shapes => inl (Selectors.ns_with_shapes orc sp, shapes)
               end
             end
           end
         end
       end.
Proof. reflexivity. Qed.

Theorem run_shapes_map_ok_iff fa c orc sp thr g ns shapes :
  run_shapes_map fa c orc sp thr g = inl (ns, shapes) <->
  exists I targets P C ID,
    r_disable_or c && r_allow_redundant_or c = false /\
    Selectors.find_adequate_prefix (Selectors.sp_ns sp) <> None /\
    ns = Selectors.ns_with_shapes orc sp /\
    Selectors.run orc sp g = Selectors.OOk I /\
    prof_targets orc sp = Selectors.Ok targets /\
    profile (pcfg_map c orc sp targets) I g = inl (P, C, ID) /\
    shex_cur fa (scfg_map c sp ns) thr P C = inl shapes.
Proof.
  rewrite run_shapes_map_unfold. split.
  - destruct (r_disable_or c && r_allow_redundant_or c); [discriminate|].
    destruct (Selectors.find_adequate_prefix (Selectors.sp_ns sp)) as [p|] eqn:EF; [|discriminate].
    destruct (Selectors.run orc sp g) as [I|e|e] eqn:ER; try discriminate.
    destruct (prof_targets orc sp) as [targets|e] eqn:ET; [|discriminate].
    destruct (profile (pcfg_map c orc sp targets) I g) as [[[P C] ID]|e] eqn:EP; [|destruct e; discriminate].
    destruct (shex_cur fa _ thr P C) as [sh|e] eqn:ES; [|discriminate].
    intros H. injection H as <- <-. exists I, targets, P, C, ID.
    repeat split; auto. discriminate.
  - intros (I & targets & P & C & ID & -> & HF & -> & -> & -> & HP & HS).
    destruct (Selectors.find_adequate_prefix (Selectors.sp_ns sp)); [|contradiction].
    rewrite HP, HS. reflexivity.
Qed.

Theorem run_shapes_map_decompose fa c orc sp thr g ns shapes :
  run_shapes_map fa c orc sp thr g = inl (ns, shapes) ->
  exists I targets P C ID,
    ns = Selectors.ns_with_shapes orc sp /\
    Selectors.run orc sp g = Selectors.OOk I /\ NoDup (dkeys I) /\
    prof_targets orc sp = Selectors.Ok targets /\
    profile (pcfg_map c orc sp targets) I g = inl (P, C, ID) /\
    shex_cur fa (scfg_map c sp ns) thr P C = inl shapes.
Proof.
  intros H. apply run_shapes_map_ok_iff in H. destruct H as (I & targets & P & C & ID & _ & _ & E & HR & HT & HP & HS).
  exists I, targets, P, C, ID. repeat split; auto. apply (run_keys_nodup _ _ _ _ HR).
Qed.

Theorem run_shexc_map_ok_iff fa c orc sp thr g text :
  run_shexc_map fa c orc sp thr g = inl text <->
  exists ns shapes, run_shapes_map fa c orc sp thr g = inl (ns, shapes) /\
                    render (zcfg_map c sp ns) shapes = Some text.
Proof.
  unfold run_shexc_map. split.
  - destruct (run_shapes_map fa c orc sp thr g) as [[ns shapes]|e]; [|discriminate].
    destruct (render (zcfg_map c sp ns) shapes) as [t|] eqn:ER; [|discriminate].
    intros H. injection H as <-. exists ns, shapes. auto.
  - intros (ns & shapes & -> & ->). reflexivity.
Qed.

(** which stage failed *)
Inductive map_failure (fa : FreqAlg) (c : rcfg) (orc : Selectors.oracles) (sp : Selectors.tspec)
          (thr : F fa) (g : graph) : merr -> Prop :=
| MF_or_config : r_disable_or c && r_allow_redundant_or c = true -> map_failure fa c orc sp thr g (MECtor Selectors.ExValue)
| MF_prefix : r_disable_or c && r_allow_redundant_or c = false ->
    Selectors.find_adequate_prefix (Selectors.sp_ns sp) = None -> map_failure fa c orc sp thr g (MERun RERandom)
| MF_ctor e : r_disable_or c && r_allow_redundant_or c = false ->
    Selectors.find_adequate_prefix (Selectors.sp_ns sp) <> None ->
    Selectors.run orc sp g = Selectors.OCtorErr e -> map_failure fa c orc sp thr g (MECtor e)
| MF_track e : r_disable_or c && r_allow_redundant_or c = false ->
    Selectors.find_adequate_prefix (Selectors.sp_ns sp) <> None ->
    Selectors.run orc sp g = Selectors.OTrackErr e -> map_failure fa c orc sp thr g (METrack e)
| MF_tune I e : r_disable_or c && r_allow_redundant_or c = false ->
    Selectors.find_adequate_prefix (Selectors.sp_ns sp) <> None ->
    Selectors.run orc sp g = Selectors.OOk I -> prof_targets orc sp = Selectors.Err e ->
    map_failure fa c orc sp thr g (MERun REValue)
| MF_profile I targets e : r_disable_or c && r_allow_redundant_or c = false ->
    Selectors.find_adequate_prefix (Selectors.sp_ns sp) <> None ->
    Selectors.run orc sp g = Selectors.OOk I -> prof_targets orc sp = Selectors.Ok targets ->
    profile (pcfg_map c orc sp targets) I g = inr e -> map_failure fa c orc sp thr g (merr_of_p e)
| MF_shex I targets P C ID e : r_disable_or c && r_allow_redundant_or c = false ->
    Selectors.find_adequate_prefix (Selectors.sp_ns sp) <> None ->
    Selectors.run orc sp g = Selectors.OOk I -> prof_targets orc sp = Selectors.Ok targets ->
    profile (pcfg_map c orc sp targets) I g = inl (P, C, ID) ->
    shex_cur fa (scfg_map c sp (Selectors.ns_with_shapes orc sp)) thr P C = inr e ->
    map_failure fa c orc sp thr g (MERun (rerr_of_s e)).

Theorem run_shapes_map_err_iff fa c orc sp thr g e :
  run_shapes_map fa c orc sp thr g = inr e <-> map_failure fa c orc sp thr g e.
Proof.
  rewrite run_shapes_map_unfold. split.
  - destruct (r_disable_or c && r_allow_redundant_or c) eqn:EO; [intros H; injection H as <-; apply MF_or_config; exact EO|].
    destruct (Selectors.find_adequate_prefix (Selectors.sp_ns sp)) as [p|] eqn:EF;
      [|intros H; injection H as <-; apply MF_prefix; auto].
    assert (HF : Selectors.find_adequate_prefix (Selectors.sp_ns sp) <> None) by (rewrite EF; discriminate).
    destruct (Selectors.run orc sp g) as [I|x|x] eqn:ER;
      [|intros H; injection H as <-; apply MF_ctor; auto | intros H; injection H as <-; apply MF_track; auto].
    destruct (prof_targets orc sp) as [targets|x] eqn:ET; [|intros H; injection H as <-; apply (MF_tune _ _ _ _ _ _ I x); auto].
    destruct (profile (pcfg_map c orc sp targets) I g) as [[[P C] ID]|pe] eqn:EP;
      [|intros H; injection H as <-; apply (MF_profile _ _ _ _ _ _ I targets pe); auto].
    destruct (shex_cur fa _ thr P C) as [sh|se] eqn:ES; [discriminate|].
    intros H; injection H as <-. apply (MF_shex _ _ _ _ _ _ I targets P C ID se); auto.
  - intros H. destruct H as [H | H0 H | x H0 HF H | x H0 HF H | I x H0 HF H1 H2 | I t x H0 HF H1 H2 H3 | I t P C ID x H0 HF H1 H2 H3 H4].
    + rewrite H. reflexivity.
    + rewrite H0, H. reflexivity.
    + rewrite H0. destruct (Selectors.find_adequate_prefix (Selectors.sp_ns sp)); [|contradiction]. rewrite H. reflexivity.
    + rewrite H0. destruct (Selectors.find_adequate_prefix (Selectors.sp_ns sp)); [|contradiction]. rewrite H. reflexivity.
    + rewrite H0. destruct (Selectors.find_adequate_prefix (Selectors.sp_ns sp)); [|contradiction]. rewrite H1, H2. reflexivity.
    + rewrite H0. destruct (Selectors.find_adequate_prefix (Selectors.sp_ns sp)); [|contradiction]. rewrite H1, H2, H3. reflexivity.
    + rewrite H0. destruct (Selectors.find_adequate_prefix (Selectors.sp_ns sp)); [|contradiction]. rewrite H1, H2, H3, H4. reflexivity.
Qed.

(** the threshold reaches the run only through [shex] *)
Theorem map_threshold_only_in_shex fa c orc sp thr g ns shapes :
  run_shapes_map fa c orc sp thr g = inl (ns, shapes) ->
  exists P C, shex_cur fa (scfg_map c sp ns) thr P C = inl shapes /\
              forall thr', run_shapes_map fa c orc sp thr' g =
                           match shex_cur fa (scfg_map c sp ns) thr' P C with
                           | inl s => inl (ns, s) | inr e => inr (MERun (rerr_of_s e)) end.
Proof.
  intros H. apply run_shapes_map_ok_iff in H.
  destruct H as (I & targets & P & C & ID & H0 & HF & -> & HR & HT & HP & HS).
  exists P, C. split; [exact HS|]. intros thr'. rewrite run_shapes_map_unfold, H0.
  destruct (Selectors.find_adequate_prefix (Selectors.sp_ns sp)); [|contradiction]. rewrite HR, HT, HP. reflexivity.
Qed.

(** ** 3. composition for an arbitrary profiler / shexing configuration *)

(** key [(inv, p, vc)] passes, in terms of the data: the value class is read
    with the shexing stage's instantiation property [xtau], the counts with
    the profiler's [ptau] (they differ only when the user wrote the property
    between '<' '>') *)
Definition key_passes_occ_g (fa : FreqAlg) (xtau ptau : str) (inverse : bool) (thr : F fa) (I : insts) (g : graph)
           (cls : str) (inv : bool) (p : str) (vc : vclass) : Prop :=
  (inv = true -> inverse = true) /\
  exists k ck, value_class xtau p [k] = vc /\
    0 < occ (dir_of inv) ptau I g cls p k ck /\
    fle fa thr (ratio fa (occ (dir_of inv) ptau I g cls p k ck) (class_count I cls)) = true.

Section ComposedMap.
  Variable fa : FreqAlg.
  Variable pc : pcfg.
  Variable cfg : scfg.
  Variable g : graph.
  Variable I : insts.
  Variable P : cprofile.
  Variable C : ccounts.
  Variable ID : idict.
  Hypothesis Hkeys : NoDup (dkeys I).
  Hypothesis Hprof : profile pc I g = inl (P, C, ID).
  Hypothesis Hinv : x_inverse cfg = p_inverse pc.

  Let tau := p_tau pc.
  Let targets := targets_of pc.

  Lemma P_keys_sub_m ce : In ce P -> In (fst ce) (class_keys targets I).
  Proof.
    intros Hce. destruct (profile_final_char _ _ _ _ _ _ Hkeys Hprof) as (_ & _ & (ks & Hk & _) & _).
    assert (H : In (fst ce) (dkeys P)) by (apply in_map; exact Hce).
    rewrite Hk in H. apply filter_In in H. apply H.
  Qed.

  Lemma cnt_of_class_count_m cls : In cls (class_keys targets I) -> cnt_of C cls = class_count I cls.
  Proof.
    intros H. destruct (profile_final_char _ _ _ _ _ _ Hkeys Hprof) as (_ & _ & _ & _ & HC & _).
    unfold cnt_of. rewrite (HC cls H). reflexivity.
  Qed.

  Lemma P_keys_all_m : p_remove_empty pc = false -> dkeys P = class_keys targets I.
  Proof.
    intros Hre. destruct (profile_final_char _ _ _ _ _ _ Hkeys Hprof) as (_ & _ & (ks & Hk & Hnil) & _).
    rewrite (Hnil Hre) in Hk. rewrite Hk. apply filter_all_true. intros x _. reflexivity.
  Qed.

  Lemma P_nodup_m : NoDup (dkeys P).
  Proof. exact (proj1 (proj2 (profile_final_char _ _ _ _ _ _ Hkeys Hprof))). Qed.

  Lemma pd_entry_occ_m ce inv p k ck n :
    In ce P -> pd_entry (class_pd cfg ce inv) p k ck n ->
    n = occ (dir_of inv) tau I g (fst ce) p k ck /\ 0 < n /\ (inv = true -> p_inverse pc = true).
  Proof.
    intros Hce He. destruct ce as [cls e].
    destruct (profile_final_char _ _ _ _ _ _ Hkeys Hprof) as (_ & _ & _ & _ & _ & HE).
    destruct (HE cls e Hce) as (_ & HD & HI & HN).
    destruct He as (kd & cd & H1 & H2 & H3). unfold class_pd in H1. cbn [snd fst] in *.
    destruct inv; cbn [dir_of].
    - rewrite Hinv in H1. destruct (p_inverse pc) eqn:Ei; [|destruct H1].
      destruct (HI eq_refl p kd k cd ck n H1 H2 H3) as [A B]. auto.
    - destruct (HD p kd k cd ck n H1 H2 H3) as [A B]. split; [exact A|]. split; [exact B | discriminate].
  Qed.

  Lemma occ_pd_entry_m ce inv p k ck :
    In ce P -> (inv = true -> p_inverse pc = true) ->
    (In k (class_keys targets I) -> In k (dkeys P)) ->
    0 < occ (dir_of inv) tau I g (fst ce) p k ck ->
    pd_entry (class_pd cfg ce inv) p k ck (occ (dir_of inv) tau I g (fst ce) p k ck).
  Proof.
    intros Hce Hi Hk Hpos. destruct ce as [cls e].
    destruct (profile_final_complete _ _ _ _ _ _ Hkeys Hprof cls e Hce p k Hk) as [HD HI].
    unfold class_pd. cbn [fst snd] in *. destruct inv; cbn [dir_of] in *.
    - rewrite Hinv, (Hi eq_refl).
      destruct (HI (Hi eq_refl) ck Hpos) as (m & cd & A & B & D). exists m, cd. auto.
    - destruct (HD ck Hpos) as (m & cd & A & B & D). exists m, cd. auto.
  Qed.

  Lemma fig_src_occ_m ce inv p ty n pr c0 :
    In ce P -> fig_src (class_pd cfg ce inv) p ty n pr c0 -> fig_occ tau I g (dir_of inv) (fst ce) p ty n pr c0.
  Proof.
    intros Hce H. destruct H as [k ck n He | ckb nb cki ni Hb Hi].
    - destruct (pd_entry_occ_m ce inv p k ck n Hce He) as (-> & Hp & _). apply FO_entry. exact Hp.
    - destruct (pd_entry_occ_m ce inv p _ ckb nb Hce Hb) as (-> & Hpb & _).
      destruct (pd_entry_occ_m ce inv p _ cki ni Hce Hi) as (-> & Hpi & _).
      apply FO_merge; assumption.
  Qed.

  Lemma post_okR_inv_m ce t :
    In ce P -> post_okR cfg (fig_src (class_pd cfg ce (s_inv t)) (s_prop t)) t -> s_inv t = true -> p_inverse pc = true.
  Proof.
    intros Hce (ty & pr0 & c0 & _ & _ & Hf & _) Hi.
    assert (He : exists k ck n, pd_entry (class_pd cfg ce (s_inv t)) (s_prop t) k ck n).
    { destruct Hf as [k ck n He | ckb nb cki ni Hb _]; eauto. }
    destruct He as (k & ck & n & He). destruct (pd_entry_occ_m ce _ _ _ _ _ Hce He) as (_ & _ & H). auto.
  Qed.

  Variable thr : F fa.

  (** C02, soundness (whatever remove_empty_shapes) and completeness (off) *)
  Lemma key_passes_to_occ_m ce inv p vc :
    In ce P -> key_passes fa cfg thr (cnt_of C (fst ce)) (class_pd cfg ce inv) p vc ->
    key_passes_occ_g fa (x_tau cfg) tau (p_inverse pc) thr I g (fst ce) inv p vc.
  Proof.
    intros Hce (k & ck & n & He & Hv & Hf).
    destruct (pd_entry_occ_m ce inv p k ck n Hce He) as (En & Hp & Hi).
    rewrite (cnt_of_class_count_m _ (P_keys_sub_m ce Hce)) in Hf.
    split; [exact Hi|]. exists k, ck. subst n. auto.
  Qed.

  Lemma occ_to_key_passes_m ce inv p vc :
    In ce P -> p_remove_empty pc = false ->
    key_passes_occ_g fa (x_tau cfg) tau (p_inverse pc) thr I g (fst ce) inv p vc ->
    key_passes fa cfg thr (cnt_of C (fst ce)) (class_pd cfg ce inv) p vc.
  Proof.
    intros Hce Hre (Hi & k & ck & Hv & Hp & Hf).
    exists k, ck, (occ (dir_of inv) tau I g (fst ce) p k ck). split; [|split; [exact Hv|]].
    - apply (occ_pd_entry_m ce inv p k ck Hce Hi); [|exact Hp]. rewrite (P_keys_all_m Hre). auto.
    - rewrite (cnt_of_class_count_m _ (P_keys_sub_m ce Hce)). exact Hf.
  Qed.

  Lemma pd_no_nl_of_graph_m ce inv :
    In ce P -> x_tau cfg = tau -> no_nonliteral_datatype g -> pd_no_nl cfg (class_pd cfg ce inv).
  Proof.
    intros Hce Et Hg p k ck n He Hp Hk. subst k. rewrite Et in Hp.
    destruct (pd_entry_occ_m ce inv p _ ck n Hce He) as (En & Hpos & _).
    rewrite (occ_not_nonliteral _ _ _ _ _ _ _ Hg Hp) in En. lia.
  Qed.

  Variable shapes : list shape.
  Hypothesis Hshex : shex_cur fa cfg thr P C = inl shapes.

  (** C01, header and figures, for one output shape *)
  Lemma composed_shape_map sh :
    In sh shapes ->
    In (sh_class sh) (class_keys targets I) /\
    sh_name sh = shape_name (x_shapes_ns cfg) (sh_class sh) /\
    sh_n sh = class_count I (sh_class sh) /\
    forall st, In st (sh_stmts sh) ->
      (s_inv st = true -> p_inverse pc = true) /\
      post_okR cfg (fig_occ tau I g (dir_of (s_inv st)) (sh_class sh) (s_prop st)) st.
  Proof.
    intros Hsh. destruct (stage_K3 fa cfg thr P C shapes Hshex sh Hsh) as (ce & Hce & E1 & E2 & E3 & Hst).
    pose proof (P_keys_sub_m ce Hce) as Hk. rewrite E2.
    split; [exact Hk|]. split; [exact E1|]. split; [rewrite E3; apply cnt_of_class_count_m; exact Hk|].
    intros st Hin. specialize (Hst st Hin). split; [apply (post_okR_inv_m ce st Hce Hst)|].
    refine (post_okR_impl cfg _ _ st _ Hst). intros ty n pr c0. apply fig_src_occ_m. exact Hce.
  Qed.
End ComposedMap.

(** ** 4. end to end *)

(** C01: header counts are [class_count] of the dictionary the selectors /
    trackers built; every figure of every statement is [occ] over the graph
    with respect to that dictionary (for the merged kind NONLITERAL the sum of
    two).  No hypothesis on the specification, the oracles or the graph. *)
Theorem map_figures fa c orc sp thr g ns shapes :
  run_shapes_map fa c orc sp thr g = inl (ns, shapes) ->
  exists I targets,
    Selectors.run orc sp g = Selectors.OOk I /\ NoDup (dkeys I) /\ prof_targets orc sp = Selectors.Ok targets /\
    forall sh, In sh shapes ->
      In (sh_class sh) (class_keys (targets_of (pcfg_map c orc sp targets)) I) /\
      sh_name sh = shape_name dflt_shapes_namespace (sh_class sh) /\
      sh_n sh = class_count I (sh_class sh) /\
      forall st, In st (sh_stmts sh) ->
        (s_inv st = true -> r_inverse c = true) /\
        post_okR (scfg_map c sp ns)
                 (fig_occ (Selectors.tau_of sp) I g (dir_of (s_inv st)) (sh_class sh) (s_prop st)) st.
Proof.
  intros H. apply run_shapes_map_decompose in H. destruct H as (I & targets & P & C & ID & -> & HR & HN & HT & HP & HS).
  exists I, targets. repeat (split; [assumption|]). intros sh Hsh.
  apply (composed_shape_map fa (pcfg_map c orc sp targets) (scfg_map c sp (Selectors.ns_with_shapes orc sp))
           g I P C ID HN HP eq_refl thr shapes HS sh Hsh).
Qed.

(** the shapes: one per class key at most; without remove_empty_shapes exactly
    the keys of the dictionary (labels and classes), in first-occurrence order *)
Theorem map_header fa c orc sp thr g ns shapes :
  run_shapes_map fa c orc sp thr g = inl (ns, shapes) ->
  exists I targets,
    Selectors.run orc sp g = Selectors.OOk I /\ prof_targets orc sp = Selectors.Ok targets /\
    NoDup (map sh_class shapes) /\
    (r_remove_empty c = false ->
     map sh_class shapes = class_keys (targets_of (pcfg_map c orc sp targets)) I).
Proof.
  intros H. apply run_shapes_map_decompose in H. destruct H as (I & targets & P & C & ID & -> & HR & HN & HT & HP & HS).
  exists I, targets. repeat (split; [assumption|]). split.
  - apply (proj1 (stage_classes _ _ _ _ _ _ HS)). apply (P_nodup_m _ g I P C ID HN HP).
  - intros Hre. rewrite (proj2 (stage_classes _ _ _ _ _ _ HS) Hre). apply (P_keys_all_m _ g I P C ID HN HP Hre).
Qed.

(** C02 without remove_empty_shapes: keys iff threshold *)
Theorem map_keys_iff_occ fa c orc sp thr g ns shapes :
  r_remove_empty c = false -> run_shapes_map fa c orc sp thr g = inl (ns, shapes) ->
  exists I targets,
    Selectors.run orc sp g = Selectors.OOk I /\ prof_targets orc sp = Selectors.Ok targets /\
    map sh_class shapes = class_keys (targets_of (pcfg_map c orc sp targets)) I /\
    forall sh, In sh shapes ->
      sh_n sh = class_count I (sh_class sh) /\
      (forall inv p vc, In (inv, p, vc) (map (skey (scfg_map c sp ns)) (sh_stmts sh)) <->
                        key_passes_occ_g fa (tau_shaper sp) (Selectors.tau_of sp) (r_inverse c) thr I g
                                         (sh_class sh) inv p vc) /\
      (tau_shaper sp = Selectors.tau_of sp -> no_nonliteral_datatype g ->
       NoDup (map (skey (scfg_map c sp ns)) (sh_stmts sh))).
Proof.
  intros Hre H. destruct (map_header fa c orc sp thr g ns shapes H) as (I0 & t0 & HR0 & HT0 & _ & HK0).
  apply run_shapes_map_decompose in H. destruct H as (I & targets & P & C & ID & -> & HR & HN & HT & HP & HS).
  assert (I0 = I) by congruence. assert (t0 = targets) by congruence. subst I0 t0.
  exists I, targets. repeat (split; [assumption|]). split; [apply HK0; exact Hre|].
  set (pc := pcfg_map c orc sp targets) in *. set (cfg := scfg_map c sp (Selectors.ns_with_shapes orc sp)) in *.
  intros sh Hsh. pose proof (stage_K1 fa cfg thr P C shapes Hre HS) as F.
  destruct (Forall2_In_r _ _ _ _ F Hsh) as (ce & Hce & _ & E2 & E3 & Hk & Hn). rewrite E2. split; [|split].
  - rewrite E3. apply (cnt_of_class_count_m pc g I P C ID HN HP). apply (P_keys_sub_m pc g I P C ID HN HP ce Hce).
  - intros inv p vc. rewrite Hk. split.
    + apply (key_passes_to_occ_m fa pc cfg g I P C ID HN HP eq_refl thr ce inv p vc Hce).
    + apply (occ_to_key_passes_m fa pc cfg g I P C ID HN HP eq_refl thr ce inv p vc Hce Hre).
  - intros Et Hg. apply Hn; apply (pd_no_nl_of_graph_m pc cfg g I P C ID HN HP eq_refl ce _ Hce Et Hg).
Qed.

(** C02 with remove_empty_shapes: what is left are non-empty shapes, and a key
    that is present passes (the converse fails exactly for references to
    removed shapes: [C02_removed_reference_run_refuted]) *)
Theorem map_keys_remove fa c orc sp thr g ns shapes :
  r_remove_empty c = true -> run_shapes_map fa c orc sp thr g = inl (ns, shapes) ->
  exists I targets,
    Selectors.run orc sp g = Selectors.OOk I /\ prof_targets orc sp = Selectors.Ok targets /\
    forall sh, In sh shapes ->
      In (sh_class sh) (class_keys (targets_of (pcfg_map c orc sp targets)) I) /\
      sh_n sh = class_count I (sh_class sh) /\ sh_stmts sh <> [] /\
      (forall inv p vc, In (inv, p, vc) (map (skey (scfg_map c sp ns)) (sh_stmts sh)) ->
                        key_passes_occ_g fa (tau_shaper sp) (Selectors.tau_of sp) (r_inverse c) thr I g
                                         (sh_class sh) inv p vc) /\
      (tau_shaper sp = Selectors.tau_of sp -> no_nonliteral_datatype g ->
       NoDup (map (skey (scfg_map c sp ns)) (sh_stmts sh))).
Proof.
  intros Hre H. apply run_shapes_map_decompose in H. destruct H as (I & targets & P & C & ID & -> & HR & HN & HT & HP & HS).
  exists I, targets. repeat (split; [assumption|]).
  set (pc := pcfg_map c orc sp targets) in *. set (cfg := scfg_map c sp (Selectors.ns_with_shapes orc sp)) in *.
  intros sh Hsh.
  destruct (stage_keys_sound fa cfg thr P C shapes HS sh Hsh) as (ce & Hce & E2 & E3 & Hne & Hk & Hn).
  pose proof (P_keys_sub_m pc g I P C ID HN HP ce Hce) as Hck. rewrite E2.
  split; [exact Hck|]. split; [rewrite E3; apply (cnt_of_class_count_m pc g I P C ID HN HP _ Hck)|].
  split; [exact (Hne Hre)|]. split.
  - intros inv p vc Hin. apply (key_passes_to_occ_m fa pc cfg g I P C ID HN HP eq_refl thr ce inv p vc Hce). apply Hk. exact Hin.
  - intros Et Hg. apply Hn; apply (pd_no_nl_of_graph_m pc cfg g I P C ID HN HP eq_refl ce _ Hce Et Hg).
Qed.

(** C12 without remove_empty_shapes: raising the threshold only removes keys *)
Definition keys_shrink_m (cfg : scfg) (sh1 sh2 : shape) : Prop :=
  sh_name sh1 = sh_name sh2 /\ sh_class sh1 = sh_class sh2 /\ sh_n sh1 = sh_n sh2 /\
  incl (map (skey cfg) (sh_stmts sh2)) (map (skey cfg) (sh_stmts sh1)).

Section MapMonotone.
  Variable fa : FreqAlg.
  Variable okN : N -> Prop.
  Variable okF : F fa -> Prop.
  Hypothesis L : FreqLaws fa okN okF.

  Theorem map_keys_monotone_g c orc sp thr1 thr2 g ns1 s1 ns2 s2 :
    r_remove_empty c = false -> okF thr1 -> okF thr2 -> fle fa thr1 thr2 = true ->
    (forall I cls, Selectors.run orc sp g = Selectors.OOk I -> 0 < class_count I cls -> okN (class_count I cls)) ->
    run_shapes_map fa c orc sp thr1 g = inl (ns1, s1) -> run_shapes_map fa c orc sp thr2 g = inl (ns2, s2) ->
    ns1 = ns2 /\ Forall2 (keys_shrink_m (scfg_map c sp ns1)) s1 s2.
  Proof.
    intros Hre W1 W2 Hle Hok R1 R2.
    apply run_shapes_map_decompose in R1. destruct R1 as (I & targets & P & C & ID & -> & HR & HN & HT & HP & HS1).
    apply run_shapes_map_decompose in R2. destruct R2 as (I' & targets' & P' & C' & ID' & -> & HR' & _ & HT' & HP' & HS2).
    assert (I' = I) by congruence. assert (targets' = targets) by congruence. subst I' targets'.
    rewrite HP in HP'. injection HP' as <- <- <-. split; [reflexivity|].
    set (pc := pcfg_map c orc sp targets) in *. set (cfg := scfg_map c sp (Selectors.ns_with_shapes orc sp)) in *.
    refine (stage_mono fa cfg okF okN (ratio_wf _ _ _ L) (fle_trans _ _ _ L) thr1 thr2 P C s1 s2 Hre W1 W2 _ Hle HS1 HS2).
    intros ce inv p k ck n Hce He.
    destruct (pd_entry_occ_m pc cfg g I P C ID HN HP eq_refl ce inv p k ck n Hce He) as (En & Hpos & _).
    rewrite (cnt_of_class_count_m pc g I P C ID HN HP _ (P_keys_sub_m pc g I P C ID HN HP ce Hce)).
    apply (Hok I (fst ce) HR).
    pose proof (occ_le_class_count (dir_of inv) (p_tau pc) I g (fst ce) p k ck). lia.
  Qed.
End MapMonotone.

Theorem map_keys_monotone_Q c orc sp thr1 thr2 g ns1 s1 ns2 s2 :
  r_remove_empty c = false -> wf_frac thr1 -> wf_frac thr2 -> fle QAlg thr1 thr2 = true ->
  run_shapes_map QAlg c orc sp thr1 g = inl (ns1, s1) -> run_shapes_map QAlg c orc sp thr2 g = inl (ns2, s2) ->
  ns1 = ns2 /\ Forall2 (keys_shrink_m (scfg_map c sp ns1)) s1 s2.
Proof.
  intros Hre W1 W2 Hle. apply (map_keys_monotone_g QAlg (fun d => 0 < d) wf_frac QAlg_laws c orc sp thr1 thr2 g); auto.
Qed.

Theorem map_keys_monotone_B c orc sp thr1 thr2 g ns1 s1 ns2 s2 :
  r_remove_empty c = false -> wf_frac thr1 -> wf_frac thr2 -> fle BAlg thr1 thr2 = true ->
  (forall I cls, Selectors.run orc sp g = Selectors.OOk I -> class_count I cls < 2 ^ 53) ->
  run_shapes_map BAlg c orc sp thr1 g = inl (ns1, s1) -> run_shapes_map BAlg c orc sp thr2 g = inl (ns2, s2) ->
  ns1 = ns2 /\ Forall2 (keys_shrink_m (scfg_map c sp ns1)) s1 s2.
Proof.
  intros Hre W1 W2 Hle Hlt. apply (map_keys_monotone_g BAlg okN53 wf_frac BAlg_laws c orc sp thr1 thr2 g); auto.
  intros I cls HR Hpos. split; [exact Hpos | apply (Hlt I cls HR)].
Qed.

(** ** 5. C04: totality of the stages after the tracker *)
From Shexer Require Proofs.EndToEnd2.

(** the constructor having accepted the specification, the trackers and the
    profiler having succeeded with a profile all of whose type keys are
    renderable: the shexing stage succeeds -- whatever the options once
    ClassShexer removes the empty shapes before the merges
    ([c_clean_before_merge]); in the old order provided disjunctions are
    disabled (the default) or empty shapes are kept. *)
Theorem map_run_total_tokens fa c orc sp thr g I targets P C ID :
  c_clean_before_merge = true \/ r_disable_or c = true \/ r_remove_empty c = false ->
  r_disable_or c && r_allow_redundant_or c = false ->
  Selectors.find_adequate_prefix (Selectors.sp_ns sp) <> None ->
  Selectors.run orc sp g = Selectors.OOk I ->
  prof_targets orc sp = Selectors.Ok targets ->
  profile (pcfg_map c orc sp targets) I g = inl (P, C, ID) ->
  (forall ce, In ce P -> tokens_ok (scfg_map c sp (Selectors.ns_with_shapes orc sp)) ce) ->
  exists shapes, run_shapes_map fa c orc sp thr g = inl (Selectors.ns_with_shapes orc sp, shapes).
Proof.
  intros Hopt H0 HF HR HT HP Hok.
  destruct (stage_total fa (scfg_map c sp (Selectors.ns_with_shapes orc sp)) thr P C Hopt Hok) as [shapes HS].
  exists shapes. apply run_shapes_map_ok_iff. exists I, targets, P, C, ID. repeat split; auto.
Qed.

(** every failure of the run after the trackers and the profiler is a failure
    of the shexing stage on the profile they produced *)
Theorem map_failure_after_front fa c orc sp thr g I targets P C ID e :
  Selectors.run orc sp g = Selectors.OOk I -> prof_targets orc sp = Selectors.Ok targets ->
  profile (pcfg_map c orc sp targets) I g = inl (P, C, ID) ->
  r_disable_or c && r_allow_redundant_or c = false ->
  Selectors.find_adequate_prefix (Selectors.sp_ns sp) <> None ->
  run_shapes_map fa c orc sp thr g = inr e ->
  exists se, e = MERun (rerr_of_s se) /\
             shex_cur fa (scfg_map c sp (Selectors.ns_with_shapes orc sp)) thr P C = inr se.
Proof.
  intros HR HT HP H0 HF H. rewrite run_shapes_map_unfold, H0 in H.
  destruct (Selectors.find_adequate_prefix (Selectors.sp_ns sp)); [|contradiction]. rewrite HR, HT, HP in H.
  destruct (shex_cur fa _ thr P C) as [sh|se] eqn:ES; [discriminate|]. injection H as <-. exists se. auto.
Qed.
