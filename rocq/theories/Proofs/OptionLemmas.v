(** * C13 — each option changes only what it documents: lemmas on the
    shexing model.  Every theorem compares the runs of two configurations that
    differ in exactly one field ([with_X v cfg], Proofs/ShexBasics.v). *)
From Coq Require Import List Ascii String ZArith NArith Bool Lia Permutation.
From Shexer Require Import Lib.PyStr Lib.Dict Gen.Consts Model.Profiler Model.Tokens Model.Freq Model.Shexing.
From Shexer Require Import Proofs.ShexBasics Proofs.ClosureLemmas Proofs.SelectRel.
From Shexer Require Import Spec.Rdf Model.Tracker Model.SerialShexc Model.Run.
Import ListNotations.

Lemma map_res_map_res {A B C E} (f : B -> C) (g : A -> B) (r : A + E) :
  map_res f (map_res g r) = map_res (fun x => f (g x)) r.
Proof. destruct r; reflexivity. Qed.

Lemma map_res_ext {A B E} (f g : A -> B) (r : A + E) :
  (forall x, f x = g x) -> map_res f r = map_res g r.
Proof. intros H. destruct r; simpl; [rewrite H|]; reflexivity. Qed.

(** ** the general step: options read only by [tune] *)
Lemma shex_class_post fa c1 c2 thr counts ce f :
  sel_agree c1 c2 -> x_inverse c1 = x_inverse c2 -> x_shapes_ns c1 = x_shapes_ns c2 ->
  (forall cnt v, Forall (fun s => base_card (s_card s)) v ->
                 tune fa c1 cnt v = map_res (map f) (tune fa c2 cnt v)) ->
  shex_class fa c1 thr counts ce = map_res (map_stmts f) (shex_class fa c2 thr counts ce).
Proof.
  intros Ha Hi Hn Ht. rewrite !shex_class_eq.
  assert (Hs : class_sorted fa c1 thr counts ce = class_sorted fa c2 thr counts ce).
  { unfold class_sorted. rewrite Hi. reflexivity. }
  rewrite Hs, !(select_valid_agree fa c1 c2 _ _ Ha).
  destruct (select_valid fa c2 _ (filter (fun s => negb (s_inv s)) _)) as [vd|e] eqn:Ed; simpl; [|reflexivity].
  destruct (select_valid fa c2 _ (filter (fun s => s_inv s) _)) as [vi|e] eqn:Ei; simpl; [|reflexivity].
  rewrite Ht.
  - destruct (tune fa c2 _ (vd ++ vi)) as [st|e]; simpl; [|reflexivity].
    unfold mk_shape, map_stmts; simpl. rewrite Hn. reflexivity.
  - apply Forall_app. split; eapply valid_base_card; eassumption.
Qed.

Lemma shex_post fa c1 c2 thr P C f :
  struct_pres f ->
  sel_agree c1 c2 -> x_inverse c1 = x_inverse c2 -> x_shapes_ns c1 = x_shapes_ns c2 ->
  x_remove_empty c1 = x_remove_empty c2 ->
  (forall cnt v, Forall (fun s => base_card (s_card s)) v ->
                 tune fa c1 cnt v = map_res (map f) (tune fa c2 cnt v)) ->
  shex fa c1 thr P C = map_res (map_shapes f) (shex fa c2 thr P C).
Proof.
  intros Hf Ha Hi Hn Hr Ht. apply shex_map; [exact Hf | exact Hr|].
  intros ce _. apply shex_class_post; assumption.
Qed.

Ltac agree := unfold sel_agree; simpl; repeat split; reflexivity.

(** ** O1 — [disable_comments] *)
Lemma drop_comments_struct : struct_pres drop_comments.
Proof. intros s. simpl. repeat split. Qed.

Lemma tune_disable_comments fa cfg cnt v :
  tune fa (with_disable_comments true cfg) cnt v =
  map_res (map drop_comments) (tune fa (with_disable_comments false cfg) cnt v).
Proof.
  rewrite !tune_eq, map_res_map_res.
  change (relax_phase fa (with_disable_comments true cfg)) with (relax_phase fa (with_disable_comments false cfg)).
  apply map_res_ext. intros l. rewrite map_map. apply map_ext. intros s.
  unfold post1; simpl. reflexivity.
Qed.

Theorem O1_disable_comments fa cfg thr P C :
  shex fa (with_disable_comments true cfg) thr P C =
  map_res (map_shapes drop_comments) (shex fa (with_disable_comments false cfg) thr P C).
Proof.
  apply shex_post; try reflexivity; [apply drop_comments_struct | agree|].
  intros cnt v _. apply tune_disable_comments.
Qed.

(** ** O2 — [allow_opt_cardinality] *)
Definition opt_to_star (s : stmt) : stmt :=
  match s_card s with
  | COpt => {| s_inv := s_inv s; s_prop := s_prop s; s_types := s_types s; s_choice := s_choice s;
               s_card := CStar; s_nocc := s_nocc s; s_prob := s_prob s; s_comments := s_comments s |}
  | _ => s
  end.

Lemma opt_to_star_struct : struct_pres opt_to_star.
Proof. intros s. unfold opt_to_star. destruct (s_card s); simpl; repeat split. Qed.

Lemma opt_to_star_base s : base_card (s_card s) -> opt_to_star s = s.
Proof. unfold opt_to_star. destruct (s_card s); simpl; intros H; try reflexivity; contradiction. Qed.

Lemma opt_to_star_base_list l : Forall (fun s => base_card (s_card s)) l -> map opt_to_star l = l.
Proof.
  intros F. induction F as [|s l Hs F IH]; simpl; [reflexivity|].
  rewrite IH, opt_to_star_base by exact Hs. reflexivity.
Qed.

Lemma relax_allow_opt fa cfg cnt s :
  base_card (s_card s) ->
  relax fa (with_allow_opt false cfg) cnt s = map_res opt_to_star (relax fa (with_allow_opt true cfg) cnt s).
Proof.
  intros Hb. unfold relax.
  change (comment_of (with_allow_opt false cfg) s) with (comment_of (with_allow_opt true cfg) s).
  destruct (negb (feqb fa (pv fa cnt s) (fone fa))).
  - destruct (comment_of (with_allow_opt true cfg) s) as [k|e]; simpl; [|reflexivity].
    unfold relax_card; simpl. destruct (card_eqb (s_card s) (CExact 1)); reflexivity.
  - simpl. rewrite opt_to_star_base by exact Hb. reflexivity.
Qed.

Lemma post1_opt_to_star cfg s : post1 cfg (opt_to_star s) = opt_to_star (post1 cfg s).
Proof.
  unfold post1. destruct s as [i p t c k n pr cm].
  destruct (x_disable_exact cfg), (x_disable_comments cfg), k as [q| | |];
    unfold opt_to_star, generalize_exact, drop_comments; simpl; try reflexivity;
    destruct (N.ltb 1 q); reflexivity.
Qed.

Lemma tune_allow_opt fa cfg cnt v :
  Forall (fun s => base_card (s_card s)) v ->
  tune fa (with_allow_opt false cfg) cnt v =
  map_res (map opt_to_star) (tune fa (with_allow_opt true cfg) cnt v).
Proof.
  intros Hv. rewrite !tune_eq, map_res_map_res.
  pose proof (sort_desc_Forall fa cnt _ v Hv) as Hs. revert Hs.
  generalize (sort_desc fa cnt v). intros l Hl.
  assert (Hr : relax_phase fa (with_allow_opt false cfg) cnt l =
               map_res (map opt_to_star) (relax_phase fa (with_allow_opt true cfg) cnt l)).
  { unfold relax_phase; simpl. destruct (x_all_compliant cfg).
    - apply map_err_map_res. intros s Hs. apply relax_allow_opt.
      rewrite Forall_forall in Hl. apply Hl, Hs.
    - simpl. rewrite opt_to_star_base_list by exact Hl. reflexivity. }
  rewrite Hr, map_res_map_res. apply map_res_ext. intros l'. rewrite !map_map. apply map_ext.
  intros s. change (post1 (with_allow_opt false cfg)) with (post1 (with_allow_opt true cfg)).
  apply post1_opt_to_star.
Qed.

Theorem O2_allow_opt fa cfg thr P C :
  shex fa (with_allow_opt false cfg) thr P C =
  map_res (map_shapes opt_to_star) (shex fa (with_allow_opt true cfg) thr P C).
Proof.
  apply shex_post; try reflexivity; [apply opt_to_star_struct | agree|].
  intros cnt v Hv. apply tune_allow_opt. exact Hv.
Qed.

(** ** O3 — [disable_exact_cardinality] *)
Lemma generalize_exact_struct : struct_pres generalize_exact.
Proof.
  intros s. unfold generalize_exact. destruct (s_card s) as [k| | |]; simpl; repeat split;
    destruct (N.ltb 1 k); simpl; reflexivity.
Qed.

Lemma generalize_drop s : generalize_exact (drop_comments s) = drop_comments (generalize_exact s).
Proof.
  destruct s as [i p t c k n pr cm]. unfold generalize_exact, drop_comments; simpl.
  destruct k as [q| | |]; simpl; try reflexivity. destruct (N.ltb 1 q); reflexivity.
Qed.

Lemma tune_disable_exact fa cfg cnt v :
  tune fa (with_disable_exact true cfg) cnt v =
  map_res (map generalize_exact) (tune fa (with_disable_exact false cfg) cnt v).
Proof.
  rewrite !tune_eq, map_res_map_res.
  change (relax_phase fa (with_disable_exact true cfg)) with (relax_phase fa (with_disable_exact false cfg)).
  apply map_res_ext. intros l. rewrite map_map. apply map_ext. intros s.
  unfold post1; simpl. destruct (x_disable_comments cfg); [|reflexivity].
  symmetry. apply generalize_drop.
Qed.

Theorem O3_disable_exact fa cfg thr P C :
  shex fa (with_disable_exact true cfg) thr P C =
  map_res (map_shapes generalize_exact) (shex fa (with_disable_exact false cfg) thr P C).
Proof.
  apply shex_post; try reflexivity; [apply generalize_exact_struct | agree|].
  intros cnt v _. apply tune_disable_exact.
Qed.

(** ** O4 — [all_compliant_mode].  The relaxation acts on each statement of
    the non-compliant run: if its probability is not one, the cardinality
    becomes [?]/[*], the probability the integer one, and the statement's own
    figures become its first comment (unless comments are disabled).  The
    statement order is the same: [tune] sorts before relaxing and does not
    sort again.  Building the comment can fail ([tune_token]: ValueError). *)
Definition relax_post (fa : FreqAlg) (cfg : scfg) (cnt : N) (s : stmt) : stmt + serr :=
  if negb (feqb fa (pv fa cnt s) (fone fa)) then
    match comment_of cfg s with
    | inr e => inr e
    | inl k =>
      inl {| s_inv := s_inv s; s_prop := s_prop s; s_types := s_types s; s_choice := s_choice s;
             s_card := relax_card cfg (s_card s); s_nocc := s_nocc s; s_prob := POne;
             s_comments := if x_disable_comments cfg then [] else k :: s_comments s |}
    end
  else inl s.

Definition relax_shape (fa : FreqAlg) (cfg : scfg) (sh : shape) : shape + serr :=
  map_res (fun st => {| sh_name := sh_name sh; sh_class := sh_class sh; sh_n := sh_n sh; sh_stmts := st |})
          (map_err (relax_post fa cfg (sh_n sh)) (sh_stmts sh)).

(** the comment records the cardinality before [disable_exact_cardinality]
    generalises it, so the per-statement description is exact when that
    option is off or comments are dropped anyway *)
Definition O4_dom (cfg : scfg) : Prop := x_disable_exact cfg = false \/ x_disable_comments cfg = true.

Lemma ltb_1_neq k : N.ltb 1 k = true -> N.eqb k 1 = false.
Proof. intros H. apply N.ltb_lt in H. apply N.eqb_neq. lia. Qed.

Lemma relax_post_post1 fa cfg cnt s :
  O4_dom cfg ->
  relax_post fa cfg cnt (post1 cfg s) = map_res (post1 cfg) (relax fa cfg cnt s).
Proof.
  intros Hd. unfold relax_post, relax, post1, pv, comment_of, s_type, relax_card, generalize_exact, drop_comments.
  destruct s as [i p t c k n pr cm]. simpl.
  destruct (x_disable_exact cfg) eqn:Ede, (x_disable_comments cfg) eqn:Edc;
    try (destruct Hd as [Hd|Hd]; congruence); simpl;
    destruct (x_allow_opt cfg); simpl;
    destruct k as [q| | |]; simpl; try destruct (N.ltb 1 q) eqn:Eq; simpl;
    destruct c; simpl; try destruct (tune_token (x_ns cfg) (hd [] t)); simpl;
    destruct (negb (feqb fa (pval fa cnt pr) (fone fa))); simpl;
    rewrite ?Eq, ?(ltb_1_neq q) by assumption; simpl; rewrite ?Eq; try reflexivity;
    destruct (N.eqb q 1); reflexivity.
Qed.

Lemma bind_map_res {A B C E} (r : A + E) (f : A -> B) (g : B -> C + E) :
  bind_res (map_res f r) g = bind_res r (fun x => g (f x)).
Proof. destruct r; reflexivity. Qed.

Lemma tune_all_compliant fa cfg cnt v :
  O4_dom cfg ->
  tune fa (with_all_compliant true cfg) cnt v =
  bind_res (tune fa (with_all_compliant false cfg) cnt v) (map_err (relax_post fa cfg cnt)).
Proof.
  intros Hd. rewrite !tune_eq. unfold relax_phase; simpl.
  change (post1 (with_all_compliant true cfg)) with (post1 cfg).
  change (post1 (with_all_compliant false cfg)) with (post1 cfg).
  change (relax fa (with_all_compliant true cfg)) with (relax fa cfg).
  rewrite map_err_map. symmetry. apply map_err_map_res. intros s _.
  apply relax_post_post1. exact Hd.
Qed.

Lemma shex_class_all_compliant fa cfg thr counts ce :
  O4_dom cfg ->
  shex_class fa (with_all_compliant true cfg) thr counts ce =
  bind_res (shex_class fa (with_all_compliant false cfg) thr counts ce) (relax_shape fa cfg).
Proof.
  intros Hd. rewrite !shex_class_eq.
  change (class_sorted fa (with_all_compliant true cfg)) with (class_sorted fa (with_all_compliant false cfg)).
  change (select_valid fa (with_all_compliant true cfg)) with (select_valid fa (with_all_compliant false cfg)).
  destruct (select_valid _ _ _ (filter (fun s => negb (s_inv s)) _)) as [vd|e]; simpl; [|reflexivity].
  destruct (select_valid _ _ _ (filter (fun s => s_inv s) _)) as [vi|e]; simpl; [|reflexivity].
  rewrite (tune_all_compliant fa cfg _ _ Hd).
  destruct (tune fa (with_all_compliant false cfg) _ (vd ++ vi)) as [st|e]; simpl; [|reflexivity].
  unfold relax_shape; simpl. destruct (map_err _ st); reflexivity.
Qed.

(** the statement relation behind [relax_shape] *)
Definition relaxed_of (fa : FreqAlg) (cfg : scfg) (n : N) (a b : stmt) : Prop :=
  relax_post fa cfg n b = inl a.

Lemma relaxed_of_sim fa cfg : stmt_sim (relaxed_of fa cfg).
Proof.
  intros n a b. unfold relaxed_of, relax_post. destruct (negb _).
  - destruct (comment_of cfg b); [|discriminate]. intros H; inversion H; subst. simpl. repeat split.
  - intros H; inversion H; subst. repeat split.
Qed.

Lemma relax_shape_rel fa cfg sh0 sh1 :
  relax_shape fa cfg sh0 = inl sh1 <-> shape_rel (relaxed_of fa cfg) sh1 sh0.
Proof.
  unfold relax_shape, shape_rel. split.
  - destruct (map_err _ (sh_stmts sh0)) as [st|e] eqn:E; simpl; [|discriminate].
    intros H; inversion H; subst; simpl. repeat split.
    apply map_err_Forall2 in E. clear H.
    induction E as [|x y l r Hxy F IH]; constructor; assumption.
  - intros (Hn & Hc & Hk & Hs).
    assert (E : map_err (relax_post fa cfg (sh_n sh0)) (sh_stmts sh0) = inl (sh_stmts sh1)).
    { apply map_err_Forall2. clear Hn Hc Hk. induction Hs as [|x y l r Hxy F IH]; constructor; assumption. }
    rewrite E. simpl. destruct sh1; simpl in *. subst. reflexivity.
Qed.

Lemma map_err_relax_shape_rel fa cfg L0 L1 :
  map_err (relax_shape fa cfg) L0 = inl L1 <-> Forall2 (shape_rel (relaxed_of fa cfg)) L1 L0.
Proof.
  rewrite map_err_Forall2. split; intros F.
  - induction F as [|x y l r Hxy F IH]; constructor; [apply relax_shape_rel|]; assumption.
  - induction F as [|x y l r Hxy F IH]; constructor; [apply relax_shape_rel|]; assumption.
Qed.

Lemma map_err_bind {A B E} (f : A -> B + E) (g : B -> B + E) l r1 :
  map_err (fun x => bind_res (f x) g) l = inl r1 <->
  exists r0, map_err f l = inl r0 /\ map_err g r0 = inl r1.
Proof.
  revert r1. induction l as [|x l IH]; simpl; intros r1.
  - split.
    + intros H; inversion H; subst. exists []. split; reflexivity.
    + intros (r0 & H0 & H1). inversion H0; subst. exact H1.
  - destruct (f x) as [y|e]; simpl.
    + destruct (g y) as [z|e] eqn:Eg.
      * destruct (map_err (fun x => bind_res (f x) g) l) as [zs|e] eqn:Em.
        -- destruct (proj1 (IH zs) eq_refl) as (r0 & H0 & H1). rewrite H0. split.
           ++ intros H; inversion H; subst. exists (y :: r0). split; [reflexivity|]. simpl. rewrite Eg, H1. reflexivity.
           ++ intros (r0' & H0' & H1'). inversion H0'; subst. simpl in H1'. rewrite Eg, H1 in H1'. exact H1'.
        -- split; [discriminate|]. intros (r0' & H0' & H1').
           destruct (map_err f l) as [r0|e0]; [|discriminate]. inversion H0'; subst. simpl in H1'. rewrite Eg in H1'.
           destruct (map_err g r0) as [zs|e1] eqn:E1; [|discriminate].
           assert (inr e = inl zs :> list B + E) by (apply IH; exists r0; split; [reflexivity | exact E1]). discriminate.
      * split; [discriminate|]. intros (r0' & H0' & H1').
        destruct (map_err f l) as [r0|e0]; [|discriminate]. inversion H0'; subst. simpl in H1'. rewrite Eg in H1'. discriminate.
    + split; [discriminate|]. intros (r0 & H0 & _). discriminate.
Qed.

(** O4, success: the compliant run is the statement-wise relaxation of the
    non-compliant run *)
Theorem O4_all_compliant fa cfg thr P C L1 :
  O4_dom cfg ->
  shex fa (with_all_compliant true cfg) thr P C = inl L1 ->
  exists L0, shex fa (with_all_compliant false cfg) thr P C = inl L0 /\
             map_err (relax_shape fa cfg) L0 = inl L1.
Proof.
  intros Hd. unfold shex.
  rewrite (map_err_ext _ _ P (fun ce _ => shex_class_all_compliant fa cfg thr C ce Hd)).
  destruct (map_err (fun x => bind_res _ _) P) as [M1|e] eqn:E1; [|discriminate].
  apply map_err_bind in E1. destruct E1 as (M0 & E0 & E01). rewrite E0.
  change (x_remove_empty (with_all_compliant true cfg)) with (x_remove_empty cfg).
  change (x_remove_empty (with_all_compliant false cfg)) with (x_remove_empty cfg).
  destruct (x_remove_empty cfg).
  - intros H. apply map_err_relax_shape_rel in E01.
    pose proof (clean_shapes_rel _ (relaxed_of_sim fa cfg) (S (List.length M1)) M1 M0 E01) as Hc.
    rewrite (Forall2_len _ _ _ E01) in Hc at 2. rewrite H in Hc.
    destruct (clean_shapes (S (List.length M0)) M0) as [L0|e0]; simpl in Hc; [|contradiction].
    exists L0. split; [reflexivity|]. apply map_err_relax_shape_rel. exact Hc.
  - intros H; inversion H; subst. exists M0. split; [reflexivity | exact E01].
Qed.

(** O4, failures: a failing non-compliant run fails in compliant mode too;
    a compliant run that fails alone does so because some statement of the
    (uncleaned) non-compliant shapes cannot be commented *)
Theorem O4_failure_mono fa cfg thr P C e :
  O4_dom cfg ->
  shex fa (with_all_compliant false cfg) thr P C = inr e ->
  exists e', shex fa (with_all_compliant true cfg) thr P C = inr e'.
Proof.
  intros Hd Hf. destruct (shex fa (with_all_compliant true cfg) thr P C) as [L1|e'] eqn:E.
  - destruct (O4_all_compliant fa cfg thr P C L1 Hd E) as (L0 & H0 & _). congruence.
  - exists e'. reflexivity.
Qed.

Theorem O4_failure_cause fa cfg thr P C L0 e :
  O4_dom cfg ->
  shex fa (with_all_compliant false cfg) thr P C = inl L0 ->
  shex fa (with_all_compliant true cfg) thr P C = inr e ->
  exists M0 sh st e', map_err (shex_class fa (with_all_compliant false cfg) thr C) P = inl M0 /\
                      In sh M0 /\ In st (sh_stmts sh) /\ relax_post fa cfg (sh_n sh) st = inr e'.
Proof.
  intros Hd. unfold shex.
  rewrite (map_err_ext _ _ P (fun ce _ => shex_class_all_compliant fa cfg thr C ce Hd)).
  destruct (map_err (shex_class fa (with_all_compliant false cfg) thr C) P) as [M0|e0] eqn:E0; [|discriminate].
  change (x_remove_empty (with_all_compliant true cfg)) with (x_remove_empty cfg).
  change (x_remove_empty (with_all_compliant false cfg)) with (x_remove_empty cfg).
  intros H0 H1.
  destruct (map_err (relax_shape fa cfg) M0) as [M1|e1] eqn:E01.
  - exfalso.
    assert (E1 : map_err (fun x => bind_res (shex_class fa (with_all_compliant false cfg) thr C x) (relax_shape fa cfg)) P = inl M1).
    { apply map_err_bind. exists M0. split; assumption. }
    rewrite E1 in H1. destruct (x_remove_empty cfg); [|discriminate].
    apply map_err_relax_shape_rel in E01.
    pose proof (clean_shapes_rel _ (relaxed_of_sim fa cfg) (S (List.length M1)) M1 M0 E01) as Hc.
    rewrite (Forall2_len _ _ _ E01) in Hc at 2. rewrite H0, H1 in Hc. exact Hc.
  - apply map_err_inr in E01. destruct E01 as (sh & Hsh & Hr). unfold relax_shape in Hr.
    destruct (map_err _ (sh_stmts sh)) as [st|e2] eqn:E2; [discriminate|].
    apply map_err_inr in E2. destruct E2 as (st & Hst & Hst').
    exists M0, sh, st, e2. repeat split; assumption.
Qed.

(** ** O5 — [disable_or_statements].  With disjunctions enabled, only the
    result of a node-kind merge can change: it becomes a choice statement over
    the dominant's type and shape types of the merged group, with the same
    direction, property, cardinality and figures; its comments differ (the
    dominant shape is then listed among the alternatives' comments). Every
    other statement is identical.  Either run can fail alone (one more
    comment is built on one side or the other), so the theorem is about two
    successful runs. *)
Definition or_rel (a b : stmt) : Prop :=
  a = b \/
  (s_choice a = false /\ s_choice b = true /\ s_inv a = s_inv b /\ s_prop a = s_prop b /\
   s_card a = s_card b /\ s_nocc a = s_nocc b /\ s_prob a = s_prob b /\
   1 < List.length (s_types b) /\
   Forall (fun k => k = s_type a \/ is_shape_type k = true) (s_types b)).

Lemma or_rel_refl a : or_rel a a.
Proof. left; reflexivity. Qed.

Lemma or_rel_pv fa cnt a b : or_rel a b -> pv fa cnt a = pv fa cnt b.
Proof.
  intros [->|(_ & _ & _ & _ & _ & _ & Hp & _)]; [reflexivity|]. unfold pv. rewrite Hp. reflexivity.
Qed.

Lemma or_rel_nochoice a b : or_rel a b -> s_choice b = false -> a = b.
Proof. intros [->|(_ & Hb & _)] H; [reflexivity | congruence]. Qed.

(** [add_comments_of] only touches the comments *)
Definition same_but_comments (a b : stmt) : Prop :=
  s_inv a = s_inv b /\ s_prop a = s_prop b /\ s_types a = s_types b /\ s_choice a = s_choice b /\
  s_card a = s_card b /\ s_nocc a = s_nocc b /\ s_prob a = s_prob b.

Lemma add_comments_of_fields cfg l : forall d r,
  add_comments_of cfg d l = inl r -> same_but_comments r d.
Proof.
  induction l as [|x l IH]; simpl; intros d r H.
  - inversion H; subst. unfold same_but_comments. repeat split.
  - destruct (comment_of cfg x) as [k|e]; [|discriminate].
    apply IH in H. unfold same_but_comments in *. simpl in H. exact H.
Qed.

Section O5.
  Variable fa : FreqAlg.
  Variable cfg : scfg.
  Let c_t := with_disable_or true cfg.
  Let c_f := with_disable_or false cfg.

  Lemma insert_desc_or cnt x y l1 l2 :
    or_rel x y -> Forall2 or_rel l1 l2 -> Forall2 or_rel (insert_desc fa cnt x l1) (insert_desc fa cnt y l2).
  Proof.
    intros Hxy F. induction F as [|a b l1 l2 Hab F IH]; simpl.
    - constructor; [exact Hxy | constructor].
    - rewrite (or_rel_pv fa cnt x y Hxy), (or_rel_pv fa cnt a b Hab).
      destruct (fle fa (pv fa cnt y) (pv fa cnt b)).
      + constructor; assumption.
      + constructor; [exact Hxy|]. constructor; assumption.
  Qed.

  Lemma sort_desc_or cnt l1 l2 :
    Forall2 or_rel l1 l2 -> Forall2 or_rel (sort_desc fa cnt l1) (sort_desc fa cnt l2).
  Proof.
    unfold sort_desc. intros F.
    assert (H : forall acc1 acc2, Forall2 or_rel acc1 acc2 ->
                Forall2 or_rel (fold_left (fun a x => insert_desc fa cnt x a) l1 acc1)
                               (fold_left (fun a x => insert_desc fa cnt x a) l2 acc2)).
    { induction F as [|a b l1 l2 Hab F IH]; simpl; intros acc1 acc2 Ha; [exact Ha|].
      apply IH. apply insert_desc_or; assumption. }
    apply H. constructor.
  Qed.

  (** the merge of one group *)
  Lemma merge_group_or cnt g a b :
    Forall (fun s => s_choice s = false) g ->
    Forall (fun s => is_nonliteral_type (s_type s) = true) g ->
    merge_group fa c_t cnt g = inl a -> merge_group fa c_f cnt g = inl b -> or_rel a b.
  Proof.
    intros Hnc Hnl. rewrite !merge_group_eq.
    destruct (mg_dominant (mg_bnode g) (mg_iri g) (mg_shapes fa cnt g)) as [dom0|e] eqn:Ed; [|discriminate].
    change (add_comments_of c_t) with (add_comments_of cfg). change (add_comments_of c_f) with (add_comments_of cfg).
    change (mg_dom1 c_t dom0 (mg_shapes fa cnt g)) with dom0.
    unfold mg_dom1; simpl.
    change (mg_or_types c_f) with (mg_or_types cfg).
    destruct (Nat.ltb 1 (List.length (mg_or_types cfg dom0 (mg_shapes fa cnt g)))) eqn:El.
    - intros Ha Hb. apply add_comments_of_fields in Ha. apply add_comments_of_fields in Hb.
      destruct Ha as (Ha1 & Ha2 & Ha3 & Ha4 & Ha5 & Ha6 & Ha7).
      destruct Hb as (Hb1 & Hb2 & Hb3 & Hb4 & Hb5 & Hb6 & Hb7). simpl in *.
      (* the dominant is a member of the group or the NONLITERAL statement: not a choice *)
      assert (Hd0 : s_choice dom0 = false).
      { eapply (mg_dominant_inv (fun s => s_choice s = false)); [| | | |exact Ed].
        - intros x i _ _. reflexivity.
        - intros x Hx. apply last_such_some in Hx. rewrite Forall_forall in Hnc. apply Hnc, Hx.
        - intros x Hx. apply last_such_some in Hx. rewrite Forall_forall in Hnc. apply Hnc, Hx.
        - unfold mg_shapes. apply sort_desc_Forall. rewrite Forall_forall in *.
          intros x Hx. apply filter_In in Hx. apply Hnc, Hx. }
      right. repeat split; try congruence.
      + rewrite Hb3. apply Nat.ltb_lt in El. exact El.
      + rewrite Hb3. rewrite Forall_forall. intros k Hk.
        apply (mg_or_types_incl cfg) in Hk. destruct Hk as [<-|Hk].
        * left. unfold s_type. rewrite Ha3. reflexivity.
        * right. apply in_map_iff in Hk. destruct Hk as (s & <- & Hs). unfold mg_shapes in Hs.
          apply sort_desc_In in Hs. apply filter_In in Hs. destruct Hs as [Hs Ht].
          rewrite Forall_forall in Hnl. specialize (Hnl s Hs). unfold is_nonliteral_type in Hnl.
          apply andb_true_iff in Ht. destruct Ht as [Ht1 Ht2].
          apply negb_true_iff in Ht1. apply negb_true_iff in Ht2. rewrite Ht1, Ht2 in Hnl.
          rewrite !orb_false_r in Hnl. exact Hnl.
    - intros Ha Hb. rewrite Ha in Hb. inversion Hb; subst. left; reflexivity.
  Qed.

  Lemma group_nodes_or cnt fuel : forall l r_t r_f,
    Forall (fun s => s_choice s = false) l ->
    group_nodes fa c_t fuel cnt l = inl r_t -> group_nodes fa c_f fuel cnt l = inl r_f ->
    Forall2 or_rel r_t r_f.
  Proof.
    induction fuel as [|f IH]; simpl; intros l r_t r_f Hnc Ht Hf.
    - inversion Ht; inversion Hf; subst.
      clear. induction r_f; constructor; [apply or_rel_refl | assumption].
    - destruct l as [|a rest]; [inversion Ht; inversion Hf; subst; constructor|].
      inversion Hnc as [|? ? Ha Hrest]; subst.
      change (x_tau c_t) with (x_tau cfg) in Ht. change (x_tau c_f) with (x_tau cfg) in Hf.
      destruct (str_eqb (s_prop a) (x_tau cfg) || negb (is_nonliteral_type (s_type a))) eqn:Eb.
      + destruct (group_nodes fa c_t f cnt rest) as [rs_t|e] eqn:E1; [|discriminate].
        destruct (group_nodes fa c_f f cnt rest) as [rs_f|e] eqn:E2; [|discriminate].
        inversion Ht; inversion Hf; subst. constructor; [apply or_rel_refl|].
        eapply IH; eassumption.
      + apply orb_false_iff in Eb. destruct Eb as [_ Eb]. apply negb_false_iff in Eb.
        match type of Ht with match ?p with _ => _ end = _ => destruct p as [x_t|e] eqn:Ex_t end; [|discriminate].
        match type of Hf with match ?p with _ => _ end = _ => destruct p as [x_f|e] eqn:Ex_f end; [|discriminate].
        destruct (group_nodes fa c_t f cnt _) as [rs_t|e] eqn:E1; [|discriminate].
        destruct (group_nodes fa c_f f cnt _) as [rs_f|e] eqn:E2; [|discriminate].
        inversion Ht; inversion Hf; subst. constructor.
        * destruct (filter (mergeable_with a) rest) as [|b grp] eqn:Eg.
          -- inversion Ex_t; inversion Ex_f; subst. apply or_rel_refl.
          -- eapply (merge_group_or cnt (a :: b :: grp)); [| |exact Ex_t|exact Ex_f].
             ++ constructor; [exact Ha|]. rewrite <- Eg. rewrite Forall_forall in *. intros x Hx.
                apply filter_In in Hx. apply Hrest, Hx.
             ++ constructor; [exact Eb|]. rewrite <- Eg. rewrite Forall_forall. intros x Hx.
                apply filter_In in Hx. destruct Hx as [_ Hx]. unfold mergeable_with in Hx.
                apply andb_true_iff in Hx. apply Hx.
        * eapply IH; [|exact E1|exact E2]. rewrite Forall_forall in *. intros x Hx.
          apply filter_In in Hx. apply Hrest, Hx.
  Qed.

  Lemma select_valid_or cnt l r_t r_f :
    Forall (fun s => s_choice s = false) l ->
    select_valid fa c_t cnt l = inl r_t -> select_valid fa c_f cnt l = inl r_f -> Forall2 or_rel r_t r_f.
  Proof.
    intros Hnc. unfold select_valid. destruct l as [|a l].
    - intros Ht Hf. inversion Ht; inversion Hf; subst. constructor.
    - change (group_same fa c_t) with (group_same fa cfg). change (group_same fa c_f) with (group_same fa cfg).
      destruct (group_same fa cfg _ cnt (a :: l)) as [l1|e] eqn:E; [|discriminate].
      apply group_nodes_or.
      eapply (group_same_inv fa cfg (fun s => s_choice s = false)); [|exact Hnc|exact E].
      intros s k Hs. exact Hs.
  Qed.

  Lemma relax_or cnt a b a' b' :
    or_rel a b -> relax fa c_t cnt a = inl a' -> relax fa c_f cnt b = inl b' -> or_rel a' b'.
  Proof.
    intros [->|H].
    - change (relax fa c_t) with (relax fa c_f). intros H1 H2. rewrite H1 in H2. inversion H2. left; reflexivity.
    - pose proof (or_rel_pv fa cnt a b (or_intror H)) as Hpv.
      destruct H as (H1 & H2 & H3 & H4 & H5 & H6 & H7 & H8 & H9).
      unfold relax. rewrite Hpv. destruct (negb (feqb fa (pv fa cnt b) (fone fa))).
      + destruct (comment_of c_t a); [|discriminate]. destruct (comment_of c_f b); [|discriminate].
        intros Ha Hb. inversion Ha; inversion Hb; subst. right. simpl.
        unfold relax_card. simpl. rewrite H5. repeat split; assumption.
      + intros Ha Hb. inversion Ha; inversion Hb; subst. right. repeat split; assumption.
  Qed.

  Lemma post1_or a b : or_rel a b -> or_rel (post1 c_t a) (post1 c_f b).
  Proof.
    intros [->|H]; [left; reflexivity|].
    destruct H as (H1 & H2 & H3 & H4 & H5 & H6 & H7 & H8 & H9). right.
    change (post1 c_t) with (post1 cfg). change (post1 c_f) with (post1 cfg).
    unfold post1, generalize_exact, drop_comments, s_type in *. rewrite H5.
    destruct (x_disable_exact cfg), (x_disable_comments cfg); simpl;
      try (repeat split; assumption);
      destruct (s_card b) as [k| | |] eqn:Eb; simpl; try (repeat split; try assumption; congruence);
      destruct (N.ltb 1 k); simpl; repeat split; try assumption; congruence.
  Qed.

  Lemma map_err_or (f g : stmt -> stmt + serr) l1 l2 : forall r1 r2,
    (forall a b a' b', or_rel a b -> f a = inl a' -> g b = inl b' -> or_rel a' b') ->
    Forall2 or_rel l1 l2 -> map_err f l1 = inl r1 -> map_err g l2 = inl r2 -> Forall2 or_rel r1 r2.
  Proof.
    intros r1 r2 H F. revert r1 r2. induction F as [|a b l1 l2 Hab F IH]; simpl; intros r1 r2 H1 H2.
    - inversion H1; inversion H2; subst. constructor.
    - destruct (f a) as [a'|e] eqn:Ea; [|discriminate]. destruct (g b) as [b'|e] eqn:Eb; [|discriminate].
      destruct (map_err f l1) as [r1'|e]; [|discriminate]. destruct (map_err g l2) as [r2'|e]; [|discriminate].
      inversion H1; inversion H2; subst. constructor; [eapply H; eassumption | apply IH; reflexivity].
  Qed.

  Lemma tune_or cnt v_t v_f st_t st_f :
    Forall2 or_rel v_t v_f -> tune fa c_t cnt v_t = inl st_t -> tune fa c_f cnt v_f = inl st_f ->
    Forall2 or_rel st_t st_f.
  Proof.
    intros F. rewrite !tune_eq. pose proof (sort_desc_or cnt _ _ F) as Fs.
    destruct (relax_phase fa c_t cnt _) as [l_t|e] eqn:Et; simpl; [|discriminate].
    destruct (relax_phase fa c_f cnt _) as [l_f|e] eqn:Ef; simpl; [|discriminate].
    intros H1 H2. inversion H1; inversion H2; subst.
    assert (Fl : Forall2 or_rel l_t l_f).
    { unfold relax_phase in *. change (x_all_compliant c_t) with (x_all_compliant cfg) in Et.
      change (x_all_compliant c_f) with (x_all_compliant cfg) in Ef.
      destruct (x_all_compliant cfg).
      - eapply map_err_or; [|exact Fs|exact Et|exact Ef]. intros a b a' b'. apply relax_or.
      - inversion Et; inversion Ef; subst. exact Fs. }
    clear -Fl. induction Fl as [|a b l_t l_f Hab Fl IH]; simpl; constructor; [apply post1_or; exact Hab | exact IH].
  Qed.

  Lemma base_statements_nochoice thr cnt inv pd :
    Forall (fun s => s_choice s = false) (base_statements fa thr cnt inv pd).
  Proof. apply base_statements_Forall. intros. reflexivity. Qed.

  Theorem O5_class thr counts ce sh_t sh_f :
    shex_class fa c_t thr counts ce = inl sh_t -> shex_class fa c_f thr counts ce = inl sh_f ->
    shape_rel (fun _ => or_rel) sh_t sh_f.
  Proof.
    rewrite !shex_class_eq.
    change (class_sorted fa c_t thr counts ce) with (class_sorted fa cfg thr counts ce).
    change (class_sorted fa c_f thr counts ce) with (class_sorted fa cfg thr counts ce).
    assert (Hs : Forall (fun s => s_choice s = false) (class_sorted fa cfg thr counts ce)).
    { unfold class_sorted. apply sort_desc_Forall, Forall_app. split; [apply base_statements_nochoice|].
      destruct (x_inverse cfg); [apply base_statements_nochoice | constructor]. }
    destruct (select_valid fa c_t _ (filter (fun s => negb (s_inv s)) _)) as [vd_t|e] eqn:E1; simpl; [|discriminate].
    destruct (select_valid fa c_t _ (filter (fun s => s_inv s) _)) as [vi_t|e] eqn:E2; simpl; [|discriminate].
    destruct (select_valid fa c_f _ (filter (fun s => negb (s_inv s)) _)) as [vd_f|e] eqn:E3; simpl; [|discriminate].
    destruct (select_valid fa c_f _ (filter (fun s => s_inv s) _)) as [vi_f|e] eqn:E4; simpl; [|discriminate].
    destruct (tune fa c_t _ (vd_t ++ vi_t)) as [st_t|e] eqn:E5; simpl; [|discriminate].
    destruct (tune fa c_f _ (vd_f ++ vi_f)) as [st_f|e] eqn:E6; simpl; [|discriminate].
    intros H1 H2. inversion H1; inversion H2; subst. unfold shape_rel; simpl. repeat split.
    eapply tune_or; [|exact E5|exact E6]. apply Forall2_app.
    - eapply select_valid_or; [|exact E1|exact E3]. rewrite Forall_forall in *. intros x Hx.
      apply filter_In in Hx. apply Hs, Hx.
    - eapply select_valid_or; [|exact E2|exact E4]. rewrite Forall_forall in *. intros x Hx.
      apply filter_In in Hx. apply Hs, Hx.
  Qed.

  Theorem O5_classes thr counts P M_t M_f :
    map_err (shex_class fa c_t thr counts) P = inl M_t -> map_err (shex_class fa c_f thr counts) P = inl M_f ->
    Forall2 (shape_rel (fun _ => or_rel)) M_t M_f.
  Proof.
    revert M_t M_f. induction P as [|ce P IH]; simpl; intros M_t M_f H1 H2.
    - inversion H1; inversion H2; subst. constructor.
    - destruct (shex_class fa c_t thr counts ce) as [sh_t|e] eqn:E1; [|discriminate].
      destruct (shex_class fa c_f thr counts ce) as [sh_f|e] eqn:E2; [|discriminate].
      destruct (map_err _ P) as [r_t|e]; [|discriminate].
      destruct (map_err (shex_class fa c_f thr counts) P) as [r_f|e]; [|discriminate].
      inversion H1; inversion H2; subst. constructor; [eapply O5_class; eassumption | apply IH; reflexivity].
  Qed.
End O5.

(** O5 for the whole [shex], cleaning included: if both runs succeed and a
    cleaning iteration takes place, the run with disjunctions had no choice
    statement in any surviving shape (else it raises TypeError), so the two
    runs coincide from there on *)
Lemma or_rel_list_nochoice l1 l2 :
  Forall2 or_rel l1 l2 -> existsb (fun st => s_choice st) l2 = false -> l1 = l2.
Proof.
  intros F. induction F as [|a b l1 l2 Hab F IH]; simpl; intros H; [reflexivity|].
  apply orb_false_iff in H. destruct H as [Hb Hl].
  rewrite (or_rel_nochoice a b Hab Hb), (IH Hl). reflexivity.
Qed.

Lemma or_shape_nochoice sh_t sh_f :
  shape_rel (fun _ => or_rel) sh_t sh_f -> existsb (fun st => s_choice st) (sh_stmts sh_f) = false ->
  sh_t = sh_f.
Proof.
  intros (H1 & H2 & H3 & H4) Hc. apply or_rel_list_nochoice in H4; [|exact Hc].
  destruct sh_t, sh_f; simpl in *. subst. reflexivity.
Qed.

Lemma Forall2_refl_on {A} (R : A -> A -> Prop) l : (forall x, R x x) -> Forall2 R l l.
Proof. intros H. induction l; constructor; auto. Qed.

Theorem O5_disable_or fa cfg thr P C L_t L_f :
  shex fa (with_disable_or true cfg) thr P C = inl L_t ->
  shex fa (with_disable_or false cfg) thr P C = inl L_f ->
  Forall2 (shape_rel (fun _ => or_rel)) L_t L_f.
Proof.
  unfold shex.
  destruct (map_err (shex_class fa (with_disable_or true cfg) thr C) P) as [M_t|e] eqn:Et; [|discriminate].
  destruct (map_err (shex_class fa (with_disable_or false cfg) thr C) P) as [M_f|e] eqn:Ef; [|discriminate].
  pose proof (O5_classes fa cfg thr C P M_t M_f Et Ef) as FM.
  change (x_remove_empty (with_disable_or true cfg)) with (x_remove_empty cfg).
  change (x_remove_empty (with_disable_or false cfg)) with (x_remove_empty cfg).
  destruct (x_remove_empty cfg); [|intros H1 H2; inversion H1; inversion H2; subst; exact FM].
  rewrite !clean_shapes_S, (empty_names_rel _ M_t M_f FM), (Forall2_len _ _ _ FM).
  destruct (empty_names M_f) as [|nm names]; [intros H1 H2; inversion H1; inversion H2; subst; exact FM|].
  destruct (clean_step (nm :: names) M_f) as [M_f'|e] eqn:Es; [|discriminate].
  assert (Hfil : filter (fun s => negb (mem_str (sh_name s) (nm :: names))) M_t =
                 filter (fun s => negb (mem_str (sh_name s) (nm :: names))) M_f).
  { unfold clean_step in Es. apply map_err_Forall2 in Es.
    assert (FF : Forall2 (shape_rel (fun _ => or_rel))
                   (filter (fun s => negb (mem_str (sh_name s) (nm :: names))) M_t)
                   (filter (fun s => negb (mem_str (sh_name s) (nm :: names))) M_f)).
    { apply Forall2_filter; [|exact FM]. intros a b (-> & _). reflexivity. }
    revert Es FF. generalize (filter (fun s => negb (mem_str (sh_name s) (nm :: names))) M_f).
    generalize (filter (fun s => negb (mem_str (sh_name s) (nm :: names))) M_t).
    intros l1 l2 Es FF. revert M_f' Es. induction FF as [|a b l1 l2 Hab FF IH]; intros M_f' Es; [reflexivity|].
    inversion Es as [|? ? ? ? Hb Es']; subst. apply prune_shape_inl in Hb. destruct Hb as (Hc & _).
    rewrite (or_shape_nochoice a b Hab Hc), (IH _ Es'). reflexivity. }
  unfold clean_step in *. rewrite Hfil, Es. intros H1 H2. rewrite H1 in H2. inversion H2; subst.
  apply Forall2_refl_on. intros sh. unfold shape_rel. repeat split.
  apply Forall2_refl_on. intros st. apply or_rel_refl.
Qed.

(** ** O6 — presentation options at run level.  [instances_report_mode]
    ([r_mode]) is read by the serialiser only; the caller's namespaces
    ([r_ns]) reach the shapes only through the token text frozen inside
    [KStmt] comments.  [decimals] is not in the model at all (the rendering of
    a figure is the placeholder the harness fills in, see SerialShexc.v): no
    model function can depend on it. *)
Definition with_mode (m : freq_mode) (c : rcfg) : rcfg :=
  {| r_tau := r_tau c; r_targets := r_targets c; r_ns := r_ns c; r_shapes_ns := r_shapes_ns c;
     r_cap := r_cap c; r_inverse := r_inverse c; r_remove_empty := r_remove_empty c;
     r_discard_useless := r_discard_useless c; r_keep_less_specific := r_keep_less_specific c;
     r_all_compliant := r_all_compliant c; r_disable_or := r_disable_or c;
     r_allow_redundant_or := r_allow_redundant_or c; r_allow_opt := r_allow_opt c;
     r_disable_exact := r_disable_exact c; r_disable_comments := r_disable_comments c; r_mode := m |}.

Definition with_rns (ns : nsdict) (c : rcfg) : rcfg :=
  {| r_tau := r_tau c; r_targets := r_targets c; r_ns := ns; r_shapes_ns := r_shapes_ns c;
     r_cap := r_cap c; r_inverse := r_inverse c; r_remove_empty := r_remove_empty c;
     r_discard_useless := r_discard_useless c; r_keep_less_specific := r_keep_less_specific c;
     r_all_compliant := r_all_compliant c; r_disable_or := r_disable_or c;
     r_allow_redundant_or := r_allow_redundant_or c; r_allow_opt := r_allow_opt c;
     r_disable_exact := r_disable_exact c; r_disable_comments := r_disable_comments c; r_mode := r_mode c |}.

Theorem O6_mode fa m c thr g : run_shapes fa (with_mode m c) thr g = run_shapes fa c thr g.
Proof. reflexivity. Qed.

(** comments up to the token text *)
Definition tok_rel (k1 k2 : comment) : Prop :=
  match k1, k2 with
  | KStmt ch1 p1 n1 _ c1, KStmt ch2 p2 n2 _ c2 => ch1 = ch2 /\ p1 = p2 /\ n1 = n2 /\ c1 = c2
  | KRaw t1, KRaw t2 => t1 = t2
  | _, _ => False
  end.

Definition erase_tok (k : comment) : comment :=
  match k with KStmt ch p n _ c => KStmt ch p n [] c | KRaw t => KRaw t end.

Definition erase_tokens (s : stmt) : stmt :=
  {| s_inv := s_inv s; s_prop := s_prop s; s_types := s_types s; s_choice := s_choice s;
     s_card := s_card s; s_nocc := s_nocc s; s_prob := s_prob s; s_comments := map erase_tok (s_comments s) |}.

Definition mod_tok : stmt -> stmt -> Prop := stmt_rel (fun x y : bool => x = y) tok_rel.

Lemma tok_rel_erase k1 k2 : tok_rel k1 k2 -> erase_tok k1 = erase_tok k2.
Proof.
  destruct k1, k2; simpl; try contradiction.
  - intros (-> & -> & -> & ->). reflexivity.
  - intros ->. reflexivity.
Qed.

Lemma mod_tok_erase a b : mod_tok a b -> erase_tokens a = erase_tokens b.
Proof.
  intros [Hi Hp Ht Hc Hk Hn Hpr Hcm]. unfold erase_tokens. rewrite Hi, Hp, Ht, Hc, Hk, Hn, Hpr.
  f_equal. induction Hcm as [|k1 k2 l1 l2 Hk12 F IH]; simpl; [reflexivity|].
  rewrite (tok_rel_erase _ _ Hk12), IH. reflexivity.
Qed.

Lemma mod_tok_refl a : mod_tok a a.
Proof.
  constructor; try reflexivity. induction (s_comments a) as [|k l IH]; constructor; [|exact IH].
  destruct k; simpl; repeat split.
Qed.

Lemma mod_tok_shapes l1 l2 :
  Forall2 (shape_rel (fun _ => mod_tok)) l1 l2 -> map_shapes erase_tokens l1 = map_shapes erase_tokens l2.
Proof.
  intros F. induction F as [|a b l1 l2 Hab F IH]; simpl; [reflexivity|]. rewrite IH. f_equal.
  destruct Hab as (H1 & H2 & H3 & H4). unfold map_stmts. rewrite H1, H2, H3. f_equal.
  clear -H4. induction H4 as [|x y l1 l2 Hxy F IH]; simpl; [reflexivity|].
  rewrite (mod_tok_erase _ _ Hxy), IH. reflexivity.
Qed.

(** whether [tune_token] fails does not depend on the namespaces *)
Lemma tune_token_none ns1 ns2 t : tune_token ns1 t = None -> tune_token ns2 t = None.
Proof.
  unfold tune_token, prefixize_shape_name, prefixize_cornered.
  destruct (prefixb c_STARTING_CHAR_FOR_SHAPE_NAME t).
  - destruct (remove_corners_strict (slice_from t 1)) as [cand|]; [|reflexivity].
    destruct (best_ns ns1 cand) as [[n p]|]; discriminate.
  - destruct (mem_str t _); [discriminate|]. destruct (negb (contains (Str ":") t)).
    + destruct (contains (Str "<") t); discriminate.
    + destruct (prefixize_opt ns1 t); discriminate.
Qed.

Lemma comment_of_mod_tok c1 c2 a b :
  mod_tok a b -> res_rel tok_rel (comment_of c1 a) (comment_of c2 b).
Proof.
  intros [Hi Hp Ht Hc Hk Hn Hpr Hcm]. unfold comment_of, s_type. rewrite Hc, Hpr, Hn, Hk, Ht.
  destruct (s_choice b); simpl; [repeat split|].
  destruct (tune_token (x_ns c1) (hd [] (s_types b))) as [t1|] eqn:E1,
           (tune_token (x_ns c2) (hd [] (s_types b))) as [t2|] eqn:E2; simpl.
  - repeat split.
  - rewrite (tune_token_none _ (x_ns c1) _ E2) in E1. discriminate.
  - rewrite (tune_token_none _ (x_ns c2) _ E1) in E2. discriminate.
  - reflexivity.
Qed.

(** two shexing configurations that differ in the namespaces only *)
Theorem shex_mod_ns fa cfg ns1 ns2 thr P C :
  res_rel (Forall2 (shape_rel (fun _ => mod_tok)))
          (shex fa (with_ns ns1 cfg) thr P C) (shex fa (with_ns ns2 cfg) thr P C).
Proof.
  set (c1 := with_ns ns1 cfg). set (c2 := with_ns ns2 cfg).
  assert (Hag : cfg_agree c1 c2) by (unfold cfg_agree; simpl; repeat split).
  assert (Hclass : forall ce, res_rel (shape_rel (fun _ => mod_tok))
                                      (shex_class fa c1 thr C ce) (shex_class fa c2 thr C ce)).
  { intros ce. rewrite !shex_class_eq.
    change (class_sorted fa c1 thr C ce) with (class_sorted fa cfg thr C ce).
    change (class_sorted fa c2 thr C ce) with (class_sorted fa cfg thr C ce).
    assert (Frefl : forall l, Forall2 mod_tok l l) by (intros l; apply Forall2_refl_on, mod_tok_refl).
    pose proof (select_valid_rel fa c1 c2 _ _ Hag (comment_of_mod_tok c1 c2) (class_cnt C ce) _ _
                  (Frefl (filter (fun s => negb (s_inv s)) (class_sorted fa cfg thr C ce)))) as Hd.
    pose proof (select_valid_rel fa c1 c2 _ _ Hag (comment_of_mod_tok c1 c2) (class_cnt C ce) _ _
                  (Frefl (filter (fun s => s_inv s) (class_sorted fa cfg thr C ce)))) as Hi.
    fold mod_tok in Hd, Hi.
    destruct (select_valid fa c1 _ (filter (fun s => negb (s_inv s)) _)) as [vd1|e1],
             (select_valid fa c2 _ (filter (fun s => negb (s_inv s)) _)) as [vd2|e2];
      simpl in Hd; try contradiction; simpl; [|exact Hd].
    destruct (select_valid fa c1 _ (filter (fun s => s_inv s) _)) as [vi1|e1],
             (select_valid fa c2 _ (filter (fun s => s_inv s) _)) as [vi2|e2];
      simpl in Hi; try contradiction; simpl; [|exact Hi].
    pose proof (tune_rel fa c1 c2 _ _ Hag (comment_of_mod_tok c1 c2) (class_cnt C ce) _ _
                  (Forall2_app Hd Hi)) as Ht. fold mod_tok in Ht.
    destruct (tune fa c1 _ (vd1 ++ vi1)) as [s1|e1], (tune fa c2 _ (vd2 ++ vi2)) as [s2|e2];
      simpl in Ht; try contradiction; simpl; [|exact Ht].
    unfold shape_rel; simpl. repeat split. exact Ht. }
  unfold shex.
  assert (HM : res_rel (Forall2 (shape_rel (fun _ => mod_tok)))
                       (map_err (shex_class fa c1 thr C) P) (map_err (shex_class fa c2 thr C) P)).
  { induction P as [|ce P IH]; simpl; [constructor|]. pose proof (Hclass ce) as Hc.
    destruct (shex_class fa c1 thr C ce) as [s1|e1], (shex_class fa c2 thr C ce) as [s2|e2];
      simpl in Hc; try contradiction; [|exact Hc].
    destruct (map_err (shex_class fa c1 thr C) P) as [r1|e1], (map_err (shex_class fa c2 thr C) P) as [r2|e2];
      simpl in IH; try contradiction; simpl; [constructor; assumption | exact IH]. }
  destruct (map_err (shex_class fa c1 thr C) P) as [M1|e1], (map_err (shex_class fa c2 thr C) P) as [M2|e2];
    simpl in HM; try contradiction; [|exact HM].
  change (x_remove_empty c1) with (x_remove_empty cfg). change (x_remove_empty c2) with (x_remove_empty cfg).
  destruct (x_remove_empty cfg); [|exact HM].
  rewrite (Forall2_len _ _ _ HM). apply clean_shapes_rel; [|exact HM].
  intros n a b [Hi Hp Ht Hc Hk Hn Hpr Hcm]. repeat split; assumption.
Qed.

(** O6 for the caller's namespaces: same errors; on success the shapes are
    equal once the token text inside comments is erased (the returned
    namespace dictionaries differ, of course).  [RERandom] (no priority prefix
    left for the shapes namespace) is the one outcome that depends on [r_ns]
    alone, hence the two premises. *)
Theorem O6_namespaces fa ns' c thr g ns1 ns2 :
  full_ns (with_rns ns' c) = Some ns1 -> full_ns c = Some ns2 ->
  res_rel (fun x y => fst x = ns1 /\ fst y = ns2 /\
                      map_shapes erase_tokens (snd x) = map_shapes erase_tokens (snd y))
          (run_shapes fa (with_rns ns' c) thr g) (run_shapes fa c thr g).
Proof.
  intros H1 H2. unfold run_shapes. rewrite H1, H2.
  change (r_tau (with_rns ns' c)) with (r_tau c). change (r_targets (with_rns ns' c)) with (r_targets c).
  change (r_cap (with_rns ns' c)) with (r_cap c). change (pcfg_of (with_rns ns' c)) with (pcfg_of c).
  destruct (track _ _ _ g) as [ins|e]; [|reflexivity].
  destruct (profile (pcfg_of c) ins g) as [[[P C] ID]|[|]]; try reflexivity.
  change (scfg_of (with_rns ns' c) ns1) with (with_ns ns1 (scfg_of c ns2)).
  change (scfg_of c ns2) with (with_ns ns2 (scfg_of c ns2)) at 2.
  pose proof (shex_mod_ns fa (scfg_of c ns2) ns1 ns2 thr P C) as H.
  destruct (shex fa (with_ns ns1 _) thr P C) as [L1|e1], (shex fa (with_ns ns2 _) thr P C) as [L2|e2];
    simpl in H; try contradiction; simpl.
  - repeat split. apply mod_tok_shapes. exact H.
  - subst. reflexivity.
Qed.

Lemma run_shapes_no_prefix fa c thr g : full_ns c = None -> run_shapes fa c thr g = inr RERandom.
Proof. intros H. unfold run_shapes. rewrite H. reflexivity. Qed.
