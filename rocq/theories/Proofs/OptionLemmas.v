(** * C13 — each option changes only what it documents: lemmas on the
    shexing model.  Every theorem compares the runs of two configurations that
    differ in exactly one field ([with_X v cfg], Proofs/ShexBasics.v). *)
From Coq Require Import List Ascii String ZArith NArith Bool Lia Permutation.
From Shexer Require Import Lib.PyStr Lib.Dict Gen.Consts Model.Profiler Model.Tokens Model.Freq Model.Shexing.
From Shexer Require Import Proofs.ShexBasics.
Import ListNotations.

Lemma map_res_map_res {A B C E} (f : B -> C) (g : A -> B) (r : A + E) :
  map_res f (map_res g r) = map_res (fun x => f (g x)) r.
Proof. destruct r; reflexivity. Qed.

Lemma map_res_ext {A B E} (f g : A -> B) (r : A + E) :
  (forall x, f x = g x) -> map_res f r = map_res g r.
Proof. intros H. destruct r; simpl; [rewrite H|]; reflexivity. Qed.

(** ** the general step: options read only by [tune] *)
Lemma shex_class_post fa c1 c2 thr counts ce f :
  sel_agree c1 c2 -> x_inverse c1 = x_inverse c2 -> x_shapes_ns c1 = x_shapes_ns c2 ->
  (forall cnt v, Forall (fun s => base_card (s_card s)) v ->
                 tune fa c1 cnt v = map_res (map f) (tune fa c2 cnt v)) ->
  shex_class fa c1 thr counts ce = map_res (map_stmts f) (shex_class fa c2 thr counts ce).
Proof.
  intros Ha Hi Hn Ht. rewrite !shex_class_eq.
  assert (Hs : class_sorted fa c1 thr counts ce = class_sorted fa c2 thr counts ce).
  { unfold class_sorted. rewrite Hi. reflexivity. }
  rewrite Hs, !(select_valid_agree fa c1 c2 _ _ Ha).
  destruct (select_valid fa c2 _ (filter (fun s => negb (s_inv s)) _)) as [vd|e] eqn:Ed; simpl; [|reflexivity].
  destruct (select_valid fa c2 _ (filter (fun s => s_inv s) _)) as [vi|e] eqn:Ei; simpl; [|reflexivity].
  rewrite Ht.
  - destruct (tune fa c2 _ (vd ++ vi)) as [st|e]; simpl; [|reflexivity].
    unfold mk_shape, map_stmts; simpl. rewrite Hn. reflexivity.
  - apply Forall_app. split; eapply valid_base_card; eassumption.
Qed.

Lemma shex_post fa c1 c2 thr P C f :
  struct_pres f ->
  sel_agree c1 c2 -> x_inverse c1 = x_inverse c2 -> x_shapes_ns c1 = x_shapes_ns c2 ->
  x_remove_empty c1 = x_remove_empty c2 ->
  (forall cnt v, Forall (fun s => base_card (s_card s)) v ->
                 tune fa c1 cnt v = map_res (map f) (tune fa c2 cnt v)) ->
  shex fa c1 thr P C = map_res (map_shapes f) (shex fa c2 thr P C).
Proof.
  intros Hf Ha Hi Hn Hr Ht. apply shex_map; [exact Hf | exact Hr|].
  intros ce _. apply shex_class_post; assumption.
Qed.

Ltac agree := unfold sel_agree; simpl; repeat split; reflexivity.

(** ** O1 — [disable_comments] *)
Lemma drop_comments_struct : struct_pres drop_comments.
Proof. intros s. simpl. repeat split. Qed.

Lemma tune_disable_comments fa cfg cnt v :
  tune fa (with_disable_comments true cfg) cnt v =
  map_res (map drop_comments) (tune fa (with_disable_comments false cfg) cnt v).
Proof.
  rewrite !tune_eq, map_res_map_res.
  change (relax_phase fa (with_disable_comments true cfg)) with (relax_phase fa (with_disable_comments false cfg)).
  apply map_res_ext. intros l. rewrite map_map. apply map_ext. intros s.
  unfold post1; simpl. reflexivity.
Qed.

Theorem O1_disable_comments fa cfg thr P C :
  shex fa (with_disable_comments true cfg) thr P C =
  map_res (map_shapes drop_comments) (shex fa (with_disable_comments false cfg) thr P C).
Proof.
  apply shex_post; try reflexivity; [apply drop_comments_struct | agree|].
  intros cnt v _. apply tune_disable_comments.
Qed.

(** ** O2 — [allow_opt_cardinality] *)
Definition opt_to_star (s : stmt) : stmt :=
  match s_card s with
  | COpt => {| s_inv := s_inv s; s_prop := s_prop s; s_types := s_types s; s_choice := s_choice s;
               s_card := CStar; s_nocc := s_nocc s; s_prob := s_prob s; s_comments := s_comments s |}
  | _ => s
  end.

Lemma opt_to_star_struct : struct_pres opt_to_star.
Proof. intros s. unfold opt_to_star. destruct (s_card s); simpl; repeat split. Qed.

Lemma opt_to_star_base s : base_card (s_card s) -> opt_to_star s = s.
Proof. unfold opt_to_star. destruct (s_card s); simpl; intros H; try reflexivity; contradiction. Qed.

Lemma opt_to_star_base_list l : Forall (fun s => base_card (s_card s)) l -> map opt_to_star l = l.
Proof.
  intros F. induction F as [|s l Hs F IH]; simpl; [reflexivity|].
  rewrite IH, opt_to_star_base by exact Hs. reflexivity.
Qed.

Lemma relax_allow_opt fa cfg cnt s :
  base_card (s_card s) ->
  relax fa (with_allow_opt false cfg) cnt s = map_res opt_to_star (relax fa (with_allow_opt true cfg) cnt s).
Proof.
  intros Hb. unfold relax.
  change (comment_of (with_allow_opt false cfg) s) with (comment_of (with_allow_opt true cfg) s).
  destruct (negb (feqb fa (pv fa cnt s) (fone fa))).
  - destruct (comment_of (with_allow_opt true cfg) s) as [k|e]; simpl; [|reflexivity].
    unfold relax_card; simpl. destruct (card_eqb (s_card s) (CExact 1)); reflexivity.
  - simpl. rewrite opt_to_star_base by exact Hb. reflexivity.
Qed.

Lemma post1_opt_to_star cfg s : post1 cfg (opt_to_star s) = opt_to_star (post1 cfg s).
Proof.
  unfold post1. destruct s as [i p t c k n pr cm].
  destruct (x_disable_exact cfg), (x_disable_comments cfg), k as [q| | |];
    unfold opt_to_star, generalize_exact, drop_comments; simpl; try reflexivity;
    destruct (N.ltb 1 q); reflexivity.
Qed.

Lemma tune_allow_opt fa cfg cnt v :
  Forall (fun s => base_card (s_card s)) v ->
  tune fa (with_allow_opt false cfg) cnt v =
  map_res (map opt_to_star) (tune fa (with_allow_opt true cfg) cnt v).
Proof.
  intros Hv. rewrite !tune_eq, map_res_map_res.
  pose proof (sort_desc_Forall fa cnt _ v Hv) as Hs. revert Hs.
  generalize (sort_desc fa cnt v). intros l Hl.
  assert (Hr : relax_phase fa (with_allow_opt false cfg) cnt l =
               map_res (map opt_to_star) (relax_phase fa (with_allow_opt true cfg) cnt l)).
  { unfold relax_phase; simpl. destruct (x_all_compliant cfg).
    - apply map_err_map_res. intros s Hs. apply relax_allow_opt.
      rewrite Forall_forall in Hl. apply Hl, Hs.
    - simpl. rewrite opt_to_star_base_list by exact Hl. reflexivity. }
  rewrite Hr, map_res_map_res. apply map_res_ext. intros l'. rewrite !map_map. apply map_ext.
  intros s. change (post1 (with_allow_opt false cfg)) with (post1 (with_allow_opt true cfg)).
  apply post1_opt_to_star.
Qed.

Theorem O2_allow_opt fa cfg thr P C :
  shex fa (with_allow_opt false cfg) thr P C =
  map_res (map_shapes opt_to_star) (shex fa (with_allow_opt true cfg) thr P C).
Proof.
  apply shex_post; try reflexivity; [apply opt_to_star_struct | agree|].
  intros cnt v Hv. apply tune_allow_opt. exact Hv.
Qed.

(** ** O3 — [disable_exact_cardinality] *)
Lemma generalize_exact_struct : struct_pres generalize_exact.
Proof.
  intros s. unfold generalize_exact. destruct (s_card s) as [k| | |]; simpl; repeat split;
    destruct (N.ltb 1 k); simpl; reflexivity.
Qed.

Lemma generalize_drop s : generalize_exact (drop_comments s) = drop_comments (generalize_exact s).
Proof.
  destruct s as [i p t c k n pr cm]. unfold generalize_exact, drop_comments; simpl.
  destruct k as [q| | |]; simpl; try reflexivity. destruct (N.ltb 1 q); reflexivity.
Qed.

Lemma tune_disable_exact fa cfg cnt v :
  tune fa (with_disable_exact true cfg) cnt v =
  map_res (map generalize_exact) (tune fa (with_disable_exact false cfg) cnt v).
Proof.
  rewrite !tune_eq, map_res_map_res.
  change (relax_phase fa (with_disable_exact true cfg)) with (relax_phase fa (with_disable_exact false cfg)).
  apply map_res_ext. intros l. rewrite map_map. apply map_ext. intros s.
  unfold post1; simpl. destruct (x_disable_comments cfg); [|reflexivity].
  symmetry. apply generalize_drop.
Qed.

Theorem O3_disable_exact fa cfg thr P C :
  shex fa (with_disable_exact true cfg) thr P C =
  map_res (map_shapes generalize_exact) (shex fa (with_disable_exact false cfg) thr P C).
Proof.
  apply shex_post; try reflexivity; [apply generalize_exact_struct | agree|].
  intros cnt v _. apply tune_disable_exact.
Qed.
