(** * Foundation theorem P1: the class profile the model builds contains
    exactly the counts of [Spec/Counts.v].

    (a) [annotate_all_char], [annotate_all_err], [annotate_all_ok_iff]
    (b) [profile_counts_char] (lookups), [profile_entries_char] (entry-wise),
        [raw_profile_wf]; after cleaning: [profile_final_char] (sound) and
        [profile_final_complete]
    (c) [profile_inverse_flag_raw], [profile_direct_independent_of_inverse]
        (no cleaning); [profile_inverse_flag], [profile_inverse_flag_subjects],
        [profile_inverse_flag_tracked], [profile_direct_independent_of_inverse_clean]
    (d) [clean_profile_char], [In_shapes_to_remove], [dkeys_remove_iteration],
        [dget_remove_iteration], [plook_remove_keys_pdict], [profile_result],
        [profile_err], [profile_unchanged]
    (e) [cnt_perm], [occ_perm], [annotate_all_ok_perm]
    also [track_insts_ok] (the tracker's dictionary satisfies the hypotheses),
    [occ_le_class_count], [occ_exact_le_plus], [occ_tau_only_one].
    Key orders are in [ProfileOrder.v].

    Vocabulary: [fget f p k] / [fmem f p k] look up instance features,
    [plook d p k card] / [pmem d p k] class features, [cdirect P c] /
    [cinverse P c] the dictionaries of a class ([[]] if absent),
    [raw_profile cfg I ID] = ([P1], [C0]) of [profile] before cleaning,
    [build_profile] the fold over the instances. *)
From Coq Require Import List Ascii String ZArith NArith Bool Lia Permutation.
From Shexer Require Import Lib.PyStr Lib.Dict Gen.Consts Spec.Rdf Model.Tracker Model.Profiler
     Spec.Counts Proofs.DictLemmas.
Import ListNotations.
Local Open Scope N_scope.

(** ** bridges between the spec's own helpers and the library's *)

Lemma count_in_count_str k l : count_in k l = count_str k l.
Proof. induction l as [|x l IH]; cbn; [reflexivity|]. rewrite IH. reflexivity. Qed.

Lemma uniq_first_first_occ l : uniq_first l = first_occ l.
Proof. induction l as [|x l IH]; cbn; [reflexivity|]. rewrite IH. reflexivity. Qed.

Lemma sumN_app l1 l2 : sumN (l1 ++ l2) = sumN l1 + sumN l2.
Proof. induction l1 as [|x l1 IH]; cbn; [reflexivity|]. rewrite IH. lia. Qed.

Lemma sumN_perm l1 l2 : Permutation l1 l2 -> sumN l1 = sumN l2.
Proof. induction 1; cbn; lia. Qed.

Lemma sumN_map_ext {A : Type} (f g : A -> N) l :
  (forall x, In x l -> f x = g x) -> sumN (map f l) = sumN (map g l).
Proof.
  induction l as [|x l IH]; cbn; [reflexivity|]. intros H.
  rewrite (H x) by auto. rewrite IH; [reflexivity|]. intros y Hy. apply H. auto.
Qed.

Lemma sumN_pos_ex l : 0 < sumN l <-> exists x, In x l /\ 0 < x.
Proof.
  induction l as [|x l IH]; cbn.
  - split; [lia | intros [x [[] _]]].
  - split.
    + intros H. destruct (N.eq_dec x 0) as [E|E].
      * subst. rewrite N.add_0_l in H. apply IH in H. destruct H as [y [Hy Py]]. exists y. auto.
      * exists x. split; [auto | lia].
    + intros [y [[->|Hy] Py]]; [lia|].
      assert (0 < sumN l) by (apply IH; exists y; auto). lia.
Qed.

Lemma cnt_cons dir tau I t G i p k :
  cnt dir tau I (t :: G) i p k = count_in k (contrib dir tau I t i p) + cnt dir tau I G i p k.
Proof. reflexivity. Qed.

Lemma cnt_nil dir tau I i p k : cnt dir tau I [] i p k = 0.
Proof. reflexivity. Qed.

Lemma cnt_app dir tau I G1 G2 i p k :
  cnt dir tau I (G1 ++ G2) i p k = cnt dir tau I G1 i p k + cnt dir tau I G2 i p k.
Proof. unfold cnt. rewrite map_app, sumN_app. reflexivity. Qed.

(** ** per-instance feature dictionaries *)

(** [f.get(p, {}).get(k, 0)] *)
Definition fget (f : feat) (p k : str) : N :=
  match dget f p with Some m => getN m k | None => 0 end.

(** [p in f and k in f[p]] *)
Definition fmem (f : feat) (p k : str) : bool :=
  match dget f p with Some m => dmem m k | None => false end.

(** unique keys at both levels, every stored counter positive *)
Definition feat_wf (f : feat) : Prop :=
  NoDup (dkeys f) /\
  Forall (fun pm : str * dict N => NoDup (dkeys (snd pm)) /\ posN (snd pm)) f.

Lemma feat_wf_nil : feat_wf [].
Proof. split; constructor. Qed.

Lemma incr_feat_incrN f p k : incr_feat f p k = dupd f p [] (fun m => incrN m k).
Proof. reflexivity. Qed.

Lemma feat_wf_incr_feat f p k : feat_wf f -> feat_wf (incr_feat f p k).
Proof.
  intros [ND FA]. rewrite incr_feat_incrN. split.
  - apply NoDup_dkeys_dupd. assumption.
  - apply Forall_dupd; [assumption | |].
    + intros m _ [NDm Pm]. cbn in *. split.
      * unfold incrN. apply NoDup_dkeys_dupd. assumption.
      * apply posN_incrN. assumption.
    + intros _. cbn. split.
      * constructor; [intros [] | constructor].
      * constructor; [cbn; lia | constructor].
Qed.

Lemma fget_incr_feat f p k p' k' :
  fget (incr_feat f p k) p' k' =
  fget f p' k' + (if str_eqb p p' && str_eqb k k' then 1 else 0).
Proof.
  unfold fget. rewrite incr_feat_incrN, dget_dupd. unfold dupd_val.
  destruct (str_eqb p p') eqn:E; cbn [andb].
  - apply str_eqb_eq in E. subst p'. destruct (dget f p) as [m|].
    + apply getN_incrN.
    + rewrite getN_incrN. reflexivity.
  - lia.
Qed.

Lemma fmem_incr_feat f p k p' k' :
  fmem (incr_feat f p k) p' k' = fmem f p' k' || (str_eqb p p' && str_eqb k k').
Proof.
  unfold fmem. rewrite incr_feat_incrN, dget_dupd. unfold dupd_val.
  destruct (str_eqb p p') eqn:E; cbn [andb].
  - apply str_eqb_eq in E. subst p'. destruct (dget f p) as [m|].
    + rewrite dmem_incrN. apply orb_comm.
    + rewrite dmem_incrN. cbn. rewrite orb_false_r. reflexivity.
  - rewrite orb_false_r. reflexivity.
Qed.

Lemma feat_wf_annotate_keys ks f p : feat_wf f -> feat_wf (annotate_keys f p ks).
Proof.
  unfold annotate_keys. revert f. induction ks as [|x ks IH]; intros f H; cbn; [assumption|].
  apply IH. apply feat_wf_incr_feat. assumption.
Qed.

Lemma fget_annotate_keys ks f p p' k' :
  fget (annotate_keys f p ks) p' k' =
  fget f p' k' + (if str_eqb p p' then count_str k' ks else 0).
Proof.
  unfold annotate_keys. revert f. induction ks as [|x ks IH]; intros f; cbn.
  - destruct (str_eqb p p'); lia.
  - rewrite IH, fget_incr_feat. rewrite (str_eqb_sym x k').
    destruct (str_eqb p p'), (str_eqb k' x); cbn [andb]; lia.
Qed.

Lemma feat_wf_dget f p m : feat_wf f -> dget f p = Some m -> NoDup (dkeys m) /\ posN m.
Proof.
  intros [_ FA] H. apply dget_In in H. rewrite Forall_forall in FA. apply (FA (p, m)). assumption.
Qed.

(** an entry exists iff its count is positive *)
Lemma fmem_fget f p k : feat_wf f -> (fmem f p k = true <-> 0 < fget f p k).
Proof.
  intros W. unfold fmem, fget. destruct (dget f p) as [m|] eqn:E.
  - destruct (feat_wf_dget f p m W E) as [_ Pm]. symmetry. apply posN_getN. assumption.
  - split; [discriminate | lia].
Qed.

(** ** (a) the feature pass *)

Ltac split4 := split; [|split; [|split]].

Section FeaturePass.
  Variables (tau : str) (inverse : bool) (I : insts).

  Definition mk_entry (cs : list str) : ientry :=
    {| i_classes := cs; i_direct := []; i_inverse := [] |}.

  Lemma adapt_dmapv : adapt I = dmapv mk_entry I.
  Proof. reflexivity. Qed.

  Lemma dmapv_classes_adapt : dmapv i_classes (adapt I) = I.
  Proof.
    rewrite adapt_dmapv. unfold dmapv. rewrite map_map. cbn.
    induction I as [|[i cs] I' IH]; cbn; [reflexivity|]. rewrite IH. reflexivity.
  Qed.

  (** the invariant of the pass: classes untouched; per instance, well-formed
      feature dictionaries whose lookups are given by [cD] / [cI] *)
  Definition InvF (J : idict) (cD cI : str -> str -> str -> N) : Prop :=
    dmapv i_classes J = I /\
    forall i e, dget J i = Some e ->
      feat_wf (i_direct e) /\ feat_wf (i_inverse e) /\
      (forall p k, fget (i_direct e) p k = cD i p k) /\
      (if inverse then forall p k, fget (i_inverse e) p k = cI i p k else i_inverse e = []).

  Lemma InvF_ext J cD cI cD' cI' :
    (forall i p k, cD i p k = cD' i p k) -> (forall i p k, cI i p k = cI' i p k) ->
    InvF J cD cI -> InvF J cD' cI'.
  Proof.
    intros HD HI [HC H]. split; [assumption|]. intros i e Hi.
    destruct (H i e Hi) as [W1 [W2 [F1 F2]]]. split4; try assumption.
    - intros p k. rewrite F1. apply HD.
    - destruct inverse; [|assumption]. intros p k. rewrite F2. apply HI.
  Qed.

  Lemma InvF_adapt : InvF (adapt I) (fun _ _ _ => 0) (fun _ _ _ => 0).
  Proof.
    split; [apply dmapv_classes_adapt|]. intros i e Hi.
    rewrite adapt_dmapv, dget_dmapv in Hi. destruct (dget I i) as [cs|]; [|discriminate].
    cbn in Hi. inversion Hi. subst e. cbn.
    split4; try apply feat_wf_nil; [reflexivity | destruct inverse; reflexivity].
  Qed.

  Lemma shapes_of_labels J id : dmapv i_classes J = I -> shapes_of J id = shape_labels I id.
  Proof.
    intros H. unfold shapes_of, shape_labels, classes_of. rewrite <- H, dget_dmapv.
    destruct (dget J id); reflexivity.
  Qed.

  Lemma tracked_dmem J id : dmapv i_classes J = I -> tracked J id = dmem I id.
  Proof. intros H. unfold tracked. rewrite <- H, dmem_dmapv. reflexivity. Qed.

  Lemma elem_type_node_eq n : elem_type_node n = elem_type n.
  Proof. reflexivity. Qed.

  Lemma is_node_type_elem n : is_node_type (elem_type_node n) = true.
  Proof. destruct n as [[|] id]; reflexivity. Qed.

  (** the key list of the model for the subject = [keys_direct] *)
  Lemma keys_direct_model J t ty :
    dmapv i_classes J = I -> type_of_obj tau (tp t) (to t) = Some ty ->
    ty :: (if is_node_type ty
           then match to t with ON n => shapes_of J (nid n) | OL _ _ => [] end
           else []) = keys_direct tau I t.
  Proof.
    intros HC. unfold type_of_obj, keys_direct.
    destruct (str_eqb (tp t) tau) eqn:E; cbn.
    - destruct (to t) as [n|c dt]; [|discriminate]. intros H. inversion H. subst ty.
      unfold is_node_type. rewrite (shapes_of_labels J (nid n) HC). reflexivity.
    - destruct (to t) as [n|c dt]; intros H; inversion H; subst ty.
      + rewrite is_node_type_elem, (shapes_of_labels J (nid n) HC). reflexivity.
      + destruct (is_node_type dt); reflexivity.
  Qed.

  Lemma type_of_obj_None t :
    type_of_obj tau (tp t) (to t) = None <-> tp t = tau /\ is_node (to t) = false.
  Proof.
    unfold type_of_obj. destruct (str_eqb (tp t) tau) eqn:E; cbn.
    - apply str_eqb_eq in E. destruct (to t); cbn; split; try discriminate; auto.
      intros [_ H]. discriminate.
    - apply str_eqb_neq in E. split; [discriminate | intros [H _]; contradiction].
  Qed.

  (** the key list of the model for the object = [keys_inverse] *)
  Lemma keys_inverse_model J t :
    dmapv i_classes J = I ->
    let ty := type_of_subj tau (tp t) (ts t) in
    ty :: (if str_eqb ty c_IRI_ELEM_TYPE then shapes_of J (nid (ts t)) else []) =
    keys_inverse tau I t.
  Proof.
    intros HC. cbn. unfold type_of_subj, keys_inverse.
    rewrite (shapes_of_labels J (nid (ts t)) HC).
    destruct (str_eqb (tp t) tau); cbn; [reflexivity|].
    destruct (ts t) as [[|] id]; reflexivity.
  Qed.

  (** *** one triple, subject side *)
  Lemma annotate_subject_step J cD cI t :
    InvF J cD cI -> tracked J (nid (ts t)) = true ->
    match annotate_subject tau J t with
    | inl J' =>
      ~ bad_triple tau I t /\
      InvF J' (fun i p k => cD i p k + count_in k (contrib Direct tau I t i p)) cI
    | inr e => e = PEAttr /\ bad_triple tau I t
    end.
  Proof.
    intros [HC H] Htr. unfold annotate_subject.
    destruct (type_of_obj tau (tp t) (to t)) as [ty|] eqn:Ety.
    - split.
      { intros [_ B]. apply type_of_obj_None in B. congruence. }
      rewrite (keys_direct_model J t ty HC Ety).
      remember (keys_direct tau I t) as ks eqn:HK.
      split.
      + etransitivity; [|exact HC]. apply dmapv_dupd_absorb; [reflexivity | exact Htr].
      + intros i e' Hi. rewrite dget_dupd in Hi. unfold dupd_val in Hi.
        destruct (str_eqb (nid (ts t)) i) eqn:Es.
        * apply str_eqb_eq in Es. subst i.
          unfold tracked in Htr. apply dmem_dget in Htr. destruct Htr as [e He].
          rewrite He in Hi. inversion Hi. subst e'. cbn [i_classes i_direct i_inverse].
          destruct (H _ e He) as [W1 [W2 [F1 F2]]].
          split4.
          -- apply feat_wf_annotate_keys. assumption.
          -- assumption.
          -- intros p k. rewrite fget_annotate_keys, F1. f_equal.
             cbn [contrib]. rewrite str_eqb_refl. cbn [andb].
             destruct (str_eqb (tp t) p); [|reflexivity].
             rewrite HK. symmetry. apply count_in_count_str.
          -- assumption.
        * destruct (H i e' Hi) as [W1 [W2 [F1 F2]]]. split4; try assumption.
          intros p k. rewrite F1. cbn [contrib]. rewrite Es. cbn [andb count_in]. lia.
    - split; [reflexivity|]. apply type_of_obj_None in Ety. destruct Ety as [E1 E2].
      split; [|split; assumption]. rewrite <- (tracked_dmem J _ HC). assumption.
  Qed.

  (** *** one triple, object side (inverse mode) *)
  Lemma annotate_object_step J cD cI t o :
    inverse = true -> to t = ON o ->
    InvF J cD cI -> tracked J (nid o) = true ->
    InvF (annotate_object tau J t o) cD
         (fun i p k => cI i p k + count_in k (contrib Inverse tau I t i p)).
  Proof.
    intros Hinv Ho [HC H] Htr. unfold annotate_object.
    pose proof (keys_inverse_model J t HC) as HK. cbn zeta in HK. rewrite HK. clear HK.
    remember (keys_inverse tau I t) as ks eqn:HK.
    split.
    - etransitivity; [|exact HC]. apply dmapv_dupd_absorb; [reflexivity | exact Htr].
    - intros i e' Hi. rewrite dget_dupd in Hi. unfold dupd_val in Hi.
      rewrite Hinv in *.
      destruct (str_eqb (nid o) i) eqn:Es.
      + apply str_eqb_eq in Es. subst i.
        unfold tracked in Htr. apply dmem_dget in Htr. destruct Htr as [e He].
        rewrite He in Hi. inversion Hi. subst e'. cbn [i_classes i_direct i_inverse].
        destruct (H _ e He) as [W1 [W2 [F1 F2]]].
        split4.
        * assumption.
        * apply feat_wf_annotate_keys. assumption.
        * assumption.
        * intros p k. rewrite fget_annotate_keys, F2. f_equal.
          cbn [contrib]. rewrite Ho, str_eqb_refl. cbn [andb].
          destruct (str_eqb (tp t) p); [|reflexivity].
          rewrite HK. symmetry. apply count_in_count_str.
      + destruct (H i e' Hi) as [W1 [W2 [F1 F2]]]. split4; try assumption.
        intros p k. rewrite F2. cbn [contrib]. rewrite Ho, Es. cbn [andb count_in]. lia.
  Qed.

  (** a triple contributes nothing to an instance that is neither its subject
      nor its object *)
  Lemma contrib_direct_other t i p :
    str_eqb (nid (ts t)) i = false -> contrib Direct tau I t i p = [].
  Proof. intros H. cbn. rewrite H. reflexivity. Qed.

  (** *** one triple *)
  Lemma annotate_triple_step J cD cI t :
    InvF J cD cI ->
    match annotate_triple tau inverse J t with
    | inl J' =>
      ~ bad_triple tau I t /\
      InvF J' (fun i p k => cD i p k + count_in k (contrib Direct tau I t i p))
              (fun i p k => cI i p k + count_in k (contrib Inverse tau I t i p))
    | inr e => e = PEAttr /\ bad_triple tau I t
    end.
  Proof.
    intros HInv. unfold annotate_triple.
    (* subject side *)
    assert (S1 : match (if tracked J (nid (ts t)) then annotate_subject tau J t else inl J) with
                 | inl J1 => ~ bad_triple tau I t /\
                             InvF J1 (fun i p k => cD i p k + count_in k (contrib Direct tau I t i p)) cI
                 | inr e => e = PEAttr /\ bad_triple tau I t
                 end).
    { destruct (tracked J (nid (ts t))) eqn:Htr.
      - apply annotate_subject_step; assumption.
      - destruct HInv as [HC H]. split.
        + intros [B _]. rewrite <- (tracked_dmem J _ HC) in B. congruence.
        + split; [assumption|]. intros i e Hi.
          destruct (H i e Hi) as [W1 [W2 [F1 F2]]]. split4; try assumption.
          intros p k. rewrite F1.
          assert (Es : str_eqb (nid (ts t)) i = false).
          { apply str_eqb_neq. intros E. subst i. unfold tracked, dmem in Htr. rewrite Hi in Htr. discriminate. }
          rewrite contrib_direct_other by assumption. cbn. lia. }
    destruct (if tracked J (nid (ts t)) then annotate_subject tau J t else inl J) as [J1|e];
      [|assumption].
    destruct S1 as [NB Inv1].
    (* object side *)
    assert (Keep : forall cI', (forall i e, dget J1 i = Some e -> forall p k, cI' i p k = cI i p k) \/ inverse = false ->
                   InvF J1 (fun i p k => cD i p k + count_in k (contrib Direct tau I t i p)) cI').
    { intros cI' Hc. destruct Inv1 as [HC H]. split; [assumption|]. intros i e Hi.
      destruct (H i e Hi) as [W1 [W2 [F1 F2]]]. split4; try assumption.
      destruct Hc as [Hc|Hc].
      - destruct inverse; [|assumption]. intros p k. rewrite F2. symmetry. apply (Hc i e Hi).
      - rewrite Hc in *. assumption. }
    destruct inverse eqn:Einv.
    - destruct (to t) as [o|c dt] eqn:Eo.
      + destruct (tracked J1 (nid o)) eqn:Htr.
        * split; [assumption|]. apply annotate_object_step; try assumption.
        * split; [assumption|]. apply Keep. left. intros i e Hi p k. cbn. rewrite Eo.
          assert (Es : str_eqb (nid o) i = false).
          { apply str_eqb_neq. intros E. subst i. unfold tracked, dmem in Htr. rewrite Hi in Htr. discriminate. }
          rewrite Es. cbn. lia.
      + split; [assumption|]. apply Keep. left. intros i e Hi p k. cbn. rewrite Eo. cbn. lia.
    - split; [assumption|]. apply Keep. right. reflexivity.
  Qed.

  (** *** the whole stream *)
  Lemma annotate_all_step g : forall J cD cI,
    InvF J cD cI ->
    match annotate_all tau inverse g J with
    | inl ID =>
      (forall t, In t g -> ~ bad_triple tau I t) /\
      InvF ID (fun i p k => cD i p k + cnt Direct tau I g i p k)
              (fun i p k => cI i p k + cnt Inverse tau I g i p k)
    | inr e => e = PEAttr /\ exists t, In t g /\ bad_triple tau I t
    end.
  Proof.
    induction g as [|t g IH]; intros J cD cI HInv; cbn [annotate_all].
    - split; [intros t []|]. eapply InvF_ext; [| |exact HInv]; intros; rewrite cnt_nil; lia.
    - pose proof (annotate_triple_step J cD cI t HInv) as HS.
      destruct (annotate_triple tau inverse J t) as [J'|e].
      + destruct HS as [NB Inv']. specialize (IH J' _ _ Inv').
        destruct (annotate_all tau inverse g J') as [ID|e].
        * destruct IH as [NBg InvID]. split.
          -- intros t' [<-|Ht']; [assumption | apply NBg; assumption].
          -- eapply InvF_ext; [| |exact InvID]; intros; cbn beta; rewrite cnt_cons; lia.
        * destruct IH as [-> [t' [Ht' B]]]. split; [reflexivity|]. exists t'. split; [right|]; assumption.
      + destruct HS as [-> B]. split; [reflexivity|]. exists t. split; [left; reflexivity | assumption].
  Qed.

  (** [bad_triple] is decidable *)
  Lemma bad_triple_dec t : {bad_triple tau I t} + {~ bad_triple tau I t}.
  Proof.
    unfold bad_triple. destruct (dmem I (nid (ts t))); [|right; intros [H _]; discriminate].
    destruct (str_eq_dec (tp t) tau) as [E|E]; [|right; intros [_ [H _]]; contradiction].
    destruct (is_node (to t)); [right; intros [_ [_ H]]; discriminate | left; auto].
  Qed.

  (** *** (a) characterisation of a successful feature pass *)
  Theorem annotate_all_char G ID :
    annotate_all tau inverse G (adapt I) = inl ID ->
    dmapv i_classes ID = I /\
    dkeys ID = dkeys I /\
    forall i e, dget ID i = Some e ->
      i_classes e = classes_of I i /\
      feat_wf (i_direct e) /\ feat_wf (i_inverse e) /\
      (forall p k, fget (i_direct e) p k = cnt Direct tau I G i p k) /\
      (forall p k, fmem (i_direct e) p k = true <-> 0 < cnt Direct tau I G i p k) /\
      (if inverse
       then (forall p k, fget (i_inverse e) p k = cnt Inverse tau I G i p k) /\
            (forall p k, fmem (i_inverse e) p k = true <-> 0 < cnt Inverse tau I G i p k)
       else i_inverse e = []).
  Proof.
    intros HR. pose proof (annotate_all_step G _ _ _ InvF_adapt) as H. rewrite HR in H.
    destruct H as [_ [HC H]]. split; [assumption|]. split.
    { rewrite <- HC. rewrite dkeys_dmapv. reflexivity. }
    intros i e Hi. destruct (H i e Hi) as [W1 [W2 [F1 F2]]].
    split.
    { unfold classes_of. rewrite <- HC, dget_dmapv, Hi. reflexivity. }
    split; [assumption|]. split; [assumption|]. split.
    { intros p k. rewrite F1. lia. }
    split.
    { intros p k. rewrite fmem_fget by assumption. rewrite F1. cbn. reflexivity. }
    destruct inverse; [|assumption]. split.
    - intros p k. rewrite F2. lia.
    - intros p k. rewrite fmem_fget by assumption. rewrite F2. cbn. reflexivity.
  Qed.

  (** *** when the pass raises: always AttributeError, exactly when some
      [tau]-triple with a tracked subject has a literal object *)
  Theorem annotate_all_err G e :
    annotate_all tau inverse G (adapt I) = inr e <->
    e = PEAttr /\ exists t, In t G /\ bad_triple tau I t.
  Proof.
    pose proof (annotate_all_step G _ _ _ InvF_adapt) as H.
    destruct (annotate_all tau inverse G (adapt I)) as [ID|e'].
    - destruct H as [NB _]. split; [discriminate|]. intros [_ [t [Ht B]]]. exfalso. apply (NB t Ht B).
    - destruct H as [-> Hex]. split.
      + intros E. inversion E. subst. split; [reflexivity | assumption].
      + intros [-> _]. reflexivity.
  Qed.

  Theorem annotate_all_ok_iff G :
    (exists ID, annotate_all tau inverse G (adapt I) = inl ID) <->
    (forall t, In t G -> ~ bad_triple tau I t).
  Proof.
    pose proof (annotate_all_step G _ _ _ InvF_adapt) as H.
    destruct (annotate_all tau inverse G (adapt I)) as [ID|e'].
    - destruct H as [NB _]. split; [intros _; assumption | intros _; exists ID; reflexivity].
    - destruct H as [_ [t [Ht B]]]. split.
      + intros [ID E]. discriminate.
      + intros NB. exfalso. apply (NB t Ht B).
  Qed.
End FeaturePass.

(** ** (b) the class profile *)

(** [d.get(p, {}).get(k, {}).get(card, 0)] *)
Definition plook (d : pdict) (p k : str) (card : ckey) : N :=
  match dget d p with
  | Some m => match dget m k with Some cd => cget cd card | None => 0 end
  | None => 0
  end.

(** [p in d and k in d[p]] *)
Definition pmem (d : pdict) (p k : str) : bool :=
  match dget d p with Some m => dmem m k | None => false end.

Lemma plook_nil p k card : plook [] p k card = 0.
Proof. reflexivity. Qed.

Lemma plook_pincr d p k c p' k' c' :
  plook (pincr d (p, k, c)) p' k' c' =
  plook d p' k' c' + (if str_eqb p p' && str_eqb k k' && ckey_eqb c c' then 1 else 0).
Proof.
  unfold plook, pincr. rewrite dget_dupd. unfold dupd_val.
  destruct (str_eqb p p') eqn:Ep; cbn [andb]; [|lia].
  apply str_eqb_eq in Ep. subst p'.
  destruct (dget d p) as [m|].
  - rewrite dget_dupd. unfold dupd_val. destruct (str_eqb k k') eqn:Ek; cbn [andb]; [|lia].
    apply str_eqb_eq in Ek. subst k'. destruct (dget m k) as [cd|].
    + apply cget_cincr.
    + rewrite cget_cincr. reflexivity.
  - rewrite dget_dupd. unfold dupd_val. destruct (str_eqb k k') eqn:Ek; cbn [andb]; [|reflexivity].
    cbn [dget]. rewrite cget_cincr. reflexivity.
Qed.

Lemma pmem_pincr d p k c p' k' :
  pmem (pincr d (p, k, c)) p' k' = pmem d p' k' || (str_eqb p p' && str_eqb k k').
Proof.
  unfold pmem, pincr. rewrite dget_dupd. unfold dupd_val.
  destruct (str_eqb p p') eqn:Ep; cbn [andb]; [|rewrite orb_false_r; reflexivity].
  apply str_eqb_eq in Ep. subst p'.
  destruct (dget d p) as [m|]; rewrite dmem_dupd.
  - apply orb_comm.
  - cbn. rewrite orb_false_r. reflexivity.
Qed.

Definition tuple_eqb (x y : str * str * ckey) : bool :=
  str_eqb (fst (fst x)) (fst (fst y)) && str_eqb (snd (fst x)) (snd (fst y)) && ckey_eqb (snd x) (snd y).

Fixpoint count_tuple (y : str * str * ckey) (l : list (str * str * ckey)) : N :=
  match l with
  | [] => 0
  | x :: r => (if tuple_eqb x y then 1 else 0) + count_tuple y r
  end.

Lemma count_tuple_app y l1 l2 : count_tuple y (l1 ++ l2) = count_tuple y l1 + count_tuple y l2.
Proof. induction l1 as [|x l1 IH]; cbn; [reflexivity|]. rewrite IH. lia. Qed.

Lemma plook_fold_pincr l d p k c :
  plook (fold_left pincr l d) p k c = plook d p k c + count_tuple (p, k, c) l.
Proof.
  revert d. induction l as [|[[p0 k0] c0] l IH]; intros d; cbn [fold_left count_tuple]; [lia|].
  rewrite IH, plook_pincr. unfold tuple_eqb. cbn [fst snd]. lia.
Qed.

(** every entry of the dictionary carries at least one positive count *)
Definition pdict_ok (d : pdict) : Prop :=
  forall p k, pmem d p k = true -> exists card, 0 < plook d p k card.

Lemma pdict_ok_nil : pdict_ok [].
Proof. intros p k H. discriminate. Qed.

Lemma pdict_ok_pincr d x : pdict_ok d -> pdict_ok (pincr d x).
Proof.
  destruct x as [[p k] c]. intros H p' k' Hm. rewrite pmem_pincr in Hm.
  apply orb_true_iff in Hm. destruct Hm as [Hm|Hm].
  - destruct (H p' k' Hm) as [card Hc]. exists card. rewrite plook_pincr. lia.
  - exists c. rewrite plook_pincr, Hm, ckey_eqb_refl. cbn [andb]. lia.
Qed.

Lemma pdict_ok_fold_pincr l d : pdict_ok d -> pdict_ok (fold_left pincr l d).
Proof.
  revert d. induction l as [|x l IH]; intros d H; cbn; [assumption|].
  apply IH. apply pdict_ok_pincr. assumption.
Qed.

(** the converse: a positive count means the entry exists *)
Lemma plook_pos_pmem d p k card : 0 < plook d p k card -> pmem d p k = true.
Proof.
  unfold plook, pmem, dmem. destruct (dget d p) as [m|]; [|lia].
  destruct (dget m k); [reflexivity | lia].
Qed.

(** *** the 3-tuples of an instance *)

Definition tuples_prop (tau p : str) (m : dict N) : list (str * str * ckey) :=
  flat_map (fun ke : str * N =>
              let (k, n) := ke in
              if str_eqb p tau then [(p, k, CKn 1)]
              else [(p, k, CKn n); (p, k, CKplus)]) m.

Lemma tuples_of_cons tau p m f :
  tuples_of tau ((p, m) :: f) = tuples_prop tau p m ++ tuples_of tau f.
Proof. reflexivity. Qed.

Lemma tuples_prop_cons tau p k n m :
  tuples_prop tau p ((k, n) :: m) =
  (if str_eqb p tau then [(p, k, CKn 1)] else [(p, k, CKn n); (p, k, CKplus)]) ++ tuples_prop tau p m.
Proof. reflexivity. Qed.

Lemma count_tuple_tuples_prop_other_p tau p0 m p k c :
  str_eqb p0 p = false -> count_tuple (p, k, c) (tuples_prop tau p0 m) = 0.
Proof.
  intros E. induction m as [|[k0 n] m IH]; [reflexivity|].
  rewrite tuples_prop_cons, count_tuple_app, IH.
  destruct (str_eqb p0 tau); cbn [count_tuple]; unfold tuple_eqb; cbn [fst snd]; rewrite E; reflexivity.
Qed.

Lemma count_tuple_tuples_prop_notin tau p m k c :
  ~ In k (dkeys m) -> count_tuple (p, k, c) (tuples_prop tau p m) = 0.
Proof.
  induction m as [|[k0 n] m IH]; intros Hn; [reflexivity|].
  rewrite tuples_prop_cons, count_tuple_app, IH by (intros H; apply Hn; right; assumption).
  assert (E : str_eqb k0 k = false).
  { apply str_eqb_neq. intros ->. apply Hn. left. reflexivity. }
  destruct (str_eqb p tau); cbn [count_tuple]; unfold tuple_eqb; cbn [fst snd];
    rewrite E, !andb_false_r; reflexivity.
Qed.

Lemma count_tuple_tuples_prop tau p m k c :
  NoDup (dkeys m) -> posN m ->
  count_tuple (p, k, c) (tuples_prop tau p m) = if card_ok tau p c (getN m k) then 1 else 0.
Proof.
  induction m as [|[k0 n] m IH]; intros ND PM.
  - cbn. unfold card_ok. cbn. reflexivity.
  - cbn [dkeys map fst] in ND. inversion ND as [|? ? Hk0 ND']. subst.
    inversion PM as [|? ? Hn PM']. subst. cbn [snd] in Hn.
    rewrite tuples_prop_cons, count_tuple_app.
    unfold getN. cbn [dget]. destruct (str_eqb k k0) eqn:Ek.
    + apply str_eqb_eq in Ek. subst k0.
      rewrite (count_tuple_tuples_prop_notin tau p m k c Hk0).
      unfold card_ok. assert (Hpos : (0 <? n) = true) by (apply N.ltb_lt; assumption).
      rewrite Hpos. cbn [andb].
      destruct (str_eqb p tau); cbn [count_tuple]; unfold tuple_eqb; cbn [fst snd];
        rewrite !str_eqb_refl; cbn [andb].
      * rewrite (ckey_eqb_sym (CKn 1) c). destruct (ckey_eqb c (CKn 1)); reflexivity.
      * destruct c as [m0|]; cbn [ckey_eqb].
        -- rewrite (N.eqb_sym n m0). destruct (N.eqb m0 n); reflexivity.
        -- reflexivity.
    + rewrite (IH ND' PM'). unfold getN.
      assert (E : str_eqb k0 k = false) by (rewrite str_eqb_sym; assumption).
      destruct (str_eqb p tau); cbn [count_tuple app]; unfold tuple_eqb; cbn [fst snd];
        rewrite E, !andb_false_r; cbn [andb]; lia.
Qed.

Lemma count_tuple_tuples_of_notin tau f p k c :
  ~ In p (dkeys f) -> count_tuple (p, k, c) (tuples_of tau f) = 0.
Proof.
  induction f as [|[p0 m] f IH]; intros Hn; [reflexivity|].
  rewrite tuples_of_cons, count_tuple_app, IH by (intros H; apply Hn; right; assumption).
  rewrite count_tuple_tuples_prop_other_p; [reflexivity|].
  apply str_eqb_neq. intros ->. apply Hn. left. reflexivity.
Qed.

(** each (p, k) of a well-formed feature dictionary yields the tuples its
    count allows, once *)
Lemma count_tuple_tuples_of tau f p k c :
  feat_wf f ->
  count_tuple (p, k, c) (tuples_of tau f) = if card_ok tau p c (fget f p k) then 1 else 0.
Proof.
  induction f as [|[p0 m] f IH]; intros [ND FA].
  - cbn. unfold card_ok. cbn. reflexivity.
  - cbn [dkeys map fst] in ND. inversion ND as [|? ? Hp0 ND']. subst.
    inversion FA as [|? ? [NDm PM] FA']. subst. cbn [snd] in NDm, PM.
    rewrite tuples_of_cons, count_tuple_app.
    unfold fget. cbn [dget]. destruct (str_eqb p p0) eqn:Ep.
    + apply str_eqb_eq in Ep. subst p0.
      rewrite (count_tuple_tuples_of_notin tau f p k c Hp0).
      rewrite (count_tuple_tuples_prop tau p m k c NDm PM). lia.
    + rewrite count_tuple_tuples_prop_other_p by (rewrite str_eqb_sym; assumption).
      rewrite IH by (split; assumption). reflexivity.
Qed.

(** a tuple exists for (p, k) iff the pair is in the feature dictionary *)
Lemma card_ok_some tau p n : 0 < n -> exists card, card_ok tau p card n = true.
Proof.
  intros H. unfold card_ok. apply N.ltb_lt in H. rewrite H. cbn [andb].
  destruct (str_eqb p tau).
  - exists (CKn 1). reflexivity.
  - exists CKplus. reflexivity.
Qed.

Lemma card_ok_pos tau p card n : card_ok tau p card n = true -> 0 < n.
Proof. unfold card_ok. intros H. apply andb_true_iff in H. destruct H as [H _]. apply N.ltb_lt. assumption. Qed.

(** *** the class entries *)

Definition cdirect (P : cprofile) (c : str) : pdict :=
  match dget P c with Some e => c_direct e | None => [] end.

Definition cinverse (P : cprofile) (c : str) : pdict :=
  match dget P c with Some e => c_inverse e | None => [] end.

Lemma cdirect_for_class d P c0 c :
  cdirect (annotate_instance_for_class d P c0) c =
  if str_eqb c0 c then fold_left pincr d (cdirect P c) else cdirect P c.
Proof.
  unfold cdirect, annotate_instance_for_class. rewrite dget_dupd. unfold dupd_val.
  destruct (str_eqb c0 c) eqn:E; [|reflexivity].
  apply str_eqb_eq in E. subst c0. destruct (dget P c); reflexivity.
Qed.

Lemma cinverse_for_class d P c0 c :
  cinverse (annotate_instance_for_class d P c0) c = cinverse P c.
Proof.
  unfold cinverse, annotate_instance_for_class. rewrite dget_dupd. unfold dupd_val.
  destruct (str_eqb c0 c) eqn:E; [|reflexivity].
  apply str_eqb_eq in E. subst c0. destruct (dget P c); reflexivity.
Qed.

Lemma cinverse_inv_for_class d P c0 c :
  cinverse (annotate_instance_inv_for_class d P c0) c =
  if str_eqb c0 c then fold_left pincr d (cinverse P c) else cinverse P c.
Proof.
  unfold cinverse, annotate_instance_inv_for_class. rewrite dget_dupd. unfold dupd_val.
  destruct (str_eqb c0 c) eqn:E; [|reflexivity].
  apply str_eqb_eq in E. subst c0. destruct (dget P c); reflexivity.
Qed.

Lemma cdirect_inv_for_class d P c0 c :
  cdirect (annotate_instance_inv_for_class d P c0) c = cdirect P c.
Proof.
  unfold cdirect, annotate_instance_inv_for_class. rewrite dget_dupd. unfold dupd_val.
  destruct (str_eqb c0 c) eqn:E; [|reflexivity].
  apply str_eqb_eq in E. subst c0. destruct (dget P c); reflexivity.
Qed.

Lemma plook_cdirect_fold_for_class d cs : forall P c p k card,
  plook (cdirect (fold_left (annotate_instance_for_class d) cs P) c) p k card =
  plook (cdirect P c) p k card + count_str c cs * count_tuple (p, k, card) d.
Proof.
  induction cs as [|c0 cs IH]; intros P c p k card; cbn [fold_left count_str]; [lia|].
  rewrite IH, cdirect_for_class, (str_eqb_sym c0 c). destruct (str_eqb c c0).
  - rewrite plook_fold_pincr, N.mul_add_distr_r. lia.
  - lia.
Qed.

Lemma cinverse_fold_for_class d cs : forall P c,
  cinverse (fold_left (annotate_instance_for_class d) cs P) c = cinverse P c.
Proof.
  induction cs as [|c0 cs IH]; intros P c; cbn [fold_left]; [reflexivity|].
  rewrite IH. apply cinverse_for_class.
Qed.

Lemma plook_cinverse_fold_inv_for_class d cs : forall P c p k card,
  plook (cinverse (fold_left (annotate_instance_inv_for_class d) cs P) c) p k card =
  plook (cinverse P c) p k card + count_str c cs * count_tuple (p, k, card) d.
Proof.
  induction cs as [|c0 cs IH]; intros P c p k card; cbn [fold_left count_str]; [lia|].
  rewrite IH, cinverse_inv_for_class, (str_eqb_sym c0 c). destruct (str_eqb c c0).
  - rewrite plook_fold_pincr, N.mul_add_distr_r. lia.
  - lia.
Qed.

Lemma cdirect_fold_inv_for_class d cs : forall P c,
  cdirect (fold_left (annotate_instance_inv_for_class d) cs P) c = cdirect P c.
Proof.
  induction cs as [|c0 cs IH]; intros P c; cbn [fold_left]; [reflexivity|].
  rewrite IH. apply cdirect_inv_for_class.
Qed.

(** keys: a class that is already a key of the profile adds none *)
Lemma dkeys_fold_for_class d cs : forall P,
  (forall c, In c cs -> In c (dkeys P)) ->
  dkeys (fold_left (annotate_instance_for_class d) cs P) = dkeys P.
Proof.
  induction cs as [|c0 cs IH]; intros P H; cbn [fold_left]; [reflexivity|].
  assert (E : dkeys (annotate_instance_for_class d P c0) = dkeys P).
  { unfold annotate_instance_for_class. apply dkeys_dupd_mem. apply dmem_In. apply H. left. reflexivity. }
  rewrite IH; [assumption|]. intros c Hc. rewrite E. apply H. right. assumption.
Qed.

Lemma dkeys_fold_inv_for_class d cs : forall P,
  (forall c, In c cs -> In c (dkeys P)) ->
  dkeys (fold_left (annotate_instance_inv_for_class d) cs P) = dkeys P.
Proof.
  induction cs as [|c0 cs IH]; intros P H; cbn [fold_left]; [reflexivity|].
  assert (E : dkeys (annotate_instance_inv_for_class d P c0) = dkeys P).
  { unfold annotate_instance_inv_for_class. apply dkeys_dupd_mem. apply dmem_In. apply H. left. reflexivity. }
  rewrite IH; [assumption|]. intros c Hc. rewrite E. apply H. right. assumption.
Qed.

(** the invariant of class entries *)
Definition centry_ok (inv : bool) (e : centry) : Prop :=
  pdict_ok (c_direct e) /\ pdict_ok (c_inverse e) /\ (inv = false -> c_inverse e = []).

Definition cprofile_ok (inv : bool) (P : cprofile) : Prop :=
  Forall (fun ce : str * centry => centry_ok inv (snd ce)) P.

Lemma centry_ok_empty inv : centry_ok inv empty_centry.
Proof. split; [apply pdict_ok_nil | split; [apply pdict_ok_nil | reflexivity]]. Qed.

Lemma cprofile_ok_fold_for_class inv d cs : forall P,
  cprofile_ok inv P -> cprofile_ok inv (fold_left (annotate_instance_for_class d) cs P).
Proof.
  induction cs as [|c0 cs IH]; intros P H; cbn [fold_left]; [assumption|].
  apply IH. unfold annotate_instance_for_class. apply Forall_dupd; [assumption | |].
  - intros e _ [O1 [O2 O3]]. cbn [snd] in *. split; [|split]; cbn; try assumption.
    apply pdict_ok_fold_pincr. assumption.
  - intros _. cbn [snd]. split; [|split]; cbn; try reflexivity.
    + apply pdict_ok_fold_pincr. apply pdict_ok_nil.
    + apply pdict_ok_nil.
Qed.

Lemma cprofile_ok_fold_inv_for_class d cs : forall P,
  cprofile_ok true P -> cprofile_ok true (fold_left (annotate_instance_inv_for_class d) cs P).
Proof.
  induction cs as [|c0 cs IH]; intros P H; cbn [fold_left]; [assumption|].
  apply IH. unfold annotate_instance_inv_for_class. apply Forall_dupd; [assumption | |].
  - intros e _ [O1 [O2 O3]]. cbn [snd] in *. split; [|split]; cbn; try assumption.
    + apply pdict_ok_fold_pincr. assumption.
    + discriminate.
  - intros _. cbn [snd]. split; [|split]; cbn.
    + apply pdict_ok_nil.
    + apply pdict_ok_fold_pincr. apply pdict_ok_nil.
    + discriminate.
Qed.

(** *** one instance *)

Lemma plook_cdirect_annotate_instance tau inv P e c p k card :
  plook (cdirect (annotate_instance tau inv P e) c) p k card =
  plook (cdirect P c) p k card +
  count_str c (i_classes e) * count_tuple (p, k, card) (tuples_of tau (i_direct e)).
Proof.
  unfold annotate_instance. destruct inv.
  - rewrite cdirect_fold_inv_for_class. apply plook_cdirect_fold_for_class.
  - apply plook_cdirect_fold_for_class.
Qed.

Lemma plook_cinverse_annotate_instance_true tau P e c p k card :
  plook (cinverse (annotate_instance tau true P e) c) p k card =
  plook (cinverse P c) p k card +
  count_str c (i_classes e) * count_tuple (p, k, card) (tuples_of tau (i_inverse e)).
Proof.
  unfold annotate_instance.
  rewrite plook_cinverse_fold_inv_for_class, cinverse_fold_for_class. reflexivity.
Qed.

Lemma dkeys_annotate_instance tau inv P e :
  (forall c, In c (i_classes e) -> In c (dkeys P)) ->
  dkeys (annotate_instance tau inv P e) = dkeys P.
Proof.
  intros H. unfold annotate_instance.
  assert (E := dkeys_fold_for_class (tuples_of tau (i_direct e)) (i_classes e) P H).
  destruct inv; [|assumption].
  rewrite dkeys_fold_inv_for_class; [assumption|]. intros c Hc. rewrite E. apply H. assumption.
Qed.

Lemma cprofile_ok_annotate_instance tau inv P e :
  cprofile_ok inv P -> cprofile_ok inv (annotate_instance tau inv P e).
Proof.
  intros H. unfold annotate_instance. destruct inv.
  - apply cprofile_ok_fold_inv_for_class. apply cprofile_ok_fold_for_class. assumption.
  - apply cprofile_ok_fold_for_class. assumption.
Qed.

(** *** all instances *)

Definition b2n (b : bool) : N := if b then 1 else 0.

Definition build_profile (tau : str) (inv : bool) (ID : idict) (P0 : cprofile) : cprofile :=
  fold_left (fun P (ie : str * ientry) => annotate_instance tau inv P (snd ie)) ID P0.

Lemma plook_cdirect_build tau inv L : forall P c p k card,
  Forall (fun ie : str * ientry => feat_wf (i_direct (snd ie))) L ->
  plook (cdirect (build_profile tau inv L P) c) p k card =
  plook (cdirect P c) p k card +
  sumN (map (fun ie : str * ientry =>
               count_str c (i_classes (snd ie)) *
               b2n (card_ok tau p card (fget (i_direct (snd ie)) p k))) L).
Proof.
  unfold build_profile.
  induction L as [|ie L IH]; intros P c p k card HW; cbn [fold_left map sumN]; [lia|].
  inversion HW as [|? ? W HW']. subst.
  rewrite IH by assumption. rewrite plook_cdirect_annotate_instance.
  rewrite count_tuple_tuples_of by assumption. unfold b2n. lia.
Qed.

Lemma plook_cinverse_build_true tau L : forall P c p k card,
  Forall (fun ie : str * ientry => feat_wf (i_inverse (snd ie))) L ->
  plook (cinverse (build_profile tau true L P) c) p k card =
  plook (cinverse P c) p k card +
  sumN (map (fun ie : str * ientry =>
               count_str c (i_classes (snd ie)) *
               b2n (card_ok tau p card (fget (i_inverse (snd ie)) p k))) L).
Proof.
  unfold build_profile.
  induction L as [|ie L IH]; intros P c p k card HW; cbn [fold_left map sumN]; [lia|].
  inversion HW as [|? ? W HW']. subst.
  rewrite IH by assumption. rewrite plook_cinverse_annotate_instance_true.
  rewrite count_tuple_tuples_of by assumption. unfold b2n. lia.
Qed.

Lemma dkeys_build tau inv L : forall P,
  (forall ie c, In ie L -> In c (i_classes (snd ie)) -> In c (dkeys P)) ->
  dkeys (build_profile tau inv L P) = dkeys P.
Proof.
  unfold build_profile.
  induction L as [|ie L IH]; intros P H; cbn [fold_left]; [reflexivity|].
  assert (E : dkeys (annotate_instance tau inv P (snd ie)) = dkeys P).
  { apply dkeys_annotate_instance. intros c Hc. apply (H ie c); [left; reflexivity | assumption]. }
  rewrite IH; [assumption|]. intros ie' c Hie Hc. rewrite E. apply (H ie' c); [right|]; assumption.
Qed.

Lemma cprofile_ok_build tau inv L : forall P,
  cprofile_ok inv P -> cprofile_ok inv (build_profile tau inv L P).
Proof.
  unfold build_profile.
  induction L as [|ie L IH]; intros P H; cbn [fold_left]; [assumption|].
  apply IH. apply cprofile_ok_annotate_instance. assumption.
Qed.

(** *** initialisation: class keys and class counts *)

Definition stepT (acc : cprofile * ccounts) (c : str) : cprofile * ccounts :=
  (dset (fst acc) c empty_centry, dset (snd acc) c 0).

Definition stepA (acc : cprofile * ccounts) (c : str) : cprofile * ccounts :=
  let P := if dmem (fst acc) c then fst acc else dset (fst acc) c empty_centry in
  let C := if dmem (fst acc) c then snd acc else dset (snd acc) c 0 in
  (P, dupd C c 0 (fun n => n + 1)).

Lemma init_targets_fold ts : init_targets ts = fold_left stepT ts ([], []).
Proof. reflexivity. Qed.

Lemma fold_left_concat {A B : Type} (f : A -> B -> A) (ls : list (list B)) : forall a,
  fold_left (fun a l => fold_left f l a) ls a = fold_left f (List.concat ls) a.
Proof.
  induction ls as [|l ls IH]; intros a; cbn; [reflexivity|].
  rewrite fold_left_app. apply IH.
Qed.

Lemma init_annotated_fold (I : insts) acc :
  init_annotated I acc = fold_left stepA (List.concat (map snd I)) acc.
Proof.
  unfold init_annotated. rewrite <- fold_left_concat.
  revert acc. induction I as [|ie I' IH]; intros acc; cbn [fold_left map]; [reflexivity|].
  apply IH.
Qed.

(** invariant: same keys in both dictionaries, every profile entry empty *)
Definition init_inv (acc : cprofile * ccounts) : Prop :=
  dkeys (fst acc) = dkeys (snd acc) /\
  Forall (fun ce : str * centry => snd ce = empty_centry) (fst acc).

Lemma add_new_idem l c : add_new (add_new l c) c = add_new l c.
Proof.
  unfold add_new. destruct (mem_str c l) eqn:E.
  - rewrite E. reflexivity.
  - rewrite mem_str_app. cbn. rewrite str_eqb_refl, orb_true_r. reflexivity.
Qed.

Lemma add_new_mem l c : mem_str c l = true -> add_new l c = l.
Proof. intros H. unfold add_new. rewrite H. reflexivity. Qed.

Lemma init_inv_stepT acc c : init_inv acc -> init_inv (stepT acc c).
Proof.
  intros [K E]. split; cbn [stepT fst snd].
  - rewrite !dkeys_dset_add_new, K. reflexivity.
  - apply Forall_dset; [assumption | reflexivity].
Qed.

Lemma dkeys_stepT acc c : dkeys (fst (stepT acc c)) = add_new (dkeys (fst acc)) c.
Proof. cbn. apply dkeys_dset_add_new. Qed.

Lemma init_inv_stepA acc c : init_inv acc -> init_inv (stepA acc c).
Proof.
  intros [K E]. unfold stepA. destruct (dmem (fst acc) c) eqn:M; split; cbn [fst snd].
  - rewrite dkeys_dupd_add_new, <- K. rewrite add_new_mem; [reflexivity|].
    rewrite <- dmem_mem_str. assumption.
  - assumption.
  - rewrite dkeys_dupd_add_new, !dkeys_dset_add_new, add_new_idem, K. reflexivity.
  - apply Forall_dset; [assumption | reflexivity].
Qed.

Lemma dkeys_stepA acc c : dkeys (fst (stepA acc c)) = add_new (dkeys (fst acc)) c.
Proof.
  unfold stepA. cbn [fst]. destruct (dmem (fst acc) c) eqn:M.
  - rewrite add_new_mem; [reflexivity|]. rewrite <- dmem_mem_str. assumption.
  - apply dkeys_dset_add_new.
Qed.

Lemma getN_stepA acc c c' :
  init_inv acc ->
  getN (snd (stepA acc c)) c' = getN (snd acc) c' + (if str_eqb c c' then 1 else 0).
Proof.
  intros [K _]. unfold stepA. cbn [snd]. destruct (dmem (fst acc) c) eqn:M.
  - apply getN_incrN.
  - change (dupd (dset (snd acc) c 0) c 0 (fun n => n + 1)) with (incrN (dset (snd acc) c 0) c).
    rewrite getN_incrN. f_equal. unfold getN. rewrite dget_dset.
    destruct (str_eqb c c') eqn:E; [|reflexivity].
    apply str_eqb_eq in E. subst c'.
    assert (H : dget (snd acc) c = None).
    { apply dget_None. rewrite <- K. apply dmem_false. assumption. }
    rewrite H. reflexivity.
Qed.

Lemma fold_stepT_char ts : forall acc,
  init_inv acc ->
  init_inv (fold_left stepT ts acc) /\
  dkeys (fst (fold_left stepT ts acc)) = fold_left add_new ts (dkeys (fst acc)).
Proof.
  induction ts as [|c ts IH]; intros acc H; cbn [fold_left]; [split; [assumption | reflexivity]|].
  destruct (IH (stepT acc c) (init_inv_stepT acc c H)) as [H1 H2]. split; [assumption|].
  rewrite H2, dkeys_stepT. reflexivity.
Qed.

Lemma zero_fold_stepT ts : forall acc,
  Forall (fun kv : str * N => snd kv = 0) (snd acc) ->
  Forall (fun kv : str * N => snd kv = 0) (snd (fold_left stepT ts acc)).
Proof.
  induction ts as [|c ts IH]; intros acc H; cbn [fold_left]; [assumption|].
  apply IH. cbn [stepT snd]. apply Forall_dset; [assumption | reflexivity].
Qed.

Lemma getN_all_zero (C : dict N) c : Forall (fun kv : str * N => snd kv = 0) C -> getN C c = 0.
Proof.
  intros H. unfold getN. destruct (dget C c) as [n|] eqn:E; [|reflexivity].
  apply dget_In in E. rewrite Forall_forall in H. apply (H (c, n)). assumption.
Qed.

Lemma fold_stepA_char cs : forall acc,
  init_inv acc ->
  init_inv (fold_left stepA cs acc) /\
  dkeys (fst (fold_left stepA cs acc)) = fold_left add_new cs (dkeys (fst acc)) /\
  forall c, getN (snd (fold_left stepA cs acc)) c = getN (snd acc) c + count_str c cs.
Proof.
  induction cs as [|c0 cs IH]; intros acc H; cbn [fold_left].
  - split; [assumption|]. split; [reflexivity|]. intros c. cbn. lia.
  - destruct (IH (stepA acc c0) (init_inv_stepA acc c0 H)) as [H1 [H2 H3]].
    split; [assumption|]. split.
    + rewrite H2, dkeys_stepA. reflexivity.
    + intros c. rewrite H3, getN_stepA by assumption. cbn [count_str].
      rewrite (str_eqb_sym c0 c). lia.
Qed.

Lemma class_count_concat (I : insts) c : class_count I c = count_str c (List.concat (map snd I)).
Proof.
  unfold class_count. induction I as [|[i cs] I' IH]; cbn [map sumN List.concat snd]; [reflexivity|].
  rewrite count_str_app, IH, count_in_count_str. reflexivity.
Qed.

(** the initial profile and the class counts *)
Lemma init_char (targets : list str) (I : insts) P0 C0 :
  init_annotated I (init_targets targets) = (P0, C0) ->
  dkeys P0 = class_keys targets I /\
  dkeys C0 = dkeys P0 /\
  Forall (fun ce : str * centry => snd ce = empty_centry) P0 /\
  (forall c, getN C0 c = class_count I c) /\
  (forall c, In c (dkeys P0) -> dget C0 c = Some (class_count I c)).
Proof.
  rewrite init_annotated_fold, init_targets_fold. intros E.
  assert (H0 : init_inv (([], []) : cprofile * ccounts)) by (split; [reflexivity | constructor]).
  destruct (fold_stepT_char targets _ H0) as [HT KT].
  pose proof (zero_fold_stepT targets ([], []) (Forall_nil _)) as ZT.
  destruct (fold_stepA_char (List.concat (map snd I)) _ HT) as [[KA EA] [KK GN]].
  rewrite E in *. cbn [fst snd] in *.
  assert (Keys : dkeys P0 = class_keys targets I).
  { rewrite KK, KT. cbn [dkeys map]. rewrite <- fold_left_app.
    unfold class_keys. rewrite uniq_first_first_occ. apply first_occ_fold. }
  assert (Cnt : forall c, getN C0 c = class_count I c).
  { intros c. rewrite GN, class_count_concat. rewrite (getN_all_zero _ c ZT). lia. }
  split; [assumption|]. split; [symmetry; assumption|]. split; [assumption|]. split; [assumption|].
  intros c Hc. rewrite KA in Hc. apply In_dkeys_dget in Hc. destruct Hc as [n [Hn _]].
  specialize (Cnt c). unfold getN in Cnt. rewrite Hn in Cnt. rewrite Hn, Cnt. reflexivity.
Qed.

(** *** the profile before cleaning *)

Definition targets_of (c : pcfg) : list str :=
  match p_targets c with Some l => l | None => [] end.

(** [P1] and [C0] of [profile], given the result [ID] of the feature pass *)
Definition raw_profile (c : pcfg) (I : insts) (ID : idict) : cprofile * ccounts :=
  let '(P0, C0) := init_annotated I (init_targets (targets_of c)) in
  (build_profile (p_tau c) (p_inverse c) ID P0, C0).

Lemma profile_unfold c I g :
  profile c I g =
  match annotate_all (p_tau c) (p_inverse c) g (adapt I) with
  | inr e => inr e
  | inl ID =>
    let '(P1, C0) := raw_profile c I ID in
    if p_remove_empty c then
      match clean_profile (S (List.length P1)) (p_inverse c) (orig_labels c) P1 with
      | inl P2 => inl (P2, C0, ID)
      | inr e => inr e
      end
    else inl (P1, C0, ID)
  end.
Proof.
  unfold profile, raw_profile, targets_of, build_profile.
  destruct (init_annotated I (init_targets match p_targets c with Some l => l | None => [] end)) as [P0 C0].
  reflexivity.
Qed.

Lemma cdirect_empty P c :
  Forall (fun ce : str * centry => snd ce = empty_centry) P -> cdirect P c = [] /\ cinverse P c = [].
Proof.
  intros H. unfold cdirect, cinverse. destruct (dget P c) as [e|] eqn:E; [|split; reflexivity].
  apply dget_In in E. rewrite Forall_forall in H. specialize (H (c, e) E). cbn in H. subst e.
  split; reflexivity.
Qed.

Lemma In_concat_map_snd (I : insts) i cs c : In (i, cs) I -> In c cs -> In c (List.concat (map snd I)).
Proof.
  intros Hi Hc. apply in_concat. exists cs. split; [|assumption].
  apply in_map_iff. exists (i, cs). split; [reflexivity | assumption].
Qed.

Lemma sumN_b2n_pos {A : Type} (w : A -> N) (b : A -> bool) l :
  0 < sumN (map (fun x => w x * b2n (b x)) l) <-> exists x, In x l /\ 0 < w x /\ b x = true.
Proof.
  rewrite sumN_pos_ex. split.
  - intros [y [Hy Py]]. apply in_map_iff in Hy. destruct Hy as [x [<- Hx]].
    exists x. split; [assumption|]. destruct (b x); cbn in Py; [split; [lia | reflexivity] | lia].
  - intros [x [Hx [Pw Hb]]]. exists (w x * b2n (b x)). split.
    + apply in_map_iff. exists x. auto.
    + rewrite Hb. cbn. lia.
Qed.

(** [occ] as the sum the model computes *)
Lemma occ_as_sum dir tau I G c p k card :
  occ dir tau I G c p k card =
  sumN (map (fun ie : str * list str =>
               count_str c (snd ie) * b2n (card_ok tau p card (cnt dir tau I G (fst ie) p k))) I).
Proof.
  unfold occ. apply sumN_map_ext. intros ie _.
  rewrite count_in_count_str. destruct (card_ok tau p card _); cbn; lia.
Qed.

(** an [occ] is positive for some cardinality iff some instance of the class
    has the key at all *)
Lemma occ_pos_iff dir tau I G c p k :
  (exists card, 0 < occ dir tau I G c p k card) <->
  (exists i cs, In (i, cs) I /\ In c cs /\ 0 < cnt dir tau I G i p k).
Proof.
  split.
  - intros [card H]. rewrite occ_as_sum in H.
    apply (sumN_b2n_pos (fun ie : str * list str => count_str c (snd ie))
                        (fun ie => card_ok tau p card (cnt dir tau I G (fst ie) p k))) in H.
    destruct H as [[i cs] [Hi [Hw Hb]]]. cbn [fst snd] in *.
    exists i, cs. split; [assumption|]. split; [apply count_str_pos; assumption|].
    apply card_ok_pos in Hb. assumption.
  - intros [i [cs [Hi [Hc Hn]]]]. destruct (card_ok_some tau p _ Hn) as [card Hk].
    exists card. rewrite occ_as_sum.
    apply (sumN_b2n_pos (fun ie : str * list str => count_str c (snd ie))
                        (fun ie => card_ok tau p card (cnt dir tau I G (fst ie) p k))).
    exists (i, cs). cbn [fst snd]. split; [assumption|]. split; [apply count_str_pos; assumption | assumption].
Qed.

Lemma occ_over_ID dir tau I G c p k card (ID : idict) :
  dmapv i_classes ID = I ->
  occ dir tau I G c p k card =
  sumN (map (fun ie : str * ientry =>
               count_str c (i_classes (snd ie)) *
               b2n (card_ok tau p card (cnt dir tau I G (fst ie) p k))) ID).
Proof.
  intros HC. rewrite occ_as_sum.
  set (h := fun ie : str * list str => count_str c (snd ie) * b2n (card_ok tau p card (cnt dir tau I G (fst ie) p k))).
  transitivity (sumN (map h (dmapv i_classes ID))); [rewrite HC; reflexivity|].
  unfold dmapv. rewrite map_map. reflexivity.
Qed.

Section ProfileCounts.
  Variables (cfg : pcfg) (I : insts) (G : graph).
  Let tau := p_tau cfg.
  Let inv := p_inverse cfg.

  (** *** (b) the raw profile contains exactly the declarative counts *)
  Theorem profile_counts_char ID P1 C0 :
    NoDup (dkeys I) ->
    annotate_all tau inv G (adapt I) = inl ID ->
    raw_profile cfg I ID = (P1, C0) ->
    dkeys P1 = class_keys (targets_of cfg) I /\
    dkeys C0 = dkeys P1 /\
    NoDup (dkeys P1) /\
    (forall c, In c (dkeys P1) -> dget C0 c = Some (class_count I c)) /\
    forall c e, dget P1 c = Some e ->
      (forall p k card, plook (c_direct e) p k card = occ Direct tau I G c p k card) /\
      (forall p k, pmem (c_direct e) p k = true <-> exists card, 0 < occ Direct tau I G c p k card) /\
      (if inv
       then (forall p k card, plook (c_inverse e) p k card = occ Inverse tau I G c p k card) /\
            (forall p k, pmem (c_inverse e) p k = true <-> exists card, 0 < occ Inverse tau I G c p k card)
       else c_inverse e = []).
  Proof.
    intros NDI HA HR. unfold raw_profile in HR.
    destruct (init_annotated I (init_targets (targets_of cfg))) as [P0 C0'] eqn:HI.
    injection HR as HP1 HC0. subst C0'. fold tau inv in HP1. subst P1.
    set (P1 := build_profile tau inv ID P0).
    destruct (init_char _ _ _ _ HI) as [KP [KC [EP [_ CC]]]].
    destruct (annotate_all_char tau inv I G ID HA) as [HC [HK HE]].
    assert (NDID : NoDup (dkeys ID)) by (rewrite HK; assumption).
    (* entries of ID seen through dget *)
    assert (HIn : forall ie, In ie ID -> dget ID (fst ie) = Some (snd ie)).
    { intros [i e] Hie. apply In_dget_NoDup; assumption. }
    assert (WD : Forall (fun ie : str * ientry => feat_wf (i_direct (snd ie))) ID).
    { apply Forall_forall. intros ie Hie. destruct (HE _ _ (HIn ie Hie)) as [_ [W _]]. assumption. }
    assert (WI : Forall (fun ie : str * ientry => feat_wf (i_inverse (snd ie))) ID).
    { apply Forall_forall. intros ie Hie. destruct (HE _ _ (HIn ie Hie)) as [_ [_ [W _]]]. assumption. }
    (* keys *)
    assert (KP1 : dkeys P1 = dkeys P0).
    { apply dkeys_build. intros [i e] c Hie Hc. cbn [snd] in Hc.
      rewrite KP. unfold class_keys. rewrite uniq_first_first_occ. apply In_first_occ.
      apply in_or_app. right. apply (In_concat_map_snd I i (i_classes e)); [|assumption].
      rewrite <- HC. unfold dmapv. apply in_map_iff. exists (i, e). split; [reflexivity | assumption]. }
    split; [rewrite KP1; assumption|]. split; [rewrite KP1; assumption|].
    split. { rewrite KP1, KP. unfold class_keys. rewrite uniq_first_first_occ. apply NoDup_first_occ. }
    split. { intros c Hc. apply CC. rewrite <- KP1. assumption. }
    intros c e He.
    assert (OK : cprofile_ok inv P1).
    { apply cprofile_ok_build. apply Forall_forall. intros ce Hce.
      rewrite Forall_forall in EP. rewrite (EP ce Hce). apply centry_ok_empty. }
    assert (OKe : centry_ok inv e).
    { unfold cprofile_ok in OK. rewrite Forall_forall in OK. apply (OK (c, e)). apply dget_In. assumption. }
    destruct OKe as [O1 [O2 O3]].
    destruct (cdirect_empty P0 c EP) as [D0 I0].
    (* the sums over ID and over I agree *)
    assert (SumD : forall p k card,
      plook (c_direct e) p k card = occ Direct tau I G c p k card).
    { intros p k card.
      assert (Ee : c_direct e = cdirect P1 c) by (unfold cdirect; rewrite He; reflexivity).
      rewrite Ee. unfold P1. rewrite plook_cdirect_build by assumption. rewrite D0, plook_nil, N.add_0_l.
      rewrite (occ_over_ID Direct tau I G c p k card ID HC).
      apply sumN_map_ext. intros ie Hie. destruct (HE _ _ (HIn ie Hie)) as [_ [_ [_ [F _]]]].
      rewrite F. reflexivity. }
    split; [exact SumD|]. split.
    { intros p k. split.
      - intros Hm. destruct (O1 p k Hm) as [card Hc]. exists card. rewrite <- SumD. assumption.
      - intros [card Hc]. apply (plook_pos_pmem _ _ _ card). rewrite SumD. assumption. }
    destruct inv eqn:Einv; [|apply O3; reflexivity].
    assert (SumI : forall p k card,
      plook (c_inverse e) p k card = occ Inverse tau I G c p k card).
    { intros p k card.
      assert (Ee : c_inverse e = cinverse P1 c) by (unfold cinverse; rewrite He; reflexivity).
      rewrite Ee. unfold P1. rewrite plook_cinverse_build_true by assumption. rewrite I0, plook_nil, N.add_0_l.
      rewrite (occ_over_ID Inverse tau I G c p k card ID HC).
      apply sumN_map_ext. intros ie Hie. destruct (HE _ _ (HIn ie Hie)) as [_ [_ [_ [_ [_ [F _]]]]]].
      rewrite F. reflexivity. }
    split; [exact SumI|].
    intros p k. split.
    - intros Hm. destruct (O2 p k Hm) as [card Hc]. exists card. rewrite <- SumI. assumption.
    - intros [card Hc]. apply (plook_pos_pmem _ _ _ card). rewrite SumI. assumption.
  Qed.
End ProfileCounts.

(** ** (c) direct features do not depend on the inverse flag

    The run without inverse paths is the run with inverse paths with every
    inverse component erased ([strip_i] on instances, [strip_c] on classes):
    a simulation, so the equality is structural (order included). *)

Definition strip_i (e : ientry) : ientry :=
  {| i_classes := i_classes e; i_direct := i_direct e; i_inverse := [] |}.

Definition strip_c (e : centry) : centry :=
  {| c_direct := c_direct e; c_inverse := [] |}.

Lemma shapes_of_strip J id : shapes_of (dmapv strip_i J) id = shapes_of J id.
Proof. unfold shapes_of. rewrite dget_dmapv. destruct (dget J id); reflexivity. Qed.

Lemma tracked_strip J id : tracked (dmapv strip_i J) id = tracked J id.
Proof. apply dmem_dmapv. Qed.

Lemma annotate_subject_strip tau J t :
  annotate_subject tau (dmapv strip_i J) t =
  match annotate_subject tau J t with
  | inl J' => inl (dmapv strip_i J')
  | inr e => inr e
  end.
Proof.
  unfold annotate_subject. destruct (type_of_obj tau (tp t) (to t)) as [ty|]; [|reflexivity].
  f_equal. destruct (to t) as [n|c dt]; [rewrite shapes_of_strip|];
    (apply dupd_dmapv; [reflexivity | intros v; reflexivity]).
Qed.

Lemma annotate_object_strip tau J t o :
  tracked J (nid o) = true -> dmapv strip_i (annotate_object tau J t o) = dmapv strip_i J.
Proof.
  intros H. unfold annotate_object. apply dmapv_dupd_absorb; [intros v; reflexivity | exact H].
Qed.

Lemma annotate_triple_strip tau J t :
  annotate_triple tau false (dmapv strip_i J) t =
  match annotate_triple tau true J t with
  | inl J' => inl (dmapv strip_i J')
  | inr e => inr e
  end.
Proof.
  unfold annotate_triple. rewrite tracked_strip.
  destruct (tracked J (nid (ts t))).
  - rewrite annotate_subject_strip. destruct (annotate_subject tau J t) as [J1|e]; [|reflexivity].
    destruct (to t) as [o|c dt]; [|reflexivity].
    destruct (tracked J1 (nid o)) eqn:Htr; [|reflexivity].
    rewrite annotate_object_strip by assumption. reflexivity.
  - destruct (to t) as [o|c dt]; [|reflexivity].
    destruct (tracked J (nid o)) eqn:Htr; [|reflexivity].
    rewrite annotate_object_strip by assumption. reflexivity.
Qed.

Lemma annotate_all_strip tau g : forall J,
  annotate_all tau false g (dmapv strip_i J) =
  match annotate_all tau true g J with
  | inl ID => inl (dmapv strip_i ID)
  | inr e => inr e
  end.
Proof.
  induction g as [|t g IH]; intros J; cbn [annotate_all]; [reflexivity|].
  rewrite annotate_triple_strip. destruct (annotate_triple tau true J t) as [J'|e]; [|reflexivity].
  apply IH.
Qed.

Lemma strip_adapt I : dmapv strip_i (adapt I) = adapt I.
Proof. unfold adapt, dmapv. rewrite map_map. reflexivity. Qed.

(** the feature pass: same outcome class, same direct features *)
Lemma annotate_all_inverse_flag tau g I :
  annotate_all tau false g (adapt I) =
  match annotate_all tau true g (adapt I) with
  | inl ID => inl (dmapv strip_i ID)
  | inr e => inr e
  end.
Proof. rewrite <- (strip_adapt I) at 1. apply annotate_all_strip. Qed.

Lemma for_class_strip d P c :
  annotate_instance_for_class d (dmapv strip_c P) c =
  dmapv strip_c (annotate_instance_for_class d P c).
Proof.
  unfold annotate_instance_for_class. apply dupd_dmapv; [reflexivity | intros v; reflexivity].
Qed.

Lemma fold_for_class_strip d cs : forall P,
  fold_left (annotate_instance_for_class d) cs (dmapv strip_c P) =
  dmapv strip_c (fold_left (annotate_instance_for_class d) cs P).
Proof.
  induction cs as [|c cs IH]; intros P; cbn [fold_left]; [reflexivity|].
  rewrite for_class_strip. apply IH.
Qed.

Lemma dmem_fold_for_class d cs : forall P c,
  dmem (fold_left (annotate_instance_for_class d) cs P) c = dmem P c || mem_str c cs.
Proof.
  induction cs as [|c0 cs IH]; intros P c; cbn [fold_left mem_str]; [rewrite orb_false_r; reflexivity|].
  rewrite IH. unfold annotate_instance_for_class. rewrite dmem_dupd, (str_eqb_sym c0 c).
  destruct (str_eqb c c0), (dmem P c), (mem_str c cs); reflexivity.
Qed.

Lemma fold_inv_for_class_absorb d cs : forall P,
  (forall c, In c cs -> dmem P c = true) ->
  dmapv strip_c (fold_left (annotate_instance_inv_for_class d) cs P) = dmapv strip_c P.
Proof.
  induction cs as [|c0 cs IH]; intros P H; cbn [fold_left]; [reflexivity|].
  rewrite IH.
  - unfold annotate_instance_inv_for_class. apply dmapv_dupd_absorb; [intros v; reflexivity|].
    apply H. left. reflexivity.
  - intros c Hc. unfold annotate_instance_inv_for_class. rewrite dmem_dupd.
    rewrite (H c) by (right; assumption). apply orb_true_r.
Qed.

Lemma annotate_instance_strip tau P e :
  annotate_instance tau false (dmapv strip_c P) (strip_i e) =
  dmapv strip_c (annotate_instance tau true P e).
Proof.
  unfold annotate_instance. cbn [strip_i i_classes i_direct].
  rewrite fold_for_class_strip. symmetry. apply fold_inv_for_class_absorb.
  intros c Hc. rewrite dmem_fold_for_class. apply mem_str_In in Hc. rewrite Hc. apply orb_true_r.
Qed.

Lemma build_profile_strip tau ID : forall P,
  build_profile tau false (dmapv strip_i ID) (dmapv strip_c P) =
  dmapv strip_c (build_profile tau true ID P).
Proof.
  unfold build_profile. induction ID as [|[i e] ID IH]; intros P; cbn [fold_left dmapv map fst snd]; [reflexivity|].
  rewrite annotate_instance_strip. apply IH.
Qed.

Definition set_inverse (c : pcfg) (b : bool) : pcfg :=
  {| p_tau := p_tau c; p_inverse := b; p_remove_empty := p_remove_empty c;
     p_targets := p_targets c; p_map_labels := p_map_labels c |}.

Lemma raw_profile_strip cfg I ID P1 C0 :
  raw_profile (set_inverse cfg true) I ID = (P1, C0) ->
  raw_profile (set_inverse cfg false) I (dmapv strip_i ID) = (dmapv strip_c P1, C0).
Proof.
  unfold raw_profile, targets_of. cbn [set_inverse p_targets p_tau p_inverse].
  destruct (init_annotated I (init_targets match p_targets cfg with Some l => l | None => [] end))
    as [P0 C0'] eqn:HI.
  intros E. injection E as E1 E2. subst C0' P1. f_equal.
  destruct (init_char _ _ _ _ HI) as [_ [_ [EP _]]].
  rewrite <- build_profile_strip. f_equal. symmetry. apply dmapv_id.
  apply Forall_forall. intros ce Hce. rewrite Forall_forall in EP. rewrite (EP ce Hce). reflexivity.
Qed.

(** *** (c), without cleaning: the whole result of the run without inverse
    paths is the stripped result of the run with inverse paths -- in
    particular both runs succeed or fail together *)
Theorem profile_inverse_flag_raw cfg I G :
  p_remove_empty cfg = false ->
  profile (set_inverse cfg false) I G =
  match profile (set_inverse cfg true) I G with
  | inl (P, C, ID) => inl (dmapv strip_c P, C, dmapv strip_i ID)
  | inr e => inr e
  end.
Proof.
  intros HR. rewrite !profile_unfold. cbn [set_inverse p_tau p_inverse p_remove_empty]. rewrite HR.
  rewrite annotate_all_inverse_flag.
  destruct (annotate_all (p_tau cfg) true G (adapt I)) as [ID|e]; [|reflexivity].
  destruct (raw_profile (set_inverse cfg true) I ID) as [P1 C0] eqn:E.
  rewrite (raw_profile_strip cfg I ID P1 C0 E). reflexivity.
Qed.

Lemma dget_strip_c P c : dget (dmapv strip_c P) c = option_map strip_c (dget P c).
Proof. apply dget_dmapv. Qed.

(** the statement in "both runs succeed" form *)
Theorem profile_direct_independent_of_inverse cfg I G Pt Ct IDt Pf Cf IDf :
  p_remove_empty cfg = false ->
  profile (set_inverse cfg true) I G = inl (Pt, Ct, IDt) ->
  profile (set_inverse cfg false) I G = inl (Pf, Cf, IDf) ->
  Cf = Ct /\
  dkeys Pf = dkeys Pt /\
  map (fun ce : str * centry => (fst ce, c_direct (snd ce))) Pf =
  map (fun ce : str * centry => (fst ce, c_direct (snd ce))) Pt /\
  (forall c et ef, dget Pt c = Some et -> dget Pf c = Some ef -> c_direct ef = c_direct et) /\
  map (fun ie : str * ientry => (fst ie, i_direct (snd ie))) IDf =
  map (fun ie : str * ientry => (fst ie, i_direct (snd ie))) IDt.
Proof.
  intros HR Ht Hf. rewrite (profile_inverse_flag_raw cfg I G HR), Ht in Hf.
  injection Hf as E1 E2 E3. subst Pf Cf IDf.
  split; [reflexivity|]. split; [apply dkeys_dmapv|]. split.
  { unfold dmapv. rewrite map_map. reflexivity. }
  split.
  { intros c et ef H1 H2. rewrite dget_strip_c, H1 in H2. cbn in H2. injection H2 as <-. reflexivity. }
  unfold dmapv. rewrite map_map. reflexivity.
Qed.

(** ** (e) the counts do not depend on the order of the statements *)

Theorem cnt_perm dir tau I G G' i p k :
  Permutation G G' -> cnt dir tau I G i p k = cnt dir tau I G' i p k.
Proof. intros H. unfold cnt. apply sumN_perm. apply Permutation_map. assumption. Qed.

Theorem occ_perm dir tau I G G' c p k card :
  Permutation G G' -> occ dir tau I G c p k card = occ dir tau I G' c p k card.
Proof.
  intros H. unfold occ. apply sumN_map_ext. intros ie _.
  rewrite (cnt_perm dir tau I G G' (fst ie) p k H). reflexivity.
Qed.

(** [class_count I c] does not mention the graph at all; stated for symmetry *)
Theorem class_count_perm (I : insts) (G G' : graph) c :
  Permutation G G' -> class_count I c = class_count I c.
Proof. reflexivity. Qed.

(** nor does the success of the feature pass *)
Theorem annotate_all_ok_perm tau inv I G G' :
  Permutation G G' ->
  (exists ID, annotate_all tau inv G (adapt I) = inl ID) ->
  (exists ID, annotate_all tau inv G' (adapt I) = inl ID).
Proof.
  intros HP H. apply annotate_all_ok_iff.
  pose proof (proj1 (annotate_all_ok_iff tau inv I G) H) as H'.
  intros t Ht. apply H'. apply Permutation_in with (l := G'); [apply Permutation_sym|]; assumption.
Qed.

(** ** (d) cleaning *)

Definition clean_entry (ks : list str) (e : centry) : centry :=
  {| c_direct := remove_keys_pdict ks (c_direct e);
     c_inverse := remove_keys_pdict ks (c_inverse e) |}.

Definition not_in (ks : list str) (k : str) : bool := negb (mem_str k ks).

Lemma remove_keys_pdict_dmapv ks d :
  remove_keys_pdict ks d = dmapv (dfilter (not_in ks)) d.
Proof. reflexivity. Qed.

Lemma remove_iteration_eq ks P :
  remove_iteration ks P = dfilter (not_in ks) (dmapv (clean_entry ks) P).
Proof. reflexivity. Qed.

Lemma filter_all_false {A : Type} (f : A -> bool) l :
  (forall x, In x l -> f x = false) -> filter f l = [].
Proof.
  induction l as [|x l IH]; cbn; [reflexivity|]. intros H.
  rewrite (H x) by auto. apply IH. intros y Hy. apply H. auto.
Qed.

Lemma remove_keys_pdict_nil d : remove_keys_pdict [] d = d.
Proof.
  rewrite remove_keys_pdict_dmapv. apply dmapv_id. apply Forall_forall. intros [p m] _. cbn [snd].
  apply dfilter_true. intros k _. reflexivity.
Qed.

Lemma clean_entry_nil e : clean_entry [] e = e.
Proof. unfold clean_entry. rewrite !remove_keys_pdict_nil. destruct e; reflexivity. Qed.

Lemma remove_iteration_nil P : remove_iteration [] P = P.
Proof.
  rewrite remove_iteration_eq. rewrite dfilter_true by (intros k _; reflexivity).
  apply dmapv_id. apply Forall_forall. intros [c e] _. cbn [snd]. apply clean_entry_nil.
Qed.

(** removing type keys never empties or creates a property dictionary, so
    "has features" is stable under cleaning *)
Lemma has_features_clean_entry inv ks e : has_features inv (clean_entry ks e) = has_features inv e.
Proof.
  unfold has_features, clean_entry. cbn [c_direct c_inverse].
  destruct (c_direct e); cbn; [|reflexivity].
  destruct inv; [|reflexivity]. destruct (c_inverse e); reflexivity.
Qed.

Definition removable (inv : bool) (labels : list str) (ce : str * centry) : bool :=
  negb (mem_str (fst ce) labels) && negb (has_features inv (snd ce)).

Lemma shapes_to_remove_eq inv labels P :
  shapes_to_remove inv labels P = map fst (filter (removable inv labels) P).
Proof. reflexivity. Qed.

(** which class keys are removed: not an original label and no features *)
Lemma In_shapes_to_remove inv labels P c :
  In c (shapes_to_remove inv labels P) <->
  exists e, In (c, e) P /\ ~ In c labels /\ has_features inv e = false.
Proof.
  rewrite shapes_to_remove_eq, in_map_iff. split.
  - intros [[c' e] [E H]]. cbn in E. subst c'. apply filter_In in H. destruct H as [H R].
    unfold removable in R. cbn [fst snd] in R. apply andb_true_iff in R. destruct R as [R1 R2].
    exists e. split; [assumption|]. split.
    + apply mem_str_false. apply negb_true_iff. assumption.
    + apply negb_true_iff. assumption.
  - intros [e [H [NL NF]]]. exists (c, e). split; [reflexivity|]. apply filter_In. split; [assumption|].
    unfold removable. cbn [fst snd]. apply mem_str_false in NL. rewrite NL, NF. reflexivity.
Qed.

(** after one iteration nothing is left to remove *)
Lemma shapes_to_remove_stable inv labels P :
  shapes_to_remove inv labels (remove_iteration (shapes_to_remove inv labels P) P) = [].
Proof.
  set (ks := shapes_to_remove inv labels P).
  rewrite shapes_to_remove_eq. rewrite filter_all_false; [reflexivity|].
  intros [c e'] H. rewrite remove_iteration_eq in H. unfold dfilter in H.
  apply filter_In in H. destruct H as [H NK]. cbn [fst] in NK.
  unfold dmapv in H. apply in_map_iff in H. destruct H as [[c0 e] [E H]]. cbn [fst snd] in E.
  injection E as -> <-.
  unfold removable. cbn [fst snd]. rewrite has_features_clean_entry.
  destruct (negb (mem_str c labels) && negb (has_features inv e)) eqn:R; [|reflexivity].
  exfalso. unfold not_in in NK. apply negb_true_iff, mem_str_false in NK. apply NK.
  unfold ks. rewrite shapes_to_remove_eq. apply in_map_iff. exists (c, e). split; [reflexivity|].
  apply filter_In. split; [assumption | exact R].
Qed.

(** *** (d) cleaning is exactly one removal round and never fails *)
Theorem clean_profile_char fuel inv labels P :
  clean_profile (S fuel) inv labels P =
  inl (remove_iteration (shapes_to_remove inv labels P) P).
Proof.
  cbn [clean_profile]. destruct (shapes_to_remove inv labels P) as [|k ks] eqn:E.
  - rewrite remove_iteration_nil. reflexivity.
  - destruct fuel as [|fuel]; [reflexivity|]. cbn [clean_profile].
    rewrite <- E, shapes_to_remove_stable. reflexivity.
Qed.

(** what one removal round does to the class keys ... *)
Lemma dkeys_remove_iteration ks P :
  dkeys (remove_iteration ks P) = filter (not_in ks) (dkeys P).
Proof. rewrite remove_iteration_eq, dkeys_dfilter, dkeys_dmapv. reflexivity. Qed.

(** ... to the class entries ... *)
Lemma dget_remove_iteration ks P c :
  dget (remove_iteration ks P) c =
  if mem_str c ks then None else option_map (clean_entry ks) (dget P c).
Proof.
  rewrite remove_iteration_eq, dget_dfilter, dget_dmapv. unfold not_in.
  destruct (mem_str c ks); reflexivity.
Qed.

(** ... and to the type-key dictionaries: exactly the type keys equal to a
    removed class key disappear, properties and every other entry stay *)
Lemma dkeys_remove_keys_pdict ks d : dkeys (remove_keys_pdict ks d) = dkeys d.
Proof. rewrite remove_keys_pdict_dmapv. apply dkeys_dmapv. Qed.

Lemma dget_remove_keys_pdict ks d p :
  dget (remove_keys_pdict ks d) p = option_map (dfilter (not_in ks)) (dget d p).
Proof. rewrite remove_keys_pdict_dmapv. apply dget_dmapv. Qed.

Lemma plook_remove_keys_pdict ks d p k card :
  plook (remove_keys_pdict ks d) p k card = if mem_str k ks then 0 else plook d p k card.
Proof.
  unfold plook. rewrite dget_remove_keys_pdict. destruct (dget d p) as [m|]; cbn [option_map].
  - rewrite dget_dfilter. unfold not_in. destruct (mem_str k ks); reflexivity.
  - destruct (mem_str k ks); reflexivity.
Qed.

Lemma pmem_remove_keys_pdict ks d p k :
  pmem (remove_keys_pdict ks d) p k = negb (mem_str k ks) && pmem d p k.
Proof.
  unfold pmem. rewrite dget_remove_keys_pdict. destruct (dget d p) as [m|]; cbn [option_map].
  - rewrite dmem_dfilter. reflexivity.
  - rewrite andb_false_r. reflexivity.
Qed.

(** the type keys of a property keep their order *)
Lemma dkeys_dget_remove_keys_pdict ks d p m :
  dget d p = Some m ->
  exists m', dget (remove_keys_pdict ks d) p = Some m' /\ dkeys m' = filter (not_in ks) (dkeys m).
Proof.
  intros H. rewrite dget_remove_keys_pdict, H. cbn. eexists. split; [reflexivity|]. apply dkeys_dfilter.
Qed.

(** *** the result of [profile], cleaning included *)
Theorem profile_result c I g :
  profile c I g =
  match annotate_all (p_tau c) (p_inverse c) g (adapt I) with
  | inr e => inr e
  | inl ID =>
    let '(P1, C0) := raw_profile c I ID in
    inl (if p_remove_empty c
         then remove_iteration (shapes_to_remove (p_inverse c) (orig_labels c) P1) P1
         else P1, C0, ID)
  end.
Proof.
  rewrite profile_unfold. destruct (annotate_all (p_tau c) (p_inverse c) g (adapt I)) as [ID|e]; [|reflexivity].
  destruct (raw_profile c I ID) as [P1 C0]. destruct (p_remove_empty c); [|reflexivity].
  rewrite clean_profile_char. reflexivity.
Qed.

(** cleaning is the only way [profile] could fail after the feature pass, and
    it does not *)
Corollary profile_err c I g e :
  profile c I g = inr e <-> annotate_all (p_tau c) (p_inverse c) g (adapt I) = inr e.
Proof.
  rewrite profile_result. destruct (annotate_all (p_tau c) (p_inverse c) g (adapt I)) as [ID|e'].
  - destruct (raw_profile c I ID) as [P1 C0]. split; discriminate.
  - split; intros H; injection H as ->; reflexivity.
Qed.

(** with [remove_empty_shapes=False], or when no class is featureless (or
    every featureless one is an original label), [profile] returns the raw
    profile unchanged *)
Corollary profile_unchanged c I g ID P1 C0 :
  annotate_all (p_tau c) (p_inverse c) g (adapt I) = inl ID ->
  raw_profile c I ID = (P1, C0) ->
  p_remove_empty c = false \/ shapes_to_remove (p_inverse c) (orig_labels c) P1 = [] ->
  profile c I g = inl (P1, C0, ID).
Proof.
  intros HA HR H. rewrite profile_result, HA, HR. destruct H as [H|H].
  - rewrite H. reflexivity.
  - rewrite H, remove_iteration_nil. destruct (p_remove_empty c); reflexivity.
Qed.

Lemma shapes_to_remove_nil_iff inv labels P :
  shapes_to_remove inv labels P = [] <->
  forall c e, In (c, e) P -> In c labels \/ has_features inv e = true.
Proof.
  split.
  - intros H c e Hce. destruct (mem_str c labels) eqn:ML; [left; apply mem_str_In; assumption|].
    destruct (has_features inv e) eqn:HF; [right; reflexivity|]. exfalso.
    assert (Hin : In c (shapes_to_remove inv labels P)).
    { apply In_shapes_to_remove. exists e. split; [assumption|]. split; [apply mem_str_false|]; assumption. }
    rewrite H in Hin. destruct Hin.
  - intros H. destruct (shapes_to_remove inv labels P) as [|c ks] eqn:E; [reflexivity|]. exfalso.
    assert (Hin : In c (shapes_to_remove inv labels P)) by (rewrite E; left; reflexivity).
    apply In_shapes_to_remove in Hin. destruct Hin as [e [Hce [NL NF]]].
    destruct (H c e Hce) as [H1|H1]; [contradiction | congruence].
Qed.

(** ** well-formedness of the profile: unique keys at the three levels,
    positive counters, no empty inner dictionary.  This is what lets a user
    go from "an entry [(p, m)] of [c_direct e], an entry [(k, cd)] of [m], an
    entry [(card, n)] of [cd]" (how the later stages iterate) to the lookup
    form of (b). *)

Definition pdict_wf (d : pdict) : Prop :=
  NoDup (dkeys d) /\
  Forall (fun pm : str * dict cdict =>
            NoDup (dkeys (snd pm)) /\
            Forall (fun kc : str * cdict => NoDup (ckeys (snd kc)) /\ cpos (snd kc)) (snd pm)) d.

Definition pdict_ne (d : pdict) : Prop :=
  Forall (fun pm : str * dict cdict =>
            snd pm <> [] /\ Forall (fun kc : str * cdict => snd kc <> []) (snd pm)) d.

Lemma pdict_wf_nil : pdict_wf [].
Proof. split; constructor. Qed.

Lemma pdict_ne_nil : pdict_ne [].
Proof. constructor. Qed.

Lemma pdict_wf_pincr d x : pdict_wf d -> pdict_wf (pincr d x).
Proof.
  destruct x as [[p k] c]. intros [ND FA]. unfold pincr. split.
  - apply NoDup_dkeys_dupd. assumption.
  - apply Forall_dupd; [assumption | |].
    + intros m _ [NDm FAm]. cbn [snd] in *. split.
      * apply NoDup_dkeys_dupd. assumption.
      * apply Forall_dupd; [assumption | |].
        -- intros cd _ [NDc PC]. cbn [snd] in *. split; [apply NoDup_ckeys_cincr | apply cpos_cincr]; assumption.
        -- intros _. cbn. split; [constructor; [intros [] | constructor] | constructor; [cbn; lia | constructor]].
    + intros _. cbn. split; [constructor; [intros [] | constructor]|].
      constructor; [|constructor]. cbn.
      split; [constructor; [intros [] | constructor] | constructor; [cbn; lia | constructor]].
Qed.

Lemma pdict_ne_pincr d x : pdict_ne d -> pdict_ne (pincr d x).
Proof.
  destruct x as [[p k] c]. intros FA. unfold pincr.
  apply Forall_dupd; [assumption | |].
  - intros m _ [NEm FAm]. cbn [snd] in *. split; [apply dupd_not_nil|].
    apply Forall_dupd; [assumption | |].
    + intros cd _ _. cbn [snd]. apply cincr_not_nil.
    + intros _. cbn [snd]. apply cincr_not_nil.
  - intros _. cbn [snd]. split; [apply dupd_not_nil|].
    cbn. constructor; [cbn; discriminate | constructor].
Qed.

Lemma pdict_wf_fold_pincr l d : pdict_wf d -> pdict_wf (fold_left pincr l d).
Proof.
  revert d. induction l as [|x l IH]; intros d H; cbn; [assumption|].
  apply IH. apply pdict_wf_pincr. assumption.
Qed.

Lemma pdict_ne_fold_pincr l d : pdict_ne d -> pdict_ne (fold_left pincr l d).
Proof.
  revert d. induction l as [|x l IH]; intros d H; cbn; [assumption|].
  apply IH. apply pdict_ne_pincr. assumption.
Qed.

(** from entries to lookups *)
Lemma pdict_wf_entry d p m k cd card n :
  pdict_wf d -> In (p, m) d -> In (k, cd) m -> In (card, n) cd ->
  dget d p = Some m /\ dget m k = Some cd /\ plook d p k card = n /\ 0 < n.
Proof.
  intros [ND FA] Hp Hk Hc.
  rewrite Forall_forall in FA. destruct (FA _ Hp) as [NDm FAm]. cbn [snd] in *.
  rewrite Forall_forall in FAm. destruct (FAm _ Hk) as [NDc PC]. cbn [snd] in *.
  pose proof (In_dget_NoDup d p m ND Hp) as E1.
  pose proof (In_dget_NoDup m k cd NDm Hk) as E2.
  split; [assumption|]. split; [assumption|]. split.
  - unfold plook. rewrite E1, E2. apply In_cget_NoDup; assumption.
  - unfold cpos in PC. rewrite Forall_forall in PC. apply (PC (card, n)). assumption.
Qed.

(** a non-empty dictionary has an entry *)
Lemma pdict_ne_pmem d : pdict_ne d -> d <> [] -> exists p k, pmem d p k = true.
Proof.
  intros NE H. destruct d as [|[p m] d]; [congruence|].
  inversion NE as [|? ? [NEm _] _]. subst. cbn [snd] in NEm.
  destruct m as [|[k cd] m]; [congruence|].
  exists p, k. unfold pmem, dmem. cbn [dget]. rewrite str_eqb_refl. cbn [dget]. rewrite str_eqb_refl. reflexivity.
Qed.

Lemma pmem_not_nil d p k : pmem d p k = true -> d <> [].
Proof. intros H E. subst. discriminate. Qed.

Definition centry_wf (e : centry) : Prop :=
  pdict_wf (c_direct e) /\ pdict_ne (c_direct e) /\ pdict_wf (c_inverse e) /\ pdict_ne (c_inverse e).

Definition cprofile_wf (P : cprofile) : Prop :=
  Forall (fun ce : str * centry => centry_wf (snd ce)) P.

Lemma centry_wf_empty : centry_wf empty_centry.
Proof. split; [apply pdict_wf_nil | split; [apply pdict_ne_nil | split; [apply pdict_wf_nil | apply pdict_ne_nil]]]. Qed.

Lemma cprofile_wf_fold_for_class d cs : forall P,
  cprofile_wf P -> cprofile_wf (fold_left (annotate_instance_for_class d) cs P).
Proof.
  induction cs as [|c0 cs IH]; intros P H; cbn [fold_left]; [assumption|].
  apply IH. unfold annotate_instance_for_class. apply Forall_dupd; [assumption | |].
  - intros e _ [W1 [W2 [W3 W4]]]. cbn [snd] in *. unfold centry_wf. cbn [c_direct c_inverse].
    split; [apply pdict_wf_fold_pincr; assumption|].
    split; [apply pdict_ne_fold_pincr; assumption|]. split; assumption.
  - intros _. cbn [snd]. unfold centry_wf. cbn [c_direct c_inverse empty_centry].
    split; [apply pdict_wf_fold_pincr, pdict_wf_nil|].
    split; [apply pdict_ne_fold_pincr, pdict_ne_nil|]. split; [apply pdict_wf_nil | apply pdict_ne_nil].
Qed.

Lemma cprofile_wf_fold_inv_for_class d cs : forall P,
  cprofile_wf P -> cprofile_wf (fold_left (annotate_instance_inv_for_class d) cs P).
Proof.
  induction cs as [|c0 cs IH]; intros P H; cbn [fold_left]; [assumption|].
  apply IH. unfold annotate_instance_inv_for_class. apply Forall_dupd; [assumption | |].
  - intros e _ [W1 [W2 [W3 W4]]]. cbn [snd] in *. unfold centry_wf. cbn [c_direct c_inverse].
    split; [assumption|]. split; [assumption|].
    split; [apply pdict_wf_fold_pincr; assumption | apply pdict_ne_fold_pincr; assumption].
  - intros _. cbn [snd]. unfold centry_wf. cbn [c_direct c_inverse empty_centry].
    split; [apply pdict_wf_nil|]. split; [apply pdict_ne_nil|].
    split; [apply pdict_wf_fold_pincr, pdict_wf_nil | apply pdict_ne_fold_pincr, pdict_ne_nil].
Qed.

Lemma cprofile_wf_annotate_instance tau inv P e :
  cprofile_wf P -> cprofile_wf (annotate_instance tau inv P e).
Proof.
  intros H. unfold annotate_instance. destruct inv.
  - apply cprofile_wf_fold_inv_for_class. apply cprofile_wf_fold_for_class. assumption.
  - apply cprofile_wf_fold_for_class. assumption.
Qed.

Lemma cprofile_wf_build tau inv L : forall P,
  cprofile_wf P -> cprofile_wf (build_profile tau inv L P).
Proof.
  unfold build_profile.
  induction L as [|ie L IH]; intros P H; cbn [fold_left]; [assumption|].
  apply IH. apply cprofile_wf_annotate_instance. assumption.
Qed.

(** the raw profile is well-formed, whatever the instance dictionary *)
Theorem raw_profile_wf cfg I ID P1 C0 :
  raw_profile cfg I ID = (P1, C0) -> cprofile_wf P1.
Proof.
  unfold raw_profile. destruct (init_annotated I (init_targets (targets_of cfg))) as [P0 C0'] eqn:HI.
  intros E. injection E as <- _.
  destruct (init_char _ _ _ _ HI) as [_ [_ [EP _]]].
  apply cprofile_wf_build. apply Forall_forall. intros ce Hce.
  rewrite Forall_forall in EP. rewrite (EP ce Hce). apply centry_wf_empty.
Qed.

Lemma cprofile_wf_dget P c e : cprofile_wf P -> dget P c = Some e -> centry_wf e.
Proof.
  intros H E. apply dget_In in E. unfold cprofile_wf in H. rewrite Forall_forall in H. apply (H (c, e) E).
Qed.

Section ProfileEntries.
  Variables (cfg : pcfg) (I : insts) (G : graph).
  Let tau := p_tau cfg.
  Let inv := p_inverse cfg.

  (** *** (b), entry-wise: every number stored in the raw profile is the
      declarative count, and is positive; "has features" means some count is
      positive *)
  Theorem profile_entries_char ID P1 C0 :
    NoDup (dkeys I) ->
    annotate_all tau inv G (adapt I) = inl ID ->
    raw_profile cfg I ID = (P1, C0) ->
    forall c e, dget P1 c = Some e ->
      centry_wf e /\
      (forall p m k cd card n, In (p, m) (c_direct e) -> In (k, cd) m -> In (card, n) cd ->
         n = occ Direct tau I G c p k card /\ 0 < n) /\
      (c_direct e <> [] <-> exists p k card, 0 < occ Direct tau I G c p k card) /\
      (inv = true ->
       (forall p m k cd card n, In (p, m) (c_inverse e) -> In (k, cd) m -> In (card, n) cd ->
          n = occ Inverse tau I G c p k card /\ 0 < n) /\
       (c_inverse e <> [] <-> exists p k card, 0 < occ Inverse tau I G c p k card)).
  Proof.
    intros NDI HA HR c e He.
    pose proof (cprofile_wf_dget P1 c e (raw_profile_wf cfg I ID P1 C0 HR) He) as W.
    destruct W as [W1 [W2 [W3 W4]]].
    destruct (profile_counts_char cfg I G ID P1 C0 NDI HA HR) as [_ [_ [_ [_ HB]]]].
    destruct (HB c e He) as [LD [MD RI]]. fold tau in LD, MD, RI. fold inv in RI.
    split; [exact (conj W1 (conj W2 (conj W3 W4)))|]. split.
    { intros p m k cd card n Hp Hk Hc.
      destruct (pdict_wf_entry _ p m k cd card n W1 Hp Hk Hc) as [_ [_ [E Pn]]].
      split; [rewrite <- LD; symmetry; assumption | assumption]. }
    split.
    { split.
      - intros NE. destruct (pdict_ne_pmem _ W2 NE) as [p [k Hm]].
        apply MD in Hm. destruct Hm as [card Hc]. exists p, k, card. assumption.
      - intros [p [k [card Hc]]]. apply (pmem_not_nil _ p k). apply MD. exists card. assumption. }
    intros Einv. rewrite Einv in RI. destruct RI as [LI MI]. split.
    { intros p m k cd card n Hp Hk Hc.
      destruct (pdict_wf_entry _ p m k cd card n W3 Hp Hk Hc) as [_ [_ [E Pn]]].
      split; [rewrite <- LI; symmetry; assumption | assumption]. }
    split.
    - intros NE. destruct (pdict_ne_pmem _ W4 NE) as [p [k Hm]].
      apply MI in Hm. destruct Hm as [card Hc]. exists p, k, card. assumption.
    - intros [p [k [card Hc]]]. apply (pmem_not_nil _ p k). apply MI. exists card. assumption.
  Qed.
End ProfileEntries.

(** ** (c) with cleaning *)

Lemma raw_profile_keys cfg I G ID P1 C0 :
  annotate_all (p_tau cfg) (p_inverse cfg) G (adapt I) = inl ID ->
  raw_profile cfg I ID = (P1, C0) ->
  dkeys P1 = class_keys (targets_of cfg) I /\ dkeys C0 = dkeys P1.
Proof.
  intros HA HR. unfold raw_profile in HR.
  destruct (init_annotated I (init_targets (targets_of cfg))) as [P0 C0'] eqn:HI.
  injection HR as <- <-.
  destruct (init_char _ _ _ _ HI) as [KP [KC _]].
  destruct (annotate_all_char _ _ I G ID HA) as [HC _].
  assert (KP1 : dkeys (build_profile (p_tau cfg) (p_inverse cfg) ID P0) = dkeys P0).
  { apply dkeys_build. intros [i e] c Hie Hc. cbn [snd] in Hc.
    rewrite KP. unfold class_keys. rewrite uniq_first_first_occ. apply In_first_occ.
    apply in_or_app. right. apply (In_concat_map_snd I i (i_classes e)); [|assumption].
    rewrite <- HC. unfold dmapv. apply in_map_iff. exists (i, e). split; [reflexivity | assumption]. }
  rewrite KP1. split; assumption.
Qed.

Lemma clean_entry_strip ks e : clean_entry ks (strip_c e) = strip_c (clean_entry ks e).
Proof. reflexivity. Qed.

Lemma remove_iteration_strip ks P :
  remove_iteration ks (dmapv strip_c P) = dmapv strip_c (remove_iteration ks P).
Proof.
  rewrite !remove_iteration_eq, <- dfilter_dmapv, !dmapv_dmapv. f_equal.
Qed.

Lemma has_features_false_strip e : has_features false (strip_c e) = has_features false e.
Proof. reflexivity. Qed.

Lemma has_features_true_false e : has_features true e = false -> has_features false e = false.
Proof. unfold has_features. destruct (c_direct e); [reflexivity | discriminate]. Qed.

(** whatever the run with inverse paths removes, the run without removes too *)
Lemma shapes_to_remove_strip_incl labels P c :
  In c (shapes_to_remove true labels P) -> In c (shapes_to_remove false labels (dmapv strip_c P)).
Proof.
  intros H. apply In_shapes_to_remove in H. destruct H as [e [He [NL NF]]].
  apply In_shapes_to_remove. exists (strip_c e). split.
  - unfold dmapv. apply in_map_iff. exists (c, e). split; [reflexivity | assumption].
  - split; [assumption|]. rewrite has_features_false_strip. apply has_features_true_false. assumption.
Qed.

(** the two runs remove the same classes when no non-label class has inverse
    features only *)
Lemma shapes_to_remove_strip_eq labels P :
  (forall c e, In (c, e) P -> ~ In c labels -> c_direct e = [] -> c_inverse e = []) ->
  shapes_to_remove false labels (dmapv strip_c P) = shapes_to_remove true labels P.
Proof.
  intros H. rewrite !shapes_to_remove_eq.
  induction P as [|[c e] P IH]; [reflexivity|].
  cbn [dmapv map fst snd filter].
  assert (E : removable false labels (c, strip_c e) = removable true labels (c, e)).
  { unfold removable. cbn [fst snd]. destruct (mem_str c labels) eqn:ML; [reflexivity|]. cbn [negb andb].
    f_equal. unfold has_features. cbn [strip_c c_direct c_inverse].
    destruct (c_direct e) eqn:ED; [|reflexivity].
    rewrite (H c e (or_introl eq_refl)); [reflexivity | apply mem_str_false; assumption | assumption]. }
  rewrite E. unfold dmapv in IH.
  destruct (removable true labels (c, e)); cbn [map fst]; rewrite IH; try reflexivity;
    intros c' e' Hin; apply H; right; assumption.
Qed.

Lemma orig_labels_set_inverse cfg b : orig_labels (set_inverse cfg b) = orig_labels cfg.
Proof. reflexivity. Qed.

(** *** (c), any [p_remove_empty]: when both cleanings remove the same class
    keys, the run without inverse paths is the stripped run with them *)
Theorem profile_inverse_flag cfg I G :
  (p_remove_empty cfg = true ->
   forall ID P1 C0,
     annotate_all (p_tau cfg) true G (adapt I) = inl ID ->
     raw_profile (set_inverse cfg true) I ID = (P1, C0) ->
     shapes_to_remove false (orig_labels cfg) (dmapv strip_c P1) =
     shapes_to_remove true (orig_labels cfg) P1) ->
  profile (set_inverse cfg false) I G =
  match profile (set_inverse cfg true) I G with
  | inl (P, C, ID) => inl (dmapv strip_c P, C, dmapv strip_i ID)
  | inr e => inr e
  end.
Proof.
  intros HK. rewrite !profile_result.
  cbn [set_inverse p_tau p_inverse p_remove_empty]. rewrite !orig_labels_set_inverse.
  rewrite annotate_all_inverse_flag.
  destruct (annotate_all (p_tau cfg) true G (adapt I)) as [ID|e] eqn:HA; [|reflexivity].
  destruct (raw_profile (set_inverse cfg true) I ID) as [P1 C0] eqn:E.
  rewrite (raw_profile_strip cfg I ID P1 C0 E).
  destruct (p_remove_empty cfg) eqn:HR; [|reflexivity].
  rewrite (HK eq_refl ID P1 C0 eq_refl E), remove_iteration_strip. reflexivity.
Qed.

(** *** (c), any [p_remove_empty], no side condition: class counts and
    instance features agree; a class kept by both runs has the same direct
    counts, except under the type keys that are class keys removed by the run
    without inverse paths (those entries are deleted there) *)
Theorem profile_direct_independent_of_inverse_clean cfg I G Pt Ct IDt Pf Cf IDf :
  profile (set_inverse cfg true) I G = inl (Pt, Ct, IDt) ->
  profile (set_inverse cfg false) I G = inl (Pf, Cf, IDf) ->
  Cf = Ct /\
  IDf = dmapv strip_i IDt /\
  (forall c, In c (dkeys Pf) -> In c (dkeys Pt)) /\
  forall c et ef, dget Pt c = Some et -> dget Pf c = Some ef ->
    forall p k card,
      plook (c_direct ef) p k card =
      if mem_str k (class_keys (targets_of cfg) I) && negb (mem_str k (dkeys Pf))
      then 0 else plook (c_direct et) p k card.
Proof.
  rewrite !profile_result.
  cbn [set_inverse p_tau p_inverse p_remove_empty]. rewrite !orig_labels_set_inverse.
  rewrite annotate_all_inverse_flag.
  destruct (annotate_all (p_tau cfg) true G (adapt I)) as [ID|e] eqn:HA; [|discriminate].
  destruct (raw_profile (set_inverse cfg true) I ID) as [P1 C0] eqn:E.
  rewrite (raw_profile_strip cfg I ID P1 C0 E).
  destruct (raw_profile_keys (set_inverse cfg true) I G ID P1 C0 HA E) as [KP1 _].
  change (targets_of (set_inverse cfg true)) with (targets_of cfg) in KP1.
  intros Ht Hf. injection Ht as <- <- <-. injection Hf as <- <- <-.
  split; [reflexivity|]. split; [reflexivity|].
  destruct (p_remove_empty cfg) eqn:HR.
  - set (Kt := shapes_to_remove true (orig_labels cfg) P1).
    set (Kf := shapes_to_remove false (orig_labels cfg) (dmapv strip_c P1)).
    assert (Incl : forall c, mem_str c Kt = true -> mem_str c Kf = true).
    { intros c H. apply mem_str_In. apply shapes_to_remove_strip_incl. apply mem_str_In. assumption. }
    assert (KfP1 : forall c, mem_str c Kf = true -> In c (dkeys P1)).
    { intros c H. apply mem_str_In in H. apply In_shapes_to_remove in H. destruct H as [e [He _]].
      rewrite <- (dkeys_dmapv strip_c P1). unfold dkeys. apply in_map_iff. exists (c, e). auto. }
    split.
    { intros c. rewrite !dkeys_remove_iteration, dkeys_dmapv, !filter_In. intros [H1 H2].
      split; [assumption|]. unfold not_in in *. destruct (mem_str c Kt) eqn:M; [|reflexivity].
      rewrite (Incl c M) in H2. discriminate. }
    intros c et ef H1 H2 p k card.
    rewrite dget_remove_iteration in H1, H2. rewrite dget_dmapv in H2.
    destruct (mem_str c Kt); [discriminate|]. destruct (mem_str c Kf); [discriminate|].
    destruct (dget P1 c) as [e|]; [|discriminate]. cbn in H1, H2.
    injection H1 as <-. injection H2 as <-. cbn [clean_entry strip_c c_direct].
    rewrite !plook_remove_keys_pdict.
    rewrite dkeys_remove_iteration, dkeys_dmapv, <- KP1.
    destruct (mem_str k Kf) eqn:MK.
    + assert (M1 : mem_str k (dkeys P1) = true) by (apply mem_str_In, KfP1; assumption).
      assert (M2 : mem_str k (filter (not_in Kf) (dkeys P1)) = false).
      { apply mem_str_false. rewrite filter_In. intros [_ H]. unfold not_in in H. rewrite MK in H. discriminate. }
      rewrite M1, M2. reflexivity.
    + destruct (mem_str k Kt) eqn:MT; [rewrite (Incl k MT) in MK; discriminate|].
      destruct (mem_str k (dkeys P1)) eqn:M1; [|reflexivity].
      assert (M2 : mem_str k (filter (not_in Kf) (dkeys P1)) = true).
      { apply mem_str_In. rewrite filter_In. split; [apply mem_str_In; assumption|]. unfold not_in. rewrite MK. reflexivity. }
      rewrite M2. reflexivity.
  - split; [intros c; rewrite dkeys_dmapv; auto|].
    intros c et ef H1 H2 p k card. rewrite dget_dmapv, H1 in H2. cbn in H2. injection H2 as <-.
    cbn [strip_c c_direct]. rewrite dkeys_dmapv, <- KP1.
    destruct (mem_str k (dkeys P1)); reflexivity.
Qed.

(** ** the hypotheses of P1 hold for the tracker's instance dictionary *)

Section TrackerFacts.
  Variables (tau : str) (m : tmode) (Gall : graph).

  (** unique keys; every instance is the subject of a [tau]-triple of the graph *)
  Definition insts_ok (d : insts) : Prop :=
    NoDup (dkeys d) /\
    forall i, In i (dkeys d) -> exists t, In t Gall /\ nid (ts t) = i /\ tp t = tau.

  Lemma insts_ok_nil : insts_ok [].
  Proof. split; [constructor | intros i []]. Qed.

  Lemma relevant_tau t : relevant tau m t = true -> tp t = tau.
  Proof. unfold relevant. intros H. apply andb_true_iff in H. destruct H as [H _]. apply str_eqb_eq. assumption. Qed.

  Lemma insts_ok_add d t o :
    insts_ok d -> In t Gall -> relevant tau m t = true ->
    insts_ok (dupd d (nid (ts t)) [] (fun cs => cs ++ [nid o])).
  Proof.
    intros [ND H] Ht Hr. split; [apply NoDup_dkeys_dupd; assumption|].
    intros i Hi. rewrite dkeys_dupd_add_new in Hi. apply In_add_new in Hi. destruct Hi as [Hi|Hi].
    - apply H. assumption.
    - subst i. exists t. split; [assumption|]. split; [reflexivity | apply relevant_tau; assumption].
  Qed.

  Lemma track_plain_ok g : forall d I,
    (forall t, In t g -> In t Gall) -> insts_ok d ->
    track_plain tau m g d = inl I -> insts_ok I.
  Proof.
    induction g as [|t g IH]; intros d I Hg Hd; cbn [track_plain].
    - intros E. injection E as <-. assumption.
    - assert (Hg' : forall t', In t' g -> In t' Gall) by (intros t' Ht'; apply Hg; right; assumption).
      destruct (relevant tau m t) eqn:Hr; [|apply IH; assumption].
      unfold annotate. destruct (to t) as [o|c dt]; [|discriminate].
      apply IH; [assumption|]. apply insts_ok_add; [assumption | apply Hg; left; reflexivity | assumption].
  Qed.

  Lemma track_cap_ok cap nt g : forall d st I,
    (forall t, In t g -> In t Gall) -> insts_ok d ->
    track_cap tau m cap nt g d st = inl I -> insts_ok I.
  Proof.
    induction g as [|t g IH]; intros d st I Hg Hd; cbn [track_cap].
    - intros E. injection E as <-. assumption.
    - assert (Hg' : forall t', In t' g -> In t' Gall) by (intros t' Ht'; apply Hg; right; assumption).
      destruct (relevant tau m t) eqn:Hr; [|apply IH; assumption].
      destruct (cap_allows tau cap st t) as [[|]|]; [| apply IH; assumption | discriminate].
      destruct (to t) as [o|c dt]; [|discriminate].
      assert (Hd' : insts_ok (dupd d (nid (ts t)) [] (fun cs => cs ++ [nid o]))).
      { apply insts_ok_add; [assumption | apply Hg; left; reflexivity | assumption]. }
      destruct nt as [n|].
      + destruct (Nat.eqb _ n).
        * intros E. injection E as <-. assumption.
        * apply IH; assumption.
      + apply IH; assumption.
  Qed.
End TrackerFacts.

(** the instance dictionary of the tracker satisfies the hypothesis of (b),
    and every instance is the subject of a [tau]-triple *)
Theorem track_insts_ok tau m cap G I :
  track tau m cap G = inl I ->
  NoDup (dkeys I) /\
  forall i, In i (dkeys I) -> exists t, In t G /\ nid (ts t) = i /\ tp t = tau.
Proof.
  unfold track. destruct (cap <=? 0)%Z.
  - apply (track_plain_ok tau m G G); [auto | apply insts_ok_nil].
  - apply (track_cap_ok tau m G); [auto | apply insts_ok_nil].
Qed.

(** ** (c) with cleaning, for instance dictionaries whose listed instances are
    subjects of the graph (in particular the tracker's): no side condition *)

Lemma cnt_pos_of_In dir tau I G i p k t :
  In t G -> 0 < count_in k (contrib dir tau I t i p) -> 0 < cnt dir tau I G i p k.
Proof.
  intros Ht H. unfold cnt. apply sumN_pos_ex. exists (count_in k (contrib dir tau I t i p)).
  split; [|assumption]. apply in_map_iff. exists t. split; [reflexivity | assumption].
Qed.

Lemma keys_direct_head tau I t :
  ~ (tp t = tau /\ is_node (to t) = false) -> exists k ks, keys_direct tau I t = k :: ks.
Proof.
  intros NB. unfold keys_direct. destruct (to t) as [o|c dt].
  - destruct (str_eqb (tp t) tau); eexists; eexists; reflexivity.
  - destruct (str_eqb (tp t) tau) eqn:E.
    + exfalso. apply NB. split; [apply str_eqb_eq; assumption | reflexivity].
    + eexists; eexists; reflexivity.
Qed.

Theorem profile_inverse_flag_subjects cfg I G :
  NoDup (dkeys I) ->
  (forall i cs, In (i, cs) I -> cs <> [] -> exists t, In t G /\ nid (ts t) = i) ->
  profile (set_inverse cfg false) I G =
  match profile (set_inverse cfg true) I G with
  | inl (P, C, ID) => inl (dmapv strip_c P, C, dmapv strip_i ID)
  | inr e => inr e
  end.
Proof.
  intros NDI HS. apply profile_inverse_flag. intros _ ID P1 C0 HA HR.
  apply shapes_to_remove_strip_eq. intros c e Hce _ ED.
  set (cfg' := set_inverse cfg true) in *.
  change (p_tau cfg) with (p_tau cfg') in HA. change true with (p_inverse cfg') in HA.
  destruct (profile_counts_char cfg' I G ID P1 C0 NDI HA HR) as [_ [_ [NDP _]]].
  pose proof (In_dget_NoDup P1 c e NDP Hce) as He.
  destruct (profile_entries_char cfg' I G ID P1 C0 NDI HA HR c e He) as [_ [_ [FD FI]]].
  destruct (FI eq_refl) as [_ FI'].
  destruct (c_inverse e) as [|x r] eqn:EI; [reflexivity|]. exfalso.
  assert (NE : x :: r <> []) by discriminate.
  apply FI' in NE. destruct NE as [p [k [card Hocc]]].
  assert (Hex : exists card, 0 < occ Inverse (p_tau cfg') I G c p k card) by (exists card; assumption).
  apply occ_pos_iff in Hex. destruct Hex as [i [cs [Hi [Hc _]]]].
  assert (Hcs : cs <> []) by (intros ->; destruct Hc).
  destruct (HS i cs Hi Hcs) as [t [Ht Hsub]].
  (* t is not a bad triple, because the pass succeeded *)
  assert (NB : ~ bad_triple (p_tau cfg') I t).
  { apply (proj1 (annotate_all_ok_iff (p_tau cfg') (p_inverse cfg') I G)); [exists ID; assumption | assumption]. }
  assert (Tr : dmem I (nid (ts t)) = true).
  { rewrite Hsub. apply dmem_In. unfold dkeys. apply in_map_iff. exists (i, cs). auto. }
  destruct (keys_direct_head (p_tau cfg') I t) as [k0 [ks Hk]].
  { intros [H1 H2]. apply NB. split; [assumption | split; assumption]. }
  assert (Hcnt : 0 < cnt Direct (p_tau cfg') I G i (tp t) k0).
  { apply (cnt_pos_of_In Direct _ I G i (tp t) k0 t Ht).
    cbn [contrib]. rewrite Hsub, !str_eqb_refl. cbn [andb]. rewrite Hk. cbn [count_in].
    rewrite str_eqb_refl. lia. }
  assert (Hex : exists card, 0 < occ Direct (p_tau cfg') I G c (tp t) k0 card).
  { apply occ_pos_iff. exists i, cs. split; [assumption|]. split; assumption. }
  destruct Hex as [card' Hocc'].
  assert (ND : c_direct e <> []) by (apply FD; exists (tp t), k0, card'; assumption).
  contradiction.
Qed.

(** in particular for the tracker's instance dictionary *)
Corollary profile_inverse_flag_tracked cfg m cap G I :
  track (p_tau cfg) m cap G = inl I ->
  profile (set_inverse cfg false) I G =
  match profile (set_inverse cfg true) I G with
  | inl (P, C, ID) => inl (dmapv strip_c P, C, dmapv strip_i ID)
  | inr e => inr e
  end.
Proof.
  intros HT. destruct (track_insts_ok _ _ _ _ _ HT) as [ND HS].
  apply profile_inverse_flag_subjects; [assumption|].
  intros i cs Hi _. destruct (HS i) as [t [Ht [Hs _]]].
  - unfold dkeys. apply in_map_iff. exists (i, cs). auto.
  - exists t. auto.
Qed.

(** ** the final result of [profile] (cleaning included), entry-wise: the
    form the shape-building stage consumes (it iterates over the entries) *)

Lemma In_dfilter {V : Type} (f : str -> bool) (d : dict V) k v :
  In (k, v) (dfilter f d) <-> In (k, v) d /\ f k = true.
Proof. unfold dfilter. rewrite filter_In. reflexivity. Qed.

Lemma In_dmapv {V W : Type} (f : V -> W) (d : dict V) k w :
  In (k, w) (dmapv f d) <-> exists v, In (k, v) d /\ w = f v.
Proof.
  unfold dmapv. rewrite in_map_iff. split.
  - intros [[k' v] [E H]]. cbn in E. injection E as -> <-. exists v. auto.
  - intros [v [H ->]]. exists (k, v). auto.
Qed.

(** an entry of a cleaned type-key dictionary is an entry of the original *)
Lemma In_remove_keys_pdict ks d p m k cd :
  In (p, m) (remove_keys_pdict ks d) -> In (k, cd) m ->
  exists m1, In (p, m1) d /\ In (k, cd) m1 /\ ~ In k ks.
Proof.
  rewrite remove_keys_pdict_dmapv. intros Hp Hk. apply In_dmapv in Hp. destruct Hp as [m1 [Hp ->]].
  apply In_dfilter in Hk. destruct Hk as [Hk Hn]. exists m1. split; [assumption|]. split; [assumption|].
  unfold not_in in Hn. apply mem_str_false. apply negb_true_iff. assumption.
Qed.

Lemma In_remove_iteration ks P c e :
  In (c, e) (remove_iteration ks P) <-> exists e1, In (c, e1) P /\ e = clean_entry ks e1 /\ ~ In c ks.
Proof.
  rewrite remove_iteration_eq, In_dfilter. split.
  - intros [H Hn]. apply In_dmapv in H. destruct H as [e1 [H ->]]. exists e1.
    split; [assumption|]. split; [reflexivity|]. unfold not_in in Hn. apply mem_str_false, negb_true_iff. assumption.
  - intros [e1 [H [-> Hn]]]. split.
    + apply In_dmapv. exists e1. auto.
    + unfold not_in. apply negb_true_iff, mem_str_false. assumption.
Qed.

Theorem profile_final_char cfg (I : insts) (G : graph) P C ID :
  NoDup (dkeys I) ->
  profile cfg I G = inl (P, C, ID) ->
  annotate_all (p_tau cfg) (p_inverse cfg) G (adapt I) = inl ID /\
  NoDup (dkeys P) /\
  (exists ks, dkeys P = filter (not_in ks) (class_keys (targets_of cfg) I) /\
              (p_remove_empty cfg = false -> ks = [])) /\
  dkeys C = class_keys (targets_of cfg) I /\
  (forall c, In c (class_keys (targets_of cfg) I) -> dget C c = Some (class_count I c)) /\
  forall c e, In (c, e) P ->
    dget P c = Some e /\
    (forall p m k cd card n, In (p, m) (c_direct e) -> In (k, cd) m -> In (card, n) cd ->
       n = occ Direct (p_tau cfg) I G c p k card /\ 0 < n) /\
    (p_inverse cfg = true ->
     forall p m k cd card n, In (p, m) (c_inverse e) -> In (k, cd) m -> In (card, n) cd ->
       n = occ Inverse (p_tau cfg) I G c p k card /\ 0 < n) /\
    (p_inverse cfg = false -> c_inverse e = []).
Proof.
  intros NDI HP. rewrite profile_result in HP.
  destruct (annotate_all (p_tau cfg) (p_inverse cfg) G (adapt I)) as [ID'|err] eqn:HA; [|discriminate].
  destruct (raw_profile cfg I ID') as [P1 C0] eqn:HR.
  injection HP as HP1 HC0 HID. subst C0 ID'.
  destruct (profile_counts_char cfg I G ID P1 C NDI HA HR) as [KP1 [KC [NDP1 [CC HB]]]].
  pose proof (profile_entries_char cfg I G ID P1 C NDI HA HR) as HE.
  split; [reflexivity|].
  set (ks := if p_remove_empty cfg then shapes_to_remove (p_inverse cfg) (orig_labels cfg) P1 else []).
  assert (EP : P = remove_iteration ks P1).
  { unfold ks. destruct (p_remove_empty cfg); [symmetry; assumption|]. rewrite remove_iteration_nil. symmetry. assumption. }
  clear HP1.
  assert (NDP : NoDup (dkeys P)).
  { rewrite EP, dkeys_remove_iteration. apply NoDup_filter. assumption. }
  split; [assumption|]. split.
  { exists ks. split.
    - rewrite EP, dkeys_remove_iteration, KP1. reflexivity.
    - intros H. unfold ks. rewrite H. reflexivity. }
  split; [rewrite KC; assumption|]. split; [intros c Hc; apply CC; rewrite KP1; assumption|].
  intros c e Hce. split; [apply In_dget_NoDup; assumption|].
  rewrite EP in Hce. apply In_remove_iteration in Hce. destruct Hce as [e1 [Hce1 [-> _]]].
  pose proof (In_dget_NoDup P1 c e1 NDP1 Hce1) as He1.
  destruct (HE c e1 He1) as [_ [ED [_ EI]]].
  split.
  { intros p m k cd card n Hp Hk Hc. cbn [clean_entry c_direct] in Hp.
    destruct (In_remove_keys_pdict _ _ _ _ _ _ Hp Hk) as [m1 [Hp1 [Hk1 _]]].
    apply (ED p m1 k cd card n); assumption. }
  split.
  { intros Hinv p m k cd card n Hp Hk Hc. cbn [clean_entry c_inverse] in Hp.
    destruct (In_remove_keys_pdict _ _ _ _ _ _ Hp Hk) as [m1 [Hp1 [Hk1 _]]].
    destruct (EI Hinv) as [EI1 _]. apply (EI1 p m1 k cd card n); assumption. }
  intros Hinv. destruct (HB c e1 He1) as [_ [_ RI]]. rewrite Hinv in RI.
  cbn [clean_entry c_inverse]. rewrite RI. reflexivity.
Qed.

(** completeness: every positive count is stored as an entry *)
Lemma plook_pos_In d p k card :
  0 < plook d p k card ->
  exists m cd, In (p, m) d /\ In (k, cd) m /\ In (card, plook d p k card) cd.
Proof.
  unfold plook. destruct (dget d p) as [m|] eqn:E1; [|lia].
  destruct (dget m k) as [cd|] eqn:E2; [|lia].
  intros H. exists m, cd. split; [apply dget_In; assumption|]. split; [apply dget_In; assumption|].
  apply cget_pos_In. assumption.
Qed.

Theorem profile_final_complete cfg (I : insts) (G : graph) P C ID :
  NoDup (dkeys I) ->
  profile cfg I G = inl (P, C, ID) ->
  forall c e, In (c, e) P ->
  forall p k, (In k (class_keys (targets_of cfg) I) -> In k (dkeys P)) ->
    (forall card, 0 < occ Direct (p_tau cfg) I G c p k card ->
       exists m cd, In (p, m) (c_direct e) /\ In (k, cd) m /\
                    In (card, occ Direct (p_tau cfg) I G c p k card) cd) /\
    (p_inverse cfg = true ->
     forall card, 0 < occ Inverse (p_tau cfg) I G c p k card ->
       exists m cd, In (p, m) (c_inverse e) /\ In (k, cd) m /\
                    In (card, occ Inverse (p_tau cfg) I G c p k card) cd).
Proof.
  intros NDI HP c e Hce p k Hk. rewrite profile_result in HP.
  destruct (annotate_all (p_tau cfg) (p_inverse cfg) G (adapt I)) as [ID'|err] eqn:HA; [|discriminate].
  destruct (raw_profile cfg I ID') as [P1 C0] eqn:HR.
  injection HP as HP1 HC0 HID. subst C0 ID'.
  destruct (profile_counts_char cfg I G ID P1 C NDI HA HR) as [KP1 [_ [NDP1 [_ HB]]]].
  set (ks := if p_remove_empty cfg then shapes_to_remove (p_inverse cfg) (orig_labels cfg) P1 else []).
  assert (EP : P = remove_iteration ks P1).
  { unfold ks. destruct (p_remove_empty cfg); [symmetry; assumption|]. rewrite remove_iteration_nil. symmetry. assumption. }
  clear HP1.
  assert (Hks : forall x, In x ks -> In x (dkeys P1)).
  { intros x Hx. unfold ks in Hx. destruct (p_remove_empty cfg); [|destruct Hx].
    apply In_shapes_to_remove in Hx. destruct Hx as [ex [Hex _]].
    unfold dkeys. apply in_map_iff. exists (x, ex). auto. }
  assert (Mk : mem_str k ks = false).
  { apply mem_str_false. intros Hin. pose proof (Hks k Hin) as H1. rewrite KP1 in H1.
    apply Hk in H1. rewrite EP, dkeys_remove_iteration in H1. apply filter_In in H1.
    destruct H1 as [_ H1]. unfold not_in in H1. apply mem_str_In in Hin. rewrite Hin in H1. discriminate. }
  rewrite EP in Hce. apply In_remove_iteration in Hce. destruct Hce as [e1 [Hce1 [-> _]]].
  pose proof (In_dget_NoDup P1 c e1 NDP1 Hce1) as He1.
  destruct (HB c e1 He1) as [LD [_ RI]].
  split.
  - intros card Hocc. rewrite <- LD in Hocc |- *.
    assert (E : plook (c_direct (clean_entry ks e1)) p k card = plook (c_direct e1) p k card).
    { cbn [clean_entry c_direct]. rewrite plook_remove_keys_pdict, Mk. reflexivity. }
    rewrite <- E in Hocc |- *. apply plook_pos_In. assumption.
  - intros Hinv card Hocc. rewrite Hinv in RI. destruct RI as [LI _]. rewrite <- LI in Hocc |- *.
    assert (E : plook (c_inverse (clean_entry ks e1)) p k card = plook (c_inverse e1) p k card).
    { cbn [clean_entry c_inverse]. rewrite plook_remove_keys_pdict, Mk. reflexivity. }
    rewrite <- E in Hocc |- *. apply plook_pos_In. assumption.
Qed.

(** ** simple facts about the declarative counts (used by the frequency
    properties: a ratio [occ / class_count] is at most one) *)

Lemma sumN_le_pointwise {A : Type} (f g : A -> N) l :
  (forall x, In x l -> f x <= g x) -> sumN (map f l) <= sumN (map g l).
Proof.
  induction l as [|x l IH]; cbn; [lia|]. intros H.
  assert (f x <= g x) by (apply H; auto).
  assert (sumN (map f l) <= sumN (map g l)) by (apply IH; intros y Hy; apply H; auto). lia.
Qed.

Theorem occ_le_class_count dir tau I G c p k card :
  occ dir tau I G c p k card <= class_count I c.
Proof.
  unfold occ, class_count. apply sumN_le_pointwise. intros ie _.
  destruct (card_ok tau p card _); lia.
Qed.

(** an exact cardinality is a special case of "+" (ordinary properties) *)
Theorem occ_exact_le_plus dir tau I G c p k n :
  str_eqb p tau = false ->
  occ dir tau I G c p k (CKn n) <= occ dir tau I G c p k CKplus.
Proof.
  intros Hp. unfold occ. apply sumN_le_pointwise. intros ie _.
  unfold card_ok. rewrite Hp. destruct (0 <? cnt dir tau I G (fst ie) p k); cbn [andb]; [|lia].
  destruct (N.eqb n _); lia.
Qed.

(** for the instantiation property only cardinality 1 exists *)
Theorem occ_tau_only_one dir tau I G c k card :
  card <> CKn 1 -> occ dir tau I G c tau k card = 0.
Proof.
  intros Hc. unfold occ.
  assert (E : forall l : insts, sumN (map (fun ie : str * list str =>
              if card_ok tau tau card (cnt dir tau I G (fst ie) tau k) then count_in c (snd ie) else 0) l) = 0).
  { induction l as [|ie l IH]; cbn [map sumN]; [reflexivity|]. rewrite IH.
    unfold card_ok. rewrite str_eqb_refl.
    assert (F : ckey_eqb card (CKn 1) = false) by (apply ckey_eqb_neq; assumption).
    rewrite F, andb_false_r. reflexivity. }
  apply E.
Qed.

(** cardinality 0 never occurs *)
Theorem occ_zero_card dir tau I G c p k : occ dir tau I G c p k (CKn 0) = 0.
Proof.
  unfold occ.
  assert (E : forall l : insts, sumN (map (fun ie : str * list str =>
              if card_ok tau p (CKn 0) (cnt dir tau I G (fst ie) p k) then count_in c (snd ie) else 0) l) = 0).
  { induction l as [|ie l IH]; cbn [map sumN]; [reflexivity|]. rewrite IH.
    unfold card_ok. destruct (cnt dir tau I G (fst ie) p k) as [|q] eqn:En; [reflexivity|].
    cbn [N.ltb N.compare andb]. destruct (str_eqb p tau); reflexivity. }
  apply E.
Qed.
