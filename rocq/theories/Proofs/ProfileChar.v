(** * Foundation theorem P1: the class profile the model builds contains
    exactly the counts of [Spec/Counts.v].

    (a) [annotate_all_char], [annotate_all_err], [annotate_all_ok_iff]
    (b) [profile_counts_char]
    (c) [profile_direct_independent_of_inverse]
    (d) [clean_profile_char] and corollaries
    (e) [cnt_perm], [occ_perm] *)
From Coq Require Import List Ascii String ZArith NArith Bool Lia Permutation.
From Shexer Require Import Lib.PyStr Lib.Dict Gen.Consts Spec.Rdf Model.Tracker Model.Profiler
     Spec.Counts Proofs.DictLemmas.
Import ListNotations.
Local Open Scope N_scope.

(** ** bridges between the spec's own helpers and the library's *)

Lemma count_in_count_str k l : count_in k l = count_str k l.
Proof. induction l as [|x l IH]; cbn; [reflexivity|]. rewrite IH. reflexivity. Qed.

Lemma uniq_first_first_occ l : uniq_first l = first_occ l.
Proof. induction l as [|x l IH]; cbn; [reflexivity|]. rewrite IH. reflexivity. Qed.

Lemma sumN_app l1 l2 : sumN (l1 ++ l2) = sumN l1 + sumN l2.
Proof. induction l1 as [|x l1 IH]; cbn; [reflexivity|]. rewrite IH. lia. Qed.

Lemma sumN_perm l1 l2 : Permutation l1 l2 -> sumN l1 = sumN l2.
Proof. induction 1; cbn; lia. Qed.

Lemma sumN_map_ext {A : Type} (f g : A -> N) l :
  (forall x, In x l -> f x = g x) -> sumN (map f l) = sumN (map g l).
Proof.
  induction l as [|x l IH]; cbn; [reflexivity|]. intros H.
  rewrite (H x) by auto. rewrite IH; [reflexivity|]. intros y Hy. apply H. auto.
Qed.

Lemma sumN_pos_ex l : 0 < sumN l <-> exists x, In x l /\ 0 < x.
Proof.
  induction l as [|x l IH]; cbn.
  - split; [lia | intros [x [[] _]]].
  - split.
    + intros H. destruct (N.eq_dec x 0) as [E|E].
      * subst. rewrite N.add_0_l in H. apply IH in H. destruct H as [y [Hy Py]]. exists y. auto.
      * exists x. split; [auto | lia].
    + intros [y [[->|Hy] Py]]; [lia|].
      assert (0 < sumN l) by (apply IH; exists y; auto). lia.
Qed.

Lemma cnt_cons dir tau I t G i p k :
  cnt dir tau I (t :: G) i p k = count_in k (contrib dir tau I t i p) + cnt dir tau I G i p k.
Proof. reflexivity. Qed.

Lemma cnt_nil dir tau I i p k : cnt dir tau I [] i p k = 0.
Proof. reflexivity. Qed.

Lemma cnt_app dir tau I G1 G2 i p k :
  cnt dir tau I (G1 ++ G2) i p k = cnt dir tau I G1 i p k + cnt dir tau I G2 i p k.
Proof. unfold cnt. rewrite map_app, sumN_app. reflexivity. Qed.

(** ** per-instance feature dictionaries *)

(** [f.get(p, {}).get(k, 0)] *)
Definition fget (f : feat) (p k : str) : N :=
  match dget f p with Some m => getN m k | None => 0 end.

(** [p in f and k in f[p]] *)
Definition fmem (f : feat) (p k : str) : bool :=
  match dget f p with Some m => dmem m k | None => false end.

(** unique keys at both levels, every stored counter positive *)
Definition feat_wf (f : feat) : Prop :=
  NoDup (dkeys f) /\
  Forall (fun pm : str * dict N => NoDup (dkeys (snd pm)) /\ posN (snd pm)) f.

Lemma feat_wf_nil : feat_wf [].
Proof. split; constructor. Qed.

Lemma incr_feat_incrN f p k : incr_feat f p k = dupd f p [] (fun m => incrN m k).
Proof. reflexivity. Qed.

Lemma feat_wf_incr_feat f p k : feat_wf f -> feat_wf (incr_feat f p k).
Proof.
  intros [ND FA]. rewrite incr_feat_incrN. split.
  - apply NoDup_dkeys_dupd. assumption.
  - apply Forall_dupd; [assumption | |].
    + intros m _ [NDm Pm]. cbn in *. split.
      * unfold incrN. apply NoDup_dkeys_dupd. assumption.
      * apply posN_incrN. assumption.
    + intros _. cbn. split.
      * constructor; [intros [] | constructor].
      * constructor; [cbn; lia | constructor].
Qed.

Lemma fget_incr_feat f p k p' k' :
  fget (incr_feat f p k) p' k' =
  fget f p' k' + (if str_eqb p p' && str_eqb k k' then 1 else 0).
Proof.
  unfold fget. rewrite incr_feat_incrN, dget_dupd. unfold dupd_val.
  destruct (str_eqb p p') eqn:E; cbn [andb].
  - apply str_eqb_eq in E. subst p'. destruct (dget f p) as [m|].
    + apply getN_incrN.
    + rewrite getN_incrN. reflexivity.
  - lia.
Qed.

Lemma fmem_incr_feat f p k p' k' :
  fmem (incr_feat f p k) p' k' = fmem f p' k' || (str_eqb p p' && str_eqb k k').
Proof.
  unfold fmem. rewrite incr_feat_incrN, dget_dupd. unfold dupd_val.
  destruct (str_eqb p p') eqn:E; cbn [andb].
  - apply str_eqb_eq in E. subst p'. destruct (dget f p) as [m|].
    + rewrite dmem_incrN. apply orb_comm.
    + rewrite dmem_incrN. cbn. rewrite orb_false_r. reflexivity.
  - rewrite orb_false_r. reflexivity.
Qed.

Lemma feat_wf_annotate_keys ks f p : feat_wf f -> feat_wf (annotate_keys f p ks).
Proof.
  unfold annotate_keys. revert f. induction ks as [|x ks IH]; intros f H; cbn; [assumption|].
  apply IH. apply feat_wf_incr_feat. assumption.
Qed.

Lemma fget_annotate_keys ks f p p' k' :
  fget (annotate_keys f p ks) p' k' =
  fget f p' k' + (if str_eqb p p' then count_str k' ks else 0).
Proof.
  unfold annotate_keys. revert f. induction ks as [|x ks IH]; intros f; cbn.
  - destruct (str_eqb p p'); lia.
  - rewrite IH, fget_incr_feat. rewrite (str_eqb_sym x k').
    destruct (str_eqb p p'), (str_eqb k' x); cbn [andb]; lia.
Qed.

Lemma feat_wf_dget f p m : feat_wf f -> dget f p = Some m -> NoDup (dkeys m) /\ posN m.
Proof.
  intros [_ FA] H. apply dget_In in H. rewrite Forall_forall in FA. apply (FA (p, m)). assumption.
Qed.

(** an entry exists iff its count is positive *)
Lemma fmem_fget f p k : feat_wf f -> (fmem f p k = true <-> 0 < fget f p k).
Proof.
  intros W. unfold fmem, fget. destruct (dget f p) as [m|] eqn:E.
  - destruct (feat_wf_dget f p m W E) as [_ Pm]. symmetry. apply posN_getN. assumption.
  - split; [discriminate | lia].
Qed.

(** ** (a) the feature pass *)

Ltac split4 := split; [|split; [|split]].

Section FeaturePass.
  Variables (tau : str) (inverse : bool) (I : insts).

  Definition mk_entry (cs : list str) : ientry :=
    {| i_classes := cs; i_direct := []; i_inverse := [] |}.

  Lemma adapt_dmapv : adapt I = dmapv mk_entry I.
  Proof. reflexivity. Qed.

  Lemma dmapv_classes_adapt : dmapv i_classes (adapt I) = I.
  Proof.
    rewrite adapt_dmapv. unfold dmapv. rewrite map_map. cbn.
    induction I as [|[i cs] I' IH]; cbn; [reflexivity|]. rewrite IH. reflexivity.
  Qed.

  (** the invariant of the pass: classes untouched; per instance, well-formed
      feature dictionaries whose lookups are given by [cD] / [cI] *)
  Definition InvF (J : idict) (cD cI : str -> str -> str -> N) : Prop :=
    dmapv i_classes J = I /\
    forall i e, dget J i = Some e ->
      feat_wf (i_direct e) /\ feat_wf (i_inverse e) /\
      (forall p k, fget (i_direct e) p k = cD i p k) /\
      (if inverse then forall p k, fget (i_inverse e) p k = cI i p k else i_inverse e = []).

  Lemma InvF_ext J cD cI cD' cI' :
    (forall i p k, cD i p k = cD' i p k) -> (forall i p k, cI i p k = cI' i p k) ->
    InvF J cD cI -> InvF J cD' cI'.
  Proof.
    intros HD HI [HC H]. split; [assumption|]. intros i e Hi.
    destruct (H i e Hi) as [W1 [W2 [F1 F2]]]. split4; try assumption.
    - intros p k. rewrite F1. apply HD.
    - destruct inverse; [|assumption]. intros p k. rewrite F2. apply HI.
  Qed.

  Lemma InvF_adapt : InvF (adapt I) (fun _ _ _ => 0) (fun _ _ _ => 0).
  Proof.
    split; [apply dmapv_classes_adapt|]. intros i e Hi.
    rewrite adapt_dmapv, dget_dmapv in Hi. destruct (dget I i) as [cs|]; [|discriminate].
    cbn in Hi. inversion Hi. subst e. cbn.
    split4; try apply feat_wf_nil; [reflexivity | destruct inverse; reflexivity].
  Qed.

  Lemma shapes_of_labels J id : dmapv i_classes J = I -> shapes_of J id = shape_labels I id.
  Proof.
    intros H. unfold shapes_of, shape_labels, classes_of. rewrite <- H, dget_dmapv.
    destruct (dget J id); reflexivity.
  Qed.

  Lemma tracked_dmem J id : dmapv i_classes J = I -> tracked J id = dmem I id.
  Proof. intros H. unfold tracked. rewrite <- H, dmem_dmapv. reflexivity. Qed.

  Lemma elem_type_node_eq n : elem_type_node n = elem_type n.
  Proof. reflexivity. Qed.

  Lemma is_node_type_elem n : is_node_type (elem_type_node n) = true.
  Proof. destruct n as [[|] id]; reflexivity. Qed.

  (** the key list of the model for the subject = [keys_direct] *)
  Lemma keys_direct_model J t ty :
    dmapv i_classes J = I -> type_of_obj tau (tp t) (to t) = Some ty ->
    ty :: (if is_node_type ty
           then match to t with ON n => shapes_of J (nid n) | OL _ _ => [] end
           else []) = keys_direct tau I t.
  Proof.
    intros HC. unfold type_of_obj, keys_direct.
    destruct (str_eqb (tp t) tau) eqn:E; cbn.
    - destruct (to t) as [n|c dt]; [|discriminate]. intros H. inversion H. subst ty.
      unfold is_node_type. rewrite (shapes_of_labels J (nid n) HC). reflexivity.
    - destruct (to t) as [n|c dt]; intros H; inversion H; subst ty.
      + rewrite is_node_type_elem, (shapes_of_labels J (nid n) HC). reflexivity.
      + destruct (is_node_type dt); reflexivity.
  Qed.

  Lemma type_of_obj_None t :
    type_of_obj tau (tp t) (to t) = None <-> tp t = tau /\ is_node (to t) = false.
  Proof.
    unfold type_of_obj. destruct (str_eqb (tp t) tau) eqn:E; cbn.
    - apply str_eqb_eq in E. destruct (to t); cbn; split; try discriminate; auto.
      intros [_ H]. discriminate.
    - apply str_eqb_neq in E. split; [discriminate | intros [H _]; contradiction].
  Qed.

  (** the key list of the model for the object = [keys_inverse] *)
  Lemma keys_inverse_model J t :
    dmapv i_classes J = I ->
    let ty := type_of_subj tau (tp t) (ts t) in
    ty :: (if str_eqb ty c_IRI_ELEM_TYPE then shapes_of J (nid (ts t)) else []) =
    keys_inverse tau I t.
  Proof.
    intros HC. cbn. unfold type_of_subj, keys_inverse.
    rewrite (shapes_of_labels J (nid (ts t)) HC).
    destruct (str_eqb (tp t) tau); cbn; [reflexivity|].
    destruct (ts t) as [[|] id]; reflexivity.
  Qed.

  (** *** one triple, subject side *)
  Lemma annotate_subject_step J cD cI t :
    InvF J cD cI -> tracked J (nid (ts t)) = true ->
    match annotate_subject tau J t with
    | inl J' =>
      ~ bad_triple tau I t /\
      InvF J' (fun i p k => cD i p k + count_in k (contrib Direct tau I t i p)) cI
    | inr e => e = PEAttr /\ bad_triple tau I t
    end.
  Proof.
    intros [HC H] Htr. unfold annotate_subject.
    destruct (type_of_obj tau (tp t) (to t)) as [ty|] eqn:Ety.
    - split.
      { intros [_ B]. apply type_of_obj_None in B. congruence. }
      rewrite (keys_direct_model J t ty HC Ety).
      remember (keys_direct tau I t) as ks eqn:HK.
      split.
      + etransitivity; [|exact HC]. apply dmapv_dupd_absorb; [reflexivity | exact Htr].
      + intros i e' Hi. rewrite dget_dupd in Hi. unfold dupd_val in Hi.
        destruct (str_eqb (nid (ts t)) i) eqn:Es.
        * apply str_eqb_eq in Es. subst i.
          unfold tracked in Htr. apply dmem_dget in Htr. destruct Htr as [e He].
          rewrite He in Hi. inversion Hi. subst e'. cbn [i_classes i_direct i_inverse].
          destruct (H _ e He) as [W1 [W2 [F1 F2]]].
          split4.
          -- apply feat_wf_annotate_keys. assumption.
          -- assumption.
          -- intros p k. rewrite fget_annotate_keys, F1. f_equal.
             cbn [contrib]. rewrite str_eqb_refl. cbn [andb].
             destruct (str_eqb (tp t) p); [|reflexivity].
             rewrite HK. symmetry. apply count_in_count_str.
          -- assumption.
        * destruct (H i e' Hi) as [W1 [W2 [F1 F2]]]. split4; try assumption.
          intros p k. rewrite F1. cbn [contrib]. rewrite Es. cbn [andb count_in]. lia.
    - split; [reflexivity|]. apply type_of_obj_None in Ety. destruct Ety as [E1 E2].
      split; [|split; assumption]. rewrite <- (tracked_dmem J _ HC). assumption.
  Qed.

  (** *** one triple, object side (inverse mode) *)
  Lemma annotate_object_step J cD cI t o :
    inverse = true -> to t = ON o ->
    InvF J cD cI -> tracked J (nid o) = true ->
    InvF (annotate_object tau J t o) cD
         (fun i p k => cI i p k + count_in k (contrib Inverse tau I t i p)).
  Proof.
    intros Hinv Ho [HC H] Htr. unfold annotate_object.
    pose proof (keys_inverse_model J t HC) as HK. cbn zeta in HK. rewrite HK. clear HK.
    remember (keys_inverse tau I t) as ks eqn:HK.
    split.
    - etransitivity; [|exact HC]. apply dmapv_dupd_absorb; [reflexivity | exact Htr].
    - intros i e' Hi. rewrite dget_dupd in Hi. unfold dupd_val in Hi.
      rewrite Hinv in *.
      destruct (str_eqb (nid o) i) eqn:Es.
      + apply str_eqb_eq in Es. subst i.
        unfold tracked in Htr. apply dmem_dget in Htr. destruct Htr as [e He].
        rewrite He in Hi. inversion Hi. subst e'. cbn [i_classes i_direct i_inverse].
        destruct (H _ e He) as [W1 [W2 [F1 F2]]].
        split4.
        * assumption.
        * apply feat_wf_annotate_keys. assumption.
        * assumption.
        * intros p k. rewrite fget_annotate_keys, F2. f_equal.
          cbn [contrib]. rewrite Ho, str_eqb_refl. cbn [andb].
          destruct (str_eqb (tp t) p); [|reflexivity].
          rewrite HK. symmetry. apply count_in_count_str.
      + destruct (H i e' Hi) as [W1 [W2 [F1 F2]]]. split4; try assumption.
        intros p k. rewrite F2. cbn [contrib]. rewrite Ho, Es. cbn [andb count_in]. lia.
  Qed.

  (** a triple contributes nothing to an instance that is neither its subject
      nor its object *)
  Lemma contrib_direct_other t i p :
    str_eqb (nid (ts t)) i = false -> contrib Direct tau I t i p = [].
  Proof. intros H. cbn. rewrite H. reflexivity. Qed.

  (** *** one triple *)
  Lemma annotate_triple_step J cD cI t :
    InvF J cD cI ->
    match annotate_triple tau inverse J t with
    | inl J' =>
      ~ bad_triple tau I t /\
      InvF J' (fun i p k => cD i p k + count_in k (contrib Direct tau I t i p))
              (fun i p k => cI i p k + count_in k (contrib Inverse tau I t i p))
    | inr e => e = PEAttr /\ bad_triple tau I t
    end.
  Proof.
    intros HInv. unfold annotate_triple.
    (* subject side *)
    assert (S1 : match (if tracked J (nid (ts t)) then annotate_subject tau J t else inl J) with
                 | inl J1 => ~ bad_triple tau I t /\
                             InvF J1 (fun i p k => cD i p k + count_in k (contrib Direct tau I t i p)) cI
                 | inr e => e = PEAttr /\ bad_triple tau I t
                 end).
    { destruct (tracked J (nid (ts t))) eqn:Htr.
      - apply annotate_subject_step; assumption.
      - destruct HInv as [HC H]. split.
        + intros [B _]. rewrite <- (tracked_dmem J _ HC) in B. congruence.
        + split; [assumption|]. intros i e Hi.
          destruct (H i e Hi) as [W1 [W2 [F1 F2]]]. split4; try assumption.
          intros p k. rewrite F1.
          assert (Es : str_eqb (nid (ts t)) i = false).
          { apply str_eqb_neq. intros E. subst i. unfold tracked, dmem in Htr. rewrite Hi in Htr. discriminate. }
          rewrite contrib_direct_other by assumption. cbn. lia. }
    destruct (if tracked J (nid (ts t)) then annotate_subject tau J t else inl J) as [J1|e];
      [|assumption].
    destruct S1 as [NB Inv1].
    (* object side *)
    assert (Keep : forall cI', (forall i e, dget J1 i = Some e -> forall p k, cI' i p k = cI i p k) \/ inverse = false ->
                   InvF J1 (fun i p k => cD i p k + count_in k (contrib Direct tau I t i p)) cI').
    { intros cI' Hc. destruct Inv1 as [HC H]. split; [assumption|]. intros i e Hi.
      destruct (H i e Hi) as [W1 [W2 [F1 F2]]]. split4; try assumption.
      destruct Hc as [Hc|Hc].
      - destruct inverse; [|assumption]. intros p k. rewrite F2. symmetry. apply (Hc i e Hi).
      - rewrite Hc in *. assumption. }
    destruct inverse eqn:Einv.
    - destruct (to t) as [o|c dt] eqn:Eo.
      + destruct (tracked J1 (nid o)) eqn:Htr.
        * split; [assumption|]. apply annotate_object_step; try assumption.
        * split; [assumption|]. apply Keep. left. intros i e Hi p k. cbn. rewrite Eo.
          assert (Es : str_eqb (nid o) i = false).
          { apply str_eqb_neq. intros E. subst i. unfold tracked, dmem in Htr. rewrite Hi in Htr. discriminate. }
          rewrite Es. cbn. lia.
      + split; [assumption|]. apply Keep. left. intros i e Hi p k. cbn. rewrite Eo. cbn. lia.
    - split; [assumption|]. apply Keep. right. reflexivity.
  Qed.

  (** *** the whole stream *)
  Lemma annotate_all_step g : forall J cD cI,
    InvF J cD cI ->
    match annotate_all tau inverse g J with
    | inl ID =>
      (forall t, In t g -> ~ bad_triple tau I t) /\
      InvF ID (fun i p k => cD i p k + cnt Direct tau I g i p k)
              (fun i p k => cI i p k + cnt Inverse tau I g i p k)
    | inr e => e = PEAttr /\ exists t, In t g /\ bad_triple tau I t
    end.
  Proof.
    induction g as [|t g IH]; intros J cD cI HInv; cbn [annotate_all].
    - split; [intros t []|]. eapply InvF_ext; [| |exact HInv]; intros; rewrite cnt_nil; lia.
    - pose proof (annotate_triple_step J cD cI t HInv) as HS.
      destruct (annotate_triple tau inverse J t) as [J'|e].
      + destruct HS as [NB Inv']. specialize (IH J' _ _ Inv').
        destruct (annotate_all tau inverse g J') as [ID|e].
        * destruct IH as [NBg InvID]. split.
          -- intros t' [<-|Ht']; [assumption | apply NBg; assumption].
          -- eapply InvF_ext; [| |exact InvID]; intros; cbn beta; rewrite cnt_cons; lia.
        * destruct IH as [-> [t' [Ht' B]]]. split; [reflexivity|]. exists t'. split; [right|]; assumption.
      + destruct HS as [-> B]. split; [reflexivity|]. exists t. split; [left; reflexivity | assumption].
  Qed.

  (** [bad_triple] is decidable *)
  Lemma bad_triple_dec t : {bad_triple tau I t} + {~ bad_triple tau I t}.
  Proof.
    unfold bad_triple. destruct (dmem I (nid (ts t))); [|right; intros [H _]; discriminate].
    destruct (str_eq_dec (tp t) tau) as [E|E]; [|right; intros [_ [H _]]; contradiction].
    destruct (is_node (to t)); [right; intros [_ [_ H]]; discriminate | left; auto].
  Qed.

  (** *** (a) characterisation of a successful feature pass *)
  Theorem annotate_all_char G ID :
    annotate_all tau inverse G (adapt I) = inl ID ->
    dmapv i_classes ID = I /\
    dkeys ID = dkeys I /\
    forall i e, dget ID i = Some e ->
      i_classes e = classes_of I i /\
      feat_wf (i_direct e) /\ feat_wf (i_inverse e) /\
      (forall p k, fget (i_direct e) p k = cnt Direct tau I G i p k) /\
      (forall p k, fmem (i_direct e) p k = true <-> 0 < cnt Direct tau I G i p k) /\
      (if inverse
       then (forall p k, fget (i_inverse e) p k = cnt Inverse tau I G i p k) /\
            (forall p k, fmem (i_inverse e) p k = true <-> 0 < cnt Inverse tau I G i p k)
       else i_inverse e = []).
  Proof.
    intros HR. pose proof (annotate_all_step G _ _ _ InvF_adapt) as H. rewrite HR in H.
    destruct H as [_ [HC H]]. split; [assumption|]. split.
    { rewrite <- HC. rewrite dkeys_dmapv. reflexivity. }
    intros i e Hi. destruct (H i e Hi) as [W1 [W2 [F1 F2]]].
    split.
    { unfold classes_of. rewrite <- HC, dget_dmapv, Hi. reflexivity. }
    split; [assumption|]. split; [assumption|]. split.
    { intros p k. rewrite F1. lia. }
    split.
    { intros p k. rewrite fmem_fget by assumption. rewrite F1. cbn. reflexivity. }
    destruct inverse; [|assumption]. split.
    - intros p k. rewrite F2. lia.
    - intros p k. rewrite fmem_fget by assumption. rewrite F2. cbn. reflexivity.
  Qed.

  (** *** when the pass raises: always AttributeError, exactly when some
      [tau]-triple with a tracked subject has a literal object *)
  Theorem annotate_all_err G e :
    annotate_all tau inverse G (adapt I) = inr e <->
    e = PEAttr /\ exists t, In t G /\ bad_triple tau I t.
  Proof.
    pose proof (annotate_all_step G _ _ _ InvF_adapt) as H.
    destruct (annotate_all tau inverse G (adapt I)) as [ID|e'].
    - destruct H as [NB _]. split; [discriminate|]. intros [_ [t [Ht B]]]. exfalso. apply (NB t Ht B).
    - destruct H as [-> Hex]. split.
      + intros E. inversion E. subst. split; [reflexivity | assumption].
      + intros [-> _]. reflexivity.
  Qed.

  Theorem annotate_all_ok_iff G :
    (exists ID, annotate_all tau inverse G (adapt I) = inl ID) <->
    (forall t, In t G -> ~ bad_triple tau I t).
  Proof.
    pose proof (annotate_all_step G _ _ _ InvF_adapt) as H.
    destruct (annotate_all tau inverse G (adapt I)) as [ID|e'].
    - destruct H as [NB _]. split; [intros _; assumption | intros _; exists ID; reflexivity].
    - destruct H as [_ [t [Ht B]]]. split.
      + intros [ID E]. discriminate.
      + intros NB. exfalso. apply (NB t Ht B).
  Qed.
End FeaturePass.
