(** placeholder, filled below *)
