(** * C13 at the level of the TEXT: what [disable_comments] and
    [instances_report_mode] do to the ShExC document.

    The serialiser model ([Model/SerialShexc.v]) produces a list of lines.  Here
    every line is given its STRUCTURE ([sline]):

      [LCode code trail]   a line  [code ++ trail ++ "\n"]  where [trail] is either
                           empty or blanks followed by a comment ["# ..."] (the
                           frequency of a constraint, the instance count of a shape);
      [LNote text]         a whole-line comment  [text ++ "\n"]  (the comments
                           attached to a statement, [indent 4 ++ "# ..."]).

    [render_slines] is the serialiser with that structure kept, and
    [render_lines_flat] proves that flattening it gives [render_lines] byte for
    byte, for every configuration and every shape list (errors included).  The
    option theorems are then statements about the structured document:

    - [uncomment] removes every comment: whole-line comments are dropped, every
      trail is emptied, the code parts stay;
    - [skeleton] forgets the CONTENT of the comment segments and keeps code and
      line structure. *)
From Coq Require Import List Ascii String ZArith NArith Bool Lia.
From Shexer Require Import Lib.PyStr Lib.Dict Gen.Consts Spec.Rdf Model.Tracker Model.Profiler Model.Tokens
     Model.Freq Model.Shexing Model.SerialShexc Model.Run.
From Shexer Require Import Proofs.ShexBasics Proofs.OptionLemmas Proofs.EndToEnd2.
Import ListNotations.

Inductive sline :=
| LCode (code trail : str)
| LNote (text : str).

Definition flat (l : sline) : str :=
  match l with
  | LCode c t => c ++ t ++ nl
  | LNote t => t ++ nl
  end.

Definition flat_text (sl : list sline) : str := List.concat (map flat sl).

(** ** the serialiser, structure kept *)

(** the constraint itself (no indentation, no trail, no newline); [None] = ValueError.
    Reads [z_ns] and [z_tau] only. *)
Definition stmt_code (z : sercfg) (s : stmt) (is_last : bool) : option str :=
  let gap := c_SPACES_GAP_BETWEEN_TOKENS in
  match tune_token (z_ns z) (s_prop s) with
  | None => None
  | Some prop =>
    if s_choice s then
      match all_some (map (target_element z (s_prop s)) (s_types s)) with
      | None => None
      | Some targets =>
        Some ((if s_inv s then Str "^" ++ gap else []) ++ prop ++ gap ++
              join (gap ++ Str "OR" ++ gap) targets ++ gap ++
              card_repr true (s_card s) ++ (if is_last then [] else Str ";"))
      end
    else
      match target_element z (s_prop s) (s_type s) with
      | None => None
      | Some target =>
        Some ((if s_inv s then Str "^" ++ gap else []) ++ prop ++ gap ++ target ++ gap ++
              card_repr true (s_card s) ++ (if is_last then [] else Str ";"))
      end
  end.

(** the frequency comment at the end of a constraint line *)
Definition stmt_trail (z : sercfg) (cnt : N) (s : stmt) (code : str) : str :=
  if s_choice s then []
  else match s_card s with
       | CStar | COpt => []
       | _ => if z_disable_comments z then []
              else final_spaces code ++ probability_representation z cnt (s_prob s) (s_nocc s)
       end.

Definition stmt_notes (z : sercfg) (cnt : N) (s : stmt) : list sline :=
  map (fun k => LNote (indent 4 ++ comment_text z cnt k)) (s_comments s).

Definition statement_slines (z : sercfg) (cnt : N) (s : stmt) (is_last : bool) : option (list sline) :=
  match stmt_code z s is_last with
  | None => None
  | Some code => Some (LCode (indent 1 ++ code) (stmt_trail z cnt s code) :: stmt_notes z cnt s)
  end.

Fixpoint statements_slines (z : sercfg) (cnt : N) (l : list stmt) : option (list sline) :=
  match l with
  | [] => Some []
  | [s] => statement_slines z cnt s true
  | s :: l' =>
    match statement_slines z cnt s false, statements_slines z cnt l' with
    | Some a, Some b => Some (a ++ b)
    | _, _ => None
    end
  end.

Definition shape_slines (z : sercfg) (sh : shape) : option (list sline) :=
  match prefixize_shape_name (z_ns z) (sh_name sh), statements_slines z (sh_n sh) (sh_stmts sh) with
  | Some name, Some body =>
    Some ([LCode name (instance_count z (sh_n sh)); LCode (Str "{") []] ++ body ++
          [LCode (Str "}") []; LCode [] []; LCode [] []])
  | _, _ => None
  end.

Definition prefix_slines (ns : nsdict) : list sline :=
  map (fun np : str * str => LCode (Str "PREFIX " ++ snd np ++ Str ": <" ++ fst np ++ Str ">") []) ns
  ++ [LCode [] []].

Fixpoint shapes_slines (z : sercfg) (l : list shape) : option (list sline) :=
  match l with
  | [] => Some []
  | sh :: l' =>
    match shape_slines z sh, shapes_slines z l' with
    | Some a, Some b => Some (a ++ b)
    | _, _ => None
    end
  end.

Definition render_slines (z : sercfg) (l : list shape) : option (list sline) :=
  match shapes_slines z l with
  | Some ls => Some (prefix_slines (z_ns z) ++ ls)
  | None => None
  end.

(** ** flattening gives the serialiser's lines, byte for byte *)

Lemma statement_lines_flat z cnt s is_last :
  statement_lines z cnt s is_last = option_map (map flat) (statement_slines z cnt s is_last).
Proof.
  unfold statement_lines, statement_slines, stmt_code, stmt_trail, stmt_notes.
  destruct (tune_token (z_ns z) (s_prop s)) as [prop|]; [|reflexivity].
  destruct (s_choice s).
  - destruct (all_some _) as [targets|]; [|reflexivity].
    cbn [option_map map flat]. rewrite map_map. cbn [flat].
    unfold nl. rewrite <- !app_assoc. reflexivity.
  - destruct (target_element z (s_prop s) (s_type s)) as [target|]; [|reflexivity].
    cbn [option_map map flat]. rewrite map_map. cbn [flat]. unfold nl.
    f_equal. f_equal.
    destruct (s_card s); try (destruct (z_disable_comments z));
      rewrite <- ?app_assoc; cbn [app]; reflexivity.
Qed.

Lemma statements_lines_flat z cnt l :
  statements_lines z cnt l = option_map (map flat) (statements_slines z cnt l).
Proof.
  induction l as [|s l IH]; [reflexivity|].
  destruct l as [|s' l'].
  - apply statement_lines_flat.
  - change (statements_lines z cnt (s :: s' :: l'))
      with (match statement_lines z cnt s false, statements_lines z cnt (s' :: l') with
            | Some a, Some b => Some (a ++ b) | _, _ => None end).
    change (statements_slines z cnt (s :: s' :: l'))
      with (match statement_slines z cnt s false, statements_slines z cnt (s' :: l') with
            | Some a, Some b => Some (a ++ b) | _, _ => None end).
    rewrite IH, statement_lines_flat.
    destruct (statement_slines z cnt s false) as [a|]; [|reflexivity].
    destruct (statements_slines z cnt (s' :: l')) as [b|]; [|reflexivity].
    cbn [option_map]. now rewrite map_app.
Qed.

Lemma shape_lines_flat z sh :
  shape_lines z sh [] [] = option_map (map flat) (shape_slines z sh).
Proof.
  unfold shape_lines, shape_slines. rewrite statements_lines_flat.
  destruct (prefixize_shape_name (z_ns z) (sh_name sh)) as [name|]; [|reflexivity].
  destruct (statements_slines z (sh_n sh) (sh_stmts sh)) as [body|]; [|reflexivity].
  cbn [option_map]. rewrite !map_app. reflexivity.
Qed.

Lemma shapes_lines_flat z l :
  shapes_lines z l = option_map (map flat) (shapes_slines z l).
Proof.
  induction l as [|sh l IH]; [reflexivity|].
  cbn [shapes_lines shapes_slines]. rewrite IH, shape_lines_flat.
  destruct (shape_slines z sh) as [a|]; [|reflexivity].
  destruct (shapes_slines z l) as [b|]; [|reflexivity].
  cbn [option_map]. now rewrite map_app.
Qed.

Lemma prefix_lines_flat ns : prefix_lines ns = map flat (prefix_slines ns).
Proof.
  unfold prefix_lines, prefix_slines. rewrite map_app, map_map. cbn [map flat app].
  f_equal. apply map_ext. intros [n p]. cbn [flat fst snd app]. now rewrite <- !app_assoc.
Qed.

Theorem render_lines_flat z l :
  render_lines z l = option_map (map flat) (render_slines z l).
Proof.
  unfold render_lines, render_slines. rewrite shapes_lines_flat.
  destruct (shapes_slines z l) as [ls|]; [|reflexivity].
  cbn [option_map]. now rewrite map_app, prefix_lines_flat.
Qed.

Theorem render_flat z l : render z l = option_map flat_text (render_slines z l).
Proof.
  unfold render. rewrite render_lines_flat. destruct (render_slines z l); reflexivity.
Qed.

(** ** removing the comments of a structured document *)
Definition uncomment_line (l : sline) : list sline :=
  match l with LCode c _ => [LCode c []] | LNote _ => [] end.

Definition uncomment (sl : list sline) : list sline := flat_map uncomment_line sl.

(** forgetting what the comment segments say, keeping where they are *)
Definition skeleton_line (l : sline) : sline :=
  match l with LCode c _ => LCode c [] | LNote _ => LNote [] end.

Definition skeleton (sl : list sline) : list sline := map skeleton_line sl.

(** two serialiser configurations that render every token alike *)
Definition same_tokens (z1 z2 : sercfg) : Prop := z_ns z1 = z_ns z2 /\ z_tau z1 = z_tau z2.

Lemma uncomment_app a b : uncomment (a ++ b) = uncomment a ++ uncomment b.
Proof. apply flat_map_app. Qed.

Lemma skeleton_app a b : skeleton (a ++ b) = skeleton a ++ skeleton b.
Proof. apply map_app. Qed.

Lemma target_element_agree z1 z2 p t : same_tokens z1 z2 -> target_element z1 p t = target_element z2 p t.
Proof. intros [H1 H2]. unfold target_element. now rewrite H1, H2. Qed.

Lemma stmt_code_agree z1 z2 s b : same_tokens z1 z2 -> stmt_code z1 s b = stmt_code z2 s b.
Proof.
  intros H. pose proof H as [H1 H2]. unfold stmt_code. rewrite H1.
  destruct (tune_token (z_ns z2) (s_prop s)); [|reflexivity].
  rewrite (target_element_agree z1 z2 (s_prop s) (s_type s) H).
  replace (map (target_element z1 (s_prop s)) (s_types s)) with (map (target_element z2 (s_prop s)) (s_types s)).
  - reflexivity.
  - apply map_ext. intros t. symmetry. now apply target_element_agree.
Qed.

Lemma stmt_code_drop z s b : stmt_code z (drop_comments s) b = stmt_code z s b.
Proof. reflexivity. Qed.

Lemma uncomment_notes z cnt s : uncomment (stmt_notes z cnt s) = [].
Proof. unfold stmt_notes. induction (s_comments s); [reflexivity | exact IHl]. Qed.

Lemma skeleton_notes z cnt s : skeleton (stmt_notes z cnt s) = map (fun _ => LNote []) (s_comments s).
Proof. unfold stmt_notes, skeleton. rewrite map_map. reflexivity. Qed.

Lemma stmt_trail_disabled z cnt s code : z_disable_comments z = true -> stmt_trail z cnt s code = [].
Proof. intros H. unfold stmt_trail. rewrite H. destruct (s_choice s), (s_card s); reflexivity. Qed.

(** *** B2: [disable_comments] *)
Lemma statement_slines_uncomment z z' cnt s b :
  same_tokens z z' -> z_disable_comments z' = true ->
  statement_slines z' cnt (drop_comments s) b = option_map uncomment (statement_slines z cnt s b).
Proof.
  intros Ht Hd. unfold statement_slines.
  rewrite stmt_code_drop, <- (stmt_code_agree z z' s b Ht).
  destruct (stmt_code z s b) as [code|]; [|reflexivity].
  cbn [option_map]. unfold uncomment at 1. cbn [flat_map uncomment_line app].
  fold (uncomment (stmt_notes z cnt s)). rewrite uncomment_notes.
  rewrite (stmt_trail_disabled z' cnt _ code Hd). reflexivity.
Qed.

Lemma statements_slines_uncomment z z' cnt l :
  same_tokens z z' -> z_disable_comments z' = true ->
  statements_slines z' cnt (map drop_comments l) = option_map uncomment (statements_slines z cnt l).
Proof.
  intros Ht Hd. induction l as [|s l IH]; [reflexivity|].
  destruct l as [|s' l'].
  - apply statement_slines_uncomment; assumption.
  - change (statements_slines z' cnt (map drop_comments (s :: s' :: l')))
      with (match statement_slines z' cnt (drop_comments s) false,
                  statements_slines z' cnt (map drop_comments (s' :: l')) with
            | Some a, Some b => Some (a ++ b) | _, _ => None end).
    change (statements_slines z cnt (s :: s' :: l'))
      with (match statement_slines z cnt s false, statements_slines z cnt (s' :: l') with
            | Some a, Some b => Some (a ++ b) | _, _ => None end).
    rewrite IH, (statement_slines_uncomment z z' cnt s false Ht Hd).
    destruct (statement_slines z cnt s false) as [a|]; [|reflexivity].
    destruct (statements_slines z cnt (s' :: l')) as [b|]; [|reflexivity].
    cbn [option_map]. now rewrite uncomment_app.
Qed.

Lemma instance_count_disabled z n : z_disable_comments z = true -> instance_count z n = [].
Proof. intros H. unfold instance_count. rewrite H. destruct (z_mode z); reflexivity. Qed.

Lemma shape_slines_uncomment z z' sh :
  same_tokens z z' -> z_disable_comments z' = true ->
  shape_slines z' (map_stmts drop_comments sh) = option_map uncomment (shape_slines z sh).
Proof.
  intros Ht Hd. pose proof Ht as [H1 H2]. unfold shape_slines.
  change (sh_name (map_stmts drop_comments sh)) with (sh_name sh).
  change (sh_n (map_stmts drop_comments sh)) with (sh_n sh).
  change (sh_stmts (map_stmts drop_comments sh)) with (map drop_comments (sh_stmts sh)).
  rewrite (statements_slines_uncomment z z' _ _ Ht Hd), <- H1.
  destruct (prefixize_shape_name (z_ns z) (sh_name sh)) as [name|]; [|reflexivity].
  destruct (statements_slines z (sh_n sh) (sh_stmts sh)) as [body|]; [|reflexivity].
  cbn [option_map]. rewrite !uncomment_app. rewrite (instance_count_disabled z' _ Hd). reflexivity.
Qed.

Lemma shapes_slines_uncomment z z' l :
  same_tokens z z' -> z_disable_comments z' = true ->
  shapes_slines z' (map_shapes drop_comments l) = option_map uncomment (shapes_slines z l).
Proof.
  intros Ht Hd. induction l as [|sh l IH]; [reflexivity|].
  unfold map_shapes in *. cbn [map shapes_slines]. rewrite IH, (shape_slines_uncomment z z' sh Ht Hd).
  destruct (shape_slines z sh) as [a|]; [|reflexivity].
  destruct (shapes_slines z l) as [b|]; [|reflexivity].
  cbn [option_map]. now rewrite uncomment_app.
Qed.

Lemma uncomment_prefix ns : uncomment (prefix_slines ns) = prefix_slines ns.
Proof.
  unfold prefix_slines. rewrite uncomment_app. f_equal.
  induction ns as [|np ns IH]; [reflexivity|]. cbn [map]. unfold uncomment in *. cbn [flat_map uncomment_line app].
  now rewrite IH.
Qed.

(** the document rendered with [disable_comments] from the shapes without comments IS the
    document rendered with comments, every comment removed; the two renderings fail together.
    ([z'] may even use another report mode.) *)
Theorem render_slines_disable_comments z z' l :
  same_tokens z z' -> z_disable_comments z' = true ->
  render_slines z' (map_shapes drop_comments l) = option_map uncomment (render_slines z l).
Proof.
  intros Ht Hd. pose proof Ht as [H1 H2]. unfold render_slines.
  rewrite (shapes_slines_uncomment z z' l Ht Hd), <- H1.
  destruct (shapes_slines z l) as [ls|]; [|reflexivity].
  cbn [option_map]. now rewrite uncomment_app, uncomment_prefix.
Qed.

Theorem text_disable_comments z z' l :
  same_tokens z z' -> z_disable_comments z' = true ->
  render z' (map_shapes drop_comments l) = option_map (fun sl => flat_text (uncomment sl)) (render_slines z l) /\
  render z l = option_map flat_text (render_slines z l).
Proof.
  intros Ht Hd. split; [|apply render_flat].
  rewrite render_flat, (render_slines_disable_comments z z' l Ht Hd).
  destruct (render_slines z l); reflexivity.
Qed.

(** *** B1: everything outside the comment segments reads [z_ns] and [z_tau] only *)
Lemma statement_slines_skeleton z1 z2 cnt s b :
  same_tokens z1 z2 ->
  option_map skeleton (statement_slines z1 cnt s b) = option_map skeleton (statement_slines z2 cnt s b).
Proof.
  intros Ht. unfold statement_slines. rewrite (stmt_code_agree z1 z2 s b Ht).
  destruct (stmt_code z2 s b) as [code|]; [|reflexivity].
  cbn [option_map]. f_equal.
  change (skeleton_line (LCode (indent 1 ++ code) (stmt_trail z1 cnt s code)) :: skeleton (stmt_notes z1 cnt s)
          = skeleton_line (LCode (indent 1 ++ code) (stmt_trail z2 cnt s code)) :: skeleton (stmt_notes z2 cnt s)).
  now rewrite !skeleton_notes.
Qed.

Lemma statements_slines_skeleton z1 z2 cnt l :
  same_tokens z1 z2 ->
  option_map skeleton (statements_slines z1 cnt l) = option_map skeleton (statements_slines z2 cnt l).
Proof.
  intros Ht. induction l as [|s l IH]; [reflexivity|].
  destruct l as [|s' l'].
  - apply statement_slines_skeleton; assumption.
  - change (statements_slines z1 cnt (s :: s' :: l'))
      with (match statement_slines z1 cnt s false, statements_slines z1 cnt (s' :: l') with
            | Some a, Some b => Some (a ++ b) | _, _ => None end).
    change (statements_slines z2 cnt (s :: s' :: l'))
      with (match statement_slines z2 cnt s false, statements_slines z2 cnt (s' :: l') with
            | Some a, Some b => Some (a ++ b) | _, _ => None end).
    pose proof (statement_slines_skeleton z1 z2 cnt s false Ht) as Hs.
    destruct (statement_slines z1 cnt s false) as [a1|], (statement_slines z2 cnt s false) as [a2|];
      try discriminate Hs; [|reflexivity].
    destruct (statements_slines z1 cnt (s' :: l')) as [b1|], (statements_slines z2 cnt (s' :: l')) as [b2|];
      try discriminate IH; [|reflexivity].
    cbn [option_map] in *. rewrite !skeleton_app. inversion Hs. inversion IH. congruence.
Qed.

Lemma shape_slines_skeleton z1 z2 sh :
  same_tokens z1 z2 ->
  option_map skeleton (shape_slines z1 sh) = option_map skeleton (shape_slines z2 sh).
Proof.
  intros Ht. pose proof Ht as [H1 H2]. unfold shape_slines. rewrite H1.
  destruct (prefixize_shape_name (z_ns z2) (sh_name sh)) as [name|]; [|reflexivity].
  pose proof (statements_slines_skeleton z1 z2 (sh_n sh) (sh_stmts sh) Ht) as Hs.
  destruct (statements_slines z1 (sh_n sh) (sh_stmts sh)) as [b1|],
           (statements_slines z2 (sh_n sh) (sh_stmts sh)) as [b2|]; try discriminate Hs; [|reflexivity].
  cbn [option_map] in *. inversion Hs as [Hb].
  unfold skeleton in *. cbn [map app skeleton_line]. rewrite !map_app, Hb. reflexivity.
Qed.

Lemma shapes_slines_skeleton z1 z2 l :
  same_tokens z1 z2 ->
  option_map skeleton (shapes_slines z1 l) = option_map skeleton (shapes_slines z2 l).
Proof.
  intros Ht. induction l as [|sh l IH]; [reflexivity|].
  cbn [shapes_slines].
  pose proof (shape_slines_skeleton z1 z2 sh Ht) as Hs.
  destruct (shape_slines z1 sh) as [a1|], (shape_slines z2 sh) as [a2|]; try discriminate Hs; [|reflexivity].
  destruct (shapes_slines z1 l) as [b1|], (shapes_slines z2 l) as [b2|]; try discriminate IH; [|reflexivity].
  cbn [option_map] in *. rewrite !skeleton_app. inversion Hs. inversion IH. congruence.
Qed.

(** two renderings of the same shapes under configurations that differ in the report mode
    (or in [disable_comments]) have the same lines, the same code on every line and whole-line
    comments at the same places: they differ only INSIDE the comment segments *)
Theorem render_slines_skeleton z1 z2 l :
  same_tokens z1 z2 ->
  option_map skeleton (render_slines z1 l) = option_map skeleton (render_slines z2 l).
Proof.
  intros Ht. pose proof Ht as [H1 H2]. unfold render_slines. rewrite H1.
  pose proof (shapes_slines_skeleton z1 z2 l Ht) as Hs.
  destruct (shapes_slines z1 l) as [b1|], (shapes_slines z2 l) as [b2|]; try discriminate Hs; [|reflexivity].
  cbn [option_map] in *. rewrite !skeleton_app. inversion Hs. congruence.
Qed.

(** ** run level *)
Definition sercfg_of (c : rcfg) (ns : nsdict) : sercfg :=
  {| z_ns := ns; z_tau := r_tau c; z_disable_comments := r_disable_comments c; z_mode := r_mode c |}.

(** [run_shexc] with the line structure kept *)
Definition run_slines (fa : FreqAlg) (c : rcfg) (thr : F fa) (g : graph) : list sline + rerr :=
  match run_shapes fa c thr g with
  | inr e => inr e
  | inl (ns, shapes) =>
    match render_slines (sercfg_of c ns) shapes with
    | Some sl => inl sl
    | None => inr REValue
    end
  end.

Theorem run_shexc_flat fa c thr g :
  run_shexc fa c thr g = map_res flat_text (run_slines fa c thr g).
Proof.
  unfold run_shexc, run_slines. destruct (run_shapes fa c thr g) as [[ns shapes]|e]; [|reflexivity].
  fold (sercfg_of c ns). rewrite render_flat.
  destruct (render_slines (sercfg_of c ns) shapes); reflexivity.
Qed.

(** *** B3 *)
Theorem run_slines_disable_comments fa c (thr : F fa) g :
  run_slines fa (rwith_disable_comments true c) thr g =
  map_res uncomment (run_slines fa (rwith_disable_comments false c) thr g).
Proof.
  unfold run_slines. rewrite run_disable_comments.
  destruct (run_shapes fa (rwith_disable_comments false c) thr g) as [[ns shapes]|e]; [|reflexivity].
  cbn [map_res on_shapes].
  rewrite (render_slines_disable_comments (sercfg_of (rwith_disable_comments false c) ns)
             (sercfg_of (rwith_disable_comments true c) ns) shapes);
    [|split; reflexivity|reflexivity].
  destruct (render_slines _ shapes); reflexivity.
Qed.

(** the text of the run with [disable_comments] is the text of the run without it, every
    comment removed; the two runs fail together, with the same error *)
Theorem run_shexc_disable_comments fa c (thr : F fa) g :
  run_shexc fa (rwith_disable_comments true c) thr g =
    map_res (fun sl => flat_text (uncomment sl)) (run_slines fa (rwith_disable_comments false c) thr g) /\
  run_shexc fa (rwith_disable_comments false c) thr g =
    map_res flat_text (run_slines fa (rwith_disable_comments false c) thr g).
Proof.
  split; [|apply run_shexc_flat].
  rewrite run_shexc_flat, run_slines_disable_comments.
  destruct (run_slines fa (rwith_disable_comments false c) thr g); reflexivity.
Qed.

(** *** B1 at run level: [instances_report_mode] *)
Theorem run_slines_report_mode fa m c (thr : F fa) g :
  map_res skeleton (run_slines fa (with_mode m c) thr g) = map_res skeleton (run_slines fa c thr g).
Proof.
  unfold run_slines. rewrite O6_mode.
  destruct (run_shapes fa c thr g) as [[ns shapes]|e]; [|reflexivity].
  pose proof (render_slines_skeleton (sercfg_of (with_mode m c) ns) (sercfg_of c ns) shapes
                (conj eq_refl eq_refl)) as H.
  destruct (render_slines (sercfg_of (with_mode m c) ns) shapes),
           (render_slines (sercfg_of c ns) shapes); try discriminate H; [|reflexivity].
  cbn [option_map map_res] in *. inversion H. congruence.
Qed.

(** with comments disabled the report mode is invisible in the text *)
Theorem run_shexc_report_mode_no_comments fa m c (thr : F fa) g :
  run_shexc fa (with_mode m (rwith_disable_comments true c)) thr g =
  run_shexc fa (rwith_disable_comments true c) thr g.
Proof.
  rewrite !run_shexc_flat. f_equal. unfold run_slines. rewrite O6_mode, run_disable_comments.
  destruct (run_shapes fa (rwith_disable_comments false c) thr g) as [[ns shapes]|e]; [|reflexivity].
  cbn [map_res on_shapes].
  rewrite (render_slines_disable_comments (sercfg_of (rwith_disable_comments false c) ns)
             (sercfg_of (with_mode m (rwith_disable_comments true c)) ns) shapes);
    [|split; reflexivity|reflexivity].
  rewrite (render_slines_disable_comments (sercfg_of (rwith_disable_comments false c) ns)
             (sercfg_of (rwith_disable_comments true c) ns) shapes);
    [|split; reflexivity|reflexivity].
  reflexivity.
Qed.

(** ** The same at the level of BYTES: a comment stripper for ShExC text.

    [code_lines t] is defined on the raw text, without reference to the model: the text is cut
    at newlines; in every line the comment starts at the first ['#'] that is not inside an
    IRI reference [<...>] (IRIs may contain '#'); what precedes it, with trailing blanks
    removed, is the code of the line; a line that holds nothing but a comment disappears.

    [scannable sl] (decidable, on the rendered document) says that this reading recovers the
    structure: no token contains a newline or a '#' outside [<...>], every [<] is closed on
    its line, comment segments start with '#'.  It is a PREMISE of the byte-level theorems
    (evaluated on the examples), not derived from the graph. *)
Definition nl_char : ascii := ascii_of_nat 10.
Definition is_sp (c : ascii) : bool := Ascii.eqb c " "%char.

Fixpoint lines_of (t : str) : list str :=
  match t with
  | [] => [[]]
  | c :: t' =>
    if Ascii.eqb c nl_char then [] :: lines_of t'
    else match lines_of t' with
         | l :: ls => (c :: l) :: ls
         | [] => [[c]]
         end
  end.

(** (code before the comment, whether a comment was found) *)
Fixpoint cut_comment (in_iri : bool) (s : str) : str * bool :=
  match s with
  | [] => ([], false)
  | c :: s' =>
    if Ascii.eqb c "#"%char && negb in_iri then ([], true)
    else let r := cut_comment (if Ascii.eqb c "<"%char then true
                               else if Ascii.eqb c ">"%char then false else in_iri) s' in
         (c :: fst r, snd r)
  end.

Fixpoint rstrip_sp (s : str) : str :=
  match s with
  | [] => []
  | c :: s' => match rstrip_sp s' with
               | [] => if is_sp c then [] else [c]
               | r => c :: r
               end
  end.

Definition is_nil {A} (l : list A) : bool := match l with [] => true | _ => false end.

Definition code_of_line (line : str) : option str :=
  let r := cut_comment false line in
  let code := rstrip_sp (fst r) in
  if snd r && is_nil code then None else Some code.

Fixpoint omap {A B} (f : A -> option B) (l : list A) : list B :=
  match l with
  | [] => []
  | x :: l' => match f x with Some y => y :: omap f l' | None => omap f l' end
  end.

Definition code_lines (t : str) : list str := omap code_of_line (lines_of t).

(** *** the premise *)
Definition no_nl (s : str) : bool := forallb (fun c => negb (Ascii.eqb c nl_char)) s.

(** the IRI state after a string without bare '#'; [None] if there is one *)
Fixpoint scan (in_iri : bool) (s : str) : option bool :=
  match s with
  | [] => Some in_iri
  | c :: s' =>
    if Ascii.eqb c "#"%char && negb in_iri then None
    else scan (if Ascii.eqb c "<"%char then true else if Ascii.eqb c ">"%char then false else in_iri) s'
  end.

Fixpoint skip_sp (s : str) : str :=
  match s with
  | c :: s' => if is_sp c then skip_sp s' else s
  | [] => []
  end.

Definition starts_hash (s : str) : bool :=
  match skip_sp s with c :: _ => Ascii.eqb c "#"%char | [] => false end.

Definition clean_code (c : str) : bool :=
  no_nl c && match scan false c with Some false => true | _ => false end.

Definition line_dom (l : sline) : bool :=
  match l with
  | LCode c t => clean_code c && no_nl t &&
                 (is_nil t || (starts_hash t && negb (is_nil (rstrip_sp c))))
  | LNote t => no_nl t && starts_hash t
  end.

Definition scannable (sl : list sline) : bool := forallb line_dom sl.

(** *** lemmas *)
Definition body (l : sline) : str := match l with LCode c t => c ++ t | LNote t => t end.

Lemma flat_body l : flat l = body l ++ nl.
Proof. destruct l; cbn [flat body]; [now rewrite app_assoc | reflexivity]. Qed.

Lemma lines_of_line l t : no_nl l = true -> lines_of (l ++ nl ++ t) = l :: lines_of t.
Proof.
  induction l as [|c l IH]; intros H.
  - reflexivity.
  - unfold no_nl in H, IH. cbn [forallb] in H. apply andb_true_iff in H as [Hc Hl]. cbn [app lines_of].
    apply negb_true_iff in Hc. rewrite Hc, (IH Hl). reflexivity.
Qed.

Lemma no_nl_app a b : no_nl (a ++ b) = no_nl a && no_nl b.
Proof. apply forallb_app. Qed.

Lemma cut_comment_app c : forall b b' rest,
  scan b c = Some b' ->
  cut_comment b (c ++ rest) = (c ++ fst (cut_comment b' rest), snd (cut_comment b' rest)).
Proof.
  induction c as [|x c IH]; intros b b' rest H.
  - cbn in H. inversion H; subst. cbn [app]. now destruct (cut_comment b' rest).
  - cbn [scan] in H. cbn [app cut_comment].
    destruct (Ascii.eqb x "#"%char && negb b); [discriminate|].
    rewrite (IH _ _ rest H). reflexivity.
Qed.

Lemma cut_comment_trail t :
  starts_hash t = true ->
  exists sp, cut_comment false t = (sp, true) /\ forallb is_sp sp = true.
Proof.
  unfold starts_hash. induction t as [|c t IH]; [discriminate|].
  cbn [skip_sp]. destruct (is_sp c) eqn:E.
  - intros H. destruct (IH H) as (sp & H1 & H2).
    unfold is_sp in E. apply Ascii.eqb_eq in E. subst c.
    exists (" "%char :: sp). cbn [cut_comment]. cbn [Ascii.eqb Bool.eqb andb].
    rewrite H1. split; [reflexivity|]. cbn. exact H2.
  - intros H. exists []. cbn [cut_comment]. rewrite H. split; reflexivity.
Qed.

Lemma rstrip_sp_blank sp : forallb is_sp sp = true -> rstrip_sp sp = [].
Proof.
  induction sp as [|c sp IH]; [reflexivity|]. cbn. intros H. apply andb_true_iff in H as [H1 H2].
  now rewrite (IH H2), H1.
Qed.

Lemma rstrip_sp_app c sp : forallb is_sp sp = true -> rstrip_sp (c ++ sp) = rstrip_sp c.
Proof.
  intros H. induction c as [|x c IH]; [now apply rstrip_sp_blank|].
  cbn [app rstrip_sp]. now rewrite IH.
Qed.

Definition line_code (l : sline) : str := match l with LCode c _ => rstrip_sp c | LNote _ => [] end.

Lemma code_of_line_dom l :
  line_dom l = true ->
  code_of_line (body l) = match l with LCode c _ => Some (rstrip_sp c) | LNote _ => None end.
Proof.
  destruct l as [c t|t]; cbn [line_dom body]; intros H.
  - apply andb_true_iff in H as [H Ht]. apply andb_true_iff in H as [Hc _].
    unfold clean_code in Hc. apply andb_true_iff in Hc as [_ Hs].
    destruct (scan false c) as [[|]|] eqn:Es; try discriminate.
    unfold code_of_line. rewrite (cut_comment_app c false false t Es). cbn [fst snd].
    apply orb_true_iff in Ht as [Ht|Ht].
    + destruct t; [|discriminate]. cbn [cut_comment fst snd andb]. now rewrite app_nil_r.
    + apply andb_true_iff in Ht as [Hh Hne].
      destruct (cut_comment_trail t Hh) as (sp & E & Hsp). rewrite E. cbn [fst snd].
      rewrite (rstrip_sp_app c sp Hsp). destruct (rstrip_sp c); [discriminate|reflexivity].
  - apply andb_true_iff in H as [_ Hh].
    destruct (cut_comment_trail t Hh) as (sp & E & Hsp).
    unfold code_of_line. rewrite E. cbn [fst snd]. now rewrite (rstrip_sp_blank sp Hsp).
Qed.

Lemma line_dom_no_nl l : line_dom l = true -> no_nl (body l) = true.
Proof.
  destruct l as [c t|t]; cbn [line_dom body]; intros H.
  - apply andb_true_iff in H as [H _]. apply andb_true_iff in H as [Hc Ht].
    unfold clean_code in Hc. apply andb_true_iff in Hc as [Hc _]. now rewrite no_nl_app, Hc, Ht.
  - now apply andb_true_iff in H as [H _].
Qed.

(** the comment stripper reads a scannable document as its structure says *)
Theorem code_lines_flat sl :
  scannable sl = true ->
  code_lines (flat_text sl) = map line_code (uncomment sl) ++ [[]].
Proof.
  unfold code_lines, flat_text, scannable. induction sl as [|l sl IH]; intros H.
  - reflexivity.
  - cbn [forallb] in H. apply andb_true_iff in H as [Hl Hsl].
    cbn [map List.concat]. rewrite flat_body, <- app_assoc.
    rewrite (lines_of_line (body l) _ (line_dom_no_nl l Hl)). cbn [omap].
    rewrite (code_of_line_dom l Hl), (IH Hsl).
    destruct l; reflexivity.
Qed.

Lemma scannable_uncomment sl : scannable sl = true -> scannable (uncomment sl) = true.
Proof.
  unfold scannable. induction sl as [|l sl IH]; [reflexivity|]. cbn [forallb]. intros H.
  apply andb_true_iff in H as [Hl Hsl]. unfold uncomment in *. cbn [flat_map].
  rewrite forallb_app, (IH Hsl), andb_true_r.
  destruct l as [c t|t]; [|reflexivity]. cbn [uncomment_line forallb line_dom] in *.
  apply andb_true_iff in Hl as [Hl _]. apply andb_true_iff in Hl as [Hc _].
  now rewrite Hc.
Qed.

Lemma uncomment_idem sl : uncomment (uncomment sl) = uncomment sl.
Proof.
  unfold uncomment. induction sl as [|l sl IH]; [reflexivity|].
  cbn [flat_map]. rewrite flat_map_app, IH. destruct l; reflexivity.
Qed.

(** removing the comments of the structured document = stripping the comments of the text *)
Corollary code_lines_uncomment sl :
  scannable sl = true -> code_lines (flat_text (uncomment sl)) = code_lines (flat_text sl).
Proof.
  intros H. rewrite (code_lines_flat sl H), (code_lines_flat _ (scannable_uncomment sl H)).
  now rewrite uncomment_idem.
Qed.

(** *** B2, bytes: the text rendered with [disable_comments] and the text rendered with
    comments have the same code lines *)
Theorem text_code_lines_disable_comments z z' l sl :
  same_tokens z z' -> z_disable_comments z' = true ->
  render_slines z l = Some sl -> scannable sl = true ->
  exists t t', render z l = Some t /\ render z' (map_shapes drop_comments l) = Some t' /\
               code_lines t' = code_lines t.
Proof.
  intros Ht Hd Hr Hs. destruct (text_disable_comments z z' l Ht Hd) as [H1 H2].
  rewrite Hr in H1, H2. cbn [option_map] in H1, H2.
  eexists _, _. split; [exact H2|]. split; [exact H1|]. now apply code_lines_uncomment.
Qed.

(** *** B1, bytes: two renderings of the same shapes with the same tokens (report modes and
    [disable_comments] free) have the same code lines *)
Theorem text_code_lines_same_tokens z1 z2 l sl1 sl2 :
  same_tokens z1 z2 ->
  render_slines z1 l = Some sl1 -> render_slines z2 l = Some sl2 ->
  scannable sl1 = true -> scannable sl2 = true ->
  code_lines (flat_text sl1) = code_lines (flat_text sl2).
Proof.
  intros Ht H1 H2 S1 S2.
  rewrite (code_lines_flat sl1 S1), (code_lines_flat sl2 S2). do 2 f_equal.
  set (z' := {| z_ns := z_ns z1; z_tau := z_tau z1; z_disable_comments := true; z_mode := FRatio |}).
  pose proof (render_slines_disable_comments z1 z' l (conj eq_refl eq_refl) eq_refl) as E1.
  assert (Ht2 : same_tokens z2 z') by (destruct Ht as [A B]; split; cbn; congruence).
  pose proof (render_slines_disable_comments z2 z' l Ht2 eq_refl) as E2.
  rewrite H1 in E1. rewrite H2 in E2. rewrite E1 in E2. cbn [option_map] in E2. now inversion E2.
Qed.

(** *** run level, bytes *)
Theorem run_shexc_disable_comments_bytes fa c (thr : F fa) g sl :
  run_slines fa (rwith_disable_comments false c) thr g = inl sl -> scannable sl = true ->
  exists t t', run_shexc fa (rwith_disable_comments false c) thr g = inl t /\
               run_shexc fa (rwith_disable_comments true c) thr g = inl t' /\
               t = flat_text sl /\ t' = flat_text (uncomment sl) /\
               code_lines t' = code_lines t.
Proof.
  intros Hr Hs. destruct (run_shexc_disable_comments fa c thr g) as [H1 H2].
  rewrite Hr in H1, H2. cbn [map_res] in H1, H2.
  eexists _, _. split; [exact H2|]. split; [exact H1|]. split; [reflexivity|]. split; [reflexivity|].
  now apply code_lines_uncomment.
Qed.

Theorem run_shexc_report_mode_bytes fa m c (thr : F fa) g sl1 sl2 :
  run_slines fa (with_mode m c) thr g = inl sl1 -> run_slines fa c thr g = inl sl2 ->
  scannable sl1 = true -> scannable sl2 = true ->
  exists t1 t2, run_shexc fa (with_mode m c) thr g = inl t1 /\ run_shexc fa c thr g = inl t2 /\
                code_lines t1 = code_lines t2.
Proof.
  intros H1 H2 S1 S2. exists (flat_text sl1), (flat_text sl2).
  rewrite !run_shexc_flat, H1, H2. split; [reflexivity|]. split; [reflexivity|].
  unfold run_slines in H1, H2. rewrite O6_mode in H1.
  destruct (run_shapes fa c thr g) as [[ns shapes]|e]; [|discriminate].
  destruct (render_slines (sercfg_of (with_mode m c) ns) shapes) as [x1|] eqn:E1; [|discriminate].
  destruct (render_slines (sercfg_of c ns) shapes) as [x2|] eqn:E2; [|discriminate].
  inversion H1; inversion H2; subst x1 x2.
  exact (text_code_lines_same_tokens (sercfg_of (with_mode m c) ns) (sercfg_of c ns) shapes sl1 sl2
           (conj eq_refl eq_refl) E1 E2 S1 S2).
Qed.

(** ** The same through the SPEC lexer of ShExC ([Spec/ShexcGrammar.v], written from the
    ShEx 2.1 grammar for property C05; it skips white space and comments).  On C05's domain
    [C05_dom z l] (a condition on the namespaces and the shape list, not on the rendered
    text) the rendered document lexes to [doc_toks z l] ([WellFormedProofs.render_lexes]);
    [doc_toks] reads [z_ns]/[z_tau] and no comment: the options of this file leave the token
    stream of the document -- the schema it denotes -- unchanged. *)
From Shexer Require Import Model.C05Dom Spec.ShexcGrammar Proofs.WellFormedLex Proofs.WellFormedProofs.

Lemma target_toks_agree z1 z2 p t : same_tokens z1 z2 -> target_toks z1 p t = target_toks z2 p t.
Proof. intros [H1 H2]. unfold target_toks. now rewrite H1, H2. Qed.

Lemma stmt_toks_agree z1 z2 s b : same_tokens z1 z2 -> stmt_toks z1 s b = stmt_toks z2 s b.
Proof.
  intros H. pose proof H as [H1 H2]. unfold stmt_toks. rewrite H1.
  rewrite (target_toks_agree z1 z2 _ _ H).
  replace (map (target_toks z1 (s_prop s)) (s_types s)) with (map (target_toks z2 (s_prop s)) (s_types s));
    [reflexivity|]. apply map_ext. intros t. symmetry. now apply target_toks_agree.
Qed.

Lemma stmts_toks_agree z1 z2 l : same_tokens z1 z2 -> stmts_toks z1 l = stmts_toks z2 l.
Proof.
  intros H. induction l as [|s l IH]; [reflexivity|]. destruct l as [|s' l'].
  - apply stmt_toks_agree, H.
  - rewrite !stmts_toks_cons2, IH. now rewrite (stmt_toks_agree z1 z2 s false H).
Qed.

Lemma stmts_toks_drop z l : stmts_toks z (map drop_comments l) = stmts_toks z l.
Proof.
  induction l as [|s l IH]; [reflexivity|]. destruct l as [|s' l']; [reflexivity|].
  change (map drop_comments (s :: s' :: l')) with (drop_comments s :: drop_comments s' :: map drop_comments l').
  rewrite !stmts_toks_cons2. change (drop_comments s' :: map drop_comments l') with (map drop_comments (s' :: l')).
  now rewrite IH.
Qed.

Lemma doc_toks_agree z1 z2 l : same_tokens z1 z2 -> doc_toks z1 l = doc_toks z2 l.
Proof.
  intros H. pose proof H as [H1 H2]. unfold doc_toks. rewrite H1. f_equal.
  induction l as [|sh l IH]; [reflexivity|]. cbn [flat_map]. rewrite IH. f_equal.
  unfold shape_toks. now rewrite H1, (stmts_toks_agree z1 z2 _ H).
Qed.

Lemma doc_toks_drop z l : doc_toks z (map_shapes drop_comments l) = doc_toks z l.
Proof.
  unfold doc_toks. f_equal. induction l as [|sh l IH]; [reflexivity|].
  unfold map_shapes in *. cbn [map flat_map]. rewrite IH. f_equal.
  unfold shape_toks. cbn [map_stmts sh_name sh_stmts]. now rewrite stmts_toks_drop.
Qed.

Lemma stmt_ok_agree z1 z2 s : same_tokens z1 z2 -> stmt_ok z1 s = stmt_ok z2 s.
Proof. intros [H1 H2]. unfold stmt_ok. now rewrite H1, H2. Qed.

Lemma forallb_ext' {A} (f g : A -> bool) l : (forall x, f x = g x) -> forallb f l = forallb g l.
Proof. intros H. induction l as [|x l IH]; [reflexivity|]. cbn. now rewrite H, IH. Qed.

Lemma C05_dom_agree z1 z2 l : same_tokens z1 z2 -> C05_dom z1 l = C05_dom z2 l.
Proof.
  intros H. pose proof H as [H1 H2]. unfold C05_dom. rewrite H1. f_equal.
  apply forallb_ext'. intros sh. unfold shape_ok. rewrite H1. f_equal.
  apply forallb_ext'. intros s. now apply stmt_ok_agree.
Qed.

Lemma stmt_ok_drop z s : stmt_ok z s = true -> stmt_ok z (drop_comments s) = true.
Proof.
  unfold stmt_ok. cbn [drop_comments s_prop s_types s_comments forallb]. intros H.
  apply andb_true_iff in H as [H _]. now rewrite H.
Qed.

Lemma C05_dom_drop z l : C05_dom z l = true -> C05_dom z (map_shapes drop_comments l) = true.
Proof.
  unfold C05_dom. intros H. apply andb_true_iff in H as [Hn Hl]. rewrite Hn. cbn [andb].
  unfold map_shapes. rewrite forallb_forall in *. intros sh' Hin. apply in_map_iff in Hin as (sh & <- & Hin).
  specialize (Hl sh Hin). unfold shape_ok in *. cbn [map_stmts sh_name sh_stmts].
  apply andb_true_iff in Hl as [Ha Hb]. rewrite Ha. cbn [andb].
  rewrite forallb_forall in *. intros s' Hs. apply in_map_iff in Hs as (s & <- & Hs).
  apply stmt_ok_drop, Hb, Hs.
Qed.

(** B1 through the lexer: same shapes, same token rendering, any report modes *)
Theorem lex_same_tokens z1 z2 l :
  same_tokens z1 z2 -> C05_dom z1 l = true ->
  exists t1 t2, render z1 l = Some t1 /\ render z2 l = Some t2 /\
                lex t1 = Some (doc_toks z1 l) /\ lex t2 = Some (doc_toks z1 l).
Proof.
  intros Ht Hd.
  destruct (render_lexes z1 l Hd) as (t1 & R1 & L1).
  assert (Hd2 : C05_dom z2 l = true) by (now rewrite <- (C05_dom_agree z1 z2 l Ht)).
  destruct (render_lexes z2 l Hd2) as (t2 & R2 & L2).
  exists t1, t2. rewrite (doc_toks_agree z1 z2 l Ht) at 2.
  repeat split; auto using lexes_lex.
Qed.

(** B2 through the lexer *)
Theorem lex_disable_comments z z' l :
  same_tokens z z' -> C05_dom z l = true ->
  exists t t', render z l = Some t /\ render z' (map_shapes drop_comments l) = Some t' /\
               lex t = Some (doc_toks z l) /\ lex t' = Some (doc_toks z l).
Proof.
  intros Ht Hd.
  destruct (render_lexes z l Hd) as (t & R1 & L1).
  assert (Hd2 : C05_dom z' (map_shapes drop_comments l) = true).
  { rewrite <- (C05_dom_agree z z' _ Ht). now apply C05_dom_drop. }
  destruct (render_lexes z' _ Hd2) as (t' & R2 & L2).
  exists t, t'. rewrite <- (doc_toks_agree z z' _ Ht), doc_toks_drop in L2.
  repeat split; auto using lexes_lex.
Qed.

(** run level: the two runs succeed together on the domain and give the same token stream *)
Theorem run_shexc_lex_disable_comments fa c (thr : F fa) g ns shapes :
  run_shapes fa (rwith_disable_comments false c) thr g = inl (ns, shapes) ->
  C05_dom (sercfg_of (rwith_disable_comments false c) ns) shapes = true ->
  exists t t', run_shexc fa (rwith_disable_comments false c) thr g = inl t /\
               run_shexc fa (rwith_disable_comments true c) thr g = inl t' /\
               lex t = lex t' /\ lex t <> None.
Proof.
  intros Hr Hd.
  destruct (lex_disable_comments (sercfg_of (rwith_disable_comments false c) ns)
              (sercfg_of (rwith_disable_comments true c) ns) shapes (conj eq_refl eq_refl) Hd)
    as (t & t' & R1 & R2 & L1 & L2).
  exists t, t'. unfold run_shexc. rewrite run_disable_comments, Hr. cbn [map_res on_shapes].
  fold (sercfg_of (rwith_disable_comments false c) ns). fold (sercfg_of (rwith_disable_comments true c) ns).
  rewrite R1, R2, L1, L2. repeat split; discriminate.
Qed.

Theorem run_shexc_lex_report_mode fa m c (thr : F fa) g ns shapes :
  run_shapes fa c thr g = inl (ns, shapes) -> C05_dom (sercfg_of c ns) shapes = true ->
  exists t1 t2, run_shexc fa (with_mode m c) thr g = inl t1 /\ run_shexc fa c thr g = inl t2 /\
                lex t1 = lex t2 /\ lex t1 <> None.
Proof.
  intros Hr Hd.
  destruct (lex_same_tokens (sercfg_of c ns) (sercfg_of (with_mode m c) ns) shapes (conj eq_refl eq_refl) Hd)
    as (t2 & t1 & R2 & R1 & L2 & L1).
  exists t1, t2. unfold run_shexc. rewrite O6_mode, Hr.
  fold (sercfg_of (with_mode m c) ns). fold (sercfg_of c ns).
  rewrite R1, R2, L1, L2. repeat split; discriminate.
Qed.

(** ** C: the namespaces dictionary.  Two documents rendered under two dictionaries spell IRIs
    differently ([<iri>] or [prefix:local]) and declare different prefixes.  [expand_text]
    works on the token stream of the Spec lexer: it drops the leading PREFIX directives and
    replaces every prefixed name by the IRI it denotes under the document's OWN declarations
    ([decls]).  After expansion the two documents are the same token stream. *)
Definition expand_tok (d : list (str * str)) (t : token) : token :=
  match t with
  | TPname p l => match lookup d p with Some n => TIri (n ++ l) | None => t end
  | _ => t
  end.

Fixpoint strip_directives (ts : list token) : list token :=
  match ts with
  | TPrefixKw :: _ :: _ :: r => strip_directives r
  | _ => ts
  end.

Definition expand_text (ts : list token) : list token :=
  map (expand_tok (decls ts)) (strip_directives ts).

(** the serialiser configuration with an empty dictionary: every IRI in full *)
Definition raw_z (z : sercfg) : sercfg :=
  {| z_ns := []; z_tau := z_tau z; z_disable_comments := z_disable_comments z; z_mode := z_mode z |}.

Lemma expand_iri_tok ns u : ns_ok ns = true -> expand_tok (map swap ns) (iri_tok ns u) = TIri u.
Proof.
  intros Hns. unfold iri_tok. destruct (best_ns ns u) as [[n p]|] eqn:E; [|reflexivity].
  destruct (WellFormedTokens.best_ns_spec _ _ _ _ E) as [Hin [Hu _]]. cbn [expand_tok].
  rewrite (lookup_swap ns n p (ns_ok_nodup ns Hns) Hin). now rewrite <- Hu.
Qed.

Lemma expand_type_toks ns t : ns_ok ns = true ->
  map (expand_tok (map swap ns)) (type_toks ns t) = type_toks [] t.
Proof.
  intros Hns. unfold type_toks. destruct (prefixb c_STARTING_CHAR_FOR_SHAPE_NAME t).
  - destruct (strip_label t) as [u|]; [|reflexivity]. cbn [map]. now rewrite (expand_iri_tok ns u Hns).
  - destruct (mem_str t kinds); [reflexivity|]. cbn [map]. now rewrite (expand_iri_tok ns t Hns).
Qed.

Lemma expand_target_toks z p t : ns_ok (z_ns z) = true ->
  map (expand_tok (map swap (z_ns z))) (target_toks z p t) = target_toks (raw_z z) p t.
Proof.
  intros Hns. unfold target_toks. cbn [raw_z z_tau z_ns].
  destruct (str_eqb p (z_tau z)).
  - cbn [map]. rewrite map_app, (expand_type_toks _ t Hns). reflexivity.
  - apply expand_type_toks, Hns.
Qed.

Lemma map_or_join (f : token -> token) (l : list (list token)) :
  f TOr = TOr -> map f (or_join l) = or_join (map (map f) l).
Proof.
  intros Hf. induction l as [|x l IH]; [reflexivity|]. destruct l as [|y l'].
  - reflexivity.
  - change (map (map f) (x :: y :: l')) with (map f x :: map f y :: map (map f) l').
    rewrite !or_join_cons2, !map_app. cbn [map]. rewrite Hf. do 2 f_equal. exact IH.
Qed.

Lemma expand_card_toks d c : map (expand_tok d) (card_toks c) = card_toks c.
Proof. destruct c as [k| | |]; try reflexivity. unfold card_toks. destruct (N.eqb k 1); reflexivity. Qed.

Lemma expand_stmt_toks z s b : ns_ok (z_ns z) = true ->
  map (expand_tok (map swap (z_ns z))) (stmt_toks z s b) = stmt_toks (raw_z z) s b.
Proof.
  intros Hns. unfold stmt_toks. rewrite !map_app, expand_card_toks. cbn [map].
  rewrite (expand_iri_tok _ (s_prop s) Hns). cbn [raw_z z_ns].
  f_equal; [destruct (s_inv s); reflexivity|]. f_equal. f_equal; [|f_equal; destruct b; reflexivity].
  destruct (s_choice s).
  - rewrite map_or_join by reflexivity. rewrite map_map. f_equal. apply map_ext. intros t.
    now apply expand_target_toks.
  - now apply expand_target_toks.
Qed.

Lemma expand_stmts_toks z l : ns_ok (z_ns z) = true ->
  map (expand_tok (map swap (z_ns z))) (stmts_toks z l) = stmts_toks (raw_z z) l.
Proof.
  intros Hns. induction l as [|s l IH]; [reflexivity|]. destruct l as [|s' l'].
  - now apply expand_stmt_toks.
  - rewrite !stmts_toks_cons2, map_app, IH. now rewrite (expand_stmt_toks z s false Hns).
Qed.

Lemma expand_label_tok ns name : ns_ok ns = true ->
  expand_tok (map swap ns) (label_tok ns name) = label_tok [] name.
Proof.
  intros Hns. unfold label_tok. destruct (strip_label name) as [u|]; [|reflexivity].
  now rewrite (expand_iri_tok ns u Hns).
Qed.

Lemma expand_shapes_toks z l : ns_ok (z_ns z) = true ->
  map (expand_tok (map swap (z_ns z))) (flat_map (shape_toks z) l) = flat_map (shape_toks (raw_z z)) l.
Proof.
  intros Hns. induction l as [|sh l IH]; [reflexivity|].
  cbn [flat_map]. rewrite map_app, IH. f_equal. unfold shape_toks. cbn [map].
  rewrite (expand_label_tok _ _ Hns), map_app, (expand_stmts_toks z _ Hns). reflexivity.
Qed.

Lemma label_tok_not_kw ns name : label_tok ns name <> TPrefixKw.
Proof.
  unfold label_tok, iri_tok. destruct (strip_label name) as [u|]; [|discriminate].
  destruct (best_ns ns u) as [[n p]|]; discriminate.
Qed.

Lemma strip_directives_head t r : t <> TPrefixKw -> strip_directives (t :: r) = t :: r.
Proof. intros H. destruct t; try reflexivity. congruence. Qed.

Lemma strip_directives_doc z l : strip_directives (doc_toks z l) = flat_map (shape_toks z) l.
Proof.
  unfold doc_toks, prefix_toks. induction (z_ns z) as [|[n p] ns IH].
  - cbn [flat_map app]. destruct l as [|sh l]; [reflexivity|]. cbn [flat_map].
    change (shape_toks z sh ++ flat_map (shape_toks z) l)
      with (label_tok (z_ns z) (sh_name sh) ::
            (TLBrace :: stmts_toks z (sh_stmts sh) ++ [TRBrace]) ++ flat_map (shape_toks z) l).
    apply strip_directives_head, label_tok_not_kw.
  - cbn [flat_map app fst snd strip_directives]. exact IH.
Qed.

Theorem expand_text_doc z l : ns_ok (z_ns z) = true ->
  expand_text (doc_toks z l) = flat_map (shape_toks (raw_z z)) l.
Proof.
  intros Hns. unfold expand_text. rewrite decls_doc, strip_directives_doc. now apply expand_shapes_toks.
Qed.

Lemma stmts_toks_erase z l : stmts_toks z (map erase_tokens l) = stmts_toks z l.
Proof.
  induction l as [|s l IH]; [reflexivity|]. destruct l as [|s' l']; [reflexivity|].
  change (map erase_tokens (s :: s' :: l')) with (erase_tokens s :: erase_tokens s' :: map erase_tokens l').
  rewrite !stmts_toks_cons2. change (erase_tokens s' :: map erase_tokens l') with (map erase_tokens (s' :: l')).
  now rewrite IH.
Qed.

Lemma shapes_toks_erase z l :
  flat_map (shape_toks z) (map_shapes erase_tokens l) = flat_map (shape_toks z) l.
Proof.
  induction l as [|sh l IH]; [reflexivity|]. unfold map_shapes in *. cbn [map flat_map]. rewrite IH. f_equal.
  unfold shape_toks. cbn [map_stmts sh_name sh_stmts]. now rewrite stmts_toks_erase.
Qed.

Lemma shapes_toks_agree z1 z2 l : same_tokens z1 z2 -> flat_map (shape_toks z1) l = flat_map (shape_toks z2) l.
Proof.
  intros H. pose proof H as [H1 H2]. induction l as [|sh l IH]; [reflexivity|].
  cbn [flat_map]. rewrite IH. f_equal. unfold shape_toks. now rewrite H1, (stmts_toks_agree z1 z2 _ H).
Qed.

(** two shape lists equal up to the token text frozen in comments, rendered under two
    dictionaries: after prefix expansion the two documents are the same token stream *)
Theorem lex_namespaces z1 z2 l1 l2 :
  z_tau z1 = z_tau z2 ->
  map_shapes erase_tokens l1 = map_shapes erase_tokens l2 ->
  C05_dom z1 l1 = true -> C05_dom z2 l2 = true ->
  exists t1 t2 ts1 ts2, render z1 l1 = Some t1 /\ render z2 l2 = Some t2 /\
                        lex t1 = Some ts1 /\ lex t2 = Some ts2 /\
                        expand_text ts1 = expand_text ts2.
Proof.
  intros Ht He D1 D2.
  destruct (render_lexes z1 l1 D1) as (t1 & R1 & L1).
  destruct (render_lexes z2 l2 D2) as (t2 & R2 & L2).
  exists t1, t2, (doc_toks z1 l1), (doc_toks z2 l2).
  repeat split; auto using lexes_lex.
  destruct (C05_dom_parts z1 l1 D1) as [N1 _]. destruct (C05_dom_parts z2 l2 D2) as [N2 _].
  rewrite (expand_text_doc z1 l1 N1), (expand_text_doc z2 l2 N2).
  rewrite <- (shapes_toks_erase (raw_z z1) l1), <- (shapes_toks_erase (raw_z z2) l2), He.
  apply shapes_toks_agree. split; [reflexivity | exact Ht].
Qed.

Lemma run_shapes_full_ns fa c thr g ns l : run_shapes fa c thr g = inl (ns, l) -> full_ns c = Some ns.
Proof.
  unfold run_shapes. destruct (full_ns c) as [ns0|]; [|discriminate].
  destruct (track _ _ _ g) as [ins|e]; [|discriminate].
  destruct (profile (pcfg_of c) ins g) as [[[P C] ID]|[|]]; try discriminate.
  destruct (shex fa _ thr P C); [|discriminate]. intros H. now inversion H.
Qed.

Theorem run_shexc_lex_namespaces fa ns' c (thr : F fa) g ns1 l1 ns2 l2 :
  run_shapes fa (with_rns ns' c) thr g = inl (ns1, l1) -> run_shapes fa c thr g = inl (ns2, l2) ->
  C05_dom (sercfg_of (with_rns ns' c) ns1) l1 = true -> C05_dom (sercfg_of c ns2) l2 = true ->
  exists t1 t2 ts1 ts2, run_shexc fa (with_rns ns' c) thr g = inl t1 /\ run_shexc fa c thr g = inl t2 /\
                        lex t1 = Some ts1 /\ lex t2 = Some ts2 /\
                        expand_text ts1 = expand_text ts2.
Proof.
  intros R1 R2 D1 D2.
  pose proof (O6_namespaces fa ns' c thr g ns1 ns2 (run_shapes_full_ns _ _ _ _ _ _ R1)
                            (run_shapes_full_ns _ _ _ _ _ _ R2)) as H.
  rewrite R1, R2 in H. cbn [res_rel fst snd] in H. destruct H as (_ & _ & He).
  destruct (lex_namespaces (sercfg_of (with_rns ns' c) ns1) (sercfg_of c ns2) l1 l2 eq_refl He D1 D2)
    as (t1 & t2 & ts1 & ts2 & X1 & X2 & L1 & L2 & E).
  exists t1, t2, ts1, ts2. unfold run_shexc. rewrite R1, R2.
  fold (sercfg_of (with_rns ns' c) ns1). fold (sercfg_of c ns2). rewrite X1, X2. auto.
Qed.
