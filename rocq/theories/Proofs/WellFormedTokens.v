(** * C05 -- string and dictionary lemmas behind W1 (functional prefix map)
    and W2 (shape of the tokens printed by [tune_token] / [prefixize_*]). *)
From Coq Require Import List Ascii String ZArith NArith Bool Arith Lia.
From Shexer Require Import Lib.PyStr Lib.Dict Gen.Consts Model.Tokens Model.Run.
Import ListNotations.

(** ** dictionaries *)
Lemma dset_snd_In {V} (d : dict V) k v x :
  In x (map snd (dset d k v)) -> x = v \/ In x (map snd d).
Proof.
  induction d as [|[k' v'] d IH]; cbn.
  - intros [H|[]]; auto.
  - destruct (str_eqb k k'); cbn.
    + intros [H|H]; auto.
    + intros [H|H]; auto. destruct (IH H); auto.
Qed.

Lemma dset_NoDup_snd {V} (d : dict V) k v :
  NoDup (map snd d) -> ~ In v (map snd d) -> NoDup (map snd (dset d k v)).
Proof.
  induction d as [|[k' v'] d IH]; cbn; intros Hnd Hv.
  - constructor; [intros []|constructor].
  - inversion Hnd as [|? ? Hn Hd]; subst. destruct (str_eqb k k'); cbn.
    + constructor; [tauto|exact Hd].
    + constructor.
      * intros H. apply dset_snd_In in H. destruct H as [->|H]; tauto.
      * apply IH; tauto.
Qed.

Lemma dset_keys_mem {V} (d : dict V) k v : dmem d k = true -> dkeys (dset d k v) = dkeys d.
Proof.
  unfold dmem, dkeys. induction d as [|[k' v'] d IH]; cbn; [discriminate|].
  destruct (str_eqb k k') eqn:E; cbn; [reflexivity|]. intros H. f_equal. apply IH, H.
Qed.

Lemma dset_keys_new {V} (d : dict V) k v : dmem d k = false -> dkeys (dset d k v) = dkeys d ++ [k].
Proof.
  unfold dmem, dkeys. induction d as [|[k' v'] d IH]; cbn; [reflexivity|].
  destruct (str_eqb k k') eqn:E; cbn; [discriminate|]. intros H. f_equal. apply IH, H.
Qed.

Lemma dget_dset_same {V} (d : dict V) k v : dget (dset d k v) k = Some v.
Proof.
  induction d as [|[k' v'] d IH]; cbn.
  - rewrite str_eqb_refl. reflexivity.
  - destruct (str_eqb k k') eqn:E; cbn; rewrite E; [reflexivity|exact IH].
Qed.

(** ** W1: the shapes prefix is fresh, the completed dictionary has pairwise
    distinct prefixes *)
Lemma shapes_prefix_fresh ns p :
  shapes_prefix ns = Some p -> In p c_PRIORITY_PREFIXES_FOR_SHAPES /\ ~ In p (map snd ns).
Proof.
  unfold shapes_prefix. intros H. apply find_some in H. destruct H as [Hin Hn]. split; [exact Hin|].
  intros Hc. apply mem_str_In in Hc. rewrite Hc in Hn. discriminate.
Qed.

Lemma shapes_prefix_none ns :
  shapes_prefix ns = None <-> (forall p, In p c_PRIORITY_PREFIXES_FOR_SHAPES -> In p (map snd ns)).
Proof.
  unfold shapes_prefix. split.
  - intros H p Hp. pose proof (find_none _ _ H p Hp) as Hn. cbn in Hn.
    apply negb_false_iff in Hn. apply mem_str_In. exact Hn.
  - intros H. destruct (List.find _ _) eqn:E; [|reflexivity].
    apply find_some in E. destruct E as [Hin Hn]. apply H, mem_str_In in Hin. rewrite Hin in Hn. discriminate.
Qed.

Lemma full_ns_functional c ns :
  full_ns c = Some ns -> NoDup (map snd (r_ns c)) -> NoDup (map snd ns).
Proof.
  unfold full_ns. destruct (shapes_prefix (r_ns c)) as [p|] eqn:E; [|discriminate].
  intros H; inversion H; subst. intros Hnd. apply shapes_prefix_fresh in E. apply dset_NoDup_snd; tauto.
Qed.

(** the user's dictionary already names the shapes namespace: the assignment
    overwrites the user's prefix (it is no longer declared), the namespaces
    stay the same, the prefixes stay pairwise distinct *)
Lemma full_ns_overwrites c ns q :
  dget (r_ns c) (r_shapes_ns c) = Some q -> full_ns c = Some ns ->
  exists p, shapes_prefix (r_ns c) = Some p /\ p <> q /\ dget ns (r_shapes_ns c) = Some p /\
            dkeys ns = dkeys (r_ns c).
Proof.
  unfold full_ns. intros Hq. destruct (shapes_prefix (r_ns c)) as [p|] eqn:E; [|discriminate].
  intros H; inversion H; subst. exists p. split; [reflexivity|]. split; [|split].
  - intros ->. apply shapes_prefix_fresh in E. destruct E as [_ E]. apply E.
    clear - Hq. induction (r_ns c) as [|[k v] d IH]; cbn in *; [discriminate|].
    destruct (str_eqb (r_shapes_ns c) k); [inversion Hq; auto|auto].
  - apply dget_dset_same.
  - apply dset_keys_mem. unfold dmem. rewrite Hq. reflexivity.
Qed.

(** ** prefixes, [skipn], [find_nat] *)
Lemma prefixb_skipn n u : prefixb n u = true -> u = n ++ skipn (List.length n) u.
Proof.
  intros H. apply prefixb_spec in H. destruct H as [r ->]. f_equal.
  induction n; cbn; auto.
Qed.

Lemma prefixb_forallb (P : ascii -> bool) n s :
  prefixb n s = true -> forallb P s = true -> forallb P n = true.
Proof.
  intros H. apply prefixb_spec in H. destruct H as [r ->]. rewrite forallb_app. intros H.
  apply andb_true_iff in H. tauto.
Qed.

Lemma find_nat_none_cons p c s :
  find_nat p (c :: s) = None <-> prefixb p (c :: s) = false /\ find_nat p s = None.
Proof.
  cbn [find_nat]. destruct (prefixb p (c :: s)).
  - split; [discriminate|intros [H _]; discriminate].
  - destruct (find_nat p s); split; try discriminate; try tauto. intros [_ H]; discriminate.
Qed.

(** a pattern holding a character outside a class never occurs in a string of that class *)
Lemma find_nat_class (P : ascii -> bool) n s :
  forallb P s = true -> existsb (fun c => negb (P c)) n = true -> find_nat n s = None.
Proof.
  intros Hs Hn.
  assert (Hno : forall t, forallb P t = true -> prefixb n t = false).
  { intros t Ht. destruct (prefixb n t) eqn:E; [|reflexivity].
    pose proof (prefixb_forallb P _ _ E Ht) as Hall. exfalso.
    apply existsb_exists in Hn. destruct Hn as [x [Hx Hpx]].
    rewrite forallb_forall in Hall. rewrite (Hall x Hx) in Hpx. discriminate. }
  induction s as [|c s IH].
  - cbn. rewrite (Hno [] eq_refl). reflexivity.
  - apply find_nat_none_cons. split; [apply Hno, Hs|].
    apply IH. cbn in Hs. apply andb_true_iff in Hs. tauto.
Qed.

Definition not_char (x : ascii) : ascii -> bool := fun c => negb (Ascii.eqb c x).

Lemma contains_single_false x s : contains [x] s = false <-> forallb (not_char x) s = true.
Proof.
  unfold contains. induction s as [|c s IH].
  - cbn. split; reflexivity.
  - cbn [find_nat forallb prefixb]. unfold not_char at 1. rewrite (Ascii.eqb_sym c x).
    destruct (Ascii.eqb x c); cbn.
    + split; discriminate.
    + destruct (find_nat [x] s); cbn in *; [split; [discriminate|]|tauto].
      intros H. apply IH in H. discriminate.
Qed.

(** ** [replace_all] *)
Lemma skipn_length_le {A} k (s : list A) : (List.length (skipn k s) <= List.length s)%nat.
Proof. rewrite skipn_length. lia. Qed.

Lemma replace_all_fuel_indep a b : forall f1 f2 s,
  (List.length s < f1)%nat -> (List.length s < f2)%nat -> replace_all_fuel f1 a b s = replace_all_fuel f2 a b s.
Proof.
  induction f1 as [|f1 IH]; intros f2 s H1 H2; [lia|].
  destruct f2 as [|f2]; [lia|]. cbn [replace_all_fuel].
  destruct s as [|c s]; [reflexivity|].
  destruct (prefixb a (c :: s)) eqn:E.
  - destruct a as [|x a]; [reflexivity|]. f_equal. cbn [List.length skipn].
    cbn in H1, H2. pose proof (skipn_length_le (List.length a) s). apply IH; lia.
  - f_equal. cbn in H1, H2. apply IH; lia.
Qed.

Lemma replace_all_fuel_S f a b c s :
  replace_all_fuel (S f) a b (c :: s) =
  if prefixb a (c :: s)
  then match a with [] => c :: s | _ => b ++ replace_all_fuel f a b (skipn (List.length a) (c :: s)) end
  else c :: replace_all_fuel f a b s.
Proof. reflexivity. Qed.

Lemma replace_all_prefix a b s :
  a <> [] -> prefixb a s = true -> replace_all a b s = b ++ replace_all a b (skipn (List.length a) s).
Proof.
  intros Ha Hp. unfold replace_all. destruct s as [|c s].
  - destruct a; [congruence|discriminate].
  - rewrite (replace_all_fuel_S (List.length (c :: s))). rewrite Hp. destruct a as [|x a]; [congruence|]. f_equal.
    pose proof (skipn_length_le (List.length (x :: a)) (c :: s)) as Hl.
    apply replace_all_fuel_indep; [|lia].
    cbn [List.length skipn] in *. pose proof (skipn_length_le (List.length a) s). lia.
Qed.

Lemma replace_all_fuel_absent a b : forall f s, find_nat a s = None -> replace_all_fuel f a b s = s.
Proof.
  induction f as [|f IH]; intros s H; [reflexivity|]. cbn [replace_all_fuel].
  destruct s as [|c s]; [reflexivity|]. apply find_nat_none_cons in H. destruct H as [H1 H2].
  rewrite H1. f_equal. apply IH, H2.
Qed.

Lemma replace_all_absent a b s : find_nat a s = None -> replace_all a b s = s.
Proof. apply replace_all_fuel_absent. Qed.

Lemma forallb_skipn {A} (P : A -> bool) k s : forallb P s = true -> forallb P (skipn k s) = true.
Proof.
  revert s; induction k; intros s H; [exact H|]. destruct s; [reflexivity|]. cbn in *.
  apply andb_true_iff in H. apply IHk. tauto.
Qed.

Lemma replace_all_fuel_class (P : ascii -> bool) a b : forall f s,
  forallb P s = true -> forallb P b = true -> forallb P (replace_all_fuel f a b s) = true.
Proof.
  induction f as [|f IH]; intros s Hs Hb; [exact Hs|]. cbn [replace_all_fuel].
  destruct s as [|c s]; [reflexivity|]. destruct (prefixb a (c :: s)).
  - destruct a as [|x a]; [exact Hs|]. rewrite forallb_app, Hb. cbn [andb].
    apply IH; [apply forallb_skipn, Hs|exact Hb].
  - cbn in *. apply andb_true_iff in Hs. destruct Hs as [-> Hs]. cbn. apply IH; assumption.
Qed.

Lemma replace_all_class (P : ascii -> bool) a b s :
  forallb P s = true -> forallb P b = true -> forallb P (replace_all a b s) = true.
Proof. apply replace_all_fuel_class. Qed.

(** ** [best_ns] and the prefixed form *)
Lemma best_ns_spec ns u n p :
  best_ns ns u = Some (n, p) ->
  In (n, p) ns /\ u = n ++ skipn (List.length n) u /\
  forallb (not_char "/"%char) (skipn (List.length n) u) = true /\
  forallb (not_char "#"%char) (skipn (List.length n) u) = true.
Proof.
  induction ns as [|[n' p'] ns IH]; cbn [best_ns]; [discriminate|].
  change (Str "/") with ["/"%char]. change (Str "#") with ["#"%char].
  destruct (prefixb n' u) eqn:Ep; cbn [andb].
  - destruct (contains ["/"%char] (skipn (List.length n') u)) eqn:E1; cbn [andb negb].
    + intros H. destruct (IH H) as [H1 H2]. split; [right; exact H1|exact H2].
    + destruct (contains ["#"%char] (skipn (List.length n') u)) eqn:E2; cbn [andb negb].
      * intros H. destruct (IH H) as [H1 H2]. split; [right; exact H1|exact H2].
      * intros H; inversion H; subst. split; [left; reflexivity|]. split; [apply prefixb_skipn, Ep|].
        split; apply contains_single_false; assumption.
  - intros H. destruct (IH H) as [H1 H2]. split; [right; exact H1|exact H2].
Qed.

(** the text printed for an IRI that has a namespace in the dictionary:
    [p:local]; [local] is the remainder of the IRI with further occurrences of
    the namespace replaced too (Python's [str.replace] replaces them all) *)
Definition prefixed (ns : nsdict) (u s : str) : Prop :=
  exists n p rest, In (n, p) ns /\ u = n ++ rest /\
    forallb (not_char "/"%char) rest = true /\ forallb (not_char "#"%char) rest = true /\
    s = p ++ Str ":" ++ replace_all n (p ++ Str ":") rest.

Definition keys_nonempty (ns : nsdict) : Prop := forall n p, In (n, p) ns -> n <> [].

Lemma best_ns_prefixed ns u n p :
  keys_nonempty ns -> best_ns ns u = Some (n, p) -> prefixed ns u (py_replace n (p ++ Str ":") u).
Proof.
  intros Hk H. apply best_ns_spec in H. destruct H as [Hin [Hu [H1 H2]]].
  exists n, p, (skipn (List.length n) u). repeat split; try assumption.
  unfold py_replace. rewrite replace_all_prefix.
  - rewrite <- app_assoc. reflexivity.
  - apply (Hk n p Hin).
  - apply prefixb_spec. eexists. exact Hu.
Qed.

Lemma prefixize_opt_spec ns u s :
  keys_nonempty ns -> prefixize_opt ns u = Some s -> prefixed ns u s.
Proof.
  unfold prefixize_opt. intros Hk. destruct (best_ns ns u) as [[n p]|] eqn:E; [|discriminate].
  intros H; inversion H; subst. apply best_ns_prefixed; assumption.
Qed.

(** the local part holds no '/' and no '#' when the prefix holds none *)
Lemma prefixed_local_clean ns u s :
  prefixed ns u s ->
  exists p local, In p (map snd ns) /\ s = p ++ Str ":" ++ local /\
    (forallb (not_char "/"%char) p = true -> forallb (not_char "/"%char) local = true) /\
    (forallb (not_char "#"%char) p = true -> forallb (not_char "#"%char) local = true).
Proof.
  intros (n & p & rest & Hin & Hu & H1 & H2 & ->). exists p, (replace_all n (p ++ Str ":") rest).
  split; [apply in_map_iff; exists (n, p); auto|]. split; [reflexivity|].
  split; intros Hp; apply replace_all_class; try assumption; rewrite forallb_app, Hp; reflexivity.
Qed.

(** with a namespace that holds a character outside the class of the local
    names, the local part is the remainder itself *)
Lemma prefixed_plain (P : ascii -> bool) ns u s :
  (forall n p, In (n, p) ns -> existsb (fun c => negb (P c)) n = true) ->
  prefixed ns u s ->
  (forall n p, In (n, p) ns -> u = n ++ skipn (List.length n) u -> forallb P (skipn (List.length n) u) = true) ->
  exists n p rest, In (n, p) ns /\ u = n ++ rest /\ forallb P rest = true /\ s = p ++ Str ":" ++ rest.
Proof.
  intros Hns (n & p & rest & Hin & Hu & H1 & H2 & ->) Hloc.
  assert (Hr : skipn (List.length n) u = rest).
  { rewrite Hu. clear. induction n; cbn; auto. }
  specialize (Hloc n p Hin). rewrite Hr in Hloc. specialize (Hloc Hu).
  exists n, p, rest. repeat split; try assumption.
  rewrite replace_all_absent; [reflexivity|]. eapply find_nat_class; [exact Hloc|]. eapply Hns, Hin.
Qed.

(** ** [remove_corners], [prefixize_cornered], [prefixize_shape_name] *)
Lemma slice_corners u : slice (Str "<" ++ u ++ Str ">") 1 (-1) = u.
Proof.
  unfold slice, len, norm_idx. cbn [Str list_ascii_of_string app].
  cbn [List.length]. rewrite app_length. cbn [List.length].
  replace (1 <? 0)%Z with false by reflexivity. replace (-1 <? 0)%Z with true by reflexivity.
  set (k := List.length u).
  replace (Z.min 1 (Z.of_nat (S (k + 1)))) with 1%Z by lia.
  replace (Z.max 0 (Z.of_nat (S (k + 1)) + -1)) with (Z.of_nat (S k)) by lia.
  replace (Z.to_nat (Z.of_nat (S k) - 1)) with k by lia.
  change (Z.to_nat 1) with 1%nat. cbn [skipn].
  subst k. rewrite firstn_app, Nat.sub_diag, firstn_all. cbn. apply app_nil_r.
Qed.

Lemma suffixb_corner u : suffixb (Str ">") (u ++ Str ">") = true.
Proof. unfold suffixb. rewrite rev_app_distr. cbn. reflexivity. Qed.

Lemma remove_corners_strict_ok u : remove_corners_strict (Str "<" ++ u ++ Str ">") = Some u.
Proof.
  unfold remove_corners_strict.
  replace (prefixb (Str "<") (Str "<" ++ u ++ Str ">")) with true by reflexivity.
  change (Str "<" ++ u ++ Str ">") with ("<"%char :: (u ++ Str ">")) at 1.
  assert (H : suffixb (Str ">") ("<"%char :: u ++ Str ">") = true).
  { change ("<"%char :: u ++ Str ">") with (("<"%char :: u) ++ Str ">"). apply suffixb_corner. }
  rewrite H. cbn [andb]. rewrite slice_corners. reflexivity.
Qed.

(** the text printed for a cornered IRI [<u>]: itself, or its prefixed form *)
Lemma prefixize_cornered_spec ns u :
  keys_nonempty ns ->
  exists s, prefixize_cornered ns (Str "<" ++ u ++ Str ">") = Some s /\
    ((best_ns ns u = None /\ s = Str "<" ++ u ++ Str ">") \/ ((exists np, best_ns ns u = Some np) /\ prefixed ns u s)).
Proof.
  intros Hk. unfold prefixize_cornered. rewrite remove_corners_strict_ok.
  destruct (best_ns ns u) as [[n p]|] eqn:E.
  - eexists; split; [reflexivity|]. right. split; [eauto|]. apply best_ns_prefixed; assumption.
  - eexists; split; [reflexivity|]. left. auto.
Qed.

Lemma slice_from_1 c s : slice_from (c :: s) 1 = s.
Proof.
  unfold slice_from, norm_idx, len. cbn [List.length]. replace (1 <? 0)%Z with false by reflexivity.
  replace (Z.min 1 (Z.of_nat (S (List.length s)))) with 1%Z by lia. reflexivity.
Qed.

Lemma prefixize_shape_name_spec ns u :
  keys_nonempty ns ->
  exists s, prefixize_shape_name ns (c_STARTING_CHAR_FOR_SHAPE_NAME ++ Str "<" ++ u ++ Str ">") = Some s /\
    ((best_ns ns u = None /\ s = Str "<" ++ u ++ Str ">") \/ ((exists np, best_ns ns u = Some np) /\ prefixed ns u s)).
Proof.
  intros Hk. unfold prefixize_shape_name.
  change (c_STARTING_CHAR_FOR_SHAPE_NAME ++ Str "<" ++ u ++ Str ">") with ("%"%char :: (Str "<" ++ u ++ Str ">")).
  rewrite slice_from_1. apply prefixize_cornered_spec, Hk.
Qed.

(** ** W2: the shape of every token [tune_token] prints *)
Inductive token_form (ns : nsdict) : str -> Prop :=
| TF_iri u : token_form ns (Str "<" ++ u ++ Str ">")
| TF_kind k : In k [c_IRI_ELEM_TYPE; c_BNODE_ELEM_TYPE; c_NONLITERAL_ELEM_TYPE] -> token_form ns k
| TF_pname u s : prefixed ns u s -> token_form ns s
| TF_ref s : token_form ns s -> token_form ns (c_SHAPE_LINK_CHAR ++ s).

Theorem tune_token_form ns tok s :
  keys_nonempty ns -> tune_token ns tok = Some s ->
  (* shape labels have the form %<iri> (what [shape_name] builds for class IRIs) *)
  (prefixb c_STARTING_CHAR_FOR_SHAPE_NAME tok = true ->
   exists u, tok = c_STARTING_CHAR_FOR_SHAPE_NAME ++ Str "<" ++ u ++ Str ">") ->
  (* an IRI holds a ':' and no '<' *)
  (prefixb c_STARTING_CHAR_FOR_SHAPE_NAME tok = false ->
   mem_str tok [c_IRI_ELEM_TYPE; c_BNODE_ELEM_TYPE; c_NONLITERAL_ELEM_TYPE] = false ->
   contains (Str ":") tok = true) ->
  token_form ns s.
Proof.
  intros Hk. unfold tune_token. destruct (prefixb c_STARTING_CHAR_FOR_SHAPE_NAME tok) eqn:E1.
  - intros H Hs _. destruct (Hs eq_refl) as [u ->].
    destruct (prefixize_shape_name_spec ns u Hk) as [s' [Hs' Hf]]. rewrite Hs' in H. inversion H; subst.
    apply TF_ref. destruct Hf as [[_ ->]|[_ Hp]]; [apply TF_iri|eapply TF_pname, Hp].
  - destruct (mem_str tok _) eqn:E2.
    + intros H _ _. inversion H; subst. apply TF_kind. apply mem_str_In. exact E2.
    + intros H _ Hc. rewrite (Hc eq_refl eq_refl) in H. cbn [negb] in H.
      destruct (prefixize_opt ns tok) as [s'|] eqn:E3; inversion H; subst.
      * eapply TF_pname. apply prefixize_opt_spec; eassumption.
      * apply TF_iri.
Qed.
